#!/usr/bin/env python3
"""Reads the output of `run_check.sh all quick` and prints, per property that fired, the rules: 'C01(C01.pair ) C06(...)'."""
import re, sys
fired = {}
last = None
for line in open(sys.argv[1], errors='replace'):
    m = re.match(r'\s+\S+: \[([A-Za-z0-9.\-]+)\]', line)
    if m:
        last = m.group(1)
        continue
    if line.startswith('CHECK-FAILURE'):
        last = 'CHECK-FAILURE'
        continue
    m = re.match(r'VIOLATION property=(\S+)', line)
    if m:
        fired.setdefault(m.group(1), [])
        if last and last not in fired[m.group(1)]:
            fired[m.group(1)].append(last)
        last = None
    m = re.match(r'ERROR', line)
    if m:
        fired.setdefault('ERROR', []).append(line.strip()[:80])
print(' '.join(f"{p}({' '.join(sorted(r))} )" for p, r in sorted(fired.items())))
