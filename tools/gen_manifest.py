#!/usr/bin/env python3
"""Generate MANIFEST.json from checks.json (the per-property claim texts) so the
manifest is always schema-valid. Run: tools/gen_manifest.py"""
import json, os
here = os.path.dirname(os.path.abspath(__file__))
root = os.path.dirname(here)
claims = json.load(open(os.path.join(root, 'checks.json')))
props = [json.loads(l)['id'] for l in open(os.path.join(root, 'properties.jsonl'))]
baseline = json.load(open('/root/.vp/BASELINE.json'))['cmd']
checks, na = [], []
for pid in props:
    c = claims.get(pid)
    if not c or not c.get('claimed'):
        na.append({"property_id": pid, "reason": (c or {}).get('reason', 'static rules for this property are not implemented yet; see DESIGN.md')})
        continue
    checks.append({
        "property_id": pid,
        "quick_cmd": f"./run_check.sh {pid} quick",
        "thorough_cmd": f"./run_check.sh {pid} thorough",
        "evidence_file": f"/verif/evidence/{pid}.json",
        "replay_cmd_template": "./run_explain.sh {path}",
        "engine": "bbverif",
        "level_claimed": {"category": c['level'], "text": c['text'], "design_ref": c.get('design_ref', f"DESIGN.md §5 {pid}")},
        "level_note": c['note'],
        "technique": c['technique'],
    })
m = {
    "version": 1,
    "setup_cmd": "./setup.sh",
    "hooks": {"guard": "verif", "enable": "none needed: the checks are static analyses of /repo's working tree; no hook or instrumentation is compiled in", "baseline_off_cmd": baseline, "source_commits": [], "add_only": True},
    "engines": [{"name": "bbverif", "path": "/verif/sa", "serves_properties": [c['property_id'] for c in checks], "kind_free_text": "repository-specific static analyser (go/packages + go/types + go/cfg + go/ssa, x/tools v0.50.0, go1.26.8): path-sensitive lock typestate with inferred summaries, must-discharge obligations, SSA value-identity queries, decision tables of pure predicates, call-graph reachability"}],
    "checks": checks,
    "notes": "All checks are static: they load and type-check /repo's current working tree on every run and execute nothing from it. See DESIGN.md.",
    "not_applicable": na,
}
json.dump(m, open(os.path.join(root, 'MANIFEST.json'), 'w'), indent=1)
print(f"{len(checks)} claimed, {len(na)} not applicable")
