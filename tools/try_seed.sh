#!/bin/bash
# usage: try_seed.sh <seed-id> [tier] [properties...]  — applies the seeded change to /repo, runs the checks, reverts.
id=$1; tier=${2:-quick}; shift; shift
d=/verif/seeded/$id
props=${*:-$(python3 -c "import json;print(json.load(open('$d/meta.json'))['property'])")}
git -C /repo apply $d/patch.diff || { echo "patch does not apply"; exit 2; }
scratch=$(mktemp -d /tmp/tryseed.XXXX)
trap 'git -C /repo checkout -q -- .; rm -rf $scratch' EXIT
for p in $props; do
  out=$(cd /verif && VERIF_OUT=$scratch ./run_check.sh $p $tier 2>&1); rc=$?
  echo "== $id vs $p ($tier): exit=$rc"; echo "$out" | grep -E "^(VIOLATION|CHECK-FAILURE|KNOWN|ERROR|  pkg)" | head -12
done
