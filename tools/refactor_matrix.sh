#!/bin/bash
# Applies every stored behaviour-preserving refactoring to /repo in turn and runs all quick checks
# against it (scratch output). ANY firing is a false alarm of the checker. Writes refactors/MATRIX.md.
set -u
cd /verif
out=$(mktemp -d /var/tmp/bbverif-refac.XXXXXX); trap 'rm -rf "$out"; git -C /repo checkout -q -- .' EXIT
cp known_findings.json $out/
props=$(python3 -c "import json;print(' '.join(c['property_id'] for c in json.load(open('MANIFEST.json'))['checks']))")
echo "| refactoring | applies | checks that fired (false alarms) |" > refactors/MATRIX.md; echo "|---|---|---|" >> refactors/MATRIX.md
for f in refactors/*/refactor*.diff; do
  id=$(echo $f | sed 's|refactors/||; s|/refactor|-|; s|.diff||')
  [ -n "${1:-}" ] && [[ "$id" != "$1" && "$id" != "$1"-* ]] && continue
  git -C /repo checkout -q -- .
  if ! git -C /repo apply /verif/$f 2>/dev/null; then echo "| $id | NO | - |" >> refactors/MATRIX.md; echo "$id: does not apply"; continue; fi
  VERIF_OUT=$out ./run_check.sh all quick > $out/$id.log 2>&1
  det=$(tools/parse_all.py $out/$id.log); [ -n "$det" ] && det=" $det"
  [ -n "${1:-}" ] && grep -E "^  pkg|^  -|CHECK-FAILURE" $out/$id.log | head -8
  git -C /repo checkout -q -- .
  echo "$id: ${det:-silent}"
  echo "| $id | yes | ${det:-none} |" >> refactors/MATRIX.md
done
