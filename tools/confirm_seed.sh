#!/bin/bash
# usage: confirm_seed.sh <property> <n> <seed-id> ["needs" text]
# Confirms, in the scratch worktree /tmp/wt/<property>, that change<n>.diff (a) applies, (b) still
# builds, (c) keeps the baseline tests passing, (d) makes demo<n> fail, and (e) demo<n> passes
# without it. On success stores it under /verif/seeded/<seed-id>/.
set -u
prop=$1; n=$2; id=$3; needs=${4:-}
wt=/tmp/wt/$prop; demo=/tmp/wt/$prop-demo
export PATH=/opt/veriftools/go1.26.8/bin:$PATH GOFLAGS=-mod=mod GOPROXY=off GOSUMDB=off GOTOOLCHAIN=local; unset GOWORK
git -C $wt checkout -q -- . || exit 1
cd $demo || exit 1
run_demo() { (cd $demo && timeout 300 go test -count=1 -run "TestDemo${n}([^0-9]|\$)" . >/tmp/wt/demo_$id.log 2>&1); }
run_demo; base=$?
git -C $wt apply $demo/change$n.diff || { echo "APPLY FAILED"; exit 1; }
(cd $wt && go build ./pkg/... ./cmd/bb_worker ./cmd/bb_scheduler ./cmd/bb_runner) >/tmp/wt/build_$id.log 2>&1; build=$?
(cd $wt && go test -vet=off -count=1 ./pkg/filesystem/access/... ./pkg/scheduler/invocation/... ./pkg/scheduler/platform/...) >/tmp/wt/tests_$id.log 2>&1; tests=$?
run_demo; mut=$?
git -C $wt checkout -q -- .
echo "demo-without-change exit=$base  build=$build  baseline-tests=$tests  demo-with-change exit=$mut"
if [ $base -eq 0 ] && [ $build -eq 0 ] && [ $tests -eq 0 ] && [ $mut -ne 0 ]; then
  d=/verif/seeded/$id; mkdir -p $d
  cp $demo/change$n.diff $d/patch.diff
  cp $demo/demo${n}_test.go $d/
  for f in $demo/*_test.go; do case $(basename $f) in demo[0-9]*_test.go) ;; *) cp $f $d/;; esac; done
  cp $demo/NOTES.md $d/NOTES.agent.md 2>/dev/null
  python3 - "$prop" "$id" "$n" "$needs" <<'PY'
import json,sys
prop,id,n,needs=sys.argv[1:5]
json.dump({"id":id,"property":prop,"breaks":prop,"needs_to_manifest":needs,
 "origin":"fresh sub-agent given only the property text and a scratch worktree",
 "confirmed":{"applies":True,"builds":True,"baseline_tests_pass":True,f"demo{n}_fails_with_change":True,f"demo{n}_passes_without":True},
 "ran":["git apply patch.diff (scratch worktree)","go build ./pkg/... ./cmd/bb_worker ./cmd/bb_scheduler ./cmd/bb_runner","go test -vet=off ./pkg/filesystem/access/... ./pkg/scheduler/invocation/... ./pkg/scheduler/platform/...",f"go test -run TestDemo{n} . (throw-away module with replace => worktree)"],
 "detected_by":[]}, open(f"/verif/seeded/{id}/meta.json","w"), indent=1)
PY
  echo "KEPT $id"
else
  echo "REJECTED $id"; tail -5 /tmp/wt/demo_$id.log
fi
