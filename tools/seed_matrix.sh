#!/bin/bash
# Applies every seeded change to /repo in turn, runs all 20 quick checks against it (output to a
# scratch directory, never to /verif/evidence), reverts, and records which checks fired in
# seeded/<id>/meta.json ("detected_by") and seeded/MATRIX.md.
set -u
cd /verif
out=$(mktemp -d /var/tmp/bbverif-seeds.XXXXXX); trap 'rm -rf "$out"; git -C /repo checkout -q -- .' EXIT
cp known_findings.json $out/
props=$(python3 -c "import json;print(' '.join(c['property_id'] for c in json.load(open('MANIFEST.json'))['checks']))")
echo "| seed | breaks | applies | detected by |" > seeded/MATRIX.md; echo "|---|---|---|---|" >> seeded/MATRIX.md
for d in seeded/*/; do
  id=$(basename $d); [ -f $d/patch.diff ] || continue
  own=$(python3 -c "import json;print(json.load(open('$d/meta.json'))['property'])")
  git -C /repo checkout -q -- .
  if ! git -C /repo apply /verif/$d/patch.diff 2>/dev/null; then
     echo "| $id | $own | NO (conflicts with a fix commit) | - |" >> seeded/MATRIX.md; echo "$id: does not apply"; continue
  fi
  VERIF_OUT=$out ./run_check.sh all quick > $out/$id.log 2>&1
  det=$(tools/parse_all.py $out/$id.log); [ -n "$det" ] && det=" $det"
  git -C /repo checkout -q -- .
  echo "$id: $det"
  echo "| $id | $own | yes | ${det:-**none**} |" >> seeded/MATRIX.md
  python3 - "$d/meta.json" "$det" <<'PY'
import json,sys
m=json.load(open(sys.argv[1])); m['detected_by']=sys.argv[2].split(); json.dump(m,open(sys.argv[1],'w'),indent=1)
PY
done
