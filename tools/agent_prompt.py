#!/usr/bin/env python3
"""Print the prompt handed to a fresh sub-agent that must seed a property-breaking
change (used only while developing the checks; not part of any registered check)."""
import json, sys
pid = sys.argv[1]
for l in open('/verif/properties.jsonl'):
    p = json.loads(l)
    if p['id'] == pid:
        break
else:
    sys.exit('no such property')
wt = f'/tmp/wt/{pid}'
try:
    r1 = json.load(open('/tmp/wt/round1.json'))
except Exception:
    r1 = {}
prior = [v for k, v in sorted(r1.items()) if k.startswith(pid + '-')]
prior_txt = ""
if prior:
    prior_txt = "\n\nALREADY DONE by someone else (do NOT repeat these or close variants of them; pick other functions / other clauses of the property):\n" + "\n".join("  - a change in " + p for p in prior) + "\n"

print(f"""You are helping to evaluate a verification effort for the Go repository buildbarn/bb-remote-execution (Buildbarn remote-execution scheduler, worker, runner, virtual file system). You have your own scratch git worktree of it at {wt} (work ONLY there and in a scratch directory {wt}-demo; never touch /repo or /verif, and do not read anything under /verif).

The property the code is supposed to satisfy:

  Title: {p['title']}
  Statement: {p['statement']}
  Quantified: {p['quantifier']['text']}
  Source files involved: {', '.join(p['anchors']['files'])}

{prior_txt}
YOUR TASK: produce TWO independent, different, realistic changes (bugs) to the repository's non-test Go source, each of which BREAKS the property above while the repository still compiles (`go build ./pkg/... ./cmd/...` as far as it compiled before) and the currently passing tests still pass. Each change should look like a plausible mistake or over-eager "simplification"/refactoring a developer could make (1-15 changed lines, in the non-test source files), and should NOT be exposed immediately by ordinary use: it should need something specific to manifest - a particular interleaving, a fault/crash/error at a particular point, a multi-step sequence of operations, an unusual input, or two cooperating sites that each look fine alone. Make the two changes different in kind and in different functions (ideally touching different clauses of the property). Do not add comments that point out the bug.

For each change also write a demonstration: a Go test (or small program) that FAILS with the change applied and PASSES on the unchanged worktree. NOTE: most of the repository's own *_test.go files do not compile in this sandbox (generated mocks are missing), so put the demonstration in a separate throw-away Go module that imports the repository's packages through their exported API, using hand-written fakes instead of mocks. Recipe (offline sandbox, no network):

  export PATH=/opt/veriftools/go1.26.8/bin:$PATH GOFLAGS=-mod=mod GOPROXY=off GOSUMDB=off GOTOOLCHAIN=local; unset GOWORK
  mkdir -p {wt}-demo && cd {wt}-demo
  sed 's#^module .*#module demo#' {wt}/go.mod > go.mod
  printf '\\nrequire github.com/buildbarn/bb-remote-execution v0.0.0\\n\\nreplace github.com/buildbarn/bb-remote-execution => {wt}\\n' >> go.mod
  cp {wt}/go.sum go.sum
  # write demoN_test.go (package demo) then:  go test -count=1 -run TestDemoN -v .

If a demonstration needs a specific interleaving, make it deterministic (channels/fake clocks/blocking fakes), with a timeout so a deadlock shows up as a test failure rather than a hang. The tests that pass today can be run with: cd {wt} && go test -vet=off -count=1 ./pkg/filesystem/access/... ./pkg/scheduler/invocation/... ./pkg/scheduler/platform/...  (and `go build ./pkg/... ./cmd/bb_worker ./cmd/bb_scheduler ./cmd/bb_runner` must keep succeeding; `go vet` cleanliness is not required).

Deliverables, written into {wt}-demo/: change1.diff and change2.diff (each produced with `git -C {wt} diff` with ONLY that change applied, relative to the unchanged HEAD), demo1_test.go and demo2_test.go (plus go.mod/go.sum), and NOTES.md saying for each change: what it breaks (which sentence of the property), what it needs in order to manifest, and the exact commands you ran with their observed outcome (fails with change / passes without). Before finishing, leave the worktree {wt} with NO change applied (git -C {wt} checkout -- . ) and verify both diffs apply cleanly on their own (`git -C {wt} apply --check`). Be economical: read only what you need. Your final message should be a short summary (paths of the files, one line per change).""")
