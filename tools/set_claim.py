#!/usr/bin/env python3
"""usage: set_claim.py <id> <level> <technique> <text> <note>  — updates checks.json and regenerates MANIFEST.json"""
import json, sys, subprocess, os
root = os.path.dirname(os.path.dirname(os.path.abspath(__file__)))
pid, level, technique, text, note = sys.argv[1:6]
p = os.path.join(root, 'checks.json')
c = json.load(open(p))
c[pid] = {"claimed": True, "level": level, "technique": technique, "text": text, "note": note}
json.dump(c, open(p, 'w'), indent=1, sort_keys=True)
subprocess.check_call([os.path.join(root, 'tools', 'gen_manifest.py')])
