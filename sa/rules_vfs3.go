package main

// Virtual file system / NFS rules added after the third round of independently seeded changes
// (DESIGN.md §8.2).

import (
	"fmt"
	"go/ast"
	"go/token"
	"go/types"
	"strings"
)

// c13Revalidate: after a LockPile back-off, what was read before is checked by identity.
func c13Revalidate(c *Ctx) *RuleResult {
	r := &RuleResult{Rule: "C13.revalidate", Floor: 2,
		Doc: "names resolve to what was last put there, also across the window in which LockPile.Lock had to drop the directory lock: wherever the result of LockPile.Lock is inspected (false = locks were dropped and re-taken), a directory entry read before the call is re-validated by an identity comparison that mentions it (the map slot still holds THIS entry / the entry is still linked) before it is used on the 'dropped' outcome"}
	p := c.P
	for _, u := range p.UnitsIn(virtualPkg) {
		info := u.Info()
		ast.Inspect(u.Decl.Body, func(n ast.Node) bool {
			ifs, ok := n.(*ast.IfStmt)
			if !ok {
				return true
			}
			// the condition contains a LockPile.Lock call
			var lockCall *ast.CallExpr
			ast.Inspect(ifs.Cond, func(m ast.Node) bool {
				if call, ok := m.(*ast.CallExpr); ok {
					if sel, ok := ast.Unparen(call.Fun).(*ast.SelectorExpr); ok && sel.Sel.Name == "Lock" {
						if tv, ok := info.Types[sel.X]; ok && namedIs(tv.Type, modPath+"/pkg/sync", "LockPile") {
							lockCall = call
						}
					}
				}
				return true
			})
			if lockCall == nil {
				return true
			}
			construct := constructOf(u, "after "+exprStr(lockCall.Fun)+"@"+fmt.Sprint(p.Fset.Position(lockCall.Pos()).Line-p.Fset.Position(u.Decl.Pos()).Line))
			// entry-typed locals that exist before the call
			isEntryVar := func(e ast.Expr) bool {
				found := false
				ast.Inspect(e, func(m ast.Node) bool {
					if id, ok := m.(*ast.Ident); ok {
						if v, ok := info.Uses[id].(*types.Var); ok && !v.IsField() && v.Pos() < lockCall.Pos() && namedIs(v.Type(), modPath+"/"+virtualPkg, "inMemoryDirectoryEntry") {
							found = true
						}
					}
					return !found
				})
				return found
			}
			isIdentityTest := func(e ast.Expr) bool {
				ok := false
				ast.Inspect(e, func(m ast.Node) bool {
					if be, isB := m.(*ast.BinaryExpr); isB && (be.Op == token.EQL || be.Op == token.NEQ) && (isEntryVar(be.X) || isEntryVar(be.Y)) {
						ok = true
					}
					return !ok
				})
				return ok
			}
			// (a) the same condition revalidates
			okV := isIdentityTest(ifs.Cond)
			// (a') `if !pile.Lock(x) { if <identity test> { ... } }`
			if !okV && len(ifs.Body.List) > 0 {
				if inner, ok := ifs.Body.List[0].(*ast.IfStmt); ok {
					okV = isIdentityTest(inner.Cond)
				}
			}
			// (b) `if pile.Lock(x) { leave }` followed by an identity test
			if !okV {
				if blk := enclosingBlock(u.Decl.Body, ifs); blk != nil {
					for i, s := range blk {
						if s != ast.Stmt(ifs) {
							continue
						}
						for _, nx := range blk[i+1:] {
							if nif, ok := nx.(*ast.IfStmt); ok {
								okV = isIdentityTest(nif.Cond)
								break
							}
						}
					}
				}
			}
			if okV {
				r.ok(construct, posOf(p, lockCall), "the entry read before the call is re-validated by identity")
			} else {
				r.bad(c.Prop, construct, posOf(p, lockCall), "after the directory lock may have been dropped and re-taken, the entry read before is used without checking that the directory still holds that very entry: a concurrent rename+create makes the operation act on the wrong directory (removes the renamed one, leaves a dangling name)")
			}
			return true
		})
	}
	return r
}

func enclosingBlock(body *ast.BlockStmt, target ast.Stmt) []ast.Stmt {
	var out []ast.Stmt
	ast.Inspect(body, func(n ast.Node) bool {
		switch x := n.(type) {
		case *ast.BlockStmt:
			for _, s := range x.List {
				if s == target {
					out = x.List
				}
			}
		case *ast.CaseClause:
			for _, s := range x.Body {
				if s == target {
					out = x.Body
				}
			}
		}
		return out == nil
	})
	return out
}

// c17IdentityFields: the identity under which CAS files are deduplicated covers all they consist of.
func c17IdentityFields(c *Ctx) *RuleResult {
	r := &RuleResult{Rule: "C17.identity-fields", Floor: 1,
		Doc: "two input files are only represented by one deduplicated leaf (stateless handle allocation hashes an identity) when they agree in everything the tree shows: the WriteTo method of every identity struct in the virtual file system package reads every field of that struct (digest AND executable bit), by data or control dependence"}
	p := c.P
	for _, u := range p.UnitsIn(virtualPkg) {
		if u.Fn.Name() != "WriteTo" || u.Decl.Recv == nil {
			continue
		}
		t := u.Fn.Type().(*types.Signature).Recv().Type()
		if pt, ok := t.(*types.Pointer); ok {
			t = pt.Elem()
		}
		st, ok := t.Underlying().(*types.Struct)
		if !ok || st.NumFields() < 2 {
			continue
		}
		info := u.Info()
		used := map[*types.Var]bool{}
		ast.Inspect(u.Decl.Body, func(n ast.Node) bool {
			if sel, ok := n.(*ast.SelectorExpr); ok {
				if f := fieldOf(info, sel); f != nil {
					used[f] = true
				}
			}
			return true
		})
		var missing []string
		for i := 0; i < st.NumFields(); i++ {
			if !used[st.Field(i)] {
				missing = append(missing, st.Field(i).Name())
			}
		}
		construct := constructOf(u, "identity covers all fields")
		if len(missing) == 0 {
			r.ok(construct, posOf(p, u.Decl), fmt.Sprintf("all %d fields enter the identity", st.NumFields()))
		} else {
			r.bad(c.Prop, construct, posOf(p, u.Decl), "the identity does not depend on "+strings.Join(missing, ", ")+": two files that differ in it share one leaf, so the input root shows the wrong executable bit (or contents) for one of them")
		}
	}
	return r
}

// c18Unused: when an open-owner may be garbage collected.
func c18Unused(c *Ctx) *RuleResult {
	r := &RuleResult{Rule: "C18.unused-owner", Floor: 8,
		Doc: "the server never closes a file while an issued state ID still entitles the client to it: decision table of nfs40OpenOwnerState.isUnused over (number of open files ? 0, ? 1; last reply cached; that reply closed a file; confirmed): an open-owner is only collectable when it has no open file, or its ONLY file is the one the cached CLOSE reply half-closed, or it was never confirmed"}
	p := c.P
	u := p.Unit(nfsPkg, "nfs40OpenOwnerState.isUnused")
	d := BuildDTable(u, u.Decl.Body)
	if d.Err != "" {
		r.undecided(u.Name(), d.Err)
		return r
	}
	var len0, len1 *dtAtom
	var f0, f1 bool
	for _, a := range d.Atoms {
		if a.Order && strings.Contains(a.Key, "filesByHandle") {
			if a.A == "0" || a.B == "0" {
				len0, f0 = a, a.A == "0"
			}
			if a.A == "1" || a.B == "1" {
				len1, f1 = a, a.A == "1"
			}
		}
	}
	lastNil := d.FindBool(func(k string) bool {
		return strings.Contains(k, "lastResponse") && !strings.Contains(k, "closedFile") && strings.Contains(k, "nil")
	})
	closedNil := d.FindBool(func(k string) bool { return strings.Contains(k, "closedFile") && strings.Contains(k, "nil") })
	conf := d.FindBool(func(k string) bool { return strings.HasSuffix(k, ".confirmed") })
	if len0 == nil || lastNil == nil || closedNil == nil || conf == nil {
		r.bad(c.Prop, u.Name()+"|atoms", posOf(p, u.Decl), fmt.Sprintf("isUnused no longer consults the number of open files, the cached reply, its closed file and the confirmation flag (conditions: %v)", d.describe()))
		return r
	}
	sign := func(row DTRow, a *dtAtom, constFirst bool) int { // sign of len ? const
		s := row.Assign[a.Key]
		if constFirst {
			return -s
		}
		return s
	}
	for _, row := range d.Rows {
		n0 := sign(row, len0, f0) // len ? 0
		n1 := 2                   // unknown
		if len1 != nil {
			n1 = sign(row, len1, f1)
		}
		// consistent combinations only: len==0 => len<1; len==1 => len>0
		if n0 < 0 || (n0 == 0 && len1 != nil && n1 >= 0) || (len1 != nil && n1 == 0 && n0 <= 0) || (len1 != nil && n1 > 0 && n0 <= 0) {
			continue
		}
		hasLast := row.Assign[lastNil.Key] == 0
		closed := row.Assign[closedNil.Key] == 0
		confirmed := row.Assign[conf.Key] == 1
		exactlyOne := len1 != nil && n1 == 0
		want := n0 == 0 || (exactlyOne && hasLast && closed) || !confirmed
		got := strings.HasPrefix(row.Result, "true")
		construct := fmt.Sprintf("%s|files?0=%+d,files?1=%+d,lastReply=%v,closedFile=%v,confirmed=%v", u.Name(), n0, n1, hasLast, closed, confirmed)
		if got == want {
			r.ok(construct, posOf(p, u.Decl), fmt.Sprint(got))
		} else {
			r.bad(c.Prop, construct, posOf(p, u.Decl), fmt.Sprintf("isUnused is %v where it must be %v: an open-owner that still has other files open is put on the unused list after a CLOSE and, once the lease time passes, the server closes those files under valid state IDs", got, want))
		}
	}
	return r
}

// c19ClosedStateRetained: the state ID of a closed file stays known until the next transaction.
func c19ClosedStateRetained(c *Ctx) *RuleResult {
	r := &RuleResult{Rule: "C19.closed-state-retained", Floor: 1,
		Doc: "a retransmitted CLOSE finds the state it names: executing CLOSE only half-closes the file -- no function reachable from the CLOSE transaction body removes the file's entry from the state-ID table (openOwnerFilesByOther); that happens when the open-owner's cached reply is forgotten (its next transaction, or its removal)"}
	p := c.P
	units := p.UnitsIn(nfsPkg)
	tbl := p.LookupField(nfsPkg, "nfs40Program", "openOwnerFilesByOther")
	txClose := p.Unit(nfsPkg, "compoundState.txClose")
	reach := staticReach(p, []ast.Node{txClose.Decl.Body}, txClose.Info())
	reach[txClose.Fn] = true
	n := 0
	for _, w := range FieldWrites(units, tbl, false) {
		if _, isDel := w.Node.(*ast.CallExpr); !isDel {
			continue
		}
		n++
		construct := constructOf(w.Unit, "delete(openOwnerFilesByOther)")
		if reach[w.Unit.Fn] {
			r.bad(c.Prop, construct, posOf(p, w.Node), "the state ID of the file is forgotten while CLOSE executes: a retransmission of that CLOSE (same sequence number, same state ID) is answered with NFS4ERR_BAD_STATEID instead of the cached reply")
		} else {
			r.ok(construct, posOf(p, w.Node), "not reachable from the CLOSE transaction body")
		}
	}
	if n == 0 {
		r.bad(c.Prop, "nfsv4.nfs40Program.openOwnerFilesByOther|deleted", "-", "entries of the state-ID table are never removed")
	}
	return r
}

// c19InitialFlag: only a lock-owner that was just created may skip the sequence check.
func c19InitialFlag(c *Ctx) *RuleResult {
	r := &RuleResult{Rule: "C19.initial-flag", Floor: 2,
		Doc: "requests with an out-of-order sequence number are rejected without side effects: the 'initial transaction' argument of lockOwner.startTransaction, which skips the sequence check, is either the constant false or a variable that is set to true only in the branch that creates the lock-owner object in this very call"}
	p := c.P
	units := p.UnitsIn(nfsPkg)
	st := p.LookupFunc(nfsPkg, "nfs40LockOwnerState.startTransaction")
	sig := st.Type().(*types.Signature)
	bi := -1
	for i := 0; i < sig.Params().Len(); i++ {
		if isBoolType(sig.Params().At(i).Type()) {
			bi = i
		}
	}
	if bi < 0 {
		panic(anchorError("nfs40LockOwnerState.startTransaction: boolean parameter"))
	}
	for _, cs := range CallsTo(units, st) {
		u := cs.Unit
		info := u.Info()
		call := cs.Node.(*ast.CallExpr)
		arg := ast.Unparen(call.Args[bi])
		construct := constructOf(u, "startTransaction(initial="+exprStr(arg)+")")
		if exprStr(arg) == "false" {
			r.ok(construct, posOf(p, call), "never skips the sequence check")
			continue
		}
		id, ok := arg.(*ast.Ident)
		okF := false
		if ok {
			v, _ := info.Uses[id].(*types.Var)
			okF = v != nil
			ast.Inspect(u.Decl.Body, func(n ast.Node) bool {
				as, ok := n.(*ast.AssignStmt)
				if !ok {
					return true
				}
				for i, l := range as.Lhs {
					lid, ok := l.(*ast.Ident)
					if !ok || (info.Defs[lid] != v && info.Uses[lid] != v) || i >= len(as.Rhs) {
						continue
					}
					// `flag := !found` with `_, found := <map of lock-owners>[key]`: true exactly when the
					// lock-owner did not exist, i.e. when this call has to create it
					if ue, ok := ast.Unparen(as.Rhs[i]).(*ast.UnaryExpr); ok && ue.Op == token.NOT {
						if fid, ok := ast.Unparen(ue.X).(*ast.Ident); ok {
							if src := commaOkSource(u, fid); src != nil {
								if ix, ok := ast.Unparen(src).(*ast.IndexExpr); ok {
									if tv, ok := info.Types[ix.X]; ok {
										if m, ok := tv.Type.Underlying().(*types.Map); ok && namedIs(m.Elem(), modPath+"/"+nfsPkg, "nfs40LockOwnerState") {
											continue
										}
									}
								}
							}
						}
					}
					switch exprStr(as.Rhs[i]) {
					case "false":
					case "true":
						// in a block that creates the lock-owner object
						creates := false
						if blk := enclosingBlock(u.Decl.Body, as); blk != nil {
							for _, s := range blk {
								ast.Inspect(s, func(m ast.Node) bool {
									if cl, ok := m.(*ast.CompositeLit); ok {
										if tv, ok := info.Types[cl]; ok && namedIs(tv.Type, modPath+"/"+nfsPkg, "nfs40LockOwnerState") {
											creates = true
										}
									}
									return true
								})
							}
						}
						if !creates {
							okF = false
						}
					default:
						okF = false
					}
				}
				return true
			})
		}
		if okF {
			r.ok(construct, posOf(p, call), "true only where the lock-owner is created")
		} else {
			r.bad(c.Prop, construct, posOf(p, call), "the flag that skips the sequence-number check is not tied to the creation of the lock-owner: an existing lock-owner's request with an out-of-order sequence number is executed (a lock is taken, the owner's sequence jumps)")
		}
	}
	return r
}
