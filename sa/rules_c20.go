package main

import (
	"fmt"
	"go/ast"
	"go/constant"
	"go/token"
	"go/types"
	"strings"
)

const virtualPkg = "pkg/filesystem/virtual"

func c20Test(c *Ctx) *RuleResult {
	r := &RuleResult{Rule: "C20.test", Floor: 100,
		Doc: "decision table of one iteration of ByteRangeLockSet.Test over all orderings of (entry is list head, entry.Start ? test.End, entry.Owner ? test.Owner, entry.End ? test.Start, entry.Type ? Exclusive, test.Type ? Exclusive): stop with 'no conflict' exactly at the end of the list or when entry.Start >= test.End; report the entry exactly when the owner differs, entry.End > test.Start and one side is exclusive; otherwise continue"}
	p := c.P
	u := p.Unit(virtualPkg, "ByteRangeLockSet.Test")
	var loop *ast.ForStmt
	var after []ast.Stmt
	for i, s := range u.Decl.Body.List {
		if f, ok := s.(*ast.ForStmt); ok {
			loop = f
			after = u.Decl.Body.List[i+1:]
		}
	}
	if loop == nil {
		panic(anchorError("ByteRangeLockSet.Test: the loop over the lock list"))
	}
	d := BuildDTableLoop(u, loop, after)
	if d.Err != "" {
		r.undecided(u.Name(), d.Err)
		return r
	}
	find := func(pred func(a, b string) (bool, bool), what string) (*dtAtom, bool) {
		at, flip, ok := d.FindOrder(pred)
		if !ok {
			panic(anchorError("Test: no comparison " + what + " (atoms: " + strings.Join(d.describe(), "; ") + ")"))
		}
		return at, flip
	}
	// names of the tested lock parameter, of the loop cursor (X = X.next) and of the receiver
	lTest := u.Fn.Type().(*types.Signature).Params().At(0).Name()
	recvName := u.Decl.Recv.List[0].Names[0].Name
	leSearch := ""
	ast.Inspect(loop, func(n ast.Node) bool {
		if as, ok := n.(*ast.AssignStmt); ok && as.Tok == token.ASSIGN && len(as.Lhs) == 1 && len(as.Rhs) == 1 {
			if sel, ok := ast.Unparen(as.Rhs[0]).(*ast.SelectorExpr); ok && sel.Sel.Name == "next" && exprStr(sel.X) == exprStr(as.Lhs[0]) {
				leSearch = exprStr(as.Lhs[0])
			}
		}
		return true
	})
	if leSearch == "" {
		panic(anchorError("ByteRangeLockSet.Test: loop cursor advanced with X = X.next"))
	}
	has := func(s string, subs ...string) bool {
		for _, x := range subs {
			if !strings.Contains(s, x) {
				return false
			}
		}
		return true
	}
	// orientation: first operand = the list entry's field
	pair := func(entrySuffix, otherContains string) func(a, b string) (bool, bool) {
		return func(a, b string) (bool, bool) {
			if strings.HasSuffix(a, entrySuffix) && has(a, leSearch) && has(b, otherContains) && !has(b, leSearch) {
				return true, false
			}
			if strings.HasSuffix(b, entrySuffix) && has(b, leSearch) && has(a, otherContains) && !has(a, leSearch) {
				return true, true
			}
			return false, false
		}
	}
	head, _ := find(func(a, b string) (bool, bool) {
		return (a == leSearch && has(b, recvName+".list")) || (b == leSearch && has(a, recvName+".list")), false
	}, "entry == &ls.list")
	startEnd, seF := find(pair(".Start", lTest+".End"), "entry.Start ? test.End")
	owner, _ := find(pair(".Owner", lTest+".Owner"), "entry.Owner ? test.Owner")
	endStart, esF := find(pair(".End", lTest+".Start"), "entry.End ? test.Start")
	etype, _ := find(pair(".Type", "ByteRangeLockTypeLockedExclusive"), "entry.Type == Exclusive")
	ttype, _ := find(func(a, b string) (bool, bool) {
		return (has(a, lTest+".Type") && has(b, "Exclusive")) || (has(b, lTest+".Type") && has(a, "Exclusive")), false
	}, "test.Type == Exclusive")
	if len(d.Atoms) != 6 {
		r.bad(c.Prop, u.Name()+"|atoms", posOf(p, loop), fmt.Sprintf("the conflict test consults %d conditions (%v) instead of the six of the specification", len(d.Atoms), d.describe()))
	}
	sg := func(row DTRow, a *dtAtom, flip bool) int {
		s := row.Assign[a.Key]
		if flip {
			return -s
		}
		return s
	}
	for _, row := range d.Rows {
		atHead := row.Assign[head.Key] == 0
		se := sg(row, startEnd, seF)
		sameOwner := row.Assign[owner.Key] == 0
		es := sg(row, endStart, esF)
		eExcl := row.Assign[etype.Key] == 0
		tExcl := row.Assign[ttype.Key] == 0
		want := "continue"
		if atHead || se >= 0 {
			want = "nil"
		} else if !sameOwner && es > 0 && (eExcl || tExcl) {
			want = "lSearch"
		}
		got := row.Result
		if got == "&"+leSearch+".lock" {
			got = "lSearch"
		}
		construct := fmt.Sprintf("%s|head=%v,start?end=%+d,sameOwner=%v,end?start=%+d,entryExcl=%v,testExcl=%v", u.Name(), atHead, se, sameOwner, es, eExcl, tExcl)
		if got == want {
			r.ok(construct, posOf(p, loop), got)
		} else {
			r.bad(c.Prop, construct, posOf(p, loop), fmt.Sprintf("Test does '%s' where the record-lock rule requires '%s' (conflict iff other owner, overlapping bytes, one side exclusive; stop when the sorted list is past the tested range)", got, want))
		}
	}
	return r
}

func c20TestThenSet(c *Ctx) *RuleResult {
	r := &RuleResult{Rule: "C20.test-then-set", Floor: 2,
		Doc: "a byte-range lock is only entered into the table (ByteRangeLockSet.Set with a locking type) when Test returned no conflict for that same lock value, inside one locksLock critical section; Unlock/UnlockAll enter only 'unlocked' ranges; UnlockAll spans [0, the same end-of-file constant that offset/length conversion uses]"}
	p := c.P
	units := p.UnitsIn(nfsPkg)
	for _, u := range units {
		info := u.Info()
		for _, cs := range genericMethodCalls(u, "Set") {
			call := cs
			if len(call.Args) != 1 {
				continue
			}
			recvT, ok := info.Types[ast.Unparen(call.Fun).(*ast.SelectorExpr).X]
			if !ok || !strings.Contains(recvT.Type.String(), "ByteRangeLockSet") {
				continue
			}
			arg := exprStr(call.Args[0])
			lit := lockLiteral(u, call.Args[0])
			construct := constructOf(u, "Set("+arg+")")
			// the lock value is a parameter of a helper: judge what each caller passes
			if id, ok := ast.Unparen(call.Args[0]).(*ast.Ident); ok && lit == nil {
				if v, ok := info.Uses[id].(*types.Var); ok && isParamOf(u, v) && !u.Fn.Exported() {
					idx := -1
					sig := u.Fn.Type().(*types.Signature)
					for i := 0; i < sig.Params().Len(); i++ {
						if sig.Params().At(i) == v {
							idx = i
						}
					}
					sites := CallsTo(units, u.Fn)
					for _, s := range sites {
						sc := s.Node.(*ast.CallExpr)
						slit := lockLiteral(s.Unit, sc.Args[idx])
						cc := constructOf(s.Unit, "Set("+exprStr(sc.Args[idx])+") via "+u.Fn.Name())
						if slit == nil || !strings.HasSuffix(litField(slit, "Type"), "ByteRangeLockTypeUnlocked") {
							r.bad(c.Prop, cc, posOf(p, sc), "a lock that is not an 'unlocked' range is entered through a helper that performs no conflict test")
							continue
						}
						if st := litField(slit, "Start"); st == "0" {
							end := litFieldExpr(slit, "End")
							tv := s.Unit.Info().Types[end]
							maxU := constant.MakeUint64(^uint64(0))
							if tv.Value != nil && constant.Compare(tv.Value, token.EQL, maxU) {
								r.ok(cc+"|whole-file", posOf(p, sc), "unlocks [0, MaxUint64]")
							} else {
								r.bad(c.Prop, cc+"|whole-file", posOf(p, sc), fmt.Sprintf("the whole-file unlock ends at %s, not at the end-of-file value MaxUint64 used by the offset/length conversion: locks reaching beyond it survive CLOSE / lease expiry and keep excluding other owners", exprStr(end)))
							}
						} else {
							r.ok(cc, posOf(p, sc), "enters an 'unlocked' range")
						}
					}
					if len(sites) > 0 {
						continue
					}
				}
			}
			unlocking := lit != nil && strings.HasSuffix(litField(lit, "Type"), "ByteRangeLockTypeUnlocked")
			if unlocking {
				// range check for UnlockAll-like literals (constant Start/End)
				if s := litField(lit, "Start"); s == "0" {
					end := litFieldExpr(lit, "End")
					tv := info.Types[end]
					maxU := constant.MakeUint64(^uint64(0))
					if tv.Value != nil && constant.Compare(tv.Value, token.EQL, maxU) {
						r.ok(construct+"|whole-file", posOf(p, call), "unlocks [0, MaxUint64]")
					} else {
						r.bad(c.Prop, construct+"|whole-file", posOf(p, call), fmt.Sprintf("the whole-file unlock ends at %s, not at the end-of-file value MaxUint64 used by the offset/length conversion: locks reaching beyond it survive CLOSE / lease expiry and keep excluding other owners", exprStr(end)))
					}
				} else {
					r.ok(construct, posOf(p, call), "enters an 'unlocked' range")
				}
				continue
			}
			// locking: must be guarded by Test(arg) == nil
			okT := false
			for _, g := range flattenGuards(GuardsOf(info, u.Decl.Body, call)) {
				be, ok := ast.Unparen(g.Cond).(*ast.BinaryExpr)
				if !ok || !isNilIdent(be.Y) || g.Pos != (be.Op == token.EQL) {
					continue
				}
				src := resolveLocalAliasIfInit(u, be.X)
				if tc, ok := ast.Unparen(src).(*ast.CallExpr); ok {
					if sel, ok := ast.Unparen(tc.Fun).(*ast.SelectorExpr); ok && sel.Sel.Name == "Test" && len(tc.Args) == 1 && exprStr(tc.Args[0]) == arg && exprStr(sel.X) == exprStr(ast.Unparen(call.Fun).(*ast.SelectorExpr).X) {
						okT = true
					}
				}
			}
			// one critical section
			e := sharedLockEngine(c)
			balanced := false
			for _, s := range e.Order {
				if s.Fn == u.Fn {
					balanced = true
					for _, d := range s.Diags {
						if d.Kind == "balance" || d.Kind == "unlock-unheld" {
							balanced = false
						}
					}
				}
			}
			held := lockHeldThroughout(u, "locksLock")
			if okT && balanced && held {
				r.ok(construct, posOf(p, call), "guarded by Test(same lock) == nil under locksLock")
			} else {
				r.bad(c.Prop, construct, posOf(p, call), fmt.Sprintf("a lock is granted without a preceding conflict test of the same lock in the same critical section (tested: %v, locksLock held from before the test to the end: %v)", okT, held && balanced))
			}
		}
	}
	return r
}

// genericMethodCalls finds calls X.name(...) by selector name (used for methods of generic types).
func genericMethodCalls(u *FuncUnit, name string) []*ast.CallExpr {
	var out []*ast.CallExpr
	ast.Inspect(u.Decl.Body, func(n ast.Node) bool {
		if call, ok := n.(*ast.CallExpr); ok {
			if sel, ok := ast.Unparen(call.Fun).(*ast.SelectorExpr); ok && sel.Sel.Name == name {
				out = append(out, call)
			}
		}
		return true
	})
	return out
}

// lockLiteral resolves &lock to the composite literal that initialises `lock`.
func lockLiteral(u *FuncUnit, e ast.Expr) *ast.CompositeLit {
	if ue, ok := ast.Unparen(e).(*ast.UnaryExpr); ok && ue.Op == token.AND {
		e = ue.X
	}
	src := resolveLocalAlias(u, e)
	cl, _ := ast.Unparen(src).(*ast.CompositeLit)
	return cl
}

func litFieldExpr(cl *ast.CompositeLit, name string) ast.Expr {
	for _, el := range cl.Elts {
		if kv, ok := el.(*ast.KeyValueExpr); ok && exprStr(kv.Key) == name {
			return kv.Value
		}
	}
	return nil
}

func litField(cl *ast.CompositeLit, name string) string {
	if e := litFieldExpr(cl, name); e != nil {
		return exprStr(e)
	}
	return ""
}

// resolveLocalAliasIfInit also resolves variables defined in an if-statement initialiser.
func resolveLocalAliasIfInit(u *FuncUnit, e ast.Expr) ast.Expr { return resolveLocalAlias(u, e) }

// lockHeldThroughout: the function locks X.<field> once, defers the unlock, and has no explicit unlock.
func lockHeldThroughout(u *FuncUnit, field string) bool {
	locks, deferred, explicit := 0, 0, 0
	ast.Inspect(u.Decl.Body, func(n ast.Node) bool {
		switch x := n.(type) {
		case *ast.DeferStmt:
			if sel, ok := ast.Unparen(x.Call.Fun).(*ast.SelectorExpr); ok && sel.Sel.Name == "Unlock" && strings.HasSuffix(exprStr(sel.X), "."+field) {
				deferred++
			}
			return false
		case *ast.CallExpr:
			if sel, ok := ast.Unparen(x.Fun).(*ast.SelectorExpr); ok && strings.HasSuffix(exprStr(sel.X), "."+field) {
				switch sel.Sel.Name {
				case "Lock":
					locks++
				case "Unlock":
					explicit++
				}
			}
		}
		return true
	})
	return locks == 1 && deferred == 1 && explicit == 0
}

func c20Owner(c *Ctx) *RuleResult {
	r := &RuleResult{Rule: "C20.owner-identity", Floor: 10,
		Doc: "lock ownership is pointer identity, so one protocol lock-owner must map to ONE state object: every owner argument of OpenedFile.Lock/Unlock/UnlockAll and OpenedFilesPool.TestLock in the NFS programs is the address of the `owner` field of a lock-owner state object (or a nil pointer for an unknown owner); every function that creates a lock-owner state object stores it in the owner map it was looked up in; and no map of the NFS state structures is read or deleted from without being inserted into somewhere"}
	p := c.P
	units := p.UnitsIn(nfsPkg)
	isLOS := func(t types.Type) bool {
		return namedIs(t, modPath+"/"+nfsPkg, "nfs40LockOwnerState") || namedIs(t, modPath+"/"+nfsPkg, "nfs41LockOwnerState")
	}
	for _, u := range units {
		info := u.Info()
		if u.Decl.Recv != nil {
			rt := u.Fn.Type().(*types.Signature).Recv().Type()
			if namedIs(rt, modPath+"/"+nfsPkg, "OpenedFile") || namedIs(rt, modPath+"/"+nfsPkg, "OpenedFilesPool") {
				continue
			}
		}
		ast.Inspect(u.Decl.Body, func(n ast.Node) bool {
			call, ok := n.(*ast.CallExpr)
			if !ok {
				return true
			}
			fn := calleeOf(info, call)
			if fn == nil {
				return true
			}
			sig := fn.Type().(*types.Signature)
			if sig.Recv() == nil {
				return true
			}
			argIdx := -1
			if namedIs(sig.Recv().Type(), modPath+"/"+nfsPkg, "OpenedFile") {
				switch fn.Name() {
				case "Lock", "Unlock", "UnlockAll":
					argIdx = 0
				}
			}
			if namedIs(sig.Recv().Type(), modPath+"/"+nfsPkg, "OpenedFilesPool") && fn.Name() == "TestLock" {
				argIdx = 1
			}
			if argIdx < 0 || argIdx >= len(call.Args) {
				return true
			}
			arg := call.Args[argIdx]
			construct := constructOf(u, fn.Name()+" owner="+exprStr(arg))
			okArg := func(e ast.Expr) bool {
				ue, ok := ast.Unparen(e).(*ast.UnaryExpr)
				if !ok || ue.Op != token.AND {
					return false
				}
				sel, ok := ast.Unparen(ue.X).(*ast.SelectorExpr)
				if !ok || sel.Sel.Name != "owner" {
					return false
				}
				tv, ok := info.Types[sel.X]
				return ok && isLOS(tv.Type)
			}
			good := okArg(arg)
			if !good {
				// a local pointer variable that is only ever nil or &los.owner
				if id, ok := ast.Unparen(arg).(*ast.Ident); ok {
					if v, ok := info.Uses[id].(*types.Var); ok {
						all, n := true, 0
						ast.Inspect(u.Decl.Body, func(m ast.Node) bool {
							as, ok := m.(*ast.AssignStmt)
							if !ok {
								return true
							}
							for i, l := range as.Lhs {
								if lid, ok := l.(*ast.Ident); ok && (info.Uses[lid] == v || info.Defs[lid] == v) && len(as.Lhs) == len(as.Rhs) {
									n++
									if !okArg(as.Rhs[i]) && !isNilIdent(as.Rhs[i]) {
										all = false
									}
								}
							}
							return true
						})
						good = all
						_ = n
					}
				}
			}
			if good {
				r.ok(construct, posOf(p, call), "address of a lock-owner state object's owner field (or nil)")
			} else {
				r.bad(c.Prop, construct, posOf(p, call), "the lock owner passed to the lock table is not the address of the per-owner state object's `owner` field: two requests of the same protocol owner get different identities, so an owner's own locks conflict with it and are not released with it")
			}
			return true
		})
		// creation sites of lock-owner state objects
		ast.Inspect(u.Decl.Body, func(n ast.Node) bool {
			as, ok := n.(*ast.AssignStmt)
			if !ok || len(as.Lhs) != 1 || len(as.Rhs) != 1 {
				return true
			}
			ue, ok := ast.Unparen(as.Rhs[0]).(*ast.UnaryExpr)
			if !ok || ue.Op != token.AND {
				return true
			}
			cl, ok := ue.X.(*ast.CompositeLit)
			if !ok {
				return true
			}
			tv, ok := info.Types[cl]
			if !ok || !isLOS(tv.Type) {
				return true
			}
			varName := exprStr(as.Lhs[0])
			construct := constructOf(u, "create "+typeShort(tv.Type))
			// a map insertion M[k] = var on the same paths
			g := NewFuncCFG(info, u.Decl.Body)
			stored := ""
			ast.Inspect(u.Decl.Body, func(m ast.Node) bool {
				o, ok := m.(*ast.AssignStmt)
				if !ok || len(o.Lhs) != 1 || len(o.Rhs) != 1 || exprStr(o.Rhs[0]) != varName {
					return true
				}
				ix, ok := ast.Unparen(o.Lhs[0]).(*ast.IndexExpr)
				if !ok {
					return true
				}
				if mt, ok := info.Types[ix.X]; ok {
					if mp, ok := mt.Type.Underlying().(*types.Map); ok && isLOS(mp.Elem()) {
						if g.Dominates(as, o) && g.PostDominates(o, as) {
							stored = exprStr(ix.X)
						}
					}
				}
				return true
			})
			if stored != "" {
				r.ok(construct, posOf(p, as), "registered in "+stored+" on the same paths")
			} else {
				r.bad(c.Prop, construct, posOf(p, as), "a new lock-owner state object is created but never registered in the map of lock-owners by owner: the next request of the same protocol owner creates another object with a different identity (own locks conflict; LOCKT does not recognise the owner)")
			}
			return true
		})
	}
	// never-populated maps
	pkg := p.Pkg(nfsPkg)
	sc := pkg.Types.Scope()
	for _, name := range sc.Names() {
		tn, ok := sc.Lookup(name).(*types.TypeName)
		if !ok {
			continue
		}
		st, ok := tn.Type().Underlying().(*types.Struct)
		if !ok {
			continue
		}
		for i := 0; i < st.NumFields(); i++ {
			f := st.Field(i)
			if _, isMap := f.Type().Underlying().(*types.Map); !isMap {
				continue
			}
			inserts, uses := 0, 0
			for _, w := range FieldWrites(units, f, false) {
				if as, ok := w.Node.(*ast.AssignStmt); ok {
					if _, isIx := ast.Unparen(w.Expr).(*ast.IndexExpr); isIx {
						inserts++
					}
					_ = as
				} else {
					uses++
				}
			}
			for _, u := range units {
				uses += len(findMapLookups(u, f))
			}
			construct := tn.Name() + "." + f.Name()
			if uses == 0 {
				continue
			}
			if inserts > 0 {
				r.ok(construct, "-", fmt.Sprintf("%d insertion site(s), %d lookup/delete site(s)", inserts, uses))
			} else {
				r.bad(c.Prop, construct, "-", fmt.Sprintf("map %s is looked up / deleted from at %d site(s) but nothing is ever inserted into it: every lookup misses", construct, uses))
			}
		}
	}
	return r
}

func c20Count(c *Ctx) *RuleResult {
	r := &RuleResult{Rule: "C20.count", Floor: 6,
		Doc: "the entry-count delta returned by OpenedFile.Lock/Unlock/UnlockAll is added to the lock-owner file's lockCount (so that 'holds locks' is known exactly); and the function that removes a lock-owner file asserting lockCount == 0 is only called behind a lockCount guard that returns an error, or after the UnlockAll delta was added"}
	p := c.P
	units := p.UnitsIn(nfsPkg)
	lc40 := p.LookupField(nfsPkg, "nfs40LockOwnerFileState", "lockCount")
	lc41 := p.LookupField(nfsPkg, "nfs41LockOwnerFileState", "lockCount")
	// isLC: the expression is the lock count of a lock-owner file (the field object, not its name)
	isLC := func(info *types.Info, e ast.Expr) bool {
		f := fieldOf(info, e)
		return f != nil && (f == lc40 || f == lc41)
	}
	// lcCmp: guard `<recv>.lockCount OP k` -> (receiver text, op, k)
	lcCmp := func(info *types.Info, g Guard) (string, token.Token, string, bool) {
		be, ok := ast.Unparen(g.Cond).(*ast.BinaryExpr)
		if !ok || !g.Pos || !isLC(info, be.X) {
			return "", 0, "", false
		}
		return exprStr(ast.Unparen(be.X).(*ast.SelectorExpr).X), be.Op, exprStr(be.Y), true
	}
	for _, u := range units {
		info := u.Info()
		ast.Inspect(u.Decl.Body, func(n ast.Node) bool {
			call, ok := n.(*ast.CallExpr)
			if !ok {
				return true
			}
			fn := calleeOf(info, call)
			if fn == nil || fn.Type().(*types.Signature).Recv() == nil || !namedIs(fn.Type().(*types.Signature).Recv().Type(), modPath+"/"+nfsPkg, "OpenedFile") {
				return true
			}
			switch fn.Name() {
			case "Lock", "Unlock", "UnlockAll":
			default:
				return true
			}
			construct := constructOf(u, fn.Name()+" delta")
			used := false
			condNote := ""
			// directly: X.lockCount += call   or   d, _ := call ... X.lockCount += d
			for _, anc := range pathTo(u.Decl.Body, call) {
				if as, ok := anc.(*ast.AssignStmt); ok {
					if as.Tok == token.ADD_ASSIGN && isLC(info, as.Lhs[0]) {
						used = true
					} else if len(as.Rhs) == 1 && ast.Unparen(as.Rhs[0]) == ast.Expr(call) {
						dv := exprStr(as.Lhs[0])
						ast.Inspect(u.Decl.Body, func(m ast.Node) bool {
							if o, ok := m.(*ast.AssignStmt); ok && o.Tok == token.ADD_ASSIGN && isLC(info, o.Lhs[0]) && exprStr(o.Rhs[0]) == dv {
								used = true
								// ... for every value of the delta: a merge of adjacent ranges is negative, a split positive
								for _, gd := range flattenGuards(GuardsOf(info, u.Decl.Body, o)) {
									if mentionsIdent(gd.Cond, dv) {
										used = false
										condNote = " (the addition only happens when " + gd.String() + ")"
									}
								}
							}
							return true
						})
					}
				}
			}
			if !used {
				// d, _ := call; helper(d) where helper does X.lockCount += <that parameter>
				for _, anc := range pathTo(u.Decl.Body, call) {
					as, ok := anc.(*ast.AssignStmt)
					if !ok || len(as.Rhs) != 1 || ast.Unparen(as.Rhs[0]) != ast.Expr(call) {
						continue
					}
					dv := exprStr(as.Lhs[0])
					ast.Inspect(u.Decl.Body, func(m ast.Node) bool {
						hc, ok := m.(*ast.CallExpr)
						if !ok {
							return true
						}
						hfn := calleeOf(info, hc)
						if hfn == nil || p.Decl(hfn) == nil {
							return true
						}
						for ai, a := range hc.Args {
							if exprStr(a) != dv {
								continue
							}
							hd := p.Decl(hfn)
							pi := 0
							pname := ""
							for _, f := range hd.Type.Params.List {
								for _, nme := range f.Names {
									if pi == ai {
										pname = nme.Name
									}
									pi++
								}
							}
							ast.Inspect(hd.Body, func(k ast.Node) bool {
								if o, ok := k.(*ast.AssignStmt); ok && o.Tok == token.ADD_ASSIGN && isLC(p.InfoFor(hd), o.Lhs[0]) && exprStr(o.Rhs[0]) == pname && pname != "" {
									used = true
								}
								return true
							})
						}
						return true
					})
				}
			}
			if used {
				r.ok(construct, posOf(p, call), "added to lockCount")
			} else {
				r.bad(c.Prop, construct, posOf(p, call), "the change in the number of held lock entries is not added to lockCount"+condNote+": 'owner still holds locks' becomes wrong (locks leak or RELEASE_LOCKOWNER/FREE_STATEID is refused forever)")
			}
			return true
		})
	}
	// asserting removers
	for _, u := range units {
		if u.Fn.Name() != "remove" || u.Decl.Recv == nil || len(u.Decl.Body.List) == 0 {
			continue
		}
		first, ok := u.Decl.Body.List[0].(*ast.IfStmt)
		if !ok {
			continue
		}
		if fb, isB := ast.Unparen(first.Cond).(*ast.BinaryExpr); !isB || fb.Op != token.NEQ || exprStr(fb.Y) != "0" || !isLC(u.Info(), fb.X) {
			continue
		}
		if !terminates(u.Info(), first.Body.List) {
			continue
		}
		// callers
		for _, cs := range CallsTo(units, u.Fn) {
			cu := cs.Unit
			info := cu.Info()
			call := cs.Node.(*ast.CallExpr)
			recvExpr := exprStr(ast.Unparen(call.Fun).(*ast.SelectorExpr).X)
			construct := constructOf(cu, "remove-asserting-no-locks on "+recvExpr)
			safe := false
			for _, g := range flattenGuards(GuardsOf(info, cu.Decl.Body, call)) {
				if rx, op, k, ok := lcCmp(info, g); ok && rx == recvExpr && k == "0" && (op == token.LEQ || op == token.EQL) {
					safe = true
				}
			}
			if !safe {
				// the object comes from a getter that only hands it out when it holds no locks:
				//   lofs, st := h(...); if st == OK { lofs.remove(...) }   with every non-nil return of
				//   h guarded by <returned>.lockCount <= 0
				if id, ok := ast.Unparen(ast.Unparen(call.Fun).(*ast.SelectorExpr).X).(*ast.Ident); ok {
					if src, ok := ast.Unparen(resolveLocalAlias(cu, id)).(*ast.CallExpr); ok {
						if h := calleeOf(info, src); h != nil && p.Decl(h) != nil {
							hd := p.Decl(h)
							hinfo := p.InfoFor(hd)
							all, any := true, false
							ast.Inspect(hd.Body, func(m ast.Node) bool {
								ret, ok := m.(*ast.ReturnStmt)
								if !ok || len(ret.Results) < 1 || isNilIdent(ret.Results[0]) {
									return true
								}
								any = true
								rv := exprStr(ret.Results[0])
								okRet := false
								for _, g := range flattenGuards(GuardsOf(hinfo, hd.Body, ret)) {
									if rx, op, k, ok := lcCmp(hinfo, g); ok && rx == rv && k == "0" && (op == token.LEQ || op == token.EQL) {
										okRet = true
									}
								}
								if !okRet {
									all = false
								}
								return true
							})
							if any && all {
								safe = true
							}
						}
					}
				}
			}
			if !safe {
				gcf := NewFuncCFG(info, cu.Decl.Body)
				ast.Inspect(cu.Decl.Body, func(m ast.Node) bool {
					if o, ok := m.(*ast.AssignStmt); ok && o.Tok == token.ADD_ASSIGN && isLC(info, o.Lhs[0]) && exprStr(ast.Unparen(o.Lhs[0]).(*ast.SelectorExpr).X) == recvExpr && strings.Contains(exprStr(o.Rhs[0]), "UnlockAll(") {
						// the UnlockAll is itself under `if lockCount > 0`, its if-condition must dominate
						for _, anc := range pathTo(cu.Decl.Body, o) {
							if ifs, ok := anc.(*ast.IfStmt); ok && gcf.Dominates(ifs.Cond, call) {
								safe = true
							}
						}
					}
					return true
				})
			}
			if !safe {
				// the release sits in a helper method called on the same object before the removal:
				//   x.unlockAll(); x.remove(...)   where unlockAll does `lockCount += UnlockAll(...)` and
				//   skips that only under comparisons of lockCount with 0
				gcf := NewFuncCFG(info, cu.Decl.Body)
				ast.Inspect(cu.Decl.Body, func(m ast.Node) bool {
					hc, ok := m.(*ast.CallExpr)
					if !ok || hc == call {
						return true
					}
					hsel, ok := ast.Unparen(hc.Fun).(*ast.SelectorExpr)
					if !ok || exprStr(hsel.X) != recvExpr {
						return true
					}
					hfn := calleeOf(info, hc)
					if hfn == nil || p.Decl(hfn) == nil || hfn == u.Fn {
						return true
					}
					hd := p.Decl(hfn)
					hinfo := p.InfoFor(hd)
					unlocks, adds, condsOK := false, false, true
					ast.Inspect(hd.Body, func(k ast.Node) bool {
						switch x := k.(type) {
						case *ast.CallExpr:
							if xs, ok := ast.Unparen(x.Fun).(*ast.SelectorExpr); ok && xs.Sel.Name == "UnlockAll" {
								unlocks = true
							}
						case *ast.AssignStmt:
							if x.Tok == token.ADD_ASSIGN && isLC(hinfo, x.Lhs[0]) {
								adds = true
							}
						case *ast.IfStmt:
							be, isB := ast.Unparen(x.Cond).(*ast.BinaryExpr)
							if !isB || !isLC(hinfo, be.X) || exprStr(be.Y) != "0" {
								condsOK = false
							}
						}
						return true
					})
					if unlocks && adds && condsOK && gcf.Dominates(hc, call) {
						safe = true
					}
					return true
				})
			}
			if safe {
				r.ok(construct, posOf(p, call), "the caller establishes lockCount == 0 first")
			} else {
				r.bad(c.Prop, construct, posOf(p, call), "the lock-owner file is removed through the variant that panics when locks are still held, without first refusing (NFS4ERR_LOCKS_HELD) or releasing them: a client that frees a lock state ID while holding locks crashes the server, and its locks are never released")
			}
		}
	}
	return r
}

func c20Sorted(c *Ctx) *RuleResult {
	r := &RuleResult{Rule: "C20.sorted", Floor: 1,
		Doc: "the lock list stays sorted by start offset (Test's early exit relies on it): in ByteRangeLockSet.Set, whenever the Start of an entry that is already linked into the list is changed, that entry is unlinked (remove) on the same paths and re-inserted later at its sorted position; only the entry being inserted may have its Start adjusted in place"}
	p := c.P
	u := p.Unit(virtualPkg, "ByteRangeLockSet.Set")
	info := u.Info()
	g := NewFuncCFG(info, u.Decl.Body)
	n := 0
	ast.Inspect(u.Decl.Body, func(nd ast.Node) bool {
		as, ok := nd.(*ast.AssignStmt)
		if !ok || len(as.Lhs) != 1 {
			return true
		}
		sel, ok := ast.Unparen(as.Lhs[0]).(*ast.SelectorExpr)
		if !ok || sel.Sel.Name != "Start" {
			return true
		}
		// which entry? resolve `lX := &leX.lock`
		src := resolveLocalAliasNearest(u, sel.X, as.Pos())
		ue, ok := ast.Unparen(src).(*ast.UnaryExpr)
		if !ok || ue.Op != token.AND {
			return true
		}
		ls, ok := ast.Unparen(ue.X).(*ast.SelectorExpr)
		if !ok || ls.Sel.Name != "lock" {
			return true
		}
		entry := exprStr(ls.X)
		// the entry being inserted is created in this function by a composite literal
		if isFreshEntry(u, entry) {
			return true
		}
		n++
		construct := constructOf(u, exprStr(as.Lhs[0])+" = "+exprStr(as.Rhs[0]))
		unlinked := false
		ast.Inspect(u.Decl.Body, func(m ast.Node) bool {
			if call, ok := methodCallOn(m, entry, "remove"); ok {
				if (g.Dominates(as, call) && g.PostDominates(call, as)) || (g.Dominates(call, as) && g.PostDominates(as, call)) {
					unlinked = true
				}
			}
			return true
		})
		if unlinked {
			r.ok(construct, posOf(p, as), "the entry is unlinked on the same paths")
		} else {
			r.bad(c.Prop, construct, posOf(p, as), "the start offset of an entry that stays linked in the list is changed in place: the list is no longer sorted by start, so the conflict test stops too early and grants a lock over another owner's lock")
		}
		return true
	})
	if n == 0 {
		r.ok(constructOf(u, "no in-place start change"), posOf(p, u.Decl), "no linked entry has its start changed")
	}
	return r
}

// resolveLocalAliasNearest resolves a local identifier to the right-hand side of its closest
// preceding `:=` definition.
func resolveLocalAliasNearest(u *FuncUnit, e ast.Expr, before token.Pos) ast.Expr {
	id, ok := ast.Unparen(e).(*ast.Ident)
	if !ok {
		return e
	}
	info := u.Info()
	v, _ := info.Uses[id].(*types.Var)
	if v == nil {
		return e
	}
	var rhs ast.Expr
	ast.Inspect(u.Decl.Body, func(n ast.Node) bool {
		as, ok := n.(*ast.AssignStmt)
		if !ok || as.Tok != token.DEFINE || len(as.Lhs) != len(as.Rhs) {
			return true
		}
		for i, l := range as.Lhs {
			if lid, ok := l.(*ast.Ident); ok && info.Defs[lid] == v {
				rhs = as.Rhs[i]
			}
		}
		return true
	})
	if rhs != nil {
		return rhs
	}
	return e
}

func isFreshEntry(u *FuncUnit, name string) bool {
	fresh := false
	ast.Inspect(u.Decl.Body, func(n ast.Node) bool {
		as, ok := n.(*ast.AssignStmt)
		if !ok || as.Tok != token.DEFINE || len(as.Lhs) != 1 || exprStr(as.Lhs[0]) != name {
			return true
		}
		if ue, ok := ast.Unparen(as.Rhs[0]).(*ast.UnaryExpr); ok && ue.Op == token.AND {
			if _, ok := ue.X.(*ast.CompositeLit); ok {
				fresh = true
			}
		}
		return true
	})
	return fresh
}

func init() {
	register(&PropertySpec{
		ID:          "C20",
		Level:       "other",
		Explanation: "Structural necessary conditions of POSIX record-lock semantics: the complete decision table of the conflict test (all 2*3*3*3*3*3 orderings of its six comparisons); Set with a locking type only after Test of the same lock under one locksLock section, unlocks span the documented whole-file range; owner identity (every owner handed to the lock table is the address of the per-owner state object, created objects are registered, no never-populated owner map); returned count deltas reach lockCount and asserting removal is gated. The split/merge algorithm of Set versus a per-byte model and offset arithmetic are not decided.",
		Assumptions: []string{"lock entries stay sorted by start (Set's algorithm, not decided here)"},
		Rules:       []RuleFunc{c20Test, c20TestThenSet, c20Owner, c20Count, c20Sorted, c18PoolEntry, c20LockTableInit, c20FileCountBalance, c20OwnerEmptiness},
	})
}
