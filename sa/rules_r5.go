package main

// Rules added after the fifth round of independently seeded changes (DESIGN.md §8.4).

import (
	"fmt"
	"go/ast"
	"go/token"
	"go/types"
	"strings"
)

// ---------------------------------------------------------------- scheduler

// schedNextTaskOnlyWhenFree: a worker is only given another task when it has none.
func schedNextTaskOnlyWhenFree(c *Ctx) *RuleResult {
	r := &RuleResult{Rule: c.Prop + ".next-task-when-free", Floor: 2,
		Doc: "every worker is assigned at most one task: worker.getNextTask (which may assign a new task) is only called on paths that completed the worker's current task or tested worker.currentTask directly in the same function; a report about the wrong action goes through getCurrentOrNextTask"}
	p := c.P
	units := p.UnitsIn(schedPkg)
	next := p.LookupFunc(schedPkg, "worker.getNextTask")
	complete := p.LookupFunc(schedPkg, "task.complete")
	ct := p.LookupField(schedPkg, "worker", "currentTask")
	for _, cs := range CallsTo(units, next) {
		u := cs.Unit
		info := u.Info()
		g := NewFuncCFG(info, u.Decl.Body)
		construct := constructOf(u, "getNextTask")
		barrier := func(n ast.Node) bool {
			if call, ok := n.(*ast.CallExpr); ok && calleeOf(info, call) == complete {
				return true
			}
			if be, ok := n.(*ast.BinaryExpr); ok && (be.Op == token.EQL || be.Op == token.NEQ) && isNilIdent(be.Y) {
				if fieldOf(info, resolveLocalAlias(u, be.X)) == ct || fieldOf(info, be.X) == ct {
					return true
				}
			}
			// `if t := w.currentTask; t != nil`
			if as, ok := n.(*ast.AssignStmt); ok && len(as.Rhs) == 1 && fieldOf(info, as.Rhs[0]) == ct {
				return true
			}
			return false
		}
		if reach, _ := g.reachableFrom(0, 0, cs.Node, barrier); reach {
			r.bad(c.Prop, construct, posOf(p, cs.Node), "the worker can be handed a new task on a path that neither completed nor checked its current one: a worker that still holds a task (e.g. after a lost response) is assigned a second one")
		} else {
			r.ok(construct+"@"+posOf(p, cs.Node), posOf(p, cs.Node), "current task completed or tested first")
		}
	}
	return r
}

// schedHeapPopResets: leaving a heap resets the index mirror.
func schedHeapPopResets(c *Ctx) *RuleResult {
	r := &RuleResult{Rule: c.Prop + ".heap-pop-resets", Floor: 3,
		Doc: "an element that left a heap is known not to be in it: the Pop method of every heap type whose Swap maintains an index field sets that field of the popped element to -1 (the sentinel the re-queueing code tests)"}
	p := c.P
	idx := heapIndexFields(p)
	for _, u := range p.UnitsIn(schedPkg) {
		if u.Fn.Name() != "Pop" || u.Decl.Recv == nil {
			continue
		}
		rt := u.Fn.Type().(*types.Signature).Recv().Type()
		if pt, ok := rt.(*types.Pointer); ok {
			rt = pt.Elem()
		}
		named, ok := rt.(*types.Named)
		if !ok || idx[named.Obj()] == nil {
			continue
		}
		want := idx[named.Obj()]
		okW := false
		for _, w := range FieldWrites([]*FuncUnit{u}, want, false) {
			if w.RHS != nil {
				if tv, ok := u.Info().Types[w.RHS]; ok && tv.Value != nil && tv.Value.ExactString() == "-1" {
					okW = true
				}
			}
		}
		construct := constructOf(u, "reset "+want.Name())
		if okW {
			r.ok(construct, posOf(p, u.Decl), "set to -1")
		} else {
			r.bad(c.Prop, construct, posOf(p, u.Decl), "the popped element keeps its old position in "+want.Name()+": code that re-queues it later (size-class retry) believes it is still in the heap")
		}
	}
	return r
}

// c05RouteLongestPrefix: routing uses the longest registered prefix too.
func c05RouteLongestPrefix(c *Ctx) *RuleResult {
	r := &RuleResult{Rule: "C05.route-longest-prefix", Floor: 1,
		Doc: "a task is matched to the longest registered instance-name prefix at every stage: the demultiplexing action router looks the request up with Trie.GetLongestPrefix (GetExact would send requests for nested instance names to the default backend)"}
	p := c.P
	route := p.LookupFunc("pkg/scheduler/routing", "DemultiplexingActionRouter.RouteAction")
	reach := staticReach(p, []ast.Node{p.MustDecl(route).Body}, p.InfoFor(p.MustDecl(route)))
	for _, u := range p.UnitsIn("pkg/scheduler/routing") {
		if u.Fn != route && !reach[u.Fn] {
			continue
		}
		for _, cs := range MethodCallsOn([]*FuncUnit{u}, platformPkgPath, "Trie", "GetExact", "GetLongestPrefix") {
			name := ast.Unparen(cs.Node.(*ast.CallExpr).Fun).(*ast.SelectorExpr).Sel.Name
			construct := constructOf(u, "trie lookup")
			if name == "GetLongestPrefix" {
				r.ok(construct, posOf(p, cs.Node), "longest prefix")
			} else {
				r.bad(c.Prop, construct, posOf(p, cs.Node), "requests are routed by exact instance name: a request for a name below a registered prefix is handled by the default router and reaches workers of the wrong platform")
			}
		}
	}
	return r
}

// schedRevalidateAfterRelock: what was read before the lock was dropped is re-validated.
func schedRevalidateAfterRelock(c *Ctx) *RuleResult {
	r := &RuleResult{Rule: c.Prop + ".revalidate-after-relock", Floor: 1,
		Doc: "an operation looked up by name is only used while it is known to be registered: where an entry point reads operationsNameMap, releases the scheduler lock (authorisation may block) and takes it again, every later use of the operation is under a comparison of a fresh lookup with the value read before"}
	p := c.P
	onm := p.LookupField(schedPkg, "InMemoryBuildQueue", "operationsNameMap")
	enter := p.LookupFunc(schedPkg, "InMemoryBuildQueue.enter")
	leave := p.LookupFunc(schedPkg, "InMemoryBuildQueue.leave")
	for _, u := range p.UnitsIn(schedPkg) {
		info := u.Info()
		var lookup *ast.AssignStmt
		ast.Inspect(u.Decl.Body, func(n ast.Node) bool {
			if as, ok := n.(*ast.AssignStmt); ok && len(as.Rhs) == 1 && len(as.Lhs) == 2 {
				if ix, ok := ast.Unparen(as.Rhs[0]).(*ast.IndexExpr); ok && fieldOf(info, ix.X) == onm && lookup == nil {
					lookup = as // the first lookup: the value carried across the unlocked section
				}
			}
			return true
		})
		if lookup == nil {
			continue
		}
		vid, ok := lookup.Lhs[0].(*ast.Ident)
		if !ok {
			continue
		}
		vobj := info.ObjectOf(vid)
		// a leave() followed by an enter() after the lookup
		var relock ast.Node
		for _, lv := range CallsTo([]*FuncUnit{u}, leave) {
			if lv.Node.Pos() < lookup.Pos() {
				continue
			}
			if _, isDefer := deferredCall(u, lv.Node.(*ast.CallExpr)); isDefer {
				continue
			}
			for _, en := range CallsTo([]*FuncUnit{u}, enter) {
				if en.Node.Pos() > lv.Node.Pos() && (relock == nil || en.Node.Pos() < relock.Pos()) {
					relock = en.Node
				}
			}
		}
		if relock == nil {
			continue
		}
		construct := constructOf(u, "use of "+vid.Name+" after re-locking")
		bad := ""
		ast.Inspect(u.Decl.Body, func(n ast.Node) bool {
			id, ok := n.(*ast.Ident)
			if !ok || info.Uses[id] != vobj || id.Pos() < relock.Pos() {
				return true
			}
			isFresh := func(side ast.Expr) bool {
				if ix, ok := ast.Unparen(side).(*ast.IndexExpr); ok && fieldOf(info, ix.X) == onm {
					return true
				}
				// a variable holding a lookup made after re-locking
				if sid, ok := ast.Unparen(side).(*ast.Ident); ok && info.ObjectOf(sid) != vobj {
					for _, dc := range definingIndexLookups(u, sid) {
						if fieldOf(info, dc.X) == onm && dc.Pos() > relock.Pos() {
							return true
						}
					}
				}
				return false
			}
			// being overwritten is not a use
			isLHS := false
			for _, anc := range pathTo(u.Decl.Body, id) {
				if as, ok := anc.(*ast.AssignStmt); ok {
					for _, l := range as.Lhs {
						if l == ast.Expr(id) {
							isLHS = true
						}
					}
				}
			}
			if isLHS {
				return true
			}
			// the comparison with a fresh lookup itself
			validated := false
			for _, anc := range pathTo(u.Decl.Body, id) {
				if be, ok := anc.(*ast.BinaryExpr); ok && (be.Op == token.EQL || be.Op == token.NEQ) {
					for _, side := range []ast.Expr{be.X, be.Y} {
						if isFresh(side) {
							validated = true
						}
					}
				}
			}
			for _, g := range flattenGuards(GuardsOf(info, u.Decl.Body, id)) {
				if be, ok := ast.Unparen(g.Cond).(*ast.BinaryExpr); ok && g.Pos && be.Op == token.EQL {
					for _, side := range []ast.Expr{be.X, be.Y} {
						if isFresh(side) {
							validated = true
						}
					}
				}
			}
			if !validated {
				bad = posOf(p, id)
			}
			return true
		})
		if bad == "" {
			r.ok(construct, posOf(p, relock), "only under `operationsNameMap[name] == o`")
		} else {
			r.bad(c.Prop, construct, bad, "the operation read before the scheduler lock was released is used after re-locking without checking that it is still registered: a removed operation is resurrected, and when that waiter leaves the shared task is cancelled under another client")
		}
	}
	return r
}

// c07RemoveAtZero: a statistics handle leaves the store only when nobody uses it.
func c07RemoveAtZero(c *Ctx) *RuleResult {
	r := &RuleResult{Rule: "C07.remove-at-zero", Floor: 2,
		Doc: "a later update is never overwritten or dropped: a handle is removed from the store's map, or queued for writing, only under useCount == 0 -- in the function that does it or at every one of its call sites (write-completion callbacks included)"}
	p := c.P
	units := p.UnitsIn("pkg/blobstore")
	uc := p.LookupField("pkg/blobstore", "blobAccessMutableProtoHandle", "useCount")
	handles := p.LookupField("pkg/blobstore", "blobAccessMutableProtoStore", "handles")
	htw := p.LookupField("pkg/blobstore", "blobAccessMutableProtoStore", "handlesToWrite")
	zeroGuard := func(u *FuncUnit, n ast.Node) bool {
		for _, g := range flattenGuards(GuardsOf(u.Info(), u.Decl.Body, n)) {
			be, ok := ast.Unparen(g.Cond).(*ast.BinaryExpr)
			if ok && g.Pos && be.Op == token.EQL && exprStr(be.Y) == "0" && fieldOfGeneric(u.Info(), be.X, uc) {
				return true
			}
		}
		return false
	}
	check := func(w Site, what string) {
		u := w.Unit
		construct := constructOf(u, what)
		okG := zeroGuard(u, w.Node)
		if !okG {
			sites := callSitesOfGeneric(units, u)
			okG = len(sites) > 0
			for _, s := range sites {
				if !zeroGuard(s.Unit, s.Node) {
					okG = false
				}
			}
		}
		if okG {
			r.ok(construct, posOf(p, w.Node), "only when the use count is zero")
		} else {
			r.bad(c.Prop, construct, posOf(p, w.Node), "a handle can be dropped from the store (or queued) while a request still holds it: a concurrent request for the same digest gets a second, independent handle and one of the recorded outcomes is overwritten")
		}
	}
	for _, u := range units {
		info := u.Info()
		ast.Inspect(u.Decl.Body, func(n ast.Node) bool {
			switch x := n.(type) {
			case *ast.CallExpr:
				if id, ok := ast.Unparen(x.Fun).(*ast.Ident); ok && id.Name == "delete" && len(x.Args) == 2 && fieldOfGeneric(info, x.Args[0], handles) {
					check(Site{Unit: u, Node: x}, "delete(handles)")
				}
			case *ast.AssignStmt:
				if len(x.Lhs) == 1 && len(x.Rhs) == 1 && fieldOfGeneric(info, x.Lhs[0], htw) && strings.HasPrefix(exprStr(x.Rhs[0]), "append(") {
					check(Site{Unit: u, Node: x}, "queue for write")
				}
			}
			return true
		})
	}
	return r
}

// fieldOfGeneric compares a selector's field with f by origin (generic receiver types).
func fieldOfGeneric(info *types.Info, e ast.Expr, f *types.Var) bool {
	g := fieldOf(info, e)
	return g != nil && (g == f || g.Origin() == f.Origin() || (g.Name() == f.Name() && g.Pos() == f.Pos()))
}

// callSitesOfGeneric: static call sites of u.Fn, also through instantiated generic methods.
func callSitesOfGeneric(units []*FuncUnit, u *FuncUnit) []Site {
	var out []Site
	for _, x := range units {
		info := x.Info()
		ast.Inspect(x.Decl.Body, func(n ast.Node) bool {
			if call, ok := n.(*ast.CallExpr); ok {
				if fn := calleeOf(info, call); fn != nil && (fn == u.Fn || fn.Origin() == u.Fn.Origin()) {
					out = append(out, Site{Unit: x, Node: call})
				}
			}
			return true
		})
	}
	return out
}

// c07TimeoutNonNegative: the action's timeout is within [0, max].
func c07TimeoutNonNegative(c *Ctx) *RuleResult {
	r := &RuleResult{Rule: "C07.timeout-range", Floor: 1,
		Doc: "every timeout handed out lies between zero and the action's own: the extractor that reads the action's timeout rejects it when it is negative as well as when it exceeds the maximum (both comparisons guard the error return)"}
	p := c.P
	u := p.Unit("pkg/scheduler/initialsizeclass", "ActionTimeoutExtractor.ExtractTimeout")
	neg, max := false, false
	info := u.Info()
	isZero := func(e ast.Expr) bool {
		tv, ok := info.Types[e]
		return ok && tv.Value != nil && tv.Value.ExactString() == "0"
	}
	bodies := []ast.Node{u.Decl.Body}
	for fn := range staticReach(p, []ast.Node{u.Decl.Body}, info) {
		if fd := p.Decl(fn); fd != nil && fn.Pkg() == u.Fn.Pkg() {
			bodies = append(bodies, fd.Body)
			_ = p.InfoFor(fd)
		}
	}
	inspectAll := func(f func(ast.Node) bool) {
		for _, b := range bodies {
			ast.Inspect(b, f)
		}
	}
	inspectAll(func(n ast.Node) bool {
		be, ok := n.(*ast.BinaryExpr)
		if !ok {
			return true
		}
		switch be.Op {
		case token.LSS, token.GTR, token.LEQ, token.GEQ:
			if isZero(be.X) || isZero(be.Y) {
				neg = true
			}
			if strings.Contains(exprStr(be.X), "maximumExecutionTimeout") || strings.Contains(exprStr(be.Y), "maximumExecutionTimeout") {
				max = true
			}
		}
		return true
	})
	construct := constructOf(u, "range check")
	if neg && max {
		r.ok(construct, posOf(p, u.Decl), "rejects < 0 and > maximum")
	} else {
		r.bad(c.Prop, construct, posOf(p, u.Decl), fmt.Sprintf("the action's timeout is not checked against both ends of [0, maximum] (negative rejected: %v, too large rejected: %v): a negative timeout flows into every selected timeout", neg, max))
	}
	return r
}

// ---------------------------------------------------------------- worker

// c08UpdatesFromCallingGoroutine: all updates are delivered before Execute returns.
func c08UpdatesFromCallingGoroutine(c *Ctx) *RuleResult {
	r := &RuleResult{Rule: "C08.updates-before-return", Floor: 1,
		Doc: "every report describes the action actually running: a BuildExecutor decorator forwards updates on the caller's channel only from the goroutine that returns from Execute (never from a `go` literal that can outlive the call and deliver a stale update after -- or into the closed channel following -- the completion)"}
	p := c.P
	for _, u := range p.UnitsIn(builderPkg) {
		if u.Fn.Name() != "Execute" || u.Decl.Recv == nil {
			continue
		}
		info := u.Info()
		chParam := ""
		sig := u.Fn.Type().(*types.Signature)
		for i := 0; i < sig.Params().Len(); i++ {
			if ch, ok := sig.Params().At(i).Type().Underlying().(*types.Chan); ok && ch.Dir() == types.SendOnly {
				chParam = sig.Params().At(i).Name()
			}
		}
		if chParam == "" {
			continue
		}
		n := 0
		ast.Inspect(u.Decl.Body, func(m ast.Node) bool {
			ss, ok := m.(*ast.SendStmt)
			if !ok || exprStr(ss.Chan) != chParam {
				return true
			}
			n++
			construct := constructOf(u, "send on "+chParam)
			inGo := false
			for _, anc := range pathTo(u.Decl.Body, ss) {
				if gs, ok := anc.(*ast.GoStmt); ok {
					_ = gs
					inGo = true
				}
			}
			if inGo {
				r.bad(c.Prop, construct, posOf(p, ss), "updates are forwarded from a separate goroutine that Execute does not wait for: a progress report can be delivered after the completion was published (overwriting it) or into the channel the client closes right after Execute returns")
			} else {
				r.ok(construct, posOf(p, ss), "sent from the goroutine that returns")
			}
			_ = info
			return true
		})
	}
	return r
}

// uploadStoresGeneral extends C09.upload-stores to the virtual file system's upload.
func c09UploadStoresVirtual(c *Ctx) *RuleResult {
	r := &RuleResult{Rule: "C09.upload-stores-virtual", Floor: 1,
		Doc: "the ActionResult only references blobs that were stored: every successful return of a pool-backed file's upload passes a Put on the Content Addressable Storage (no shortcut for empty files)"}
	p := c.P
	for _, u := range p.UnitsIn(virtualPkg) {
		if u.Fn.Name() != "uploadFile" || u.Decl.Recv == nil {
			continue
		}
		info := u.Info()
		isPut := func(n ast.Node) bool {
			call, ok := n.(*ast.CallExpr)
			if !ok {
				return false
			}
			sel, ok := ast.Unparen(call.Fun).(*ast.SelectorExpr)
			return ok && sel.Sel.Name == "Put"
		}
		g := NewFuncCFG(info, u.Decl.Body)
		construct := constructOf(u, "success implies stored")
		bad := ""
		ast.Inspect(u.Decl.Body, func(n ast.Node) bool {
			ret, ok := n.(*ast.ReturnStmt)
			if !ok || enclosingFuncLit(u.Decl.Body, ret) != nil || !lastResultIsNil(ret) {
				return true
			}
			if reach, _ := g.reachableFrom(0, 0, ret, isPut); reach {
				bad = posOf(p, ret)
			}
			return true
		})
		if bad == "" {
			r.ok(construct, posOf(p, u.Decl), "every successful return passes a CAS write")
		} else {
			r.bad(c.Prop, construct, bad, "the upload can report a digest successfully without having written the contents to the Content Addressable Storage")
		}
	}
	return r
}

// c09UploadErrorsSaved: every failed upload of an output is recorded.
func c09UploadErrorsSaved(c *Ctx) *RuleResult {
	r := &RuleResult{Rule: "C09.upload-errors-saved", Floor: 2,
		Doc: "if any storage write fails the response carries an error: in the output-uploading state, the error of every UploadFile call is passed to saveError on the branch where it is non-nil, conditioned on nothing else (in particular not on its status code)"}
	p := c.P
	for _, u := range p.UnitsIn(builderPkg) {
		if u.Decl.Recv == nil || !strings.HasPrefix(recvTypeName(u), "uploadOutput") {
			continue
		}
		info := u.Info()
		ast.Inspect(u.Decl.Body, func(n ast.Node) bool {
			as, ok := n.(*ast.AssignStmt)
			if !ok || len(as.Rhs) != 1 {
				return true
			}
			call, ok := ast.Unparen(as.Rhs[0]).(*ast.CallExpr)
			if !ok {
				return true
			}
			sel, ok := ast.Unparen(call.Fun).(*ast.SelectorExpr)
			if !ok || sel.Sel.Name != "UploadFile" {
				return true
			}
			errName := exprStr(as.Lhs[len(as.Lhs)-1])
			construct := constructOf(u, "UploadFile error saved")
			saved, extra := false, ""
			ast.Inspect(u.Decl.Body, func(m ast.Node) bool {
				sc, ok := m.(*ast.CallExpr)
				if !ok || sc.Pos() < call.Pos() {
					return true
				}
				ss, ok := ast.Unparen(sc.Fun).(*ast.SelectorExpr)
				if !ok || ss.Sel.Name != "saveError" || len(sc.Args) != 1 || !mentionsIdent(sc.Args[0], errName) {
					return true
				}
				saved = true
				for _, g := range flattenGuards(GuardsOf(info, u.Decl.Body, sc)) {
					if guardErrNotNil(info, g, errName) || guardErrIsNil(info, g, errName) {
						continue
					}
					if mentionsIdent(g.Cond, errName) {
						extra = g.String()
					}
				}
				return true
			})
			if saved && extra == "" {
				r.ok(construct, posOf(p, call), "saved whenever non-nil")
			} else {
				r.bad(c.Prop, construct, posOf(p, call), "a failed upload of an output is not always recorded (saved: "+fmt.Sprint(saved)+", extra condition: "+extra+"): the response stays OK and an incomplete result reaches the Action Cache")
			}
			return true
		})
	}
	return r
}

// c10RootAlwaysTraversed: the output hierarchy is always walked.
func c10RootAlwaysTraversed(c *Ctx) *RuleResult {
	r := &RuleResult{Rule: "C10.root-traversed", Floor: 1,
		Doc: "the ActionResult lists all declared outputs that exist: every returning path of OutputHierarchy.UploadOutputs passes the traversal of the root output node (also when the input root itself is an output directory)"}
	p := c.P
	u := p.Unit(builderPkg, "OutputHierarchy.UploadOutputs")
	info := u.Info()
	walk := p.LookupFunc(builderPkg, "outputNode.uploadOutputs")
	_ = info
	construct := constructOf(u, "root traversal on every path")
	if mustPass(p.UnitsIn(builderPkg), func(x *FuncUnit, n ast.Node) bool {
		call, ok := n.(*ast.CallExpr)
		return ok && calleeOf(x.Info(), call) == walk && x.Fn != walk
	})[u.Fn] {
		r.ok(construct, posOf(p, u.Decl), "always walks the hierarchy")
	} else {
		r.bad(c.Prop, construct, posOf(p, u.Decl), "some path returns without walking the output hierarchy: declared outputs other than the root directory are silently missing from the ActionResult")
	}
	return r
}

// c10UploadBounded: the bytes uploaded are the bytes hashed.
func c10UploadBounded(c *Ctx) *RuleResult {
	r := &RuleResult{Rule: "C10.upload-bounded", Floor: 1,
		Doc: "the content digest reported for an output file is that of the bytes stored for it: the native build directory uploads exactly the extent it hashed -- the length given to the section reader is the same value the digest generator was created with"}
	p := c.P
	u := p.Unit(builderPkg, "naiveBuildDirectory.UploadFile")
	var genArg, readArg string
	var readCall ast.Node
	ast.Inspect(u.Decl.Body, func(n ast.Node) bool {
		call, ok := n.(*ast.CallExpr)
		if !ok {
			return true
		}
		if sel, ok := ast.Unparen(call.Fun).(*ast.SelectorExpr); ok && sel.Sel.Name == "NewGenerator" && len(call.Args) == 1 {
			genArg = exprStr(call.Args[0])
		}
		if id, ok := ast.Unparen(call.Fun).(*ast.Ident); ok && strings.Contains(id.Name, "SectionReadCloser") && len(call.Args) == 3 {
			readArg = exprStr(call.Args[2])
			readCall = call
		}
		return true
	})
	if genArg == "" {
		// the hashing sits in a helper: NewGenerator(<parameter>) there, the argument here
		info := u.Info()
		ast.Inspect(u.Decl.Body, func(n ast.Node) bool {
			call, ok := n.(*ast.CallExpr)
			if !ok {
				return true
			}
			hu := p.UnitOf(calleeOf(info, call))
			if hu == nil || hu.Fn.Pkg() != u.Fn.Pkg() {
				return true
			}
			sig := hu.Fn.Type().(*types.Signature)
			ast.Inspect(hu.Decl.Body, func(m ast.Node) bool {
				hc, ok := m.(*ast.CallExpr)
				if !ok || len(hc.Args) != 1 {
					return true
				}
				if sel, ok := ast.Unparen(hc.Fun).(*ast.SelectorExpr); ok && sel.Sel.Name == "NewGenerator" {
					if id, ok := ast.Unparen(hc.Args[0]).(*ast.Ident); ok {
						for i := 0; i < sig.Params().Len() && i < len(call.Args); i++ {
							if hu.Info().ObjectOf(id) == sig.Params().At(i) {
								genArg = exprStr(call.Args[i])
							}
						}
					}
				}
				return true
			})
			return true
		})
	}
	construct := constructOf(u, "hashed extent = uploaded extent")
	if genArg != "" && genArg == readArg {
		r.ok(construct, posOf(p, readCall), "both use "+genArg)
	} else {
		r.bad(c.Prop, construct, posOf(p, u.Decl), fmt.Sprintf("the digest is computed over %q but the upload reads %q: when the file grows in between (stdout/stderr logs) the stored bytes do not match the digest and the output is dropped with an error", genArg, readArg))
	}
	return r
}

// c11ResumeOnce: the clock is resumed exactly once per suspension.
func c11ResumeOnce(c *Ctx) *RuleResult {
	r := &RuleResult{Rule: "C11.resume-once", Floor: 2,
		Doc: "time during which the worker waits for storage is excluded exactly: the buffer completion handler resumes the clock in Done only (OnError is followed by Done), and SuspendableClock.Resume decrements unconditionally after panicking on an unmatched call (it does not silently absorb a double resume)"}
	p := c.P
	doneFn := p.LookupFunc("pkg/blobstore", "resumingErrorHandler.Done")
	handlerType := func(fn *types.Func) *types.TypeName {
		sig := fn.Type().(*types.Signature)
		if sig.Recv() == nil {
			return nil
		}
		t := sig.Recv().Type()
		if pt, ok := t.(*types.Pointer); ok {
			t = pt.Elem()
		}
		if nt, ok := t.(*types.Named); ok {
			return nt.Obj()
		}
		return nil
	}
	for _, u := range p.UnitsIn("pkg/blobstore") {
		if u.Decl.Recv == nil || handlerType(u.Fn) != handlerType(doneFn) {
			continue
		}
		info := u.Info()
		resumes := false
		ast.Inspect(u.Decl.Body, func(n ast.Node) bool {
			if call, ok := n.(*ast.CallExpr); ok {
				if sel, ok := ast.Unparen(call.Fun).(*ast.SelectorExpr); ok && sel.Sel.Name == "Resume" {
					if tv, ok := info.Types[sel.X]; ok && namedIs(tv.Type, modPath+"/"+clockPkg, "Suspendable") {
						resumes = true
					}
				}
			}
			return true
		})
		construct := constructOf(u, "resumes")
		switch {
		case u.Fn == doneFn && resumes, u.Fn != doneFn && !resumes:
			r.ok(construct, posOf(p, u.Decl), fmt.Sprint(resumes))
		case u.Fn == doneFn:
			r.bad(c.Prop, construct, posOf(p, u.Decl), "Done no longer resumes the clock")
		default:
			r.bad(c.Prop, construct, posOf(p, u.Decl), "the clock is resumed in "+u.Fn.Name()+" as well as in Done: after a failed read it is resumed twice, ending another (still stalled) read's suspension")
		}
	}
	ru := p.Unit("pkg/clock", "SuspendableClock.Resume")
	info := ru.Info()
	sc := p.LookupField("pkg/clock", "SuspendableClock", "suspensionCount")
	{
		construct := constructOf(ru, "decrement")
		writes := map[ast.Node]bool{}
		for _, w := range FieldWrites([]*FuncUnit{ru}, sc, false) {
			writes[w.Node] = true
		}
		g := NewFuncCFG(info, ru.Decl.Body)
		if len(writes) > 0 && g.EveryPathPasses(func(n ast.Node) bool { return writes[n] }) {
			r.ok(construct, posOf(p, ru.Decl), "every returning path lowers the count (an unmatched call panics)")
		} else {
			r.bad(c.Prop, construct, posOf(p, ru.Decl), "Resume tolerates being called more often than Suspend (a path returns without lowering the count): an extra resume ends the suspension of another read that is still stalled, whose stall is then charged to the action")
		}
	}
	return r
}

// c12CleanAlwaysInvokes: every idle transition is cleaned.
func c12CleanAlwaysInvokes(c *Ctx) *RuleResult {
	r := &RuleResult{Rule: "C12.clean-invokes", Floor: 1,
		Doc: "cleaning runs exactly at the transitions between 'no action running' and 'some action running', whatever ended the action: IdleInvoker.clean invokes the cleaner function on every returning path (it does not skip it, e.g. for a cancelled context)"}
	p := c.P
	u := p.Unit("pkg/cleaner", "IdleInvoker.clean")
	info := u.Info()
	ff := p.LookupField("pkg/cleaner", "IdleInvoker", "f")
	_ = info
	construct := constructOf(u, "cleaner invoked on every path")
	if mustPass(p.UnitsIn("pkg/cleaner"), func(x *FuncUnit, n ast.Node) bool {
		call, ok := n.(*ast.CallExpr)
		return ok && fieldOf(x.Info(), call.Fun) == ff
	})[u.Fn] {
		r.ok(construct, posOf(p, u.Decl), "always")
	} else {
		r.bad(c.Prop, construct, posOf(p, u.Decl), "clean() can return without having run the cleaner: the transition to 'idle' after a cancelled or timed-out action leaves its processes/files behind for the next action")
	}
	return r
}

// c13DeleteSelfNotOnReceiver / c13DeletableGuard
func c13RemovalRules(c *Ctx) *RuleResult {
	r := &RuleResult{Rule: "C13.removal-rules", Floor: 3,
		Doc: "rename and remove obey the emptiness rules and a directory that stays linked keeps accepting entries: (a) no method empties its OWN receiver with delete-self = true unless it forwards its caller's choice (only detached directories are deleted that way); (b) every markDeleted on another directory is preceded by the isDeletable check of that directory's contents, which knows about hidden files"}
	p := c.P
	units := p.UnitsIn(virtualPkg)
	fnRAC := p.LookupFunc(virtualPkg, "inMemoryPrepopulatedDirectory.RemoveAllChildren")
	fnrac := p.LookupFunc(virtualPkg, "inMemoryPrepopulatedDirectory.removeAllChildren")
	fnMark := p.LookupFunc(virtualPkg, "inMemoryPrepopulatedDirectory.markDeleted")
	fnDeletable := p.LookupFunc(virtualPkg, "inMemoryDirectoryContents.isDeletable")
	recvNamed := func(fn *types.Func) *types.TypeName {
		t := fn.Type().(*types.Signature).Recv().Type()
		if pt, ok := t.(*types.Pointer); ok {
			t = pt.Elem()
		}
		return t.(*types.Named).Obj()
	}
	for _, u := range units {
		if u.Decl.Recv == nil || len(u.Decl.Recv.List[0].Names) == 0 || recvNamed(u.Fn) != recvNamed(fnMark) {
			continue
		}
		info := u.Info()
		recv := u.Decl.Recv.List[0].Names[0].Name
		ast.Inspect(u.Decl.Body, func(n ast.Node) bool {
			call, ok := n.(*ast.CallExpr)
			if !ok {
				return true
			}
			sel, ok := ast.Unparen(call.Fun).(*ast.SelectorExpr)
			if !ok {
				return true
			}
			switch callee := calleeOf(info, call); {
			case callee == nil:
			case callee == fnRAC || callee == fnrac:
				if len(call.Args) == 1 && exprStr(sel.X) == recv {
					construct := constructOf(u, sel.Sel.Name+"("+exprStr(call.Args[0])+") on the receiver")
					if exprStr(call.Args[0]) == "true" {
						r.bad(c.Prop, construct, posOf(p, call), "a directory that is still linked into its parent empties itself with delete-self = true: it stays visible but refuses every new entry")
					} else {
						r.ok(construct, posOf(p, call), "does not delete itself")
					}
				}
			case callee == fnMark:
				if exprStr(sel.X) == recv {
					return true
				}
				construct := constructOf(u, "markDeleted on "+exprStr(sel.X))
				okG := false
				for _, g := range flattenGuards(GuardsOf(info, u.Decl.Body, call)) {
					if gc, ok := ast.Unparen(g.Cond).(*ast.CallExpr); ok && g.Pos {
						if calleeOf(info, gc) == fnDeletable {
							okG = true
						}
					}
				}
				if okG {
					r.ok(construct, posOf(p, call), "after isDeletable")
				} else {
					r.bad(c.Prop, construct, posOf(p, call), "a directory is removed without the emptiness check that ignores hidden files (isDeletable): rmdir through the kernel-facing API disagrees with the worker-facing one and with what a listing shows")
				}
			}
			return true
		})
	}
	return r
}

// c15WriteSizeFromCount: the block-device file's size follows the bytes written.
func c15WriteSizeFromCount(c *Ctx) *RuleResult {
	r := &RuleResult{Rule: "C15.size-after-partial-write", Floor: 1,
		Doc: "reads return the most recently written bytes: in the block-device backed file's WriteAt the size is extended according to the number of bytes written also when the write ends with an error after a partial write (the size update is not conditioned on err == nil)"}
	p := c.P
	u := p.Unit(poolPkg, "blockDeviceBackedFile.WriteAt")
	info := u.Info()
	sz := p.LookupField(poolPkg, "blockDeviceBackedFile", "sizeBytes")
	n := 0
	for _, w := range FieldWrites([]*FuncUnit{u}, sz, false) {
		n++
		construct := constructOf(u, "sizeBytes update")
		bad := ""
		for _, g := range flattenGuards(GuardsOf(info, u.Decl.Body, w.Node)) {
			if guardErrIsNil(info, g, "") {
				bad = g.String()
			}
		}
		if bad == "" {
			r.ok(construct, posOf(p, w.Node), "also after a partial write that ended in an error")
		} else {
			r.bad(c.Prop, construct, posOf(p, w.Node), "the size is only extended when "+bad+": bytes of a short write are linked into the file but unreadable, and reappear when the file is grown later")
		}
	}
	if n == 0 {
		r.bad(c.Prop, constructOf(u, "sizeBytes update"), posOf(p, u.Decl), "WriteAt never extends the file size")
	}
	return r
}

// ---------------------------------------------------------------- VFS / NFS

// c16FrozenRules: each frozen reader gives back its own reference; writers re-test after waking.
func c16FrozenRules(c *Ctx) *RuleResult {
	r := &RuleResult{Rule: "C16.frozen-protocol", Floor: 2,
		Doc: "storage is released when the last reference disappears and writers never overlap an upload: closing a frozen reader releases ITS reference unconditionally (not only when it is the last frozen reader), and lockMutatingData waits for frozen readers in a loop that re-tests the count after every wake-up"}
	p := c.P
	cl := p.Unit(virtualPkg, "frozenFileBackedFile.Close")
	rel := p.LookupFunc(virtualPkg, "fileBackedFile.releaseReferencesLocked")
	{
		info := cl.Info()
		construct := constructOf(cl, "release own reference")
		_ = info
		relUnits := []*FuncUnit{cl}
		for fn := range staticReach(p, []ast.Node{cl.Decl.Body}, info) {
			if hu := p.UnitOf(fn); hu != nil && fn != rel {
				relUnits = append(relUnits, hu)
			}
		}
		if mustPass(relUnits, func(x *FuncUnit, n ast.Node) bool {
			call, ok := n.(*ast.CallExpr)
			return ok && calleeOf(x.Info(), call) == rel
		})[cl.Fn] {
			r.ok(construct, posOf(p, cl.Decl), "on every returning path")
		} else {
			r.bad(c.Prop, construct, posOf(p, cl.Decl), "a frozen reader can be closed without giving its reference back (e.g. only the last frozen reader does): with overlapping uploads the backing storage is never released")
		}
	}
	lm := p.Unit(virtualPkg, "fileBackedFile.lockMutatingData")
	info := lm.Info()
	fdc := p.LookupField(virtualPkg, "fileBackedFile", "frozenDescriptorsCount")
	n := 0
	ast.Inspect(lm.Decl.Body, func(m ast.Node) bool {
		ue, ok := m.(*ast.UnaryExpr)
		if !ok || ue.Op != token.ARROW {
			return true
		}
		n++
		construct := constructOf(lm, "wait re-tests")
		inLoop := false
		for _, anc := range pathTo(lm.Decl.Body, ue) {
			if fs, ok := anc.(*ast.ForStmt); ok {
				mentions := false
				ast.Inspect(fs, func(k ast.Node) bool {
					if e, ok := k.(ast.Expr); ok && fieldOf(info, e) == fdc {
						mentions = true
					}
					return true
				})
				if mentions {
					inLoop = true
				}
			}
		}
		if inLoop {
			r.ok(construct, posOf(p, ue), "inside a loop that tests frozenDescriptorsCount")
		} else {
			r.bad(c.Prop, construct, posOf(p, ue), "after being woken the writer proceeds without re-testing whether the file was frozen again: it changes the contents between an upload's digest computation and its transfer")
		}
		return true
	})
	if n == 0 {
		r.bad(c.Prop, constructOf(lm, "wait re-tests"), posOf(p, lm.Decl), "lockMutatingData no longer waits for frozen readers")
	}
	return r
}

// c17KeyComplete: cache keys name everything that distinguishes the cached objects.
func c17KeyComplete(c *Ctx) *RuleResult {
	r := &RuleResult{Rule: "C17.key-complete", Floor: 1,
		Doc: "the tree presented is the one named by the digest, however it is explored: every composite literal of a cache key type in pkg/cas sets all fields of the key explicitly (a Tree's root and a Directory with the same digest are different objects)"}
	p := c.P
	for _, u := range p.UnitsIn("pkg/cas") {
		info := u.Info()
		ast.Inspect(u.Decl.Body, func(n ast.Node) bool {
			cl, ok := n.(*ast.CompositeLit)
			if !ok {
				return true
			}
			tv, ok := info.Types[cl]
			if !ok {
				return true
			}
			named, ok := tv.Type.(*types.Named)
			if !ok || !strings.HasSuffix(named.Obj().Name(), "Key") || named.Obj().Pkg() == nil || relPkg(named.Obj().Pkg()) != "pkg/cas" {
				return true
			}
			st, ok := named.Underlying().(*types.Struct)
			if !ok {
				return true
			}
			construct := constructOf(u, named.Obj().Name()+" literal@"+fmt.Sprint(p.Fset.Position(cl.Pos()).Line-p.Fset.Position(u.Decl.Pos()).Line))
			set := map[string]bool{}
			for _, el := range cl.Elts {
				if kv, ok := el.(*ast.KeyValueExpr); ok {
					set[exprStr(kv.Key)] = true
				}
			}
			var missing []string
			for i := 0; i < st.NumFields(); i++ {
				if !set[st.Field(i).Name()] {
					missing = append(missing, st.Field(i).Name())
				}
			}
			if len(missing) == 0 || len(cl.Elts) == st.NumFields() && len(set) == 0 {
				r.ok(construct, posOf(p, cl), "all fields set")
			} else {
				r.bad(c.Prop, construct, posOf(p, cl), "the cache key leaves "+strings.Join(missing, ", ")+" at its zero value: objects that differ in it share a cache slot, so a lookup returns the other object")
			}
			return true
		})
	}
	return r
}

// c18LockOwnerFileUnique / all-or-nothing release
func c18LockOwnerRules(c *Ctx) *RuleResult {
	r := &RuleResult{Rule: "C18.lock-owner-files", Floor: 3,
		Doc: "per (open file, lock-owner) there is ONE lock state, and RELEASE_LOCKOWNER is all-or-nothing: every insertion into a lockOwnerFiles map is preceded on all paths by a lookup in that map or by the creation of the lock-owner in this call (the variable tested for nil before inserting is assigned on every path); and no return of NFS4ERR_LOCKS_HELD is reachable after state has been removed in the same function"}
	p := c.P
	units := p.UnitsIn(nfsPkg)
	for _, tn := range []string{"nfs40OpenOwnerFileState", "nfs41OpenOwnerFileState"} {
		f := p.LookupField(nfsPkg, tn, "lockOwnerFiles")
		// looked(u, at, key): on every path of u to `at` an existing record was looked up, or the
		// key was created in this call
		var looked func(u *FuncUnit, at ast.Node, key ast.Expr, depth int) bool
		looked = func(u *FuncUnit, at ast.Node, key ast.Expr, depth int) bool {
			info := u.Info()
			g := NewFuncCFG(info, u.Decl.Body)
			var guardVar types.Object
			for _, gd := range flattenGuards(GuardsOf(info, u.Decl.Body, at)) {
				if x, nonNil, ok := nilTestOf(gd); ok && !nonNil {
					if id, ok := ast.Unparen(x).(*ast.Ident); ok {
						guardVar = info.ObjectOf(id)
					}
				}
			}
			guardStart := token.NoPos
			if guardVar != nil {
				for _, anc := range pathTo(u.Decl.Body, at) {
					if ifs, ok := anc.(*ast.IfStmt); ok && mentionsIdent(ifs.Cond, guardVar.Name()) {
						guardStart = ifs.Pos()
					}
				}
			}
			keyObj := types.Object(nil)
			if kid, ok := ast.Unparen(key).(*ast.Ident); ok {
				keyObj = info.ObjectOf(kid)
			}
			barrier := func(n ast.Node) bool {
				switch x := n.(type) {
				case *ast.AssignStmt:
					if x == at || (guardStart.IsValid() && x.Pos() >= guardStart) {
						return false
					}
					for i, l := range x.Lhs {
						lid, ok := l.(*ast.Ident)
						if !ok {
							continue
						}
						if guardVar != nil && info.ObjectOf(lid) == guardVar {
							return true
						}
						if keyObj != nil && info.ObjectOf(lid) == keyObj && i < len(x.Rhs) {
							if ue, ok := ast.Unparen(x.Rhs[i]).(*ast.UnaryExpr); ok && ue.Op == token.AND {
								if _, isLit := ast.Unparen(ue.X).(*ast.CompositeLit); isLit {
									return true
								}
							}
						}
						// the key comes from a get-or-create helper (its "created" result is not
						// followed: with this shape the clause is only decided up to the helper)
						if keyObj != nil && info.ObjectOf(lid) == keyObj && len(x.Rhs) == 1 {
							if hc, ok := ast.Unparen(x.Rhs[0]).(*ast.CallExpr); ok {
								if hu := p.UnitOf(calleeOf(info, hc)); hu != nil {
									creates := false
									ast.Inspect(hu.Decl.Body, func(m ast.Node) bool {
										if cl, ok := m.(*ast.CompositeLit); ok {
											if tv, ok := hu.Info().Types[cl]; ok && keyObj.Type() != nil && types.Identical(types.NewPointer(tv.Type), keyObj.Type()) {
												creates = true
											}
										}
										return true
									})
									if creates {
										return true
									}
								}
							}
						}
					}
				case *ast.IndexExpr:
					if guardVar == nil && fieldOf(info, x.X) == f && x.Pos() < at.Pos() {
						return true
					}
				case *ast.CallExpr:
					// the lookup sits in a predicate helper
					if guardVar == nil && x.Pos() < at.Pos() {
						if hu := p.UnitOf(calleeOf(info, x)); hu != nil && hu.Fn.Pkg() == u.Fn.Pkg() && hu.Fn != u.Fn {
							reads, writes := false, false
							ast.Inspect(hu.Decl.Body, func(m ast.Node) bool {
								if ix, ok := m.(*ast.IndexExpr); ok && fieldOf(hu.Info(), ix.X) == f {
									reads = true
								}
								return true
							})
							for _, w := range FieldWrites([]*FuncUnit{hu}, f, false) {
								_ = w
								writes = true
							}
							if reads && !writes {
								return true
							}
						}
					}
				}
				return false
			}
			if reach, _ := g.reachableFrom(0, 0, at, barrier); !reach {
				return true
			}
			// a helper that registers the record for its caller: decided at every call site
			if depth > 0 || keyObj == nil {
				return false
			}
			pi := -1
			sig := u.Fn.Type().(*types.Signature)
			for i := 0; i < sig.Params().Len(); i++ {
				if sig.Params().At(i) == keyObj {
					pi = i
				}
			}
			sites := CallsTo(units, u.Fn)
			if pi < 0 || len(sites) == 0 {
				return false
			}
			for _, cs := range sites {
				call := cs.Node.(*ast.CallExpr)
				if pi >= len(call.Args) {
					return false
				}
				var at2 ast.Node = call
				for _, anc := range pathTo(cs.Unit.Decl.Body, call) {
					if st, ok := anc.(*ast.AssignStmt); ok {
						at2 = st
					}
				}
				if !looked(cs.Unit, at2, call.Args[pi], depth+1) {
					return false
				}
			}
			return true
		}
		for _, w := range FieldWrites(units, f, false) {
			as, ok := w.Node.(*ast.AssignStmt)
			if !ok {
				continue
			}
			ix, ok := ast.Unparen(w.Expr).(*ast.IndexExpr)
			if !ok {
				continue
			}
			u := w.Unit
			construct := constructOf(u, "insert into "+tn+".lockOwnerFiles")
			if looked(u, as, ix.Index, 0) {
				r.ok(construct, posOf(p, as), "an existing record is looked up (or the owner is new) on every path")
			} else {
				r.bad(c.Prop, construct, posOf(p, as), "a lock-owner file can be registered without having looked for an existing one: a second LOCK with new_lock_owner for the same owner and file creates a duplicate record that CLOSE never removes, so the file is never closed")
			}
		}
	}
	// all-or-nothing
	for _, u := range units {
		info := u.Info()
		var removes []ast.Node
		ast.Inspect(u.Decl.Body, func(n ast.Node) bool {
			if call, ok := n.(*ast.CallExpr); ok {
				if sel, ok := ast.Unparen(call.Fun).(*ast.SelectorExpr); ok && (sel.Sel.Name == "remove" || sel.Sel.Name == "unlockAndRemove") && len(call.Args) >= 1 {
					if fn := calleeOf(info, call); fn != nil && fn.Pkg() != nil && relPkg(fn.Pkg()) == nfsPkg {
						removes = append(removes, call)
					}
				}
			}
			return true
		})
		if len(removes) == 0 {
			continue
		}
		g := NewFuncCFG(info, u.Decl.Body)
		ast.Inspect(u.Decl.Body, func(n ast.Node) bool {
			ret, ok := n.(*ast.ReturnStmt)
			if !ok || !mentionsSelector(ret, "NFS4ERR_LOCKS_HELD") {
				return true
			}
			construct := constructOf(u, "LOCKS_HELD without side effects")
			bad := false
			for _, rm := range removes {
				if reach, _ := g.ReachableWithout(rm, ret, func(ast.Node) bool { return false }); reach {
					bad = true
				}
			}
			if bad {
				r.bad(c.Prop, construct, posOf(p, ret), "the request is refused with LOCKS_HELD after part of the state has already been removed: state IDs of lock-free files are destroyed (and their files closed) although the client was told nothing happened")
			} else {
				r.ok(construct, posOf(p, ret), "nothing removed before the refusal")
			}
			return true
		})
	}
	return r
}

// c19PolicyTable / transaction lookup
func c19PolicyRules(c *Ctx) *RuleResult {
	r := &RuleResult{Rule: "C19.unconfirmed-policy", Floor: 5,
		Doc: "a request against an open-owner that was never confirmed is rejected without side effects unless it is the OPEN_CONFIRM that confirms it or a new OPEN that replaces it: the 'unconfirmed open-owner' policy passed to startTransaction is Allow only in the OPEN_CONFIRM operation, Reinitialize only in OPEN and Deny everywhere else (as the policy constants document); and the state lookup used by transactions rejects only state IDs that are not registered (a half-closed file must still be found for a retransmitted CLOSE)"}
	p := c.P
	units := p.UnitsIn(nfsPkg)
	st := p.LookupFunc(nfsPkg, "nfs40OpenOwnerState.startTransaction")
	computeTxForwarders(p)
	sites := CallsTo(units, st)
	polIndex := map[ast.Node]int{}
	for fw, m := range txForwarders {
		for pi, ai := range m {
			if ai == 3 {
				for _, cs := range CallsTo(units, fw) {
					sites = append(sites, cs)
					polIndex[cs.Node] = pi
				}
			}
		}
	}
	for _, cs := range sites {
		u := cs.Unit
		call := cs.Node.(*ast.CallExpr)
		pidx, isFw := polIndex[call]
		if !isFw {
			pidx = 3
		}
		if len(call.Args) <= pidx {
			continue
		}
		if _, fw := txForwarders[u.Fn]; fw {
			// the forwarder passes its caller's choice on
			if id, ok := ast.Unparen(call.Args[pidx]).(*ast.Ident); ok {
				if v, ok := u.Info().Uses[id].(*types.Var); ok && isParamOf(u, v) {
					continue
				}
			}
		}
		pol := exprStr(call.Args[pidx])
		op := "other"
		sig := u.Fn.Type().(*types.Signature)
		for i := 0; i < sig.Params().Len(); i++ {
			t := sig.Params().At(i).Type().String()
			switch {
			case strings.HasSuffix(t, ".OpenConfirm4args"):
				op = "OPEN_CONFIRM"
			case strings.HasSuffix(t, ".Open4args"):
				op = "OPEN"
			}
		}
		want := "unconfirmedOpenOwnerPolicyDeny"
		switch op {
		case "OPEN_CONFIRM":
			want = "unconfirmedOpenOwnerPolicyAllow"
		case "OPEN":
			want = "unconfirmedOpenOwnerPolicyReinitialize"
		}
		construct := constructOf(u, "unconfirmed-owner policy")
		if pol == want {
			r.ok(construct+"@"+posOf(p, call), posOf(p, call), op+": "+pol)
		} else {
			r.bad(c.Prop, construct, posOf(p, call), fmt.Sprintf("%s passes %s where the documented policy is %s: a request against an unconfirmed open-owner starts a transaction, which forgets the cached OPEN reply, so a retransmitted OPEN is executed a second time", op, pol, want))
		}
	}
	lu := p.Unit(nfsPkg, "nfs40Program.getOpenOwnerByOtherForTransaction")
	info := lu.Info()
	ast.Inspect(lu.Decl.Body, func(n ast.Node) bool {
		ret, ok := n.(*ast.ReturnStmt)
		if !ok || !mentionsSelector(ret, "NFS4ERR_BAD_STATEID") {
			return true
		}
		construct := constructOf(lu, "BAD_STATEID only when unregistered")
		extra := ""
		for _, g := range flattenGuards(GuardsOf(info, lu.Decl.Body, ret)) {
			if src := guardIdentSource(lu, g); src != nil {
				continue // the comma-ok of the map lookup
			}
			extra = g.String()
		}
		// a disjunction `!ok || X` is not flattened: look at the raw guards too
		for _, g := range GuardsOf(info, lu.Decl.Body, ret) {
			if be, ok := ast.Unparen(g.Cond).(*ast.BinaryExpr); ok && be.Op == token.LOR {
				extra = exprStr(g.Cond)
			}
		}
		if extra == "" {
			r.ok(construct, posOf(p, ret), "only for an unknown state ID")
		} else {
			r.bad(c.Prop, construct, posOf(p, ret), "a registered state ID is rejected under the extra condition "+extra+": the retransmission of a CLOSE (same sequence number and state ID) gets BAD_STATEID instead of the cached reply")
		}
		return true
	})
	return r
}

// c20FileCountBalance: the temporary reference of a new lock-owner is dropped where it was taken.
func c20FileCountBalance(c *Ctx) *RuleResult {
	r := &RuleResult{Rule: "C20.owner-file-count", Floor: 2,
		Doc: "an owner's own locks never block it (ownership is identity, so the owner record must live as long as it has files): the lock-owner's file count is only decremented where a lock-owner file is removed, or -- control-dependent on the creation -- in the branch that created the lock-owner record with its initial count of one (directly, through a pure helper judged at its call sites, or under the 'created' result of a helper that creates it)"}
	p := c.P
	units := p.UnitsIn(nfsPkg)
	fc := p.LookupField(nfsPkg, "nfs41LockOwnerState", "fileCount")
	lof := p.LookupField(nfsPkg, "nfs41OpenOwnerFileState", "lockOwnerFiles")
	isLit := func(info *types.Info, n ast.Node) bool {
		found := false
		ast.Inspect(n, func(m ast.Node) bool {
			if cl, ok := m.(*ast.CompositeLit); ok {
				if tv, ok := info.Types[cl]; ok && namedIs(tv.Type, modPath+"/"+nfsPkg, "nfs41LockOwnerState") {
					found = true
				}
			}
			return true
		})
		return found
	}
	removes := func(u *FuncUnit) bool {
		for _, w := range FieldWrites([]*FuncUnit{u}, lof, false) {
			if _, isDel := w.Node.(*ast.CallExpr); isDel {
				return true
			}
		}
		return false
	}
	// direct decrements: <x>.fileCount.decrease()
	type event struct {
		u    *FuncUnit
		node ast.Node
	}
	var events []event
	helpers := map[*types.Func]bool{}
	for _, u := range units {
		info := u.Info()
		ast.Inspect(u.Decl.Body, func(n ast.Node) bool {
			call, ok := n.(*ast.CallExpr)
			if !ok {
				return true
			}
			sel, ok := ast.Unparen(call.Fun).(*ast.SelectorExpr)
			if !ok || sel.Sel.Name != "decrease" || fieldOf(info, sel.X) != fc {
				return true
			}
			if !removes(u) && !isLit(info, u.Decl.Body) {
				helpers[u.Fn] = true // judged where it is called
				r.ok(constructOf(u, "decrement helper"), posOf(p, call), "pure helper; judged at its call sites")
				return true
			}
			events = append(events, event{u, call})
			return true
		})
	}
	for _, u := range units {
		info := u.Info()
		ast.Inspect(u.Decl.Body, func(n ast.Node) bool {
			if call, ok := n.(*ast.CallExpr); ok {
				if fn := calleeOf(info, call); fn != nil && helpers[fn] {
					events = append(events, event{u, call})
				}
			}
			return true
		})
	}
	for _, ev := range events {
		u := ev.u
		info := u.Info()
		construct := constructOf(u, "file count decrement")
		okE := removes(u)
		if !okE {
			for _, anc := range pathTo(u.Decl.Body, ev.node) {
				ifs, ok := anc.(*ast.IfStmt)
				if !ok {
					continue
				}
				// the branch holding the decrement
				var branch ast.Node
				if ifs.Body.Pos() <= ev.node.Pos() && ev.node.End() <= ifs.Body.End() {
					branch = ifs.Body
				} else if ifs.Else != nil && ifs.Else.Pos() <= ev.node.Pos() && ev.node.End() <= ifs.Else.End() {
					branch = ifs.Else
				}
				if branch == nil {
					continue
				}
				if isLit(info, branch) {
					okE = true
				}
				// `los, created := helper(...)`; if created { defer ... }
				ast.Inspect(ifs.Cond, func(m ast.Node) bool {
					id, ok := m.(*ast.Ident)
					if !ok {
						return true
					}
					for _, src := range definingCalls(u, id) {
						if h := calleeOf(info, src); h != nil && p.Decl(h) != nil && isLit(p.InfoFor(p.Decl(h)), p.Decl(h).Body) {
							okE = true
						}
					}
					return true
				})
			}
		}
		if okE {
			r.ok(construct+"@"+posOf(p, ev.node), posOf(p, ev.node), "paired with a removal / with the creation's initial count")
		} else {
			r.bad(c.Prop, construct, posOf(p, ev.node), "the lock-owner's file count is decremented on a path that neither removes a file nor created the owner with its initial reference: the owner record is dropped while it still holds locks on another file, and a new record (a different identity) is then blocked by its own locks")
		}
	}
	return r
}

// definingCalls: the calls whose (possibly tuple) result is assigned to the variable id denotes.
func definingCalls(u *FuncUnit, id *ast.Ident) []*ast.CallExpr {
	info := u.Info()
	obj := info.ObjectOf(id)
	var out []*ast.CallExpr
	if obj == nil {
		return nil
	}
	ast.Inspect(u.Decl.Body, func(n ast.Node) bool {
		as, ok := n.(*ast.AssignStmt)
		if !ok {
			return true
		}
		for i, l := range as.Lhs {
			lid, ok := l.(*ast.Ident)
			if !ok || info.ObjectOf(lid) != obj {
				continue
			}
			var rhs ast.Expr
			if len(as.Rhs) == 1 {
				rhs = as.Rhs[0]
			} else if i < len(as.Rhs) {
				rhs = as.Rhs[i]
			}
			if call, ok := ast.Unparen(rhs).(*ast.CallExpr); ok {
				out = append(out, call)
			}
		}
		return true
	})
	return out
}

// definingIndexLookups: the map lookups `v, ok := m[k]` / `v := m[k]` that define the variable.
func definingIndexLookups(u *FuncUnit, id *ast.Ident) []*ast.IndexExpr {
	info := u.Info()
	obj := info.ObjectOf(id)
	var out []*ast.IndexExpr
	ast.Inspect(u.Decl.Body, func(n ast.Node) bool {
		as, ok := n.(*ast.AssignStmt)
		if !ok || len(as.Rhs) != 1 || len(as.Lhs) == 0 {
			return true
		}
		if lid, ok := as.Lhs[0].(*ast.Ident); ok && info.ObjectOf(lid) == obj {
			if ix, ok := ast.Unparen(as.Rhs[0]).(*ast.IndexExpr); ok {
				out = append(out, ix)
			}
		}
		return true
	})
	return out
}
