package main

// Rules added after the fourth round of independently seeded changes (DESIGN.md §8.3).

import (
	"fmt"
	"go/ast"
	"go/token"
	"go/types"
	"strings"
)

// ---------------------------------------------------------------- scheduler

// schedEnqueueQueuedOnly: an operation only enters a queue while its task is queued.
func schedEnqueueQueuedOnly(c *Ctx) *RuleResult {
	r := &RuleResult{Rule: c.Prop + ".enqueue-queued-only", Floor: 2,
		Doc: "a task is never both assigned to a worker and in a queue: every call of operation.enqueue is made for a task whose stage is QUEUED at that point -- under a `getStage() == QUEUED` guard (switch case or comparison), or after registerQueuedStageStarted in the same branch of task.schedule"}
	p := c.P
	units := p.UnitsIn(schedPkg)
	enq := p.LookupFunc(schedPkg, "operation.enqueue")
	gs := p.LookupFunc(schedPkg, "task.getStage")
	reg := p.LookupFunc(schedPkg, "task.registerQueuedStageStarted")
	for _, cs := range CallsTo(units, enq) {
		u := cs.Unit
		info := u.Info()
		construct := constructOf(u, "enqueue")
		okG := false
		for _, g := range flattenGuards(GuardsOf(info, u.Decl.Body, cs.Node)) {
			be, ok := ast.Unparen(g.Cond).(*ast.BinaryExpr)
			if !ok || !g.Pos || be.Op != token.EQL {
				continue
			}
			for _, pair := range [][2]ast.Expr{{be.X, be.Y}, {be.Y, be.X}} {
				src := resolveLocalAlias(u, pair[0])
				if call, ok := ast.Unparen(src).(*ast.CallExpr); ok && calleeOf(info, call) == gs && strings.HasSuffix(exprStr(pair[1]), "ExecutionStage_QUEUED") {
					okG = true
				}
			}
		}
		if !okG {
			g := NewFuncCFG(info, u.Decl.Body)
			for _, rc := range CallsTo([]*FuncUnit{u}, reg) {
				if g.Dominates(rc.Node, cs.Node) {
					okG = true
				}
				// enqueue inside `for range t.operations` after the registration in the same block
				for _, anc := range pathTo(u.Decl.Body, cs.Node) {
					if rs, ok := anc.(*ast.RangeStmt); ok && g.Dominates(rc.Node, g.Anchor(rs.X)) {
						okG = true
					}
				}
			}
		}
		if !okG && !u.Fn.Exported() {
			// a helper that enqueues for its caller: judge the places it is called from
			sites := CallsTo(units, u.Fn)
			all := len(sites) > 0
			for _, s := range sites {
				sg := NewFuncCFG(s.Unit.Info(), s.Unit.Decl.Body)
				okS := false
				for _, rc := range CallsTo([]*FuncUnit{s.Unit}, reg) {
					if sg.Dominates(rc.Node, s.Node) {
						okS = true
					}
				}
				for _, g := range flattenGuards(GuardsOf(s.Unit.Info(), s.Unit.Decl.Body, s.Node)) {
					be, ok := ast.Unparen(g.Cond).(*ast.BinaryExpr)
					if ok && g.Pos && be.Op == token.EQL && strings.HasSuffix(exprStr(be.Y), "ExecutionStage_QUEUED") {
						okS = true
					}
				}
				if !okS {
					all = false
				}
			}
			okG = all
		}
		if okG {
			r.ok(construct, posOf(p, cs.Node), "only for a task in the QUEUED stage")
		} else {
			r.bad(c.Prop, construct, posOf(p, cs.Node), "an operation is put into its invocation's queue without the task being known to be in the QUEUED stage: a task that is executing on a worker is also queued, and is handed to a second worker (after completion: a completed task is started)")
		}
	}
	return r
}

// schedNoChangeIdentity: "carry on" is only answered to a worker that runs what it was told to run.
func schedNoChangeIdentity(c *Ctx) *RuleResult {
	r := &RuleResult{Rule: c.Prop + ".no-change-identity", Floor: 1,
		Doc: "Synchronize only tells a worker to carry on with the task it reports when that IS the task assigned to it: in every function that receives the reported action digest, a SynchronizeResponse without a desired state is only built under the digest-equality predicate (proto.Equal(reported, assigned), false without a task)"}
	p := c.P
	for _, u := range p.UnitsIn(schedPkg) {
		info := u.Info()
		hasDigest := false
		sig := u.Fn.Type().(*types.Signature)
		for i := 0; i < sig.Params().Len(); i++ {
			if namedIs(sig.Params().At(i).Type(), "github.com/bazelbuild/remote-apis/build/bazel/remote/execution/v2", "Digest") {
				hasDigest = true
			}
		}
		if !hasDigest {
			continue
		}
		ast.Inspect(u.Decl.Body, func(n ast.Node) bool {
			cl, ok := n.(*ast.CompositeLit)
			if !ok {
				return true
			}
			tv, ok := info.Types[cl]
			if !ok || !namedIs(tv.Type, modPath+"/pkg/proto/remoteworker", "SynchronizeResponse") {
				return true
			}
			if litFieldExpr(cl, "DesiredState") != nil {
				return true
			}
			construct := constructOf(u, "carry-on response")
			okG, _, _ := digestEqualityGuarded(p, u, flattenGuards(GuardsOf(info, u.Decl.Body, cl)))
			if okG {
				r.ok(construct, posOf(p, cl), "only when the reported digest equals the assigned task's")
			} else {
				r.bad(c.Prop, construct, posOf(p, cl), "a worker that reports executing some action is told to carry on without checking that this is the task assigned to it: a worker running a stale (killed, completed) action is never told to execute its real task")
			}
			return true
		})
	}
	return r
}

// schedRearmTime: the worker's removal deadline counts from the end of Synchronize.
func schedRearmTime(c *Ctx) *RuleResult {
	r := &RuleResult{Rule: c.Prop + ".rearm-time", Floor: 1,
		Doc: "a worker is only considered gone when it has not synchronized for the configured time since its LAST synchronization ended: the cleanup that removes a stale worker is scheduled from a deferred function literal, and its deadline is computed from the scheduler's clock inside that literal (i.e. when Synchronize returns, possibly after blocking for a long time), not when Synchronize was entered"}
	p := c.P
	units := p.UnitsIn(schedPkg)
	add := p.LookupFunc(schedPkg, "cleanupQueue.add")
	wk := p.LookupField(schedPkg, "worker", "cleanupKey")
	now := p.LookupField(schedPkg, "InMemoryBuildQueue", "now")
	for _, cs := range CallsTo(units, add) {
		u := cs.Unit
		info := u.Info()
		call := cs.Node.(*ast.CallExpr)
		if len(call.Args) < 2 {
			continue
		}
		ue, ok := ast.Unparen(call.Args[0]).(*ast.UnaryExpr)
		if !ok || fieldOf(info, ue.X) != wk {
			continue
		}
		construct := constructOf(u, "worker cleanup deadline")
		// does the code around a node run when its (blocking) function returns? Inside a deferred
		// literal, or as the call of a defer statement.
		runsAtExit := func(fu *FuncUnit, n ast.Node) bool {
			ok := false
			fl := enclosingFuncLit(fu.Decl.Body, n)
			ast.Inspect(fu.Decl.Body, func(m ast.Node) bool {
				if d, isD := m.(*ast.DeferStmt); isD {
					if fl != nil && ast.Unparen(d.Call.Fun) == ast.Expr(fl) {
						ok = true
					}
					if ast.Node(d.Call) == n {
						ok = true
					}
				}
				return true
			})
			return ok
		}
		canBlock := func(fu *FuncUnit) bool { return paramNameOfType(fu, isContextType) != "" }
		deferred := false
		if canBlock(u) {
			deferred = runsAtExit(u, call)
		} else {
			// a helper: every caller that can block must invoke it at its exit
			sites := CallsTo(units, u.Fn)
			deferred = len(sites) > 0
			for _, s := range sites {
				if canBlock(s.Unit) && !runsAtExit(s.Unit, s.Node) {
					deferred = false
				}
			}
		}
		// the deadline is computed from the scheduler's clock where the add happens (same literal /
		// same helper), not handed in from before
		scope := ast.Node(u.Decl.Body)
		if fl := enclosingFuncLit(u.Decl.Body, call); fl != nil {
			scope = fl.Body
		}
		t := call.Args[1]
		if id, ok := ast.Unparen(t).(*ast.Ident); ok {
			t = nil
			ast.Inspect(scope, func(n ast.Node) bool {
				if as, ok := n.(*ast.AssignStmt); ok && len(as.Lhs) == 1 && exprStr(as.Lhs[0]) == id.Name && len(as.Rhs) == 1 {
					t = as.Rhs[0]
				}
				return true
			})
		}
		inside := false
		// `defer add(key, deadline, ...)`: the arguments are evaluated when the defer statement is
		// reached, i.e. before the function blocks
		argsEarly := false
		ast.Inspect(u.Decl.Body, func(m ast.Node) bool {
			if d, ok := m.(*ast.DeferStmt); ok && d.Call == call {
				argsEarly = true
			}
			return true
		})
		if t != nil && !argsEarly {
			ast.Inspect(t, func(n ast.Node) bool {
				if e, ok := n.(ast.Expr); ok && fieldOf(info, e) == now {
					inside = true
				}
				return true
			})
		}
		if deferred && inside {
			r.ok(construct, posOf(p, call), "computed from the clock when Synchronize returns")
		} else {
			r.bad(c.Prop, construct, posOf(p, call), "the deadline after which the worker is removed as vanished is fixed before Synchronize blocks: a worker that waited for work for longer than the timeout minus the synchronization interval is removed while it is executing the task it was just handed, and the client receives 'worker disappeared' instead of the worker's result")
		}
	}
	return r
}

// schedAllOperations: per-operation transitions are applied to every operation of a task.
func schedAllOperations(c *Ctx) *RuleResult {
	r := &RuleResult{Rule: c.Prop + ".all-operations", Floor: 3,
		Doc: "all clients attached to a task are treated alike: inside a loop over task.operations, the per-operation transition (enqueue, removeQueuedFromInvocation, increment/decrementExecutingWorkersCount) is applied to every operation -- it is not conditioned on anything inside the loop body"}
	p := c.P
	ops := p.LookupField(schedPkg, "task", "operations")
	trans := map[*types.Func]bool{
		p.LookupFunc(schedPkg, "operation.enqueue"):                         true,
		p.LookupFunc(schedPkg, "operation.removeQueuedFromInvocation"):      true,
		p.LookupFunc(schedPkg, "invocation.incrementExecutingWorkersCount"): true,
		p.LookupFunc(schedPkg, "invocation.decrementExecutingWorkersCount"): true,
	}
	for _, u := range p.UnitsIn(schedPkg) {
		info := u.Info()
		ast.Inspect(u.Decl.Body, func(n ast.Node) bool {
			rs, ok := n.(*ast.RangeStmt)
			if !ok || fieldOf(info, rs.X) != ops {
				return true
			}
			ast.Inspect(rs.Body, func(m ast.Node) bool {
				call, ok := m.(*ast.CallExpr)
				if !ok {
					return true
				}
				fn := calleeOf(info, call)
				if fn == nil || !trans[fn] {
					return true
				}
				construct := constructOf(u, fn.Name()+" for every operation")
				gs := flattenGuards(GuardsOf(info, rs.Body, call))
				if len(gs) == 0 {
					r.ok(construct, posOf(p, call), "unconditional inside the loop")
				} else {
					r.bad(c.Prop, construct, posOf(p, call), "the transition is skipped for operations with "+gs[0].String()+" negated: the task's operations end up in different states (one queued, one not), so the bookkeeping of the others breaks when that one is removed")
				}
				return true
			})
			return true
		})
	}
	return r
}

// schedFixAfterUpdate: a heap is re-sorted after, not before, the key changed.
func schedFixAfterUpdate(c *Ctx) *RuleResult {
	r := &RuleResult{Rule: "C04.fix-after-update", Floor: 2,
		Doc: "the child invocation with the lowest score wins: whenever a function recomputes an invocation's ordering key (updateFirstOperationPriority) and re-sorts it in its parent's heap in the same loop body or block, the recomputation comes first"}
	p := c.P
	upd := p.LookupFunc(schedPkg, "invocation.updateFirstOperationPriority")
	qc := p.LookupField(schedPkg, "invocation", "queuedChildren")
	for _, u := range p.UnitsIn(schedPkg) {
		info := u.Info()
		g := NewFuncCFG(info, u.Decl.Body)
		for _, us := range CallsTo([]*FuncUnit{u}, upd) {
			blk := enclosingBlock(u.Decl.Body, enclosingStmt(u.Decl.Body, us.Node))
			if blk == nil {
				continue
			}
			for _, s := range blk {
				ast.Inspect(s, func(m ast.Node) bool {
					call, ok := m.(*ast.CallExpr)
					if !ok || len(call.Args) < 2 {
						return true
					}
					ue, ok := ast.Unparen(call.Args[0]).(*ast.UnaryExpr)
					if !ok || ue.Op != token.AND || fieldOf(info, ue.X) != qc {
						return true
					}
					construct := constructOf(u, "re-sort after priority update")
					if g.Dominates(us.Node, call) {
						r.ok(construct, posOf(p, call), "key recomputed first")
					} else {
						r.bad(c.Prop, construct, posOf(p, call), "the invocation is re-sorted in its parent's heap before its first-queued priority is recomputed: it keeps the rank of the operation that just left, so a sibling with a better score is passed over")
					}
					return true
				})
			}
		}
	}
	return r
}

func enclosingStmt(body *ast.BlockStmt, n ast.Node) ast.Stmt {
	var out ast.Stmt
	for _, anc := range pathTo(body, n) {
		if s, ok := anc.(ast.Stmt); ok {
			if _, isBlk := s.(*ast.BlockStmt); !isBlk {
				if out == nil || enclosingBlock(body, s) != nil {
					out = s
				}
			}
		}
	}
	// the outermost statement that is directly inside a block containing n
	for _, anc := range pathTo(body, n) {
		if s, ok := anc.(ast.Stmt); ok && enclosingBlock(body, s) != nil {
			if _, isBlk := s.(*ast.BlockStmt); !isBlk {
				out = s
			}
		}
	}
	return out
}

// c05TrieRemove: a platform's trie is only dropped when it became empty.
func c05TrieRemove(c *Ctx) *RuleResult {
	r := &RuleResult{Rule: "C05.trie-remove", Floor: 1,
		Doc: "a task is only handed to the worker with the longest registered prefix: removing one (platform, prefix) key drops the whole per-platform trie only when the removal of that prefix reports that the trie became empty -- the delete from Trie.platforms is guarded by the boolean result of the prefix trie's Remove"}
	p := c.P
	pkgRel := "pkg/scheduler/platform"
	plat := p.LookupField(pkgRel, "Trie", "platforms")
	for _, w := range FieldWrites(p.UnitsIn(pkgRel), plat, false) {
		del, ok := w.Node.(*ast.CallExpr)
		if !ok {
			continue
		}
		u := w.Unit
		info := u.Info()
		construct := constructOf(u, "delete(platforms)")
		okG := false
		for _, g := range flattenGuards(GuardsOf(info, u.Decl.Body, del)) {
			src := resolveLocalAlias(u, g.Cond)
			if call, ok := ast.Unparen(src).(*ast.CallExpr); ok && g.Pos {
				if sel, ok := ast.Unparen(call.Fun).(*ast.SelectorExpr); ok && sel.Sel.Name == "Remove" {
					okG = true
				}
			}
		}
		if okG {
			r.ok(construct, posOf(p, del), "only when the prefix trie's Remove reports it is now empty")
		} else {
			r.bad(c.Prop, construct, posOf(p, del), "the per-platform trie is dropped although other prefixes may remain in it: queues registered for sibling or longer prefixes of the same platform disappear from the lookup, and their tasks go to a worker with a shorter prefix")
		}
	}
	return r
}

// swapRemoveOrder: in a swap-remove with index mirrors, the removed element's sentinel is written last.
func swapRemoveOrder(c *Ctx, pkgRel, typeName, fieldName string, r *RuleResult) {
	p := c.P
	f := p.LookupField(pkgRel, typeName, fieldName)
	for _, u := range p.UnitsIn(pkgRel) {
		ws := FieldWrites([]*FuncUnit{u}, f, false)
		var sentinel ast.Node
		var others []ast.Node
		for _, w := range ws {
			if w.RHS != nil && exprStr(w.RHS) == "-1" {
				sentinel = w.Node
			} else if _, ok := w.Node.(*ast.AssignStmt); ok {
				others = append(others, w.Node)
			}
		}
		if sentinel == nil || len(others) == 0 {
			continue
		}
		construct := constructOf(u, "swap-remove of "+fieldName)
		okO := true
		for _, o := range others {
			if o.Pos() > sentinel.Pos() {
				okO = false
			}
		}
		if okO {
			r.ok(construct, posOf(p, sentinel), "the removed element's -1 is written after the moved element's index")
		} else {
			r.bad(c.Prop, construct, posOf(p, sentinel), "the removed element is marked as 'not in the list' (-1) BEFORE the element moved into its slot gets its new index: when both are the same element (it was the last one) it keeps a stale index, so its next insertion is skipped (statistics never written / worker never dequeued)")
		}
	}
}

func c07SwapRemove(c *Ctx) *RuleResult {
	r := &RuleResult{Rule: c.Prop + ".swap-remove-order", Floor: 1,
		Doc: "statistics recorded are eventually written: in every swap-remove on a list whose elements mirror their position (handlesToWrite / handlesToWriteIndex; the idle workers list / listIndex), the removed element's sentinel -1 is written after the moved element's new index, because the two may be the same element"}
	swapRemoveOrder(c, "pkg/blobstore", "blobAccessMutableProtoHandle", "handlesToWriteIndex", r)
	swapRemoveOrder(c, schedPkg, "worker", "listIndex", r)
	return r
}

// ---------------------------------------------------------------- worker

// c08EveryUpdateApplied: what the executor reported is what the worker reports.
func c08EveryUpdateApplied(c *Ctx) *RuleResult {
	r := &RuleResult{Rule: "C08.updates-applied", Floor: 2,
		Doc: "every report describes the action actually running and its completion is reported with its own response: each value received from the execution-updates channel is passed to applyExecutionUpdate on every path of the receiving select case; and applyExecutionUpdate stores every non-nil update in the request, conditioned on nothing but update != nil"}
	p := c.P
	units := p.UnitsIn(builderPkg)
	upd := p.LookupField(builderPkg, "BuildClient", "executionUpdates")
	apply := p.LookupFunc(builderPkg, "BuildClient.applyExecutionUpdate")
	for _, u := range units {
		info := u.Info()
		ast.Inspect(u.Decl.Body, func(n ast.Node) bool {
			cc, ok := n.(*ast.CommClause)
			if !ok || cc.Comm == nil {
				return true
			}
			as, ok := cc.Comm.(*ast.AssignStmt)
			if !ok || len(as.Rhs) != 1 {
				return true
			}
			ue, ok := ast.Unparen(as.Rhs[0]).(*ast.UnaryExpr)
			if !ok || ue.Op != token.ARROW || fieldOf(info, ue.X) != upd {
				return true
			}
			v := exprStr(as.Lhs[0])
			construct := constructOf(u, "received update applied")
			g := NewFuncCFG(info, &ast.BlockStmt{List: cc.Body})
			applied := len(cc.Body) > 0 && g.EveryPathPasses(func(m ast.Node) bool {
				call, ok := m.(*ast.CallExpr)
				return ok && calleeOf(info, call) == apply && len(call.Args) == 1 && (exprStr(call.Args[0]) == v || exprStr(call.Args[0]) == "nil")
			})
			if applied {
				r.ok(construct, posOf(p, cc), "applied in the same case on every path")
			} else {
				r.bad(c.Prop, construct, posOf(p, cc), "an update received from the executor is not applied right away on every path (it is parked in a variable or dropped): a completion that arrives together with the channel being closed is lost and the worker reports a running action for ever")
			}
			return true
		})
	}
	// applyExecutionUpdate itself
	au := p.Unit(builderPkg, "BuildClient.applyExecutionUpdate")
	info := au.Info()
	param := au.Fn.Type().(*types.Signature).Params().At(0).Name()
	n := 0
	ast.Inspect(au.Decl.Body, func(m ast.Node) bool {
		as, ok := m.(*ast.AssignStmt)
		if !ok || len(as.Lhs) != 1 || !strings.HasSuffix(exprStr(as.Lhs[0]), ".WorkerState") || !strings.Contains(exprStr(as.Rhs[0]), "CurrentState_Executing_") {
			return true
		}
		n++
		construct := constructOf(au, "store update")
		bad := ""
		for _, g := range flattenGuards(GuardsOf(info, au.Decl.Body, as)) {
			if x, nonNil, ok := nilTestOf(g); ok && nonNil && exprStr(x) == param {
				continue
			}
			bad = g.String()
		}
		if bad == "" {
			r.ok(construct, posOf(p, as), "every non-nil update is stored")
		} else {
			r.bad(c.Prop, construct, posOf(p, as), "an update is only reported when "+bad+": some completions are discarded, so the scheduler is told the action is still running (and 'prefer being idle' is not set after a failure)")
		}
		return true
	})
	if n == 0 {
		r.bad(c.Prop, constructOf(au, "store update"), posOf(p, au.Decl), "applyExecutionUpdate no longer stores the update in the request")
	}
	return r
}

// c09SharedErrorState: errors found below an output directory reach the caller.
func c09SharedErrorState(c *Ctx) *RuleResult {
	r := &RuleResult{Rule: "C09.shared-error-state", Floor: 1,
		Doc: "a failed upload inside an output directory makes UploadOutputs fail (so the result is not cached): per-directory upload state shares the one uploadOutputsState (embedded by pointer), and no value copy of it is made anywhere, so saveError always records into the state whose error is returned"}
	p := c.P
	obj := p.Pkg(builderPkg).Types.Scope().Lookup("uploadOutputsState")
	if obj == nil {
		panic(anchorError("pkg/builder.uploadOutputsState"))
	}
	target := obj.Type()
	sc := p.Pkg(builderPkg).Types.Scope()
	for _, name := range sc.Names() {
		tn, ok := sc.Lookup(name).(*types.TypeName)
		if !ok {
			continue
		}
		st, ok := tn.Type().Underlying().(*types.Struct)
		if !ok {
			continue
		}
		for i := 0; i < st.NumFields(); i++ {
			f := st.Field(i)
			if !f.Embedded() {
				continue
			}
			if types.Identical(f.Type(), target) {
				r.bad(c.Prop, "builder."+name+"|embeds uploadOutputsState", p.Pos(f.Pos()), "the upload state is embedded by value: errors saved through it land on a private copy, UploadOutputs returns nil, and a truncated result is cached")
			} else if pt, ok := f.Type().(*types.Pointer); ok && types.Identical(pt.Elem(), target) {
				r.ok("builder."+name+"|embeds uploadOutputsState", p.Pos(f.Pos()), "by pointer (shared)")
			}
		}
	}
	for _, u := range p.UnitsIn(builderPkg) {
		info := u.Info()
		ast.Inspect(u.Decl.Body, func(n ast.Node) bool {
			se, ok := n.(*ast.StarExpr)
			if !ok {
				return true
			}
			if tv, ok := info.Types[se]; ok && types.Identical(tv.Type, target) {
				r.bad(c.Prop, constructOf(u, "copy of uploadOutputsState"), posOf(p, se), "the upload state is copied by value")
			}
			return true
		})
	}
	return r
}

// c09UploadStores: a digest is only reported for a file after the file was written to the CAS.
func c09UploadStores(c *Ctx) *RuleResult {
	r := &RuleResult{Rule: "C09.upload-stores", Floor: 1,
		Doc: "the ActionResult only references blobs that were stored: every successful return of a build directory's UploadFile passes a Put on the Content Addressable Storage (no shortcut that returns a digest without storing, e.g. for empty files)"}
	p := c.P
	for _, u := range p.UnitsIn(builderPkg) {
		if u.Fn.Name() != "UploadFile" || u.Decl.Recv == nil {
			continue
		}
		info := u.Info()
		isPut := func(n ast.Node) bool {
			call, ok := n.(*ast.CallExpr)
			if !ok {
				return false
			}
			sel, ok := ast.Unparen(call.Fun).(*ast.SelectorExpr)
			if !ok {
				return false
			}
			// a Put on a BlobAccess, or forwarding to another UploadFile
			return sel.Sel.Name == "Put" || sel.Sel.Name == "UploadFile"
		}
		hasPut := false
		ast.Inspect(u.Decl.Body, func(n ast.Node) bool {
			if isPut(n) {
				hasPut = true
			}
			return true
		})
		if !hasPut {
			continue // implemented elsewhere (virtual build directory: through the file's own upload)
		}
		g := NewFuncCFG(info, u.Decl.Body)
		construct := constructOf(u, "success implies stored")
		bad := ""
		ast.Inspect(u.Decl.Body, func(n ast.Node) bool {
			ret, ok := n.(*ast.ReturnStmt)
			if !ok || enclosingFuncLit(u.Decl.Body, ret) != nil || !lastResultIsNil(ret) {
				return true
			}
			if reach, _ := g.reachableFrom(0, 0, ret, isPut); reach {
				bad = posOf(p, ret)
			}
			return true
		})
		if bad == "" {
			r.ok(construct, posOf(p, u.Decl), "every successful return passes a CAS write")
		} else {
			r.bad(c.Prop, construct, bad, "UploadFile can return a digest successfully without having written the file to the Content Addressable Storage: the cached ActionResult references a blob that was never stored")
		}
	}
	return r
}

// c10TreeDedup: a Tree contains every distinct directory exactly once.
func c10TreeDedup(c *Ctx) *RuleResult {
	r := &RuleResult{Rule: "C10.tree-dedup", Floor: 1,
		Doc: "every referenced child directory is present in the Tree exactly once: a directory message is appended to the Tree's list on exactly the paths on which it is recorded as seen, and both happen only when the lookup of its digest in the seen-map failed"}
	p := c.P
	units := p.UnitsIn(builderPkg)
	dirs := p.LookupField(builderPkg, "uploadOutputDirectoryState", "directories")
	seen := p.LookupField(builderPkg, "uploadOutputDirectoryState", "directoriesSeen")
	for _, w := range FieldWrites(units, dirs, false) {
		as, ok := w.Node.(*ast.AssignStmt)
		if !ok || w.RHS == nil || !strings.HasPrefix(exprStr(w.RHS), "append(") {
			continue
		}
		u := w.Unit
		info := u.Info()
		construct := constructOf(u, "append to Tree children")
		g := NewFuncCFG(info, u.Decl.Body)
		paired := false
		for _, sw := range FieldWrites([]*FuncUnit{u}, seen, false) {
			if _, isAs := sw.Node.(*ast.AssignStmt); isAs {
				a, b := ast.Node(as), sw.Node
				if (g.Dominates(a, b) && g.PostDominates(b, a)) || (g.Dominates(b, a) && g.PostDominates(a, b)) {
					paired = true
				}
			}
		}
		notSeen := false
		for _, gd := range flattenGuards(GuardsOf(info, u.Decl.Body, as)) {
			if src := guardIdentSource(u, gd); src != nil && !gd.Pos {
				if ix, ok := ast.Unparen(src).(*ast.IndexExpr); ok && fieldOf(info, ix.X) == seen {
					notSeen = true
				}
			}
		}
		if paired && notSeen {
			r.ok(construct, posOf(p, as), "only for a digest not seen before, recorded as seen on the same paths")
		} else {
			r.bad(c.Prop, construct, posOf(p, as), fmt.Sprintf("a directory is added to the Tree without (only) being new (guarded by a failed seen-lookup: %v; recorded as seen on the same paths: %v): identical subdirectories occur several times in the Tree", notSeen, paired))
		}
	}
	return r
}

// c11Init: the suspension accounting starts from a defined origin.
func c11Init(c *Ctx) *RuleResult {
	r := &RuleResult{Rule: "C11.clock-init", Floor: 1,
		Doc: "elapsed unsuspended time is measured from a defined origin from the first use on: the constructor of SuspendableClock initialises unsuspensionStart (with the zero time.Time, `now - start` saturates and the time a fresh clock has been running counts as zero); and suspendableContext.Err returns nothing but the stored error"}
	p := c.P
	f := p.LookupField("pkg/clock", "SuspendableClock", "unsuspensionStart")
	n := 0
	for _, w := range FieldWrites(p.UnitsIn("pkg/clock"), f, true) {
		if kv, ok := w.Node.(*ast.KeyValueExpr); ok {
			n++
			r.ok(constructOf(w.Unit, "unsuspensionStart initialised"), posOf(p, kv), exprStr(kv.Value))
		}
	}
	for _, w := range FieldWrites(p.UnitsIn("pkg/clock"), f, false) {
		if w.Unit.Decl.Recv == nil && w.RHS != nil {
			n++
			r.ok(constructOf(w.Unit, "unsuspensionStart initialised"), posOf(p, w.Node), "assigned in the constructor")
		}
	}
	if n == 0 {
		r.bad(c.Prop, "clock.SuspendableClock|unsuspensionStart initialised", "-", "no constructor initialises unsuspensionStart: until the first Suspend/Resume cycle no run time is counted, so a command's timeout only fires at timeout + maximum compensation and its reported duration is zero")
	}
	// Err() returns the stored error
	errF := p.LookupField("pkg/clock", "suspendableContext", "err")
	eu := p.Unit("pkg/clock", "suspendableContext.Err")
	info := eu.Info()
	okE := true
	ast.Inspect(eu.Decl.Body, func(m ast.Node) bool {
		ret, ok := m.(*ast.ReturnStmt)
		if !ok || len(ret.Results) != 1 {
			return true
		}
		if fieldOf(info, resolveLocalAlias(eu, ret.Results[0])) != errF {
			okE = false
		}
		return true
	})
	if okE {
		r.ok(constructOf(eu, "returns stored error"), posOf(p, eu.Decl), "every return yields the stored error")
	} else {
		r.bad(c.Prop, constructOf(eu, "returns stored error"), posOf(p, eu.Decl), "Err() can return something other than the error recorded when the context ended: a deadline that was reported first turns into a cancellation when the base context is cancelled afterwards")
	}
	return r
}

// c12CloseOrder: the per-action directory is gone before the cleaning that follows the action.
func c12CloseOrder(c *Ctx) *RuleResult {
	r := &RuleResult{Rule: "C12.close-before-release", Floor: 1,
		Doc: "cleaning never runs concurrently with a (still tearing down) action: in the Close of the wrapper that holds both the action's build directory and the idle invoker, the directory is closed (and thereby removed) before the invoker is released"}
	p := c.P
	for _, u := range p.UnitsIn(builderPkg) {
		if u.Fn.Name() != "Close" || u.Decl.Recv == nil {
			continue
		}
		info := u.Info()
		var rel, cls *ast.CallExpr
		ast.Inspect(u.Decl.Body, func(n ast.Node) bool {
			call, ok := n.(*ast.CallExpr)
			if !ok {
				return true
			}
			if _, ok := isIdleInvokerCall(info, call, "Release"); ok {
				rel = call
			}
			if sel, ok := ast.Unparen(call.Fun).(*ast.SelectorExpr); ok && sel.Sel.Name == "Close" {
				if f := fieldOf(info, sel.X); f != nil && f.Embedded() {
					cls = call
				}
			}
			return true
		})
		if rel == nil || cls == nil {
			continue
		}
		construct := constructOf(u, "Close before Release")
		g := NewFuncCFG(info, u.Decl.Body)
		if g.Dominates(cls, rel) {
			r.ok(construct, posOf(p, rel), "the directory is closed first")
		} else {
			r.bad(c.Prop, construct, posOf(p, rel), "the idle invoker is released (which may start the cleaning, or let another action acquire it) before the action's directory has been closed and removed")
		}
	}
	return r
}

// ---------------------------------------------------------------- VFS / NFS

// c13UnlinkDetached: a file is only unlinked together with its directory entry.
func c13UnlinkDetached(c *Ctx) *RuleResult {
	r := &RuleResult{Rule: "C13.unlink-detached", Floor: 3,
		Doc: "names resolve to what was last put there and hard links share one file: wherever a leaf taken from a directory entry is Unlink()ed, that entry is detached from the directory's contents in the same function (or the function works on a list of entries that its caller detached)"}
	p := c.P
	for _, u := range p.UnitsIn(virtualPkg) {
		if u.Decl.Recv == nil || recvTypeName(u) != "inMemoryPrepopulatedDirectory" {
			continue
		}
		info := u.Info()
		ast.Inspect(u.Decl.Body, func(n ast.Node) bool {
			call, ok := n.(*ast.CallExpr)
			if !ok {
				return true
			}
			sel, ok := ast.Unparen(call.Fun).(*ast.SelectorExpr)
			if !ok || sel.Sel.Name != "Unlink" || len(call.Args) != 0 {
				return true
			}
			// the leaf variable comes from <entry>.child.GetPair()
			lid, ok := ast.Unparen(sel.X).(*ast.Ident)
			if !ok {
				return true
			}
			var entry ast.Expr
			ast.Inspect(u.Decl.Body, func(m ast.Node) bool {
				as, ok := m.(*ast.AssignStmt)
				if !ok || len(as.Rhs) != 1 || len(as.Lhs) != 2 {
					return true
				}
				if l2, ok := as.Lhs[1].(*ast.Ident); !ok || info.ObjectOf(l2) != info.ObjectOf(lid) {
					return true
				}
				if gc, ok := ast.Unparen(as.Rhs[0]).(*ast.CallExpr); ok {
					if gs, ok := ast.Unparen(gc.Fun).(*ast.SelectorExpr); ok && gs.Sel.Name == "GetPair" {
						if cs, ok := ast.Unparen(gs.X).(*ast.SelectorExpr); ok && cs.Sel.Name == "child" {
							entry = cs.X
						}
					}
				}
				return true
			})
			if entry == nil {
				return true
			}
			construct := constructOf(u, "Unlink of "+exprStr(entry)+"'s leaf")
			root := rootOfSelector(entry)
			detached := false
			if id, ok := root.(*ast.Ident); ok {
				if v, ok := info.ObjectOf(id).(*types.Var); ok {
					// entries handed in by the caller (already detached), directly or by iterating over them
					if isParamOf(u, v) {
						detached = true
					}
					// a cursor that starts at (a field of) a parameter
					ast.Inspect(u.Decl.Body, func(m ast.Node) bool {
						as, ok := m.(*ast.AssignStmt)
						if !ok || len(as.Lhs) != len(as.Rhs) {
							return true
						}
						for i, l := range as.Lhs {
							if lid2, ok := l.(*ast.Ident); ok && info.ObjectOf(lid2) == types.Object(v) {
								if rid, ok := rootOfSelector(as.Rhs[i]).(*ast.Ident); ok {
									if rv, ok := info.ObjectOf(rid).(*types.Var); ok && isParamOf(u, rv) {
										detached = true
									}
								}
							}
						}
						return true
					})
				}
			}
			ast.Inspect(u.Decl.Body, func(m ast.Node) bool {
				dc, ok := m.(*ast.CallExpr)
				if !ok {
					return true
				}
				ds, ok := ast.Unparen(dc.Fun).(*ast.SelectorExpr)
				if !ok || ds.Sel.Name != "detach" {
					return true
				}
				for _, a := range dc.Args {
					if exprStr(a) == exprStr(entry) {
						detached = true
					}
				}
				return true
			})
			if detached {
				r.ok(construct, posOf(p, call), "the entry is detached as well")
			} else {
				r.bad(c.Prop, construct, posOf(p, call), "a file's link is dropped while its entry stays in the directory's contents: the name still resolves to a file whose link count is zero (and can be renamed back into the live tree)")
			}
			return true
		})
	}
	return r
}

// c17KeyParam: a cache stores an object under the key it was asked to store it under.
func c17KeyParam(c *Ctx) *RuleResult {
	r := &RuleResult{Rule: "C17.key-param", Floor: 1,
		Doc: "a directory fetched for a digest is the directory named by that digest: in the caches of pkg/cas, a parameter that is used as the key of an insertion into a map field is never assigned to inside the function (e.g. by an eviction loop reusing the name)"}
	p := c.P
	for _, u := range p.UnitsIn("pkg/cas") {
		info := u.Info()
		ast.Inspect(u.Decl.Body, func(n ast.Node) bool {
			as, ok := n.(*ast.AssignStmt)
			if !ok || len(as.Lhs) != 1 {
				return true
			}
			ix, ok := ast.Unparen(as.Lhs[0]).(*ast.IndexExpr)
			if !ok || fieldOf(info, ix.X) == nil {
				return true
			}
			if _, isMap := fieldOf(info, ix.X).Type().Underlying().(*types.Map); !isMap {
				return true
			}
			kid, ok := ast.Unparen(ix.Index).(*ast.Ident)
			if !ok {
				return true
			}
			kv, ok := info.Uses[kid].(*types.Var)
			if !ok || !isParamOf(u, kv) {
				return true
			}
			construct := constructOf(u, "insert under parameter "+kid.Name)
			reassigned := false
			ast.Inspect(u.Decl.Body, func(m ast.Node) bool {
				if o, ok := m.(*ast.AssignStmt); ok && o.Tok != token.DEFINE {
					for _, l := range o.Lhs {
						if lid, ok := l.(*ast.Ident); ok && info.Uses[lid] == kv {
							reassigned = true
						}
					}
				}
				return true
			})
			if reassigned {
				r.bad(c.Prop, construct, posOf(p, as), "the key parameter is overwritten before the insertion (e.g. with the key of an evicted entry): the object is stored under another object's key and a later lookup of that key returns the wrong directory")
			} else {
				r.ok(construct, posOf(p, as), "the key parameter is never reassigned")
			}
			return true
		})
	}
	return r
}

// c18OpenAccounted: a file opened on behalf of a client is accounted for or closed again.
func c18OpenAccounted(c *Ctx) *RuleResult {
	r := &RuleResult{Rule: "C18.open-accounted", Floor: 4,
		Doc: "the server closes each underlying file exactly as often as it opened it: after a successful VirtualOpenChild / VirtualOpenSelf in the NFS programs, every path either hands the open over (open-owner file upgrade, a new pool entry, a returned cleanup closure that closes it) or schedules the leaf for closing -- also on the error returns that follow the open"}
	p := c.P
	// helpers that take a leaf parameter and hand it over themselves
	accounting := mayDo(p.UnitsIn(nfsPkg), func(x *FuncUnit, n ast.Node) bool {
		call, ok := n.(*ast.CallExpr)
		if !ok {
			return false
		}
		sel, ok := ast.Unparen(call.Fun).(*ast.SelectorExpr)
		if !ok || (sel.Sel.Name != "upgrade" && sel.Sel.Name != "Open" && sel.Sel.Name != "add") {
			return false
		}
		for _, a := range call.Args {
			if id, ok := ast.Unparen(a).(*ast.Ident); ok {
				if v, ok := x.Info().Uses[id].(*types.Var); ok && isParamOf(x, v) && namedIs(v.Type(), modPath+"/"+virtualPkg, "Leaf") {
					return true
				}
			}
		}
		return false
	})
	for _, u := range p.UnitsIn(nfsPkg) {
		info := u.Info()
		spec := &OblSpec{Name: "opened", Min: 1, Max: 99,
			Create: func(n ast.Node) []Born {
				as, ok := n.(*ast.AssignStmt)
				if !ok || len(as.Rhs) != 1 {
					return nil
				}
				call, ok := ast.Unparen(as.Rhs[0]).(*ast.CallExpr)
				if !ok {
					return nil
				}
				sel, ok := ast.Unparen(call.Fun).(*ast.SelectorExpr)
				if !ok {
					return nil
				}
				switch sel.Sel.Name {
				case "VirtualOpenChild":
					if len(as.Lhs) == 4 {
						return []Born{{Key: exprStr(as.Lhs[0]), Pos: call.Pos(), FailTest: statusNotOKTest(exprStr(as.Lhs[3]), "StatusOK")}}
					}
				case "VirtualOpenSelf":
					if len(as.Lhs) == 1 {
						return []Born{{Key: exprStr(sel.X), Pos: call.Pos(), FailTest: statusNotOKTest(exprStr(as.Lhs[0]), "StatusOK")}}
					}
				}
				return nil
			},
			Discharge: func(n ast.Node, key string) int {
				switch x := n.(type) {
				case *ast.CallExpr:
					sel, ok := ast.Unparen(x.Fun).(*ast.SelectorExpr)
					if !ok {
						return 0
					}
					if fn := calleeOf(info, x); fn != nil && accounting[fn] {
						for _, a := range x.Args {
							if exprStr(a) == key {
								return 1
							}
						}
					}
					switch sel.Sel.Name {
					case "upgrade", "Open", "add":
						for _, a := range x.Args {
							if exprStr(a) == key {
								return 1
							}
						}
					case "VirtualClose":
						if exprStr(sel.X) == key {
							return 1
						}
					}
				}
				return 0
			},
			// handed over: scheduled for closing (leafToClose literal), or a returned cleanup closure
			// that closes it
			Transfer: func(n ast.Node, key string) bool {
				switch x := n.(type) {
				case *ast.KeyValueExpr:
					return exprStr(x.Key) == "leaf" && exprStr(x.Value) == key
				case *ast.FuncLit:
					found := false
					ast.Inspect(x.Body, func(m ast.Node) bool {
						if call, ok := m.(*ast.CallExpr); ok {
							if sel, ok := ast.Unparen(call.Fun).(*ast.SelectorExpr); ok && sel.Sel.Name == "VirtualClose" && exprStr(sel.X) == key {
								found = true
							}
						}
						return true
					})
					return found
				}
				return false
			},
		}
		res := RunObligation(info, u.Decl.Body, spec)
		if res.Created == 0 {
			continue
		}
		construct := constructOf(u, "opened leaf accounted")
		if res.Undecided != "" {
			r.Undecided = append(r.Undecided, construct+": "+res.Undecided)
			continue
		}
		if len(res.Violations) == 0 {
			r.ok(construct, posOf(p, u.Decl), fmt.Sprintf("handed over or scheduled for closing on all %d exits", res.Exits))
		}
		for _, v := range res.Violations {
			r.bad(c.Prop, construct, p.Pos(v.Born.Pos), "the file opened here is neither handed over to the open state nor scheduled for closing on the path to the "+oblExitDesc(p, v)+": the underlying file stays open for that access after CLOSE and after lease expiry")
		}
	}
	return r
}

// c18FileHandleReset: changing the current file handle forgets the current state ID.
func c18FileHandleReset(c *Ctx) *RuleResult {
	r := &RuleResult{Rule: "C18.filehandle-reset", Floor: 3,
		Doc: "state IDs are honoured only for the file they were issued for: the NFSv4.1 'current state ID' lives in the current-file-handle record, and every operation that makes another object current replaces the whole record (composite literal / value copy) instead of updating single fields, so a state ID left by a preceding OPEN never survives a PUTFH or LOOKUP"}
	p := c.P
	units := p.UnitsIn(nfsPkg)
	cfh := p.LookupField(nfsPkg, "sequenceState", "currentFileHandle")
	st := p.LookupType(nfsPkg, "nfs41FileHandle").Underlying().(*types.Struct)
	var nodeF, handleF *types.Var
	for i := 0; i < st.NumFields(); i++ {
		switch st.Field(i).Name() {
		case "node":
			nodeF = st.Field(i)
		case "handle":
			handleF = st.Field(i)
		}
	}
	if nodeF == nil || handleF == nil {
		panic(anchorError("nfs41FileHandle.node/handle"))
	}
	for _, u := range units {
		info := u.Info()
		ast.Inspect(u.Decl.Body, func(n ast.Node) bool {
			as, ok := n.(*ast.AssignStmt)
			if !ok {
				return true
			}
			for _, l := range as.Lhs {
				// whole-record store
				if fieldOf(info, l) == cfh {
					r.ok(constructOf(u, "currentFileHandle replaced")+"@"+fmt.Sprint(p.Fset.Position(as.Pos()).Line-p.Fset.Position(u.Decl.Pos()).Line), posOf(p, as), "whole record")
				}
				// field-wise store of the object identity
				if sel, ok := ast.Unparen(l).(*ast.SelectorExpr); ok && fieldOf(info, sel.X) == cfh {
					if f := fieldOf(info, sel); f == nodeF || f == handleF {
						r.bad(c.Prop, constructOf(u, "currentFileHandle."+f.Name()+" updated in place"), posOf(p, as), "the current object is changed without resetting the rest of the record: the current state ID of the previous object is applied to the new one (READ returns another file's data, CLOSE tears down another file's state)")
					}
				}
			}
			return true
		})
	}
	return r
}

// c19BadSeqidNotCached: a rejected sequence number leaves no trace.
func c19BadSeqidNotCached(c *Ctx) *RuleResult {
	r := &RuleResult{Rule: "C19.rejection-not-recorded", Floor: 1,
		Doc: "requests with an out-of-order sequence number are rejected without side effects: the predicate that decides whether a transaction's reply advances the owner's sequence number and is cached excludes, among others, NFS4ERR_BAD_SEQID (and the other 'request was not processed at all' codes of RFC 7530 section 9.1.7)"}
	p := c.P
	u := p.Unit(nfsPkg, "transactionShouldComplete")
	required := []string{"NFS4ERR_STALE_CLIENTID", "NFS4ERR_STALE_STATEID", "NFS4ERR_BAD_STATEID", "NFS4ERR_BAD_SEQID", "NFS4ERR_BADXDR", "NFS4ERR_RESOURCE", "NFS4ERR_NOFILEHANDLE"}
	// the codes for which the predicate is false: `st != X && ...` conjuncts, or the cases of a
	// switch whose body returns false
	excluded := map[string]bool{}
	ast.Inspect(u.Decl.Body, func(n ast.Node) bool {
		switch x := n.(type) {
		case *ast.BinaryExpr:
			if x.Op == token.NEQ {
				if sel, ok := ast.Unparen(x.Y).(*ast.SelectorExpr); ok {
					excluded[sel.Sel.Name] = true
				}
			}
		case *ast.CaseClause:
			returnsFalse := false
			for _, s := range x.Body {
				if ret, ok := s.(*ast.ReturnStmt); ok && len(ret.Results) == 1 && exprStr(ret.Results[0]) == "false" {
					returnsFalse = true
				}
			}
			if returnsFalse {
				for _, e := range x.List {
					if sel, ok := ast.Unparen(e).(*ast.SelectorExpr); ok {
						excluded[sel.Sel.Name] = true
					}
				}
			}
		}
		return true
	})
	for _, code := range required {
		construct := constructOf(u, "excludes "+code)
		if excluded[code] {
			r.ok(construct, posOf(p, u.Decl), "does not complete the transaction")
		} else {
			r.bad(c.Prop, construct, posOf(p, u.Decl), "a reply with "+code+" now advances the owner's sequence number and is cached: a request that was rejected as out of order (not processed) changes state, and the client's corrected request is answered with the rejection")
		}
	}
	return r
}

// c20LockTableInit: a file's lock table is created once.
func c20LockTableInit(c *Ctx) *RuleResult {
	r := &RuleResult{Rule: "C20.lock-table-init", Floor: 1,
		Doc: "unlocking or closing releases precisely the owner's bytes and nothing else: the byte-range lock table of an opened file is initialised only where the OpenedFile object is created (the pool lookup missed), never when an existing entry is opened again; and the entry-count delta returned by Unlock is the lock set's own (not clamped or altered)"}
	p := c.P
	for _, u := range p.UnitsIn(nfsPkg) {
		info := u.Info()
		ast.Inspect(u.Decl.Body, func(n ast.Node) bool {
			call, ok := n.(*ast.CallExpr)
			if !ok {
				return true
			}
			sel, ok := ast.Unparen(call.Fun).(*ast.SelectorExpr)
			if !ok || sel.Sel.Name != "Initialize" {
				return true
			}
			tv, ok := info.Types[sel.X]
			if !ok || !strings.Contains(tv.Type.String(), "ByteRangeLockSet") {
				return true
			}
			construct := constructOf(u, "lock table Initialize")
			// guarded by a failed lookup (comma-ok from the pool's map)
			okG := false
			for _, g := range flattenGuards(GuardsOf(info, u.Decl.Body, call)) {
				if src := guardIdentSource(u, g); src != nil && !g.Pos {
					if _, isIx := ast.Unparen(src).(*ast.IndexExpr); isIx {
						okG = true
					}
				}
			}
			if okG {
				r.ok(construct, posOf(p, call), "only for a newly created entry")
			} else {
				r.bad(c.Prop, construct, posOf(p, call), "the lock table is (re-)initialised for a file that may already be open: opening a file a second time drops every owner's byte-range locks on it")
			}
			return true
		})
	}
	// the deltas returned by OpenedFile.Lock/Unlock/UnlockAll are the lock set's Set() results
	for _, name := range []string{"OpenedFile.Unlock", "OpenedFile.UnlockAll"} {
		u := p.Unit(nfsPkg, name)
		ast.Inspect(u.Decl.Body, func(n ast.Node) bool {
			ret, ok := n.(*ast.ReturnStmt)
			if !ok || len(ret.Results) == 0 {
				return true
			}
			construct := constructOf(u, "returned delta")
			src := ast.Unparen(resolveLocalAlias(u, ret.Results[0]))
			okR := false
			if call, ok := src.(*ast.CallExpr); ok {
				if sel, ok := ast.Unparen(call.Fun).(*ast.SelectorExpr); ok && (sel.Sel.Name == "Set" || calleeIsInPkg(u.Info(), call, nfsPkg)) {
					okR = true
				}
			}
			if lit, ok := src.(*ast.BasicLit); ok && lit.Value == "0" {
				okR = true // error returns
			}
			if okR {
				r.ok(construct, posOf(p, ret), "the lock set's own delta")
			} else {
				r.bad(c.Prop, construct, posOf(p, ret), "the change in the number of lock entries is altered before it is returned ("+exprStr(src)+"): the owner's lock count drifts, so CLOSE / lease expiry skip releasing its remaining locks")
			}
			return true
		})
	}
	return r
}

func calleeIsInPkg(info *types.Info, call *ast.CallExpr, pkgRel string) bool {
	fn := calleeOf(info, call)
	return fn != nil && fn.Pkg() != nil && relPkg(fn.Pkg()) == pkgRel
}
