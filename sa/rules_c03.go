package main

import (
	"fmt"
	"go/ast"
	"go/token"
	"go/types"
)

const schedPkg = "pkg/scheduler"
const bigLockClass = "scheduler.InMemoryBuildQueue.lock"

// mapIndexOn returns the index expression m[k] if e is an index on the given map field.
func mapIndexOn(info *types.Info, e ast.Expr, field *types.Var) *ast.IndexExpr {
	ix, ok := ast.Unparen(e).(*ast.IndexExpr)
	if !ok || fieldOf(info, ix.X) != field {
		return nil
	}
	return ix
}

// findMapLookups finds reads of m[k] (not assignments to it) on the field.
func findMapLookups(u *FuncUnit, field *types.Var) []*ast.IndexExpr {
	info := u.Info()
	assigned := map[*ast.IndexExpr]bool{}
	ast.Inspect(u.Decl.Body, func(n ast.Node) bool {
		if as, ok := n.(*ast.AssignStmt); ok {
			for _, l := range as.Lhs {
				if ix := mapIndexOn(info, l, field); ix != nil {
					assigned[ix] = true
				}
			}
		}
		return true
	})
	var out []*ast.IndexExpr
	ast.Inspect(u.Decl.Body, func(n ast.Node) bool {
		if ix, ok := n.(*ast.IndexExpr); ok && fieldOf(info, ix.X) == field && !assigned[ix] {
			out = append(out, ix)
		}
		return true
	})
	return out
}

func c03Region(c *Ctx) *RuleResult {
	r := &RuleResult{Rule: "C03.region", Floor: 1,
		Doc: "in every function that both looks up and inserts into the in-flight deduplication map, no call that releases the scheduler lock (leave, waitExecution, ...) lies on a path from the lookup to the insertion: miss-then-insert is one critical section; and both happen with the lock held"}
	p := c.P
	e := sharedLockEngine(c)
	field := p.LookupField(schedPkg, "InMemoryBuildQueue", "inFlightDeduplicationMap")
	units := p.UnitsIn(schedPkg)
	for _, w := range FieldWrites(units, field, false) {
		as, ok := w.Node.(*ast.AssignStmt)
		if !ok {
			continue // deletes are handled by guard-sym
		}
		u := w.Unit
		lookups := findMapLookups(u, field)
		construct := constructOf(u, "lookup->insert")
		if len(lookups) == 0 {
			r.bad(c.Prop, construct, posOf(p, as), "the map is inserted into without a preceding lookup in the same function: two identical cacheable actions could both create a task")
			continue
		}
		g := NewFuncCFG(u.Info(), u.Decl.Body)
		// the insert must be dominated by a lookup
		var dom *ast.IndexExpr
		for _, l := range lookups {
			if g.Dominates(l, as) {
				dom = l
			}
		}
		if dom == nil {
			r.bad(c.Prop, construct, posOf(p, as), "no lookup of the map dominates the insertion")
			continue
		}
		// releasing calls between
		bad := false
		ast.Inspect(u.Decl.Body, func(n ast.Node) bool {
			call, ok := n.(*ast.CallExpr)
			if !ok || bad {
				return true
			}
			rel, _ := e.CallEffectOnClass(u.Info(), call, bigLockClass)
			if !rel {
				return true
			}
			if ok1, _ := g.ReachableWithout(dom, call, func(ast.Node) bool { return false }); ok1 {
				if ok2, _ := g.ReachableWithout(call, as, func(ast.Node) bool { return false }); ok2 {
					r.bad(c.Prop, construct, posOf(p, call), fmt.Sprintf("call %s releases the scheduler lock between the deduplication lookup (%s) and the insertion (%s)", exprStr(call.Fun), posOf(p, dom), posOf(p, as)))
					bad = true
				}
			}
			return true
		})
		if !bad {
			r.ok(construct, posOf(p, as), fmt.Sprintf("lookup at %s dominates insertion; no lock release in between", posOf(p, dom)))
		}
	}
	return r
}

// taskRootOfKey: for a delete/insert key expression like t.actionDigest, the variable holding the task.
func rootVarOf(info *types.Info, e ast.Expr) *types.Var {
	for {
		switch x := ast.Unparen(e).(type) {
		case *ast.SelectorExpr:
			e = x.X
		case *ast.Ident:
			v, _ := info.Uses[x].(*types.Var)
			return v
		default:
			return nil
		}
	}
}

func c03GuardSym(c *Ctx) *RuleResult {
	r := &RuleResult{Rule: "C03.guard-sym", Floor: 2,
		Doc: "insertions into the in-flight deduplication map are guarded by !DoNotCache of the action being scheduled; every deletion removes only the entry of the completing task: it is guarded by map[key] == task (or by !DoNotCache of that same task's action, mirroring the insertion guard)"}
	p := c.P
	field := p.LookupField(schedPkg, "InMemoryBuildQueue", "inFlightDeduplicationMap")
	units := p.UnitsIn(schedPkg)
	for _, w := range FieldWrites(units, field, false) {
		u := w.Unit
		info := u.Info()
		gs := flattenGuards(GuardsOf(info, u.Decl.Body, w.Node))
		switch n := w.Node.(type) {
		case *ast.AssignStmt:
			okGuard := false
			for _, g := range gs {
				if sel, ok := ast.Unparen(g.Cond).(*ast.SelectorExpr); ok && sel.Sel.Name == "DoNotCache" && !g.Pos {
					okGuard = true
				}
			}
			construct := constructOf(u, "insert")
			if okGuard {
				r.ok(construct, posOf(p, n), "guarded by "+fmt.Sprint(guardStrings(gs)))
			} else {
				r.bad(c.Prop, construct, posOf(p, n), "insertion into the in-flight deduplication map is not guarded by !DoNotCache: uncacheable actions would be merged")
			}
		case *ast.CallExpr: // delete(m, k)
			construct := constructOf(u, "delete")
			key := n.Args[1]
			taskVar := rootVarOf(info, key)
			okGuard := ""
			for _, g := range gs {
				if be, ok := ast.Unparen(g.Cond).(*ast.BinaryExpr); ok && be.Op == token.EQL && g.Pos {
					for _, pair := range [][2]ast.Expr{{be.X, be.Y}, {be.Y, be.X}} {
						if ix := mapIndexOn(info, pair[0], field); ix != nil && exprStr(ix.Index) == exprStr(key) {
							if id, ok := ast.Unparen(pair[1]).(*ast.Ident); ok && taskVar != nil && info.Uses[id] == taskVar {
								okGuard = g.String()
							}
						}
					}
				}
				if sel, ok := ast.Unparen(g.Cond).(*ast.SelectorExpr); ok && sel.Sel.Name == "DoNotCache" && !g.Pos && taskVar != nil && rootVarOf(info, sel) == taskVar {
					okGuard = g.String()
				}
			}
			if okGuard != "" {
				r.ok(construct, posOf(p, n), "deletion guarded by "+okGuard)
			} else {
				r.bad(c.Prop, construct, posOf(p, n), fmt.Sprintf("delete(%s, %s) is not restricted to the completing task's own entry (guards: %v) while insertion is conditional: a completing task that was never inserted (do_not_cache, e.g. a background-learning run of the same action) evicts the entry of a live task, after which the same cacheable action can run twice", exprStr(n.Args[0]), exprStr(key), guardStrings(gs)))
			}
		}
	}
	return r
}

func c03Final(c *Ctx) *RuleResult {
	r := &RuleResult{Rule: "C03.final", Floor: 1,
		Doc: "the in-flight entry is removed exactly at final completion: in the function that stores the task's final response, the deletion decision dominates that store and the store post-dominates it (not on the retry-on-largest-size-class path, not earlier)"}
	p := c.P
	mapField := p.LookupField(schedPkg, "InMemoryBuildQueue", "inFlightDeduplicationMap")
	respField := p.LookupField(schedPkg, "task", "executeResponse")
	units := p.UnitsIn(schedPkg)
	stores := FieldWrites(units, respField, false)
	if len(stores) == 0 {
		panic(anchorError("no store to task.executeResponse"))
	}
	for _, w := range FieldWrites(units, mapField, false) {
		del, ok := w.Node.(*ast.CallExpr)
		if !ok {
			continue
		}
		u := w.Unit
		construct := constructOf(u, "delete-at-final-completion")
		var store ast.Node
		for _, s := range stores {
			if s.Unit.Fn == u.Fn {
				store = s.Node
			}
		}
		if store == nil {
			r.bad(c.Prop, construct, posOf(p, del), "the in-flight entry is deleted in a function that does not record the final response: deletion is not tied to final completion")
			continue
		}
		// anchor = outermost enclosing if statement that does not also enclose the store
		var anchor ast.Node = del
		for _, n := range pathTo(u.Decl.Body, del) {
			if ifs, ok := n.(*ast.IfStmt); ok {
				if len(pathTo(ifs, store)) == 0 {
					anchor = ifs.Cond
					break
				}
			}
		}
		g := NewFuncCFG(u.Info(), u.Decl.Body)
		if g.Dominates(anchor, store) && g.PostDominates(store, anchor) {
			r.ok(construct, posOf(p, del), fmt.Sprintf("deletion (decision at %s) and the store of the final response at %s are on exactly the same paths", posOf(p, anchor), posOf(p, store)))
		} else {
			r.bad(c.Prop, construct, posOf(p, del), fmt.Sprintf("the in-flight entry is deleted on paths that do not store the final response at %s (or vice versa): a retried task loses its entry while still in flight, or a completed one keeps it", posOf(p, store)))
		}
	}
	return r
}

func c03Last(c *Ctx) *RuleResult {
	r := &RuleResult{Rule: "C03.last", Floor: 1,
		Doc: "in the function that detaches an operation from its task (delete on task.operations), the task is completed (cancelled) only under the guard len(task.operations) == 1, i.e. when the departing operation is the last one"}
	p := c.P
	opsField := p.LookupField(schedPkg, "task", "operations")
	complete := p.LookupFunc(schedPkg, "task.complete")
	units := p.UnitsIn(schedPkg)
	for _, w := range FieldWrites(units, opsField, false) {
		if _, ok := w.Node.(*ast.CallExpr); !ok {
			continue
		}
		u := w.Unit
		for _, cs := range CallsTo([]*FuncUnit{u}, complete) {
			gs := flattenGuards(GuardsOf(u.Info(), u.Decl.Body, cs.Node))
			okG := false
			for _, g := range gs {
				if be, ok := ast.Unparen(g.Cond).(*ast.BinaryExpr); ok && be.Op == token.EQL && g.Pos {
					for _, pair := range [][2]ast.Expr{{be.X, be.Y}, {be.Y, be.X}} {
						if call, ok := ast.Unparen(pair[0]).(*ast.CallExpr); ok && len(call.Args) == 1 {
							if id, ok := call.Fun.(*ast.Ident); ok && id.Name == "len" && fieldOf(u.Info(), call.Args[0]) == opsField {
								if lit, ok := ast.Unparen(pair[1]).(*ast.BasicLit); ok && lit.Value == "1" {
									okG = true
								}
							}
						}
					}
				}
			}
			construct := constructOf(u, "complete-only-when-last")
			if okG {
				r.ok(construct, posOf(p, cs.Node), "guards: "+fmt.Sprint(guardStrings(gs)))
			} else {
				r.bad(c.Prop, construct, posOf(p, cs.Node), fmt.Sprintf("an operation being removed completes (cancels) the shared task without the guard len(operations) == 1 (guards: %v): one client leaving cancels the task for the others", guardStrings(gs)))
			}
		}
	}
	return r
}

func init() {
	register(&PropertySpec{
		ID:          "C03",
		Level:       "other",
		Explanation: "Structural necessary conditions of in-flight deduplication, decided on all paths of the current source: lookup-miss and insert form one critical section; insert guarded by !DoNotCache; deletion removes only the completing task's own entry and happens exactly where the final response is stored; a departing operation completes the task only when it is the last. Does not decide the behaviour over all arrival orders (history property).",
		Assumptions: []string{"the scheduler state is only touched under the big lock (decided by C01)", "anchors are the struct fields InMemoryBuildQueue.inFlightDeduplicationMap, task.operations, task.executeResponse"},
		Rules:       []RuleFunc{c03Region, c03GuardSym, c03Final, c03Last, schedWaiters, schedOpsKey, schedHeapMembership, schedExecutingCount, schedAllOperations, schedHeapPopResets, schedRevalidateAfterRelock},
	})
}
