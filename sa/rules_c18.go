package main

import (
	"fmt"
	"go/ast"
	"go/token"
	"go/types"
	"sort"
	"strings"
)

var nfsEngineCache = map[*Program]*LockEngine{}

// nfsLockEngine: lock-flow engine with the NFS-specific "must not be called under a program lock" table.
func nfsLockEngine(c *Ctx) *LockEngine {
	if e, ok := nfsEngineCache[c.P]; ok {
		return e
	}
	p := c.P
	e := NewLockEngine(p)
	// closeAll closes files: "closed at the end of the current operation, after locks have been released"
	e.BlockingCallees[p.LookupFunc(nfsPkg, "leavesToClose.closeAll")] = "*"
	// VirtualOpenChild / VirtualOpenSelf / VirtualClose may block ("may need to drop the lock, as
	// VirtualOpenChild may block")
	vpkg := p.Pkg(virtualPkg)
	for _, tn := range []string{"Leaf", "Directory", "Node"} {
		obj := vpkg.Types.Scope().Lookup(tn)
		if obj == nil {
			continue
		}
		iface, ok := obj.Type().Underlying().(*types.Interface)
		if !ok {
			continue
		}
		for i := 0; i < iface.NumMethods(); i++ {
			m := iface.Method(i)
			switch m.Name() {
			case "VirtualOpenChild", "VirtualOpenSelf", "VirtualClose":
				e.BlockingCallees[m.Origin()] = "nfsv4."
			}
		}
	}
	e.Run()
	nfsEngineCache[c.P] = e
	return e
}

func c18CloseSites(c *Ctx) *RuleResult {
	r := &RuleResult{Rule: "C18.close-sites", Floor: 20,
		Doc: "underlying files are only closed (VirtualClose) from leavesToClose.closeAll and from the cleanup closure of a temporary open; closeAll, VirtualOpenChild, VirtualOpenSelf and VirtualClose are never reached while an NFS program lock (p.lock, clientsLock, cis.lock, pool locks) is held; every function that declares a leavesToClose runs closeAll on every path (deferred before the lock is taken, or explicitly)"}
	p := c.P
	e := nfsLockEngine(c)
	units := p.UnitsIn(nfsPkg)
	closeAll := p.LookupFunc(nfsPkg, "leavesToClose.closeAll")
	for _, u := range units {
		info := u.Info()
		ast.Inspect(u.Decl.Body, func(n ast.Node) bool {
			call, ok := n.(*ast.CallExpr)
			if !ok {
				return true
			}
			fn := calleeOf(info, call)
			if fn == nil || fn.Name() != "VirtualClose" {
				return true
			}
			construct := constructOf(u, "VirtualClose")
			inLit := enclosingFuncLit(u.Decl.Body, call) != nil
			switch {
			case u.Fn == closeAll:
				r.ok(construct, posOf(p, call), "the one place that closes scheduled leaves")
			case inLit && strings.HasPrefix(u.Fn.Name(), "getOpenedLeaf"):
				r.ok(construct, posOf(p, call), "cleanup closure of a temporary open")
			default:
				r.bad(c.Prop, construct, posOf(p, call), "a file is closed outside leavesToClose.closeAll / a temporary-open cleanup: the close is not accounted against the share counters")
			}
			return true
		})
	}
	for _, s := range e.Order {
		if relPkg(s.Pkg.Types) != nfsPkg {
			continue
		}
		has := false
		for _, ev := range s.Events {
			if ev.Kind == "block" && strings.HasPrefix(ev.Class, "call:") && len(ev.Chain) == 1 {
				has = true
			}
		}
		var ds []lfDiag
		for _, d := range s.Diags {
			if d.Kind == "noblock" && strings.Contains(d.Msg, "call to") {
				ds = append(ds, d)
			}
		}
		if !has && len(ds) == 0 {
			continue
		}
		if len(ds) == 0 {
			r.ok(s.Name+"|unlocked", p.Pos(s.Body.Pos()), "open/close calls are made with no program lock held")
			continue
		}
		seen := map[string]bool{}
		for _, d := range ds {
			k := s.Name + "|" + blockWhat(d.Msg)
			if seen[k] {
				continue
			}
			seen[k] = true
			r.bad(c.Prop, k, p.Pos(d.Pos), d.Msg+" — files must be opened/closed after the locks have been released", d.Path...)
		}
	}
	// every leavesToClose variable is closed
	for _, u := range units {
		info := u.Info()
		var lls []*ast.Ident
		ast.Inspect(u.Decl.Body, func(n ast.Node) bool {
			if vs, ok := n.(*ast.ValueSpec); ok && vs.Type != nil && exprStr(vs.Type) == "leavesToClose" {
				lls = append(lls, vs.Names...)
			}
			return true
		})
		for _, id := range lls {
			construct := constructOf(u, "closeAll("+id.Name+")")
			body := u.Decl.Body
			if fl := enclosingFuncLit(u.Decl.Body, id); fl != nil {
				body = fl.Body
			}
			g := NewFuncCFG(info, body)
			// a defer registered on every path, or an explicit call on every path to every returning
			// exit (loops that retry count as non-exits)
			okC := false
			ast.Inspect(body, func(n ast.Node) bool {
				if d, ok := n.(*ast.DeferStmt); ok {
					if _, ok := methodCallOn(d.Call, id.Name, "closeAll"); ok {
						okC = true
					}
				}
				return true
			})
			if !okC {
				// explicit: every exit reachable from the declaration passes closeAll, except exits
				// guarded by ll.empty()
				okC = g.EveryPathPasses(func(n ast.Node) bool {
					if _, ok := methodCallOn(n, id.Name, "closeAll"); ok {
						return true
					}
					if ret, ok := n.(*ast.ReturnStmt); ok {
						for _, gd := range flattenGuards(GuardsOf(info, body, ret)) {
							if call, ok := methodCallOn(ast.Unparen(gd.Cond), id.Name, "empty"); ok && gd.Pos && call != nil {
								return true
							}
						}
					}
					return false
				})
			}
			if okC {
				r.ok(construct, posOf(p, id), "scheduled leaves are closed on every path")
			} else {
				r.bad(c.Prop, construct, posOf(p, id), "leaves scheduled for closing in "+id.Name+" are not closed on every path: the underlying file stays open after the client closed it")
			}
		}
	}
	return r
}

func c18Cleanup(c *Ctx) *RuleResult {
	r := &RuleResult{Rule: "C18.cleanup-hold", Floor: 12,
		Doc: "every cleanup function returned by getOpenedLeaf* is invoked exactly once on every path after a successful call; every hold() on a client record is matched by exactly one release() on every path of the same function, or handed over: to the transaction object (released in complete()) or to a returned cleanup closure that releases it"}
	p := c.P
	// hold wrappers: methods that only take the hold on behalf of their caller
	//   func (x *T) suspendGC(...) { ...; x.a.b.hold(p) }   (no release anywhere in the body)
	type holdWrapper struct{ recv, held string }
	wrappers := map[*types.Func]holdWrapper{}
	for _, u := range p.UnitsIn(nfsPkg) {
		if u.Decl.Recv == nil || len(u.Decl.Recv.List[0].Names) == 0 || u.Fn.Type().(*types.Signature).Results().Len() != 0 {
			continue
		}
		recv := u.Decl.Recv.List[0].Names[0].Name
		held, releases := "", false
		ast.Inspect(u.Decl.Body, func(n ast.Node) bool {
			if call, ok := n.(*ast.CallExpr); ok {
				if sel, ok := ast.Unparen(call.Fun).(*ast.SelectorExpr); ok {
					if sel.Sel.Name == "hold" && rootIdent(sel.X) == recv && p.Decl(calleeOf(u.Info(), call)) != nil {
						held = exprStr(sel.X)
					}
					if sel.Sel.Name == "release" {
						releases = true
					}
				}
			}
			return true
		})
		if held != "" && !releases && u.Fn.Name() != "hold" {
			wrappers[u.Fn] = holdWrapper{recv, held}
		}
	}
	for _, u := range p.UnitsIn(nfsPkg) {
		if w, ok := wrappers[u.Fn]; ok {
			r.ok(constructOf(u, "hold "+w.held), posOf(p, u.Decl), "takes the hold on behalf of its callers (decided there)")
			continue
		}
		info := u.Info()
		spec := &OblSpec{Name: "cleanup", Min: 1, Max: 1,
			Create: func(n ast.Node) []Born {
				var out []Born
				switch x := n.(type) {
				case *ast.AssignStmt:
					if len(x.Rhs) == 1 && len(x.Lhs) == 3 {
						if call, ok := ast.Unparen(x.Rhs[0]).(*ast.CallExpr); ok {
							if fn := calleeOf(info, call); fn != nil && strings.HasPrefix(fn.Name(), "getOpenedLeaf") {
								out = append(out, Born{Key: exprStr(x.Lhs[1]), Pos: x.Pos(), FailTest: statusNotOKTest(exprStr(x.Lhs[2]), "NFS4_OK"), Tag: "cleanup"})
							}
						}
					}
				case *ast.ExprStmt:
					if call, ok := x.X.(*ast.CallExpr); ok {
						if sel, ok := ast.Unparen(call.Fun).(*ast.SelectorExpr); ok && sel.Sel.Name == "hold" {
							if fn := calleeOf(info, call); fn != nil && p.Decl(fn) != nil {
								out = append(out, Born{Key: "hold:" + exprStr(sel.X), Pos: x.Pos(), Tag: "hold"})
							}
						} else if ok {
							if w, isW := wrappers[calleeOf(info, call)]; isW {
								out = append(out, Born{Key: "hold:" + exprStr(sel.X) + strings.TrimPrefix(w.held, w.recv), Pos: x.Pos(), Tag: "hold"})
							}
						}
					}
				}
				return out
			},
			Discharge: func(n ast.Node, key string) int {
				call, ok := n.(*ast.CallExpr)
				if !ok {
					return 0
				}
				if strings.HasPrefix(key, "hold:") {
					if _, ok := methodCallOn(n, strings.TrimPrefix(key, "hold:"), "release"); ok {
						return 1
					}
					return 0
				}
				if id, ok := ast.Unparen(call.Fun).(*ast.Ident); ok && id.Name == key {
					return 1
				}
				return 0
			},
			Transfer: func(n ast.Node, key string) bool {
				ret, ok := n.(*ast.ReturnStmt)
				if !ok {
					return false
				}
				if !strings.HasPrefix(key, "hold:") {
					// the cleanup function itself is returned to the caller
					for _, res := range ret.Results {
						if exprStr(res) == key {
							return true
						}
					}
					return false
				}
				obj := strings.TrimPrefix(key, "hold:")
				for _, res := range ret.Results {
					// returned closure that releases (possibly through a local that names it)
					found := false
					ast.Inspect(resolveLocalAlias(u, res), func(m ast.Node) bool {
						if fl, ok := m.(*ast.FuncLit); ok {
							ast.Inspect(fl.Body, func(k ast.Node) bool {
								if _, ok := methodCallOn(k, obj, "release"); ok {
									found = true
								}
								return true
							})
						}
						// returned transaction object (startTransaction): released by complete()
						if ue, ok := m.(*ast.UnaryExpr); ok && ue.Op == token.AND {
							if cl, ok := ue.X.(*ast.CompositeLit); ok && strings.HasSuffix(exprStr(cl.Type), "Transaction") {
								found = true
							}
						}
						return true
					})
					if found {
						return true
					}
				}
				return false
			},
		}
		res := RunObligation(info, u.Decl.Body, spec)
		if res.Created == 0 {
			continue
		}
		if res.Undecided != "" {
			r.undecided(u.Name(), res.Undecided)
		}
		bad := map[string]bool{}
		for _, v := range res.Violations {
			construct := constructOf(u, v.Born.Tag+" "+strings.TrimPrefix(v.Key, "hold:"))
			if bad[construct] {
				continue
			}
			bad[construct] = true
			msg := v.Msg
			if msg == "" {
				msg = fmt.Sprintf("discharged %d times on the path to the %s", v.Count, oblExitDesc(p, v))
			}
			what := "the cleanup function of a temporary/cloned open is not invoked exactly once: the share reservation taken for the I/O is never dropped (file never closed) or dropped twice"
			if v.Born.Tag == "hold" {
				what = "a client record is held but not released exactly once: the client can never expire (state retained forever) or expires while in use"
			}
			r.bad(c.Prop, construct, p.Pos(v.Born.Pos), what+" ("+msg+")")
		}
		ast.Inspect(u.Decl.Body, func(n ast.Node) bool {
			for _, b := range spec.Create(n) {
				construct := constructOf(u, b.Tag+" "+strings.TrimPrefix(b.Key, "hold:"))
				if !bad[construct] {
					r.ok(construct, p.Pos(b.Pos), "discharged exactly once or handed over")
				}
			}
			return true
		})
	}
	// transactions' complete() releases the client
	for _, name := range []string{"openOwnerTransaction.complete", "lockOwnerTransaction.complete"} {
		u := p.Unit(nfsPkg, name)
		okR := mustPass(p.UnitsIn(nfsPkg), func(x *FuncUnit, n ast.Node) bool {
			call, ok := n.(*ast.CallExpr)
			if !ok {
				return false
			}
			sel, ok := ast.Unparen(call.Fun).(*ast.SelectorExpr)
			return ok && sel.Sel.Name == "release" && strings.HasSuffix(exprStr(sel.X), ".confirmation")
		})[u.Fn]
		if okR {
			r.ok(u.Name()+"|release", posOf(p, u.Decl), "the client held by startTransaction is released on every path")
		} else {
			r.bad(c.Prop, u.Name()+"|release", posOf(p, u.Decl), "completing a transaction does not release the client record on every path")
		}
	}
	return r
}

func c18ShareCount(c *Ctx) *RuleResult {
	r := &RuleResult{Rule: "C18.share-count", Floor: 8,
		Doc: "opens and closes of the underlying file follow the reader/writer COUNTERS shared by an open-owner file and its lock-owner files: in shareCount.upgrade the redundant-open mask gets a bit exactly under `counter > 0` of the matching counter, in downgrade the to-close mask gets a bit exactly when the matching counter's decrease() reports zero; every caller turns a non-zero result into a scheduled close (ll.leaves append) and every result is used"}
	p := c.P
	units := p.UnitsIn(nfsPkg)
	readers := p.LookupField(nfsPkg, "shareCount", "readers")
	writers := p.LookupField(nfsPkg, "shareCount", "writers")
	for _, name := range []string{"shareCount.upgrade", "shareCount.downgrade"} {
		u := p.Unit(nfsPkg, name)
		info := u.Info()
		ast.Inspect(u.Decl.Body, func(n ast.Node) bool {
			as, ok := n.(*ast.AssignStmt)
			if !ok || as.Tok != token.OR_ASSIGN || len(as.Lhs) != 1 {
				return true
			}
			if _, isID := as.Lhs[0].(*ast.Ident); !isID {
				return true // *shareAccess |= ...
			}
			bit := exprStr(as.Rhs[0])
			var want *types.Var
			switch {
			case strings.HasSuffix(bit, "ShareMaskRead"):
				want = readers
			case strings.HasSuffix(bit, "ShareMaskWrite"):
				want = writers
			default:
				return true
			}
			construct := constructOf(u, exprStr(as.Lhs[0])+" |= "+bit)
			okG := false
			for _, g := range flattenGuards(GuardsOf(info, u.Decl.Body, as)) {
				if !g.Pos {
					continue
				}
				switch x := ast.Unparen(g.Cond).(type) {
				case *ast.BinaryExpr:
					if (x.Op == token.GTR || x.Op == token.NEQ) && fieldOf(info, x.X) == want && exprStr(x.Y) == "0" {
						okG = true
					}
				case *ast.CallExpr:
					if sel, ok := ast.Unparen(x.Fun).(*ast.SelectorExpr); ok && sel.Sel.Name == "decrease" && fieldOf(info, sel.X) == want {
						okG = true
					}
				}
			}
			if okG {
				r.ok(construct, posOf(p, as), "decided by the "+want.Name()+" counter")
			} else {
				r.bad(c.Prop, construct, posOf(p, as), "whether the underlying file must be closed for this access mode is not decided by the shared "+want.Name()+" counter (which also counts lock-owner and in-flight I/O reservations): the file is closed more or fewer times than it was opened")
			}
			return true
		})
	}
	leavesF := p.LookupField(nfsPkg, "leavesToClose", "leaves")
	schedulers := mayDo(units, func(x *FuncUnit, n ast.Node) bool {
		as, ok := n.(*ast.AssignStmt)
		return ok && len(as.Lhs) == 1 && fieldOf(x.Info(), as.Lhs[0]) == leavesF
	})
	up := p.LookupFunc(nfsPkg, "shareCount.upgrade")
	down := p.LookupFunc(nfsPkg, "shareCount.downgrade")
	for _, cs := range CallsTo(units, up, down) {
		u := cs.Unit
		call := cs.Node.(*ast.CallExpr)
		construct := constructOf(u, calleeOf(u.Info(), call).Name()+" result")
		okU := false
		for _, anc := range pathTo(u.Decl.Body, call) {
			switch x := anc.(type) {
			case *ast.IfStmt:
				// if v := call; v != 0 { ll.leaves = append(...) }  or  if call != 0 {...}
				cond := exprStr(x.Cond)
				if strings.HasSuffix(cond, "!= 0") {
					appended := false
					ast.Inspect(x.Body, func(m ast.Node) bool {
						if as, ok := m.(*ast.AssignStmt); ok && len(as.Lhs) == 1 && strings.HasSuffix(exprStr(as.Lhs[0]), ".leaves") {
							appended = true
						}
						// ... or through a helper that appends to the list of leaves to close
						if hc, ok := m.(*ast.CallExpr); ok {
							if fn := calleeOf(u.Info(), hc); fn != nil && schedulers[fn] {
								appended = true
							}
						}
						return true
					})
					if appended || terminates(u.Info(), x.Body.List) {
						okU = true // scheduled, or asserted impossible (panic) for a freshly created state
					}
				}
			}
		}
		if okU {
			r.ok(construct, posOf(p, call), "non-zero result schedules a close")
		} else {
			r.bad(c.Prop, construct, posOf(p, call), "the mask returned by the share counter (accesses that must be closed) is not turned into a scheduled close: the underlying file is never closed for that access")
		}
	}
	return r
}

func c18Reapers(c *Ctx) *RuleResult {
	r := &RuleResult{Rule: "C18.reapers", Floor: 15,
		Doc: "after all leases expire the server retains nothing: every map field of the NFS state structures has a delete in a function statically reachable from the lease-expiry code of its program's enter(); the back-reference from a client to its confirmed record is only cleared by that very record (identity guard), so an ageing unconfirmed record cannot tear down a live client"}
	p := c.P
	units := p.UnitsIn(nfsPkg)
	reach := map[*types.Func]bool{}
	for _, name := range []string{"nfs40Program.enter", "nfs41Program.enter"} {
		u := p.Unit(nfsPkg, name)
		for fn := range staticReach(p, []ast.Node{u.Decl.Body}, u.Info()) {
			reach[fn] = true
		}
	}
	pkg := p.Pkg(nfsPkg)
	sc := pkg.Types.Scope()
	names := sc.Names()
	sort.Strings(names)
	for _, name := range names {
		tn, ok := sc.Lookup(name).(*types.TypeName)
		if !ok {
			continue
		}
		st, ok := tn.Type().Underlying().(*types.Struct)
		// not per-client protocol state: the opened-files pool is keyed by open handles and emptied by
		// OpenedFile.Close (use count), the system authenticator keeps a bounded cache with its own eviction
		if !ok || tn.Name() == "OpenedFilesPool" || tn.Name() == "systemAuthenticator" {
			continue
		}
		for i := 0; i < st.NumFields(); i++ {
			f := st.Field(i)
			if _, isMap := f.Type().Underlying().(*types.Map); !isMap {
				continue
			}
			inserts := 0
			where := ""
			for _, w := range FieldWrites(units, f, false) {
				switch w.Node.(type) {
				case *ast.AssignStmt:
					if _, isIx := ast.Unparen(w.Expr).(*ast.IndexExpr); isIx {
						inserts++
					}
				case *ast.CallExpr:
					if reach[w.Unit.Fn] {
						where = w.Unit.Name()
					}
				}
			}
			if inserts == 0 {
				continue
			}
			construct := tn.Name() + "." + f.Name()
			if where != "" {
				r.ok(construct, "-", "emptied by "+where+", reachable from lease expiry")
			} else {
				r.bad(c.Prop, construct, "-", "entries are inserted into this map but no delete is reachable from the lease-expiry path of enter(): records of vanished clients are retained forever")
			}
		}
	}
	// identity guards
	for _, fld := range [][2]string{{"nfs40ClientState", "confirmed"}, {"nfs41ClientState", "confirmedIncarnation"}} {
		f := p.LookupField(nfsPkg, fld[0], fld[1])
		for _, w := range FieldWrites(units, f, false) {
			if w.RHS == nil || !isNilIdent(w.RHS) {
				continue
			}
			u := w.Unit
			if u.Decl.Recv == nil || len(u.Decl.Recv.List[0].Names) == 0 {
				continue
			}
			recv := u.Decl.Recv.List[0].Names[0].Name
			okG := false
			for _, g := range flattenGuards(GuardsOf(u.Info(), u.Decl.Body, w.Node)) {
				if be, ok := ast.Unparen(g.Cond).(*ast.BinaryExpr); ok && g.Pos && be.Op == token.EQL && (exprStr(be.X) == recv || exprStr(be.Y) == recv) {
					okG = true
				}
			}
			construct := constructOf(u, fld[1]+" = nil")
			if okG {
				r.ok(construct, posOf(p, w.Node), "only when this record is the confirmed one")
			} else {
				r.bad(c.Prop, construct, posOf(p, w.Node), "a client's confirmed state is dropped (files closed, locks released) by the removal of a record that is not the confirmed one: an unconfirmed record ageing out tears down a live client whose state IDs are still valid")
			}
		}
	}
	return r
}

func init() {
	register(&PropertySpec{
		ID:          "C18",
		Level:       "other",
		Explanation: "Structural necessary conditions of 'open and lock state is accounted for and fully reclaimed': files are closed only through closeAll / temporary-open cleanups and never under a program lock; scheduled leaves are closed on every path; cleanup functions and client holds are discharged exactly once or handed over; opens/closes follow the shared reader/writer counters and every non-zero counter result schedules a close; every state map is emptied by code reachable from lease expiry; confirmed back-references are only cleared by the confirmed record itself; removal asserting 'no locks' is gated (shared with C20). The numerical balance of opens versus closes over all multi-client histories is not decided.",
		Assumptions: []string{"the lock model of C14", "virtual.Leaf implementations balance their own VirtualOpenSelf/VirtualClose"},
		Rules:       []RuleFunc{c18CloseSites, c18Cleanup, c18ShareCount, c18Reapers, c20Count, c18PoolEntry, c18EnterOnly, c18Unused, c18OpenAccounted, c18FileHandleReset, c18LockOwnerRules, c18DowngradeAndIdleOrder},
	})
}
