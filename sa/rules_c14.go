package main

import (
	"fmt"
	"go/ast"
	"go/token"
	"go/types"
	"os"
	"sort"
	"strings"
)

// scope of C14: "the virtual file system, NFS server, file pool, scheduler and cleaner packages"
var c14Scope = []string{"pkg/filesystem/virtual", "pkg/filesystem/pool", "pkg/scheduler", "pkg/cleaner", "pkg/sync"}

func inScope(rel string, scope []string) bool {
	for _, s := range scope {
		if rel == s || strings.HasPrefix(rel, s+"/") {
			return true
		}
	}
	return false
}

var lockEngineCache = map[*Program]*LockEngine{}

// sharedLockEngine runs the lock-flow engine once per loaded program (no guarded-field table).
func sharedLockEngine(c *Ctx) *LockEngine {
	if e, ok := lockEngineCache[c.P]; ok {
		return e
	}
	e := NewLockEngine(c.P)
	e.IfaceImpls = interfaceImplementations(c.P)
	e.Singleton = singletonLockClasses
	// Reporting a removal to the kernel (FUSE entry notification) is a blocking upcall: the kernel
	// may be holding the directory's inode lock on behalf of a lookup that is itself waiting for
	// the directory lock. Every call site in the tree drops its locks first.
	if obj := c.P.Pkg(virtualPkg).Types.Scope().Lookup("StatefulDirectoryHandle"); obj != nil {
		if iface, ok := obj.Type().Underlying().(*types.Interface); ok {
			for i := 0; i < iface.NumMethods(); i++ {
				if m := iface.Method(i); m.Name() == "NotifyRemoval" {
					e.BlockingCallees[m.Origin()] = "*"
				}
			}
		}
	}
	e.Run()
	dumpClasses(e)
	dumpSummaries(e, c.P)
	lockEngineCache[c.P] = e
	return e
}

// interfaceImplementations maps every method of every interface declared in (or used by) the
// repository to the repository methods implementing it (class-hierarchy resolution).
func interfaceImplementations(p *Program) map[*types.Func][]*types.Func {
	var concrete []*types.Named
	var ifaces []*types.Named
	for _, pkg := range p.Pkgs {
		sc := pkg.Types.Scope()
		for _, n := range sc.Names() {
			tn, ok := sc.Lookup(n).(*types.TypeName)
			if !ok || tn.IsAlias() {
				continue
			}
			named, ok := tn.Type().(*types.Named)
			if !ok || named.TypeParams().Len() > 0 {
				continue
			}
			if types.IsInterface(named) {
				ifaces = append(ifaces, named)
			} else {
				concrete = append(concrete, named)
			}
		}
	}
	out := map[*types.Func][]*types.Func{}
	for _, it := range ifaces {
		iface := it.Underlying().(*types.Interface)
		if iface.NumMethods() == 0 {
			continue
		}
		for _, ct := range concrete {
			var recv types.Type
			if types.Implements(ct, iface) {
				recv = ct
			} else if types.Implements(types.NewPointer(ct), iface) {
				recv = types.NewPointer(ct)
			} else {
				continue
			}
			ms := types.NewMethodSet(recv)
			for i := 0; i < iface.NumMethods(); i++ {
				im := iface.Method(i)
				sel := ms.Lookup(im.Pkg(), im.Name())
				if sel == nil {
					continue
				}
				if fn, ok := sel.Obj().(*types.Func); ok {
					out[im.Origin()] = append(out[im.Origin()], fn.Origin())
				}
			}
		}
	}
	return out
}

func c14Balance(c *Ctx) *RuleResult {
	r := &RuleResult{Rule: "C14.balance", Floor: 90,
		Doc: "for every function of the scoped packages that performs or inherits a lock operation, and every lock key it touches: all return paths (after deferred calls) agree on the net effect; no unlock of a lock not held on the path; no lock of a lock already held on the path; functions that nobody inside the repository calls with the lock state they assume (exported API, goroutine bodies, callbacks) start and end with nothing held"}
	e := sharedLockEngine(c)
	nf := 0
	for _, s := range e.Order {
		rel := relPkg(s.Pkg.Types)
		if !inScope(rel, c14Scope) || rel == "pkg/sync" {
			continue
		}
		nf++
		keys := map[string]bool{}
		for k := range s.Effects {
			keys[k] = true
		}
		bad := map[string]lfDiag{}
		for _, d := range s.Diags {
			switch d.Kind {
			case "balance", "double-lock", "unlock-unheld", "requires":
				if _, ok := bad[d.Key]; !ok {
					bad[d.Key] = d
				}
				keys[d.Key] = true
			case "undecided":
				r.undecided(s.Name, d.Msg)
			}
		}
		if s.LockOps == 0 && len(keys) == 0 {
			continue
		}
		if len(keys) == 0 {
			keys["(all locks balanced locally)"] = true
		}
		ks := make([]string, 0, len(keys))
		for k := range keys {
			ks = append(ks, k)
		}
		sort.Strings(ks)
		for _, k := range ks {
			construct := s.Name + "|" + k
			if d, ok := bad[k]; ok {
				r.bad(c.Prop, construct, c.P.Pos(d.Pos), d.Kind+": "+d.Msg, d.Path...)
				continue
			}
			// root rule
			if ef := s.Effects[k]; ef != nil && isLockRoot(e, s) && (ef.Delta != 0 || ef.DeltaR != 0) {
				r.bad(c.Prop, construct, c.P.Pos(s.Body.Pos()), fmt.Sprintf("entry point returns with net %+d on %s: a lock is left behind (or released without having been taken)", ef.Delta+ef.DeltaR, k))
				continue
			}
			// result-correlated effects are only acceptable where a caller inside the repository can
			// follow them: not for entry points, and not for functions nobody calls directly
			if ef := s.EffectsFail[k]; ef != nil && (isLockRoot(e, s) || !s.Called) && (ef.Delta != 0 || ef.DeltaR != 0) {
				r.bad(c.Prop, construct, c.P.Pos(s.Body.Pos()), fmt.Sprintf("balance: the paths that return an error leave with net %+d on %s, the successful ones with %+d: a failed call leaves the lock behind (or releases one it did not take)", ef.Delta+ef.DeltaR, k, s.Effects[k].Delta+s.Effects[k].DeltaR))
				continue
			}
			detail := "balanced on all return paths"
			if ef := s.EffectsFail[k]; ef != nil {
				detail = fmt.Sprintf("effect correlated with the error result and followed by every caller: nil -> net %+d, error -> net %+d", s.Effects[k].Delta+s.Effects[k].DeltaR, ef.Delta+ef.DeltaR)
				r.ok(construct, c.P.Pos(s.Body.Pos()), detail)
				continue
			}
			if ef := s.Effects[k]; ef != nil {
				detail = fmt.Sprintf("consistent on all %d exit states: pre=%s net=%+d", s.Exits, preName(ef.Pre), ef.Delta+ef.DeltaR)
			}
			r.ok(construct, c.P.Pos(s.Body.Pos()), detail)
		}
	}
	r.count("functions_in_scope", nf)
	r.count("engine_iterations", e.iter+1)
	return r
}

func preName(m keyMode) string {
	switch m {
	case kHeld:
		return "held"
	case kNotHeld:
		return "not-held"
	}
	return "any"
}

// isLockRoot: exported functions/methods and function literals that run on their own
// (goroutines, stored callbacks) must be lock-neutral.
func isLockRoot(e *LockEngine, s *FuncSummary) bool {
	if s.Lit != nil {
		return true
	}
	return s.Fn != nil && s.Fn.Exported()
}

func c14NoBlock(c *Ctx) *RuleResult {
	r := &RuleResult{Rule: "C14.noblock", Floor: 40,
		Doc: "no synchronisation-blocking operation (channel receive/send, select without default, WaitGroup/errgroup Wait, time.Sleep, or a call whose inferred summary contains one) is reachable while a mutex of the scoped packages is held, unless the summary shows that the lock was released first"}
	e := sharedLockEngine(c)
	for _, s := range e.Order {
		rel := relPkg(s.Pkg.Types)
		if !inScope(rel, c14Scope) || rel == "pkg/sync" {
			continue
		}
		if s.LockOps == 0 && len(s.Effects) == 0 {
			continue
		}
		var ds []lfDiag
		for _, d := range s.Diags {
			if d.Kind == "noblock" {
				ds = append(ds, d)
			}
		}
		if len(ds) == 0 {
			nblock := 0
			for _, ev := range s.Events {
				if ev.Kind == "block" {
					nblock++
				}
			}
			r.ok(s.Name, c.P.Pos(s.Body.Pos()), fmt.Sprintf("%d blocking operation(s) reachable, none while a lock is held", nblock))
			continue
		}
		seen := map[string]bool{}
		for _, d := range ds {
			construct := s.Name + "|" + d.Key + "|" + blockWhat(d.Msg)
			if seen[construct] {
				continue
			}
			seen[construct] = true
			r.bad(c.Prop, construct, c.P.Pos(d.Pos), d.Msg, d.Path...)
		}
	}
	return r
}

// c14Callbacks: no unknown code runs under a lock.
func c14Callbacks(c *Ctx) *RuleResult {
	r := &RuleResult{Rule: "C14.callback-under-lock", Floor: 20,
		Doc: "no code the analysis cannot see runs while a mutex of the scoped packages is held: no call through a function value taken from a field, map or slice (as opposed to a literal of the same function or a parameter, which are followed) is made with a lock held -- such a callback may call back into the same component and block on that lock (read locks included: a waiting writer blocks new readers)"}
	e := sharedLockEngine(c)
	for _, s := range e.Order {
		rel := relPkg(s.Pkg.Types)
		if !inScope(rel, c14Scope) || rel == "pkg/sync" {
			continue
		}
		if s.LockOps == 0 && len(s.Effects) == 0 {
			continue
		}
		n := 0
		for _, d := range s.Diags {
			if d.Kind == "callback" {
				n++
				r.bad(c.Prop, s.Name+"|"+d.Key+"|callback", c.P.Pos(d.Pos), d.Msg)
			}
		}
		if n == 0 {
			r.ok(s.Name, c.P.Pos(s.Body.Pos()), "no call through a stored function value while a lock is held")
		}
	}
	return r
}

func blockWhat(msg string) string {
	if i := strings.Index(msg, " while "); i > 0 {
		return msg[:i]
	}
	return msg
}

func c14Pile(c *Ctx) *RuleResult {
	r := &RuleResult{Rule: "C14.pile", Floor: 4,
		Doc: "every function that declares a LockPile empties it (UnlockAll, directly or deferred) on every return path, and never removes a lock from the pile that is not in it on that path"}
	e := sharedLockEngine(c)
	for _, s := range e.Order {
		rel := relPkg(s.Pkg.Types)
		if !inScope(rel, c14Scope) || rel == "pkg/sync" {
			continue
		}
		uses := false
		ast.Inspect(s.Body, func(n ast.Node) bool {
			if cl, ok := n.(*ast.CompositeLit); ok {
				if tv, ok := s.Pkg.TypesInfo.Types[cl]; ok && namedIs(tv.Type, modPath+"/pkg/sync", "LockPile") {
					uses = true
				}
			}
			if vs, ok := n.(*ast.ValueSpec); ok && vs.Type != nil {
				if tv, ok := s.Pkg.TypesInfo.Types[vs.Type]; ok && namedIs(tv.Type, modPath+"/pkg/sync", "LockPile") {
					uses = true
				}
			}
			return true
		})
		var ds []lfDiag
		for _, d := range s.Diags {
			if d.Kind == "pile" {
				ds = append(ds, d)
			}
		}
		if !uses && len(ds) == 0 {
			continue
		}
		if len(ds) == 0 {
			r.ok(s.Name, c.P.Pos(s.Body.Pos()), "LockPile emptied on all return paths")
			continue
		}
		for _, d := range ds {
			r.bad(c.Prop, s.Name+"|"+d.Key, c.P.Pos(d.Pos), d.Msg)
		}
	}
	return r
}

func c14Order(c *Ctx) *RuleResult {
	r := &RuleResult{Rule: "C14.order", Floor: 3,
		Doc: "the class-level lock-order graph (edge A->B when a lock of class B is acquired by a blocking Lock/RLock, directly or through a summarised callee, while a lock of class A is held; acquisitions of two locks through the same LockPile are exempt) has no cycle, including no self-edge"}
	e := sharedLockEngine(c)
	adj := map[string]map[string]*OrderEdge{}
	ids := make([]string, 0, len(e.Edges))
	for id := range e.Edges {
		ids = append(ids, id)
	}
	sort.Strings(ids)
	for _, id := range ids {
		ed := e.Edges[id]
		if !funcInScope(e, ed.Func, c14Scope) {
			continue
		}
		if adj[ed.From] == nil {
			adj[ed.From] = map[string]*OrderEdge{}
		}
		if _, ok := adj[ed.From][ed.To]; !ok {
			adj[ed.From][ed.To] = ed
		}
	}
	// every edge is an obligation: it must not lie on a cycle
	onCycle := func(from, to string) []string {
		// path from `to` back to `from`?
		seen := map[string]bool{}
		var path []string
		var dfs func(n string) bool
		dfs = func(n string) bool {
			if n == from {
				return true
			}
			if seen[n] {
				return false
			}
			seen[n] = true
			var nx []string
			for m := range adj[n] {
				nx = append(nx, m)
			}
			sort.Strings(nx)
			for _, m := range nx {
				if dfs(m) {
					path = append(path, fmt.Sprintf("%s -> %s at %s in %s", n, m, c.P.Pos(adj[n][m].Pos), adj[n][m].Func))
					return true
				}
			}
			return false
		}
		if from == to {
			return []string{"self-edge"}
		}
		if dfs(to) {
			return path
		}
		return nil
	}
	var froms []string
	for f := range adj {
		froms = append(froms, f)
	}
	sort.Strings(froms)
	for _, f := range froms {
		var tos []string
		for t := range adj[f] {
			tos = append(tos, t)
		}
		sort.Strings(tos)
		for _, t := range tos {
			ed := adj[f][t]
			construct := f + " -> " + t
			if cyc := onCycle(f, t); cyc != nil {
				path := append(append([]string{}, ed.Chain...), cyc...)
				r.bad(c.Prop, construct, c.P.Pos(ed.Pos), fmt.Sprintf("lock-order edge %s (in %s) lies on a cycle: two threads taking the locks in opposite orders deadlock", construct, ed.Func), path...)
			} else {
				r.ok(construct, c.P.Pos(ed.Pos), "edge observed in "+ed.Func+"; not on a cycle")
			}
		}
	}
	return r
}

func init() {
	register(&PropertySpec{
		ID:          "C14",
		Level:       "proof",
		Explanation: "Path-exhaustive lock typestate analysis (go/cfg, path-sensitive on branch conditions and flags, inferred callee summaries to a fixpoint) of every function in pkg/filesystem/virtual/..., pkg/filesystem/pool, pkg/scheduler/..., pkg/cleaner (linux/amd64 build): each (function, lock key) pair is one obligation 'all exits agree, nothing left held, nothing unlocked twice'; plus no blocking operation under a lock, LockPile discipline and an acyclic class-level lock order. Decides the first sentence of the property for all control-flow paths; for the second sentence it decides the classical sufficient conditions under the stated lock model, not termination itself.",
		Assumptions: []string{
			"locks are identified by access path inside a function and by class (Type.field) across functions",
			"panicking paths do not return (the process dies), so they carry no obligation",
			"calls through function values and calls leaving the repository do not touch repository locks",
			"interface calls are resolved by class hierarchy for blocking/ordering facts, but only single-instance lock classes (frozen table) are reasoned about through them; per-object locks only through statically resolved calls",
			"Darwin/Windows-only files are outside the analysed build configuration",
		},
		Rules: []RuleFunc{c14Balance, c14NoBlock, c14Pile, c14Order, c14Channels, c14PileImpl, c14Callbacks},
	})
}

// debug helper: BBVERIF_DUMP=substring prints matching summaries
func dumpSummaries(e *LockEngine, p *Program) {
	pat := os.Getenv("BBVERIF_DUMP")
	if pat == "" {
		return
	}
	for _, s := range e.Order {
		if !strings.Contains(s.Name, pat) {
			continue
		}
		fmt.Printf("== %s exits=%d lockops=%d\n", s.Name, s.Exits, s.LockOps)
		for k, ef := range s.Effects {
			fmt.Printf("   effect %s pre=%s delta=%d touched=%v class=%s\n", k, preName(ef.Pre), ef.Delta, ef.Touched, ef.Class)
		}
		for _, ev := range s.Events {
			fmt.Printf("   event %s %s rel=%v chain=%v\n", ev.Kind, ev.Class, ev.Released, ev.Chain)
		}
		for _, d := range s.Diags {
			fmt.Printf("   diag %s %s %s %s\n", d.Kind, d.Key, p.Pos(d.Pos), d.Msg)
		}
	}
}

var _ = token.NoPos

func funcInScope(e *LockEngine, name string, scope []string) bool {
	for _, s := range e.Order {
		if s.Name == name {
			rel := relPkg(s.Pkg.Types)
			return inScope(rel, scope) && rel != "pkg/sync"
		}
	}
	return false
}

// debug: BBVERIF_CLASSES=1 prints all lock classes the engine saw
func dumpClasses(e *LockEngine) {
	if os.Getenv("BBVERIF_CLASSES") == "" {
		return
	}
	cl := map[string]int{}
	for _, s := range e.Order {
		for _, ef := range s.Effects {
			cl[ef.Class]++
		}
		for _, ev := range s.Events {
			if ev.Kind == "acquire" && len(ev.Chain) == 1 {
				cl[ev.Class]++
			}
		}
	}
	var ks []string
	for k := range cl {
		ks = append(ks, k)
	}
	sort.Strings(ks)
	for _, k := range ks {
		fmt.Println("CLASS", k, cl[k])
	}
}

// singletonLockClasses: one instance per server component (reason per entry). Only for these is a
// class-level cycle/blocking fact found through class-hierarchy-resolved interface calls an
// instance-level fact; per-object locks (directories, files, per-client state) are hierarchical and
// only analysed through statically resolved calls.
var singletonLockClasses = map[string]string{
	"scheduler.InMemoryBuildQueue.lock":              "one build queue per scheduler process",
	"nfsv4.nfs40Program.lock":                        "one program object per NFSv4.0 mount",
	"nfsv4.nfs41Program.clientsLock":                 "one program object per NFSv4.1 mount",
	"virtual.nfsHandlePool.lock":                     "one handle pool per NFS handle allocator, shared by all its nodes",
	"nfsv4.OpenedFilesPool.lock":                     "one opened-files pool per NFS program",
	"fuse.simpleRawFileSystem.nodeLock":              "one raw file system per FUSE mount",
	"pool.bitmapSectorAllocator.lock":                "one sector allocator per block device",
	"virtual.fuseHandleOptions.removalNotifiersLock": "one options object per FUSE handle allocator",
}
