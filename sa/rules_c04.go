package main

import (
	"fmt"
	"go/ast"
	"go/token"
	"go/types"
	"strings"
)

// sideOf tells whether an operand belongs to element i or element j of a heap comparison.
func ijOrient(a, b string) (ok, flip bool) {
	ai, aj := strings.Contains(a, "[i]"), strings.Contains(a, "[j]")
	bi, bj := strings.Contains(b, "[i]"), strings.Contains(b, "[j]")
	if ai && bj && !aj && !bi {
		return true, false
	}
	if aj && bi && !ai && !bj {
		return true, true
	}
	return false, false
}

func c04Less(c *Ctx) *RuleResult {
	r := &RuleResult{Rule: "C04.less", Floor: 27,
		Doc: "decision table of queuedOperationsHeap.Less over all 27 orderings of (priority, expected duration, queued timestamp) of the two operations equals the documented lexicographic policy: lower priority value first, then LONGER expected duration, then OLDER queued timestamp"}
	p := c.P
	u := p.Unit(schedPkg, "queuedOperationsHeap.Less")
	d := BuildDTable(u, u.Decl.Body)
	if d.Err != "" {
		r.undecided(u.Name(), d.Err)
		return r
	}
	find := func(suffix string) (*dtAtom, bool) {
		at, flip, ok := d.FindOrder(func(a, b string) (bool, bool) {
			if !strings.HasSuffix(a, suffix) || !strings.HasSuffix(b, suffix) {
				return false, false
			}
			return ijOrient(a, b)
		})
		if !ok {
			panic(anchorError("Less: no comparison of " + suffix + " between element i and element j (atoms: " + strings.Join(d.describe(), "; ") + ")"))
		}
		return at, flip
	}
	pa, pf := find(".priority")
	da, df := find(".expectedDuration")
	ta, tf := find("QueuedTimestamp.AsTime()")
	sgn := func(row DTRow, a *dtAtom, flip bool) int {
		s := row.Assign[a.Key]
		if flip {
			return -s
		}
		return s
	}
	if len(d.Atoms) != 3 {
		r.bad(c.Prop, u.Name()+"|atoms", posOf(p, u.Decl), fmt.Sprintf("the comparator consults %d conditions (%v); the documented order has exactly three keys", len(d.Atoms), d.describe()))
	}
	for _, row := range d.Rows {
		ps, ds, ts := sgn(row, pa, pf), sgn(row, da, df), sgn(row, ta, tf)
		want := ps < 0 || (ps == 0 && (ds > 0 || (ds == 0 && ts < 0)))
		construct := fmt.Sprintf("%s|prio%+d,dur%+d,ts%+d", u.Name(), ps, ds, ts)
		if row.Result == fmt.Sprint(want) {
			r.ok(construct, posOf(p, u.Decl), "returns "+row.Result)
		} else {
			r.bad(c.Prop, construct, posOf(p, u.Decl), fmt.Sprintf("for sign(priority_i ? priority_j)=%+d, sign(duration_i ? duration_j)=%+d, sign(timestamp_i ? timestamp_j)=%+d Less returns %s but the documented order (priority, then longest expected duration, then oldest) requires %v", ps, ds, ts, row.Result, want))
		}
	}
	return r
}

func c04Pref(c *Ctx) *RuleResult {
	r := &RuleResult{Rule: "C04.pref", Floor: 8,
		Doc: "invocation.isPreferred returns score_i < score_j, or equal scores and the tie-breaker (table over sign(si ? sj) x tieBreaker); the priority penalty multiplies the score of the invocation with the numerically higher (i.e. lower) priority; queuedChildrenHeap.Less passes element j and breaks ties by 'least recently started'"}
	p := c.P
	u := p.Unit(schedPkg, "invocation.isPreferred")
	info := u.Info()
	d := BuildDTable(u, u.Decl.Body)
	if d.Err != "" {
		r.undecided(u.Name(), d.Err)
		return r
	}
	// identify the score atom: the order atom used in the return expression
	var ret *ast.ReturnStmt
	ast.Inspect(u.Decl.Body, func(n ast.Node) bool {
		if rs, ok := n.(*ast.ReturnStmt); ok {
			ret = rs
		}
		return true
	})
	if ret == nil || len(ret.Results) != 1 {
		panic(anchorError("isPreferred return"))
	}
	var scoreAtom *dtAtom
	var tieAtom *dtAtom
	ast.Inspect(ret.Results[0], func(n ast.Node) bool {
		if be, ok := n.(*ast.BinaryExpr); ok && (be.Op == token.LSS || be.Op == token.GTR) && scoreAtom == nil {
			scoreAtom, _ = d.orderAtom(be.X, be.Y)
		}
		return true
	})
	params := u.Decl.Type.Params.List
	tieName := ""
	for _, f := range params {
		if isBoolTyped(info, f.Type) || exprStr(f.Type) == "bool" {
			tieName = f.Names[0].Name
		}
	}
	tieAtom = d.FindBool(func(k string) bool { return k == tieName })
	if scoreAtom == nil || tieAtom == nil {
		panic(anchorError("isPreferred: score comparison / tie-breaker parameter not found"))
	}
	// orientation of the score atom: which operand belongs to the receiver?
	// the receiver's score is the variable assigned from the receiver's executing count.
	recv := u.Decl.Recv.List[0].Names[0].Name
	recvScore := scoreOperandOf(u, recv)
	flip := false
	if scoreAtom.B == recvScore {
		flip = true
	} else if scoreAtom.A != recvScore {
		panic(anchorError("isPreferred: cannot tell which score belongs to the receiver (" + scoreAtom.Key + ", receiver score " + recvScore + ")"))
	}
	seen := map[string]bool{}
	for _, row := range d.Rows {
		s := row.Assign[scoreAtom.Key]
		if flip {
			s = -s
		}
		t := row.Assign[tieAtom.Key] == 1
		construct := fmt.Sprintf("%s|score%+d,tie=%v", u.Name(), s, t)
		want := s < 0 || (s == 0 && t)
		if seen[construct+row.Result] {
			continue
		}
		seen[construct+row.Result] = true
		if row.Result == fmt.Sprint(want) {
			r.ok(construct, posOf(p, ret), "returns "+row.Result)
		} else {
			r.bad(c.Prop, construct, posOf(p, ret), fmt.Sprintf("with sign(score_i ? score_j)=%+d and tieBreaker=%v isPreferred returns %s, the policy requires %v", s, t, row.Result, want))
		}
	}
	// penalty placement
	ast.Inspect(u.Decl.Body, func(n ast.Node) bool {
		as, ok := n.(*ast.AssignStmt)
		if !ok || len(as.Lhs) != 2 || len(as.Rhs) != 2 {
			return true
		}
		l0, l1 := exprStr(as.Lhs[0]), exprStr(as.Lhs[1])
		if !((l0 == scoreAtom.A && l1 == scoreAtom.B) || (l0 == scoreAtom.B && l1 == scoreAtom.A)) {
			return true
		}
		hasPow := func(e ast.Expr) bool {
			f := false
			ast.Inspect(e, func(m ast.Node) bool {
				if ce, ok := m.(*ast.CallExpr); ok {
					if fn := calleeOf(info, ce); fn != nil && fn.Pkg() != nil && fn.Pkg().Path() == "math" && fn.Name() == "Pow" {
						f = true
					}
				}
				return true
			})
			return f
		}
		gs := flattenGuards(GuardsOf(info, u.Decl.Body, as))
		var last *Guard
		for i := range gs {
			if be, ok := ast.Unparen(gs[i].Cond).(*ast.BinaryExpr); ok && gs[i].Pos && (be.Op == token.LSS || be.Op == token.GTR) {
				last = &gs[i]
			}
		}
		construct := constructOf(u, "penalty@"+strings.Join(guardStrings(gs), "&"))
		recvIdx := 0
		if l1 == recvScore {
			recvIdx = 1
		}
		pr, po := hasPow(as.Rhs[recvIdx]), hasPow(as.Rhs[1-recvIdx])
		if last == nil {
			if pr || po {
				r.bad(c.Prop, construct, posOf(p, as), "a priority penalty is applied on the equal-priority path")
			} else {
				r.ok(construct, posOf(p, as), "no penalty when priorities are equal")
			}
			return true
		}
		be := ast.Unparen(last.Cond).(*ast.BinaryExpr)
		// is the receiver's priority numerically lower on this branch?
		recvPrio := d.canon(be.X)
		recvLower := (be.Op == token.LSS) == strings.Contains(recvPrio, recv+".")
		if recvLower && po && !pr || !recvLower && pr && !po {
			r.ok(construct, posOf(p, as), "the invocation with the numerically higher priority value is penalised")
		} else {
			r.bad(c.Prop, construct, posOf(p, as), "the priority penalty is applied to the wrong invocation (the one with the better priority) or to both/none")
		}
		return true
	})
	// heap comparator
	hl := p.Unit(schedPkg, "queuedChildrenHeap.Less")
	isPref := p.LookupFunc(schedPkg, "invocation.isPreferred")
	los := p.LookupField(schedPkg, "invocation", "lastOperationStarted")
	for _, cs := range CallsTo([]*FuncUnit{hl}, isPref) {
		call := cs.Node.(*ast.CallExpr)
		sel := ast.Unparen(call.Fun).(*ast.SelectorExpr)
		okShape := inlinedStr(hl, sel.X) == "h[i]" && len(call.Args) == 2 && inlinedStr(hl, call.Args[0]) == "h[j]"
		tie, isCall := ast.Unparen(resolveLocalAlias(hl, call.Args[1])).(*ast.CallExpr)
		if isCall {
			name, a, b, ok := isTimeCmp(hl.Info(), tie)
			okShape = okShape && ok && name == "Before" && fieldOf(hl.Info(), a) == los && fieldOf(hl.Info(), b) == los && strings.HasPrefix(inlinedStr(hl, a), "h[i]") && strings.HasPrefix(inlinedStr(hl, b), "h[j]")
		} else {
			okShape = false
		}
		construct := constructOf(hl, "tie-break")
		if okShape {
			r.ok(construct, posOf(p, call), "h[i].isPreferred(h[j], h[i].lastOperationStarted.Before(h[j].lastOperationStarted))")
		} else {
			r.bad(c.Prop, construct, posOf(p, call), "the child-invocation heap does not compare element i with element j breaking ties by least-recently-started: "+exprStr(call))
		}
	}
	return r
}

// scoreOperandOf finds the local variable that carries the receiver's score: the one that is
// assigned (possibly scaled) from the variable initialised from len(recv.executingWorkers)+1.
func scoreOperandOf(u *FuncUnit, recv string) string {
	// ei, ej := float64(len(i.executingWorkers)+1), ...   then   si, sj = ei, ej*...
	recvE := ""
	ast.Inspect(u.Decl.Body, func(n ast.Node) bool {
		as, ok := n.(*ast.AssignStmt)
		if !ok || len(as.Lhs) != len(as.Rhs) {
			return true
		}
		for i, rhs := range as.Rhs {
			if strings.Contains(exprStr(rhs), "len("+recv+".executingWorkers)") {
				recvE = exprStr(as.Lhs[i])
			}
		}
		return true
	})
	score := ""
	ast.Inspect(u.Decl.Body, func(n ast.Node) bool {
		as, ok := n.(*ast.AssignStmt)
		if !ok || len(as.Lhs) != len(as.Rhs) || recvE == "" {
			return true
		}
		for i, rhs := range as.Rhs {
			s := exprStr(rhs)
			if (s == recvE || strings.HasPrefix(s, recvE+" *") || strings.HasPrefix(s, recvE+"*")) && exprStr(as.Lhs[i]) != recvE {
				score = exprStr(as.Lhs[i])
			}
		}
		return true
	})
	return score
}

func c04Levels(c *Ctx) *RuleResult {
	r := &RuleResult{Rule: "C04.levels", Floor: 3,
		Doc: "in the tree walk that applies per-level worker stickiness, every per-level cursor (a local slice advanced with x = x[1:]) is actually consulted: it has a read other than its own advance, and the stickiness decision does not index a per-level slice held in a struct field with a constant (that would pin every level to level 0's value)"}
	p := c.P
	for _, u := range p.UnitsIn(schedPkg) {
		info := u.Info()
		// cursors: local slice variables with an advance statement x = x[k:]
		type cur struct {
			v       *types.Var
			advance []*ast.AssignStmt
		}
		cursors := map[*types.Var]*cur{}
		ast.Inspect(u.Decl.Body, func(n ast.Node) bool {
			as, ok := n.(*ast.AssignStmt)
			if !ok || as.Tok != token.ASSIGN || len(as.Lhs) != 1 || len(as.Rhs) != 1 {
				return true
			}
			id, ok := as.Lhs[0].(*ast.Ident)
			if !ok {
				return true
			}
			sl, ok := ast.Unparen(as.Rhs[0]).(*ast.SliceExpr)
			if !ok {
				return true
			}
			sid, ok := ast.Unparen(sl.X).(*ast.Ident)
			if !ok || sid.Name != id.Name || sl.Low == nil || sl.High != nil {
				return true
			}
			v, _ := info.Uses[id].(*types.Var)
			if v == nil {
				return true
			}
			if cursors[v] == nil {
				cursors[v] = &cur{v: v}
			}
			cursors[v].advance = append(cursors[v].advance, as)
			return true
		})
		if len(cursors) == 0 {
			continue
		}
		for v, cu := range cursors {
			reads := 0
			ast.Inspect(u.Decl.Body, func(n ast.Node) bool {
				id, ok := n.(*ast.Ident)
				if !ok || info.Uses[id] != v {
					return true
				}
				for _, a := range cu.advance {
					if a.Pos() <= id.Pos() && id.End() <= a.End() {
						return true
					}
				}
				reads++
				return true
			})
			construct := constructOf(u, "cursor "+v.Name())
			if reads > 0 {
				r.ok(construct, p.Pos(cu.advance[0].Pos()), fmt.Sprintf("%d read(s) besides its advance", reads))
			} else {
				r.bad(c.Prop, construct, p.Pos(cu.advance[0].Pos()), fmt.Sprintf("per-level cursor %s is advanced for every level but never read: the value for level 0 is used at every depth", v.Name()))
			}
		}
		// constant index into a per-level slice field inside a loop that advances cursors
		ast.Inspect(u.Decl.Body, func(n ast.Node) bool {
			loop, ok := n.(*ast.ForStmt)
			if !ok {
				return true
			}
			hasAdvance := false
			for _, cu := range cursors {
				for _, a := range cu.advance {
					if loop.Pos() <= a.Pos() && a.End() <= loop.End() {
						hasAdvance = true
					}
				}
			}
			if !hasAdvance {
				return true
			}
			ast.Inspect(loop.Body, func(m ast.Node) bool {
				ix, ok := m.(*ast.IndexExpr)
				if !ok {
					return true
				}
				f := fieldOf(info, ix.X)
				if f == nil {
					return true
				}
				if _, isSlice := f.Type().Underlying().(*types.Slice); !isSlice {
					return true
				}
				if tv, ok := info.Types[ix.Index]; ok && tv.Value != nil {
					// is this field the source of one of the cursors?
					for v := range cursors {
						if init := resolveLocalAlias(u, &ast.Ident{Name: v.Name()}); init != nil {
							_ = init
						}
					}
					if cursorInitialisedFrom(u, cursors2vars(cursors), f) {
						r.bad(c.Prop, constructOf(u, "constant index "+exprStr(ix)), posOf(p, ix), fmt.Sprintf("%s is read inside the per-level walk although a per-level cursor over that slice exists: every level uses the entry of level %s", exprStr(ix), exprStr(ix.Index)))
					}
				}
				return true
			})
			return true
		})
	}
	return r
}

func cursors2vars[T any](m map[*types.Var]T) []*types.Var {
	var out []*types.Var
	for v := range m {
		out = append(out, v)
	}
	return out
}

// cursorInitialisedFrom reports whether one of the cursor variables is defined as (a copy of) field f.
func cursorInitialisedFrom(u *FuncUnit, vars []*types.Var, f *types.Var) bool {
	info := u.Info()
	found := false
	ast.Inspect(u.Decl.Body, func(n ast.Node) bool {
		as, ok := n.(*ast.AssignStmt)
		if !ok || as.Tok != token.DEFINE || len(as.Lhs) != len(as.Rhs) {
			return true
		}
		for i, l := range as.Lhs {
			id, ok := l.(*ast.Ident)
			if !ok {
				continue
			}
			for _, v := range vars {
				if info.Defs[id] == v && fieldOf(info, as.Rhs[i]) == f {
					found = true
				}
			}
		}
		return true
	})
	return found
}

func c04Order(c *Ctx) *RuleResult {
	r := &RuleResult{Rule: "C04.order", Floor: 2,
		Doc: "operations queued directly in an invocation are considered before child invocations: in every if/else-if chain that tests both invocation.queuedOperations and invocation.queuedChildren (the dispatch walk and the priority bookkeeping), the queuedOperations test comes first"}
	p := c.P
	qo := p.LookupField(schedPkg, "invocation", "queuedOperations")
	qc := p.LookupField(schedPkg, "invocation", "queuedChildren")
	mentions := func(info *types.Info, e ast.Expr, f *types.Var) bool {
		m := false
		ast.Inspect(e, func(n ast.Node) bool {
			if ex, ok := n.(ast.Expr); ok && fieldOf(info, ex) == f {
				m = true
			}
			return true
		})
		return m
	}
	for _, u := range p.UnitsIn(schedPkg) {
		info := u.Info()
		ast.Inspect(u.Decl.Body, func(n ast.Node) bool {
			ifs, ok := n.(*ast.IfStmt)
			if !ok {
				return true
			}
			els, ok := ifs.Else.(*ast.IfStmt)
			if !ok {
				return true
			}
			a1, a2 := mentions(info, ifs.Cond, qo), mentions(info, ifs.Cond, qc)
			b1, b2 := mentions(info, els.Cond, qo), mentions(info, els.Cond, qc)
			if a1 && !a2 && b2 && !b1 {
				r.ok(constructOf(u, "direct-before-children"), posOf(p, ifs), "directly queued operations are tested first")
			} else if a2 && !a1 && b1 && !b2 {
				r.bad(c.Prop, constructOf(u, "direct-before-children"), posOf(p, ifs), "child invocations are preferred over operations queued directly in the invocation; the documented policy is the opposite")
			}
			return true
		})
	}
	return r
}

func c04Walk(c *Ctx) *RuleResult {
	r := &RuleResult{Rule: "C04.walk", Floor: 2,
		Doc: "every change of an invocation's executing-worker set is propagated to ALL ancestors and re-sorts the parent's heap: in each function that writes invocation.executingWorkers inside a loop stepping i = i.parent, the only way out of the loop is the i.parent == nil test, and every path from the write to the step passes heapMaybeFix(&i.parent.queuedChildren, ...)"}
	p := c.P
	units := p.UnitsIn(schedPkg)
	ew := p.LookupField(schedPkg, "invocation", "executingWorkers")
	parent := p.LookupField(schedPkg, "invocation", "parent")
	qc := p.LookupField(schedPkg, "invocation", "queuedChildren")
	fix := p.LookupFunc(schedPkg, "heapMaybeFix")
	directFix := func(u *FuncUnit, n ast.Node) bool {
		call, ok := n.(*ast.CallExpr)
		if !ok || calleeOf(u.Info(), call) != fix || len(call.Args) < 1 {
			return false
		}
		ue, ok := ast.Unparen(call.Args[0]).(*ast.UnaryExpr)
		return ok && ue.Op == token.AND && fieldOf(u.Info(), ue.X) == qc
	}
	fixers := mustPass(units, directFix)
	done := map[*types.Func]bool{}
	for _, w := range FieldWrites(units, ew, false) {
		u := w.Unit
		if done[u.Fn] {
			continue
		}
		info := u.Info()
		// enclosing for loop
		var loop *ast.ForStmt
		for _, n := range pathTo(u.Decl.Body, w.Node) {
			if f, ok := n.(*ast.ForStmt); ok {
				loop = f
			}
		}
		if loop == nil {
			continue
		}
		// step statement: X = X.parent
		var step *ast.AssignStmt
		stepSearch := []ast.Node{loop.Body}
		if loop.Post != nil {
			stepSearch = append(stepSearch, loop.Post)
		}
		for _, root := range stepSearch {
			ast.Inspect(root, func(n ast.Node) bool {
				if as, ok := n.(*ast.AssignStmt); ok && len(as.Lhs) == 1 && len(as.Rhs) == 1 && as.Tok == token.ASSIGN {
					// X = X.parent, possibly through a local that holds X.parent
					if src := resolveLocalAlias(u, as.Rhs[0]); fieldOf(info, src) == parent {
						if id, ok := as.Lhs[0].(*ast.Ident); ok && exprStr(ast.Unparen(src).(*ast.SelectorExpr).X) == id.Name {
							step = as
						}
					}
				}
				return true
			})
		}
		if step == nil {
			continue
		}
		done[u.Fn] = true
		construct := constructOf(u, "walk-to-root")
		bad := ""
		// exits
		ast.Inspect(loop.Body, func(n ast.Node) bool {
			switch x := n.(type) {
			case *ast.FuncLit:
				return false
			case *ast.BranchStmt, *ast.ReturnStmt:
				if b, ok := x.(*ast.BranchStmt); ok && b.Tok != token.BREAK {
					return true
				}
				gs := flattenGuards(GuardsOf(info, loop.Body, x))
				okExit := false
				for _, g := range gs {
					if x, nonNil, ok := nilTestOf(g); ok && !nonNil && fieldOf(info, resolveLocalAlias(u, x)) == parent {
						okExit = true
					}
				}
				if !okExit {
					bad = fmt.Sprintf("the walk towards the root can stop early at %s (guards: %v): ancestors keep a stale executing-worker count", posOf(p, x), guardStrings(gs))
				}
			}
			return true
		})
		if loop.Cond != nil {
			bad = "the walk has a loop condition other than reaching the root"
		}
		if bad == "" {
			g := NewFuncCFG(info, u.Decl.Body)
			isFix := func(n ast.Node) bool {
				call, ok := n.(*ast.CallExpr)
				if !ok {
					return false
				}
				if fn := calleeOf(info, call); fn != nil && fixers[fn] {
					return true // a helper that re-sorts the parent's heap on all its paths
				}
				return directFix(u, n)
			}
			if reach, _ := g.ReachableWithout(w.Node, step, isFix); reach {
				bad = "a path from the change of executingWorkers to the step to the parent skips heapMaybeFix on the parent's queuedChildren heap: the heap order no longer reflects the scores"
			}
		}
		if bad == "" {
			r.ok(construct, posOf(p, loop), "only exit is parent == nil; heap fixed before stepping up")
		} else {
			r.bad(c.Prop, construct, posOf(p, loop), bad)
		}
	}
	return r
}

func c04Direct(c *Ctx) *RuleResult {
	r := &RuleResult{Rule: "C04.direct", Floor: 1,
		Doc: "a new task is only queued when no idle synchronizing worker exists up to the root: in task.schedule every call of operation.enqueue is guarded by i.parent == nil and by the failed idle-worker test, and the direct hand-off path returns without queueing"}
	p := c.P
	u := p.Unit(schedPkg, "task.schedule")
	info := u.Info()
	enq := p.LookupFunc(schedPkg, "operation.enqueue")
	parent := p.LookupField(schedPkg, "invocation", "parent")
	idle := p.LookupField(schedPkg, "invocation", "idleSynchronizingWorkers")
	// enqueue sites of task.schedule: direct calls, or calls of helpers that enqueue the task's operations
	enqueuers := mayDo(p.UnitsIn(schedPkg), func(x *FuncUnit, n ast.Node) bool {
		call, ok := n.(*ast.CallExpr)
		return ok && x.Fn != u.Fn && calleeOf(x.Info(), call) == enq
	})
	var sites []Site
	sites = append(sites, CallsTo([]*FuncUnit{u}, enq)...)
	ast.Inspect(u.Decl.Body, func(n ast.Node) bool {
		if call, ok := n.(*ast.CallExpr); ok {
			if fn := calleeOf(info, call); fn != nil && enqueuers[fn] {
				sites = append(sites, Site{Unit: u, Node: call})
			}
		}
		return true
	})
	for _, cs := range sites {
		gs := flattenGuards(GuardsOf(info, u.Decl.Body, cs.Node))
		rootOK, idleOK := false, false
		for _, g := range gs {
			if be, ok := ast.Unparen(g.Cond).(*ast.BinaryExpr); ok {
				if g.Pos && be.Op == token.EQL && fieldOf(info, be.X) == parent && isNilIdent(be.Y) {
					rootOK = true
				}
				// canonical form of `!(len(idle) > 0)`
				if g.Pos && be.Op == token.EQL && exprStr(be.Y) == "0" {
					if call, ok := ast.Unparen(be.X).(*ast.CallExpr); ok && len(call.Args) == 1 && fieldOf(info, call.Args[0]) == idle {
						idleOK = true
					}
				}
			}
		}
		construct := constructOf(u, "enqueue")
		if rootOK && idleOK {
			r.ok(construct, posOf(p, cs.Node), "guards: "+strings.Join(guardStrings(gs), " && "))
		} else {
			r.bad(c.Prop, construct, posOf(p, cs.Node), fmt.Sprintf("the task is queued although an idle synchronizing worker may exist (guards: %v): a task stays queued while a worker waits", guardStrings(gs)))
		}
	}
	return r
}

func init() {
	register(&PropertySpec{
		ID:          "C04",
		Level:       "other",
		Explanation: "Structural necessary conditions of the documented scheduling order: the operation comparator's full decision table equals the lexicographic policy; isPreferred's table over (score order, tie-breaker) and the side that receives the priority penalty; the child heap's tie-break; per-level stickiness cursors are actually consulted; direct operations before children; executing-count changes reach every ancestor and re-sort the parent heap; queueing only when no idle worker exists up to the root. The numeric score and fairness over histories are not decided.",
		Assumptions: []string{"floating-point score values are opaque: only which operand is penalised and how the two scores are compared is decided"},
		Rules:       []RuleFunc{c04Less, c04Pref, c04Levels, c04Order, c04Walk, c04Direct, c05Wake, schedPropagationLoops, schedHeapMembership, schedSubsliceIndex, schedHeapIndex, schedFixAfterUpdate, schedHeapPopResets, c04StartedPerLevel},
	})
}
