package main

import (
	"fmt"
	"go/ast"
	"go/token"
	"go/types"
	"strings"
)

var schedGuardEngineCache = map[*Program]*LockEngine{}

// schedGuardEngine runs the lock-flow engine with the scheduler's guarded-by table.
func schedGuardEngine(c *Ctx) *LockEngine {
	if e, ok := schedGuardEngineCache[c.P]; ok {
		return e
	}
	p := c.P
	e := NewLockEngine(p)
	pkg := p.Pkg(schedPkg)
	addAll := func(typeName string, except ...string) {
		st := p.LookupType(schedPkg, typeName).Underlying().(*types.Struct)
		ex := map[string]bool{}
		for _, x := range except {
			ex[x] = true
		}
		for i := 0; i < st.NumFields(); i++ {
			if !ex[st.Field(i).Name()] {
				e.Guarded[st.Field(i)] = bigLockClass
			}
		}
	}
	// InMemoryBuildQueue: the fields declared after `lock`, minus the immutable authorizers
	bq := p.LookupType(schedPkg, "InMemoryBuildQueue").Underlying().(*types.Struct)
	after := false
	for i := 0; i < bq.NumFields(); i++ {
		f := bq.Field(i)
		if f.Name() == "lock" {
			after = true
			continue
		}
		if after && !strings.HasSuffix(f.Name(), "Authorizer") {
			e.Guarded[f] = bigLockClass
		}
	}
	if !after {
		panic(anchorError("InMemoryBuildQueue.lock"))
	}
	addAll("task")
	addAll("worker", "workerKey")
	addAll("operation", "name")
	addAll("invocation")
	// sizeClassQueue: configuration and Prometheus handles are immutable after construction
	for _, f := range []string{"rootInvocation", "workers", "cleanupKey", "drains", "undrainWakeup", "invocationsMetrics"} {
		e.Guarded[p.LookupField(schedPkg, "sizeClassQueue", f)] = bigLockClass
	}
	for _, f := range []string{"sizeClasses", "sizeClassQueues"} {
		e.Guarded[p.LookupField(schedPkg, "platformQueue", f)] = bigLockClass
	}
	e.Guarded[p.LookupField(schedPkg, "cleanupQueue", "heap")] = bigLockClass
	for _, tn := range []string{"queuedChildrenHeap", "idleSynchronizingWorkersChildrenHeap", "queuedOperationsHeap", "cleanupHeap"} {
		obj, _ := pkg.Types.Scope().Lookup(tn).(*types.TypeName)
		if obj == nil {
			panic(anchorError(tn))
		}
		e.GuardedTypes[obj] = bigLockClass
	}
	// callbacks registered with the cleanup queue run later from enter(), i.e. with the lock held
	e.CallbackPolicy[p.LookupFunc(schedPkg, "cleanupQueue.add")] = "held:" + bigLockClass
	e.IfaceImpls = nil
	e.Run()
	schedGuardEngineCache[c.P] = e
	return e
}

func c01Guarded(c *Ctx) *RuleResult {
	r := &RuleResult{Rule: "C01.guarded", Floor: 15,
		Doc: "every entry point of the scheduler (exported function/method, goroutine body, stored callback) that reaches a read or write of scheduler state (fields of InMemoryBuildQueue declared after `lock`, all mutable fields of task/worker/operation/invocation/sizeClassQueue/platformQueue, the heaps) does so with the big lock held on that path; callbacks passed to cleanupQueue.add run under the lock by construction (enter -> cleanupQueue.run); nothing is touched after leave()"}
	e := schedGuardEngine(c)
	heapMethods := map[*types.Func]bool{}
	for tn := range e.GuardedTypes {
		named := tn.Type().(*types.Named)
		for i := 0; i < named.NumMethods(); i++ {
			heapMethods[named.Method(i)] = true
		}
	}
	n := 0
	for _, s := range e.Order {
		if relPkg(s.Pkg.Types) != schedPkg {
			continue
		}
		for _, d := range s.Diags {
			if d.Kind == "guarded" {
				r.bad(c.Prop, s.Name+"|after-release|"+d.Msg[:min(40, len(d.Msg))], c.P.Pos(d.Pos), d.Msg, d.Path...)
			}
		}
		isRoot := false
		if s.Fn != nil && s.Fn.Exported() && !heapMethods[s.Fn] {
			isRoot = true
		}
		if s.Lit != nil && s.LitRole != "sync-callback" {
			// literals handed to cleanupQueue.add are assumed held; find out whether this one is
			isRoot = !litPassedTo(e, s, "held:")
		}
		if !isRoot {
			continue
		}
		n++
		if ga, ok := s.Needs[bigLockClass]; ok {
			r.bad(c.Prop, s.Name+"|unlocked-access", c.P.Pos(ga.Pos), fmt.Sprintf("entry point touches scheduler state (%s) without holding the scheduler lock", ga.Field), ga.Chain...)
		} else {
			r.ok(s.Name, c.P.Pos(s.Body.Pos()), "all reachable accesses to guarded state are under the lock")
		}
	}
	r.count("guarded_fields", len(e.Guarded))
	r.count("guarded_accesses_seen", e.Stats["guarded-accesses"])
	r.count("entry_points", n)
	return r
}

// litPassedTo reports whether the literal unit is an argument of a call whose callee has a
// callback policy with the given prefix.
func litPassedTo(e *LockEngine, s *FuncSummary, prefix string) bool {
	found := false
	for _, o := range e.Order {
		if o.Pkg != s.Pkg || o.Body == nil || found {
			continue
		}
		if !(o.Body.Pos() <= s.Lit.Pos() && s.Lit.End() <= o.Body.End()) {
			continue
		}
		ast.Inspect(o.Body, func(n ast.Node) bool {
			call, ok := n.(*ast.CallExpr)
			if !ok || found {
				return !found
			}
			for _, a := range call.Args {
				if ast.Unparen(a) == ast.Expr(s.Lit) {
					if fn := calleeOf(o.Pkg.TypesInfo, call); fn != nil && strings.HasPrefix(e.CallbackPolicy[fn], prefix) {
						found = true
					}
				}
			}
			return true
		})
	}
	return found
}

// mirrored fields: A.f = B must come with B.g = A (and A.f = nil with the old B's g = nil)
func c01Pair(c *Ctx) *RuleResult {
	r := &RuleResult{Rule: "C01.pair", Floor: 4,
		Doc: "mirror invariants are written on both sides together: every store w.currentTask = t is matched in the same function by t.currentWorker = w (and = nil by = nil); every insertion t.operations[i] = o is matched by o.invocation = i (or o is built with invocation: i), each on exactly the same paths"}
	p := c.P
	units := p.UnitsIn(schedPkg)
	ct := p.LookupField(schedPkg, "worker", "currentTask")
	cw := p.LookupField(schedPkg, "task", "currentWorker")
	ops := p.LookupField(schedPkg, "task", "operations")
	inv := p.LookupField(schedPkg, "operation", "invocation")
	isNil := func(e ast.Expr) bool {
		id, ok := ast.Unparen(e).(*ast.Ident)
		return ok && id.Name == "nil"
	}
	samePaths := func(u *FuncUnit, a, b ast.Node) bool {
		g := NewFuncCFG(u.Info(), u.Decl.Body)
		return (g.Dominates(a, b) && g.PostDominates(b, a)) || (g.Dominates(b, a) && g.PostDominates(a, b))
	}
	check := func(f1, f2 *types.Var, n1, n2 string) {
		w1 := FieldWrites(units, f1, false)
		w2 := FieldWrites(units, f2, false)
		for _, a := range w1 {
			as, ok := a.Node.(*ast.AssignStmt)
			if !ok || a.RHS == nil {
				continue
			}
			construct := constructOf(a.Unit, n1+" = "+exprStr(a.RHS))
			matched := false
			for _, b := range w2 {
				if b.Unit.Fn != a.Unit.Fn || b.RHS == nil {
					continue
				}
				if isNil(a.RHS) != isNil(b.RHS) {
					continue
				}
				if !isNil(a.RHS) {
					// a: X.f1 = Y   b: Y.f2 = X
					ax := exprStr(a.Expr.(*ast.SelectorExpr).X)
					bx := exprStr(b.Expr.(*ast.SelectorExpr).X)
					if exprStr(a.RHS) != bx || exprStr(b.RHS) != ax {
						continue
					}
				}
				if samePaths(a.Unit, as, b.Node) {
					matched = true
				}
			}
			if matched {
				r.ok(construct, posOf(p, as), "matched by the mirror store on the same paths")
			} else {
				r.bad(c.Prop, construct, posOf(p, as), fmt.Sprintf("store to %s without the mirror store to %s on the same paths: the worker<->task link becomes one-sided", n1, n2))
			}
		}
	}
	check(ct, cw, "worker.currentTask", "task.currentWorker")
	check(cw, ct, "task.currentWorker", "worker.currentTask")
	// t.operations[i] = o  <->  o.invocation = i
	for _, a := range FieldWrites(units, ops, false) {
		as, ok := a.Node.(*ast.AssignStmt)
		if !ok || a.RHS == nil {
			continue
		}
		ix, ok := ast.Unparen(a.Expr).(*ast.IndexExpr)
		if !ok {
			continue // whole-map replacement
		}
		u := a.Unit
		construct := constructOf(u, "operations["+exprStr(ix.Index)+"] = "+exprStr(a.RHS))
		matched := false
		for _, b := range FieldWrites([]*FuncUnit{u}, inv, true) {
			switch bn := b.Node.(type) {
			case *ast.AssignStmt:
				if exprStr(b.Expr.(*ast.SelectorExpr).X) == exprStr(a.RHS) && b.RHS != nil && exprStr(b.RHS) == exprStr(ix.Index) && samePaths(u, as, bn) {
					matched = true
				}
			case *ast.KeyValueExpr:
				// o := &operation{invocation: i, ...}; t.operations[i] = o
				if exprStr(bn.Value) == exprStr(ix.Index) {
					matched = true
				}
			}
		}
		if matched {
			r.ok(construct, posOf(p, as), "operation's invocation field agrees with the map key")
		} else {
			r.bad(c.Prop, construct, posOf(p, as), "an operation is filed under an invocation key without setting operation.invocation to that invocation: the task is recorded in one queue but queued in another")
		}
	}
	return r
}

func c01Dispatch(c *Ctx) *RuleResult {
	r := &RuleResult{Rule: "C01.dispatch", Floor: 1,
		Doc: "every 'execute' response built by the scheduler (composite literal of remoteworker.DesiredState_Executing_) points at the desiredState of the responding worker's own currentTask, read in the same function without an intervening store to that field"}
	p := c.P
	ct := p.LookupField(schedPkg, "worker", "currentTask")
	ds := p.LookupField(schedPkg, "task", "desiredState")
	for _, u := range p.UnitsIn(schedPkg) {
		info := u.Info()
		ast.Inspect(u.Decl.Body, func(n ast.Node) bool {
			cl, ok := n.(*ast.CompositeLit)
			if !ok {
				return true
			}
			tv, ok := info.Types[cl]
			if !ok || !namedIs(tv.Type, modPath+"/pkg/proto/remoteworker", "DesiredState_Executing_") {
				return true
			}
			construct := constructOf(u, "DesiredState_Executing_")
			var val ast.Expr
			for _, el := range cl.Elts {
				if kv, ok := el.(*ast.KeyValueExpr); ok {
					if id, ok := kv.Key.(*ast.Ident); ok && id.Name == "Executing" {
						val = kv.Value
					}
				}
			}
			ue, ok := ast.Unparen(val).(*ast.UnaryExpr)
			if val == nil || !ok || ue.Op != token.AND || fieldOf(info, ue.X) != ds {
				r.bad(c.Prop, construct, posOf(p, cl), "the execute response does not point at a task's desiredState")
				return true
			}
			// the task expression must be (an alias of) recv.currentTask
			taskExpr := ast.Unparen(ue.X).(*ast.SelectorExpr).X
			recv := ""
			if u.Decl.Recv != nil && len(u.Decl.Recv.List) > 0 && len(u.Decl.Recv.List[0].Names) > 0 {
				recv = u.Decl.Recv.List[0].Names[0].Name
			}
			src := resolveLocalAlias(u, taskExpr)
			if fieldOf(info, src) == ct && exprStr(ast.Unparen(src).(*ast.SelectorExpr).X) == recv && recv != "" {
				// no store to currentTask between the alias definition and the literal is implied by single assignment
				r.ok(construct, posOf(p, cl), "Executing = &"+exprStr(src)+".desiredState")
			} else {
				r.bad(c.Prop, construct, posOf(p, cl), fmt.Sprintf("the execute response is built from %s, which is not the responding worker's own currentTask: a worker could be told to run a task assigned to someone else", exprStr(src)))
			}
			return true
		})
	}
	return r
}

// resolveLocalAlias follows `x := expr` / `if x := expr; ...` single definitions of a local identifier.
func resolveLocalAlias(u *FuncUnit, e ast.Expr) ast.Expr {
	id, ok := ast.Unparen(e).(*ast.Ident)
	if !ok {
		return e
	}
	info := u.Info()
	v, _ := info.Uses[id].(*types.Var)
	if v == nil {
		return e
	}
	var rhs ast.Expr
	count := 0
	ast.Inspect(u.Decl.Body, func(n ast.Node) bool {
		if as, ok := n.(*ast.AssignStmt); ok {
			for i, l := range as.Lhs {
				if lid, ok := l.(*ast.Ident); ok && (info.Defs[lid] == v || info.Uses[lid] == v) {
					count++
					if len(as.Lhs) == len(as.Rhs) {
						rhs = as.Rhs[i]
					} else if len(as.Rhs) == 1 && i == 0 {
						// v, err := f(...): the first result of the call
						rhs = as.Rhs[0]
					}
				}
			}
		}
		return true
	})
	if count == 1 && rhs != nil {
		return rhs
	}
	return e
}

func c01Complete(c *Ctx) *RuleResult {
	r := &RuleResult{Rule: "C01.complete", Floor: 1,
		Doc: "in the function that records a task's final response, that store is dominated by clearing both sides of the worker<->task link and by the loop that takes the task out of every invocation's executing count; a task completed while queued is first unqueued through the regular assignment path"}
	p := c.P
	units := p.UnitsIn(schedPkg)
	resp := p.LookupField(schedPkg, "task", "executeResponse")
	ct := p.LookupField(schedPkg, "worker", "currentTask")
	cw := p.LookupField(schedPkg, "task", "currentWorker")
	dec := p.LookupFunc(schedPkg, "invocation.decrementExecutingWorkersCount")
	for _, w := range FieldWrites(units, resp, false) {
		u := w.Unit
		g := NewFuncCFG(u.Info(), u.Decl.Body)
		construct := constructOf(u, "final-response-store")
		var missing []string
		has := func(sites []Site, nilOnly bool) bool {
			for _, s := range sites {
				if s.Unit.Fn != u.Fn {
					continue
				}
				if nilOnly && (s.RHS == nil || exprStr(s.RHS) != "nil") {
					continue
				}
				if g.Dominates(s.Node, w.Node) {
					return true
				}
				// a call inside `for ... := range X { }` counts when the loop itself dominates the store
				for _, anc := range pathTo(u.Decl.Body, s.Node) {
					if rs, ok := anc.(*ast.RangeStmt); ok && g.Dominates(rs.X, w.Node) {
						return true
					}
				}
			}
			return false
		}
		if !has(FieldWrites(units, ct, false), true) {
			missing = append(missing, "worker.currentTask = nil")
		}
		if !has(FieldWrites(units, cw, false), true) {
			missing = append(missing, "task.currentWorker = nil")
		}
		if !has(CallsTo(units, dec), false) {
			missing = append(missing, "decrementExecutingWorkersCount for the task's invocations")
		}
		if len(missing) == 0 {
			r.ok(construct, posOf(p, w.Node), "dominated by unlinking worker and task and by the executing-count decrements")
		} else {
			r.bad(c.Prop, construct, posOf(p, w.Node), "the final response is stored on a path that has not done: "+strings.Join(missing, "; ")+" — a completed task could still be assigned to a worker")
		}
	}
	return r
}

func c01Identity(c *Ctx) *RuleResult {
	r := &RuleResult{Rule: "C01.identity", Floor: 1,
		Doc: "a worker's report is only applied to its task when the reported action digest equals the assigned task's digest: every call task.complete(..., completedByWorker=true) and every 'no change' response is guarded by a predicate whose result is proto.Equal(reported digest, currentTask.desiredState.ActionDigest), false when there is no current task"}
	p := c.P
	units := p.UnitsIn(schedPkg)
	complete := p.LookupFunc(schedPkg, "task.complete")
	actionDigest := types.Object(nil)
	_ = actionDigest
	for _, cs := range CallsTo(units, complete) {
		call := cs.Node.(*ast.CallExpr)
		if len(call.Args) != 3 {
			continue
		}
		if id, ok := ast.Unparen(call.Args[2]).(*ast.Ident); !ok || id.Name != "true" {
			continue
		}
		u := cs.Unit
		gs := flattenGuards(GuardsOf(u.Info(), u.Decl.Body, call))
		construct := constructOf(u, "complete-by-worker")
		okG, why, whyPos := digestEqualityGuarded(p, u, gs)
		if !okG && why != "" {
			r.bad(c.Prop, constructOf(u, "digest predicate"), posOf(p, whyPos), why)
			okG = true // reported on the predicate
		}
		if okG {
			r.ok(construct, posOf(p, call), "guards: "+fmt.Sprint(guardStrings(gs)))
		} else {
			r.bad(c.Prop, construct, posOf(p, call), "a completion reported by a worker is applied without checking that the worker is running that task (no digest-equality guard)")
		}
	}
	return r
}

// digestEqualityGuarded: among the guards there is the digest-equality test -- a call of a predicate
// of the right shape, or (when that predicate was small enough to be expanded in place) the
// proto.Equal(reported, <task>.desiredState.ActionDigest) comparison itself. why reports a predicate
// of the wrong shape.
func digestEqualityGuarded(p *Program, u *FuncUnit, gs []Guard) (ok bool, why string, whyPos ast.Node) {
	info := u.Info()
	ds := p.LookupField(schedPkg, "task", "desiredState")
	for _, g := range gs {
		gc, isCall := ast.Unparen(g.Cond).(*ast.CallExpr)
		if !isCall || !g.Pos {
			continue
		}
		fn := calleeOf(info, gc)
		if fn == nil {
			continue
		}
		if fn.Pkg() != nil && fn.Pkg().Path() == "google.golang.org/protobuf/proto" && fn.Name() == "Equal" && len(gc.Args) == 2 {
			for _, a := range gc.Args {
				if sel, ok := ast.Unparen(resolveLocalAlias(u, a)).(*ast.SelectorExpr); ok && sel.Sel.Name == "ActionDigest" {
					if f := fieldOf(info, sel.X); f == ds {
						return true, "", nil
					}
					// a selector rebuilt by guard expansion
					if inner, ok := ast.Unparen(sel.X).(*ast.SelectorExpr); ok && inner.Sel.Name == ds.Name() {
						return true, "", nil
					}
				}
			}
			continue
		}
		if p.Decl(fn) == nil {
			continue
		}
		if w := digestPredicateOK(p, fn); w == "" {
			return true, "", nil
		} else {
			why, whyPos = w, p.Decl(fn)
		}
	}
	return false, why, whyPos
}

// digestPredicateOK checks the shape of isRunningCorrectTask-like predicates: every `return X` is
// either `false` under a nil-task guard or proto.Equal(param, <task>.desiredState.ActionDigest).
func digestPredicateOK(p *Program, pred *types.Func) string {
	fd := p.Decl(pred)
	u := &FuncUnit{Fn: pred, Decl: fd, Pkg: p.declPkg[fd]}
	info := u.Info()
	ds := p.LookupField(schedPkg, "task", "desiredState")
	good, bad := 0, ""
	ast.Inspect(fd.Body, func(n ast.Node) bool {
		ret, ok := n.(*ast.ReturnStmt)
		if !ok || len(ret.Results) != 1 {
			return true
		}
		res := ast.Unparen(ret.Results[0])
		if id, ok := res.(*ast.Ident); ok && id.Name == "false" {
			return true
		}
		// `x != nil && proto.Equal(...)`: the comparison is the last conjunct, nil tests may precede
		for {
			be, ok := res.(*ast.BinaryExpr)
			if !ok || be.Op != token.LAND {
				break
			}
			if _, _, isNil := nilTestOf(Guard{be.X, true}); !isNil {
				break
			}
			res = ast.Unparen(be.Y)
		}
		call, ok := res.(*ast.CallExpr)
		if ok {
			if fn := calleeOf(info, call); fn != nil && fn.Pkg() != nil && fn.Pkg().Path() == "google.golang.org/protobuf/proto" && fn.Name() == "Equal" && len(call.Args) == 2 {
				// one argument is a parameter, the other resolves to X.desiredState.ActionDigest
				cnt := 0
				for _, a := range call.Args {
					a = resolveLocalAlias(u, a)
					if sel, ok := ast.Unparen(a).(*ast.SelectorExpr); ok && sel.Sel.Name == "ActionDigest" && fieldOf(info, sel.X) == ds {
						cnt++
					}
				}
				if cnt == 1 {
					good++
					return true
				}
			}
		}
		bad = fmt.Sprintf("predicate %s decides 'worker runs the assigned task' by %s instead of proto.Equal(reported digest, currentTask.desiredState.ActionDigest): a report about another action can be accepted as this task's completion", FuncName(pred), exprStr(res))
		return true
	})
	if bad != "" {
		return bad
	}
	if good == 0 {
		return fmt.Sprintf("predicate %s never compares the reported digest with the assigned task's digest", FuncName(pred))
	}
	return ""
}

func c01Sentinel(c *Ctx) *RuleResult {
	r := &RuleResult{Rule: "C01.sentinel", Floor: 3,
		Doc: "index fields whose 'not in the container' value is -1 (operation.queueIndex, invocation.queuedChildrenIndex, invocation.idleSynchronizingWorkersChildrenIndex, worker.listIndex) are only tested against the sentinel consistently (< 0, >= 0, == -1, != -1, or equality with another index): a test such as `> 0` treats slot 0 as absent"}
	p := c.P
	fields := map[*types.Var]bool{
		p.LookupField(schedPkg, "operation", "queueIndex"):                             true,
		p.LookupField(schedPkg, "invocation", "queuedChildrenIndex"):                   true,
		p.LookupField(schedPkg, "invocation", "idleSynchronizingWorkersChildrenIndex"): true,
		p.LookupField(schedPkg, "worker", "listIndex"):                                 true,
	}
	isConst := func(info *types.Info, e ast.Expr) (int64, bool) {
		tv, ok := info.Types[e]
		if !ok || tv.Value == nil {
			return 0, false
		}
		s := tv.Value.ExactString()
		var v int64
		if _, err := fmt.Sscan(s, &v); err != nil {
			return 0, false
		}
		return v, true
	}
	for _, u := range p.UnitsIn(schedPkg) {
		info := u.Info()
		// parameters named after the index also count when the callee compares them: heapMaybeFix(h, i int)
		ast.Inspect(u.Decl.Body, func(n ast.Node) bool {
			be, ok := n.(*ast.BinaryExpr)
			if !ok {
				return true
			}
			switch be.Op {
			case token.LSS, token.GTR, token.LEQ, token.GEQ, token.EQL, token.NEQ:
			default:
				return true
			}
			for _, pair := range [][2]ast.Expr{{be.X, be.Y}, {be.Y, be.X}} {
				f := fieldOf(info, pair[0])
				if f == nil || !fields[f] {
					continue
				}
				v, isC := isConst(info, pair[1])
				if !isC {
					continue // compared with another index
				}
				op := be.Op
				if pair[0] == be.Y { // constant on the left: flip
					switch op {
					case token.LSS:
						op = token.GTR
					case token.GTR:
						op = token.LSS
					case token.LEQ:
						op = token.GEQ
					case token.GEQ:
						op = token.LEQ
					}
				}
				okCmp := (v == 0 && (op == token.LSS || op == token.GEQ)) || (v == -1 && (op == token.EQL || op == token.NEQ || op == token.GTR || op == token.LEQ))
				construct := constructOf(u, exprStr(be))
				if okCmp {
					r.ok(construct, posOf(p, be), "consistent with the -1 sentinel")
				} else {
					r.bad(c.Prop, construct, posOf(p, be), fmt.Sprintf("index field %s is tested with `%s`, which misclassifies slot 0 or the -1 sentinel: an element at the head of the heap is treated as absent (or an absent one as present)", f.Name(), exprStr(be)))
				}
			}
			return true
		})
	}
	return r
}

func init() {
	register(&PropertySpec{
		ID:          "C01",
		Level:       "other",
		Explanation: "Structural necessary conditions of 'each task is held by exactly one queue or one worker', decided for all paths of the current source: all scheduler state is accessed under the big lock (lock-flow engine with a guarded-by table, entry points enumerated); the worker<->task link and the task.operations<->operation.invocation mirror are written on both sides together; execute responses are only built from the responding worker's own task; the final response is stored only after unlinking and un-counting; worker reports are applied only under digest equality; index sentinels are tested consistently. Does not decide the whole-history invariant (needs state exploration).",
		Assumptions: []string{"heap index fields mirror positions (container/heap contract)", "callbacks given to cleanupQueue.add only run from enter() (checked: cleanupQueue.run is only called there, rule C06.enter)"},
		Rules:       []RuleFunc{c01Guarded, c01Pair, c01Dispatch, c01Complete, c01Identity, c01Sentinel, schedWorkerRemoval, schedUnqueueAll, schedOpsKey, schedParkedRecheck, schedHeapIndex, schedQueueRemovalCancel, schedExecutingCount, schedEnqueueQueuedOnly, schedNoChangeIdentity, schedNextTaskOnlyWhenFree, schedNoExecuteAfterComplete},
	})
}
