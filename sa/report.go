package main

import (
	"encoding/json"
	"fmt"
	"go/types"
	"os"
	"path/filepath"
	"runtime/debug"
	"sort"
	"strings"
	"time"
)

// Finding is one reported construct. Key = Rule + "|" + Construct (never a line number).
type Finding struct {
	Property  string   `json:"property"`
	Rule      string   `json:"rule"`
	Construct string   `json:"construct"`
	Pos       string   `json:"pos"`
	Message   string   `json:"message"`
	Path      []string `json:"path,omitempty"`
}

func (f Finding) Key() string { return f.Rule + "|" + f.Construct }

// Obl is one obligation / rule instance that was decided, for the evidence samples.
type Obl struct {
	Rule      string `json:"rule"`
	Construct string `json:"construct"`
	Pos       string `json:"pos,omitempty"`
	Verdict   string `json:"verdict"`
	Detail    string `json:"detail,omitempty"`
}

// RuleResult is what one rule returns.
type RuleResult struct {
	Rule        string
	Doc         string // the rule applied, in words
	Floor       int    // minimum number of instances confirmed by hand
	Obls        []Obl  // every instance decided (ok or violated)
	Findings    []Finding
	Undecided   []string // constructs the engine could not decide: fails the check
	Analysed    map[string]int
	SelfTest    string // result of the embedded positive fixture, "" if none
	SelfTestErr string
}

func (r *RuleResult) ok(construct, pos, detail string) {
	r.Obls = append(r.Obls, Obl{Rule: r.Rule, Construct: construct, Pos: pos, Verdict: "holds", Detail: detail})
}

func (r *RuleResult) bad(prop, construct, pos, msg string, path ...string) {
	r.Obls = append(r.Obls, Obl{Rule: r.Rule, Construct: construct, Pos: pos, Verdict: "VIOLATED", Detail: msg})
	r.Findings = append(r.Findings, Finding{Property: prop, Rule: r.Rule, Construct: construct, Pos: pos, Message: msg, Path: path})
}

func (r *RuleResult) undecided(construct, why string) {
	r.Undecided = append(r.Undecided, construct+": "+why)
}

func (r *RuleResult) count(k string, n int) {
	if r.Analysed == nil {
		r.Analysed = map[string]int{}
	}
	r.Analysed[k] += n
}

// Ctx is handed to every rule.
type Ctx struct {
	P    *Program
	Tier string
	Prop string
}

type RuleFunc func(c *Ctx) *RuleResult

type PropertySpec struct {
	ID          string
	Level       string // "other" | "proof"
	Explanation string
	Assumptions []string
	Rules       []RuleFunc
	// Thorough-only rules (whole-program call graph etc.)
	ThoroughRules []RuleFunc
}

var registry = map[string]*PropertySpec{}

func register(s *PropertySpec) { registry[s.ID] = s }

type knownFile struct {
	Known []struct {
		Property string `json:"property"`
		Key      string `json:"key"`
		What     string `json:"what"`
	} `json:"known"`
	Fixed []struct {
		Property string `json:"property"`
		Commit   string `json:"commit"`
		Key      string `json:"key"`
		What     string `json:"what"`
	} `json:"fixed"`
}

// homeDir is where the committed inputs of the checker live (known_findings.json, seeded/); it is
// the output directory unless VERIF_HOME says otherwise (scratch runs of the matrix tools).
func homeDir(outDir string) string {
	if h := os.Getenv("VERIF_HOME"); h != "" {
		return h
	}
	return outDir
}

func loadKnown(outDir string) (*knownFile, error) {
	outDir = homeDir(outDir)
	var k knownFile
	b, err := os.ReadFile(filepath.Join(outDir, "known_findings.json"))
	if err != nil {
		if os.IsNotExist(err) {
			return &k, nil
		}
		return nil, err
	}
	if err := json.Unmarshal(b, &k); err != nil {
		return nil, fmt.Errorf("known_findings.json: %w", err)
	}
	return &k, nil
}

// runRule runs one rule, converting panics (unresolved anchors, engine bugs) into failures.
func runRule(c *Ctx, rf RuleFunc) (res *RuleResult, fail string) {
	defer func() {
		if r := recover(); r != nil {
			if ae, ok := r.(anchorError); ok {
				fail = ae.Error()
			} else {
				fail = fmt.Sprintf("analysis panic: %v\n%s", r, debug.Stack())
			}
			if res == nil {
				res = &RuleResult{Rule: "?"}
			}
		}
	}()
	res = rf(c)
	return res, ""
}

// runCheck is the driver for `bbverif check`.
func runCheck(propID, tier, repoDir, outDir string, overlay map[string][]byte, quiet bool) int {
	start := time.Now()
	if propID == "all" {
		// every property against one load of the program (used by the matrix tools; the registered
		// commands run one property per process)
		prog, err := LoadProgram(repoDir, overlay)
		if err != nil {
			fmt.Printf("ERROR: %v\n", err)
			return 2
		}
		ids := make([]string, 0, len(registry))
		for id := range registry {
			ids = append(ids, id)
		}
		sort.Strings(ids)
		worst := 0
		for _, id := range ids {
			if rc := runCheckWith(prog, id, tier, repoDir, outDir, overlay, quiet, time.Now()); rc > worst {
				worst = rc
			}
		}
		return worst
	}
	spec := registry[propID]
	if spec == nil {
		fmt.Printf("ERROR: no static rules registered for %s\n", propID)
		return 2
	}
	prog, err := LoadProgram(repoDir, overlay)
	if err != nil {
		fmt.Printf("ERROR: %v\n", err)
		writeEvidence(outDir, spec, tier, nil, nil, []string{err.Error()}, time.Since(start).Seconds(), nil)
		return 2
	}
	return runCheckWith(prog, propID, tier, repoDir, outDir, overlay, quiet, start)
}

func runCheckWith(prog *Program, propID, tier, repoDir, outDir string, overlay map[string][]byte, quiet bool, start time.Time) int {
	// per-property state: a property's verdict must not depend on which properties ran before it
	anchoredFuncs = map[*types.Func]bool{}
	spec := registry[propID]
	known, err := loadKnown(outDir)
	if err != nil {
		fmt.Println("ERROR:", err)
		return 2
	}
	theProgram = prog
	c := &Ctx{P: prog, Tier: tier, Prop: propID}
	rules := append([]RuleFunc{}, spec.Rules...)
	if tier == "thorough" {
		rules = append(rules, spec.ThoroughRules...)
	}
	var results []*RuleResult
	var failures []string
	for _, rf := range rules {
		res, fail := runRule(c, rf)
		if fail != "" {
			failures = append(failures, fmt.Sprintf("rule %s: %s", res.Rule, fail))
		}
		if res.SelfTestErr != "" {
			failures = append(failures, fmt.Sprintf("rule %s: embedded fixture: %s", res.Rule, res.SelfTestErr))
		}
		if len(res.Obls) < res.Floor {
			failures = append(failures, fmt.Sprintf("rule %s matched %d instances, below the floor of %d confirmed by hand: the rule no longer sees the code it is about", res.Rule, len(res.Obls), res.Floor))
		}
		for _, u := range res.Undecided {
			failures = append(failures, fmt.Sprintf("rule %s undecided: %s", res.Rule, u))
		}
		results = append(results, res)
	}
	// classify findings
	knownKeys := map[string]string{}
	for _, k := range known.Known {
		if k.Property == propID {
			knownKeys[k.Key] = k.What
		}
	}
	var viol []Finding
	seen := map[string]bool{}
	exit := 0
	for _, res := range results {
		for _, f := range res.Findings {
			if seen[f.Key()] {
				continue
			}
			seen[f.Key()] = true
			if what, ok := knownKeys[f.Key()]; ok {
				fmt.Printf("KNOWN-FINDING: property=%s %s (%s at %s)\n", propID, what, f.Key(), f.Pos)
				continue
			}
			viol = append(viol, f)
		}
	}
	os.MkdirAll(filepath.Join(outDir, "replay"), 0o755)
	for i, f := range viol {
		rp := filepath.Join(outDir, "replay", fmt.Sprintf("%s-%s-%d.json", propID, tier, i))
		b, _ := json.MarshalIndent(f, "", " ")
		os.WriteFile(rp, b, 0o644)
		fmt.Printf("  %s: [%s] %s: %s\n", f.Pos, f.Rule, f.Construct, f.Message)
		for _, s := range f.Path {
			fmt.Printf("      %s\n", s)
		}
		fmt.Printf("VIOLATION property=%s replay=%s\n", propID, rp)
		exit = 1
	}
	for i, f := range failures {
		// a rule that cannot decide (unresolved anchor, instance floor, undecided path, engine panic)
		// has NOT shown the property: report it as a violation of the obligation to decide.
		rp := filepath.Join(outDir, "replay", fmt.Sprintf("%s-%s-failure-%d.json", propID, tier, i))
		b, _ := json.MarshalIndent(Finding{Property: propID, Rule: "check-failure", Construct: f, Message: f}, "", " ")
		os.WriteFile(rp, b, 0o644)
		fmt.Printf("CHECK-FAILURE property=%s %s\n", propID, f)
		fmt.Printf("VIOLATION property=%s replay=%s\n", propID, rp)
		exit = 1
	}
	var seeds []seedOutcome
	if tier == "thorough" && overlay == nil {
		seeds = runSeeds(spec, repoDir, homeDir(outDir))
		fired, expected, missed := 0, 0, 0
		for _, s := range seeds {
			if s.Fired {
				fired++
			}
			if s.Expected {
				expected++
				if s.Applies && !s.Fired {
					missed++
				}
			}
		}
		fmt.Printf("self-validation (advisory): %d seeded variants of %s analysed in memory, %d fired, %d of %d expected detections reproduced\n", len(seeds), propID, fired, expected-missed, expected)
	}
	wall := time.Since(start).Seconds()
	thoroughSeeds = seeds
	writeEvidence(outDir, spec, tier, prog, results, failures, wall, viol)
	if !quiet {
		tot, nrules := 0, 0
		for _, r := range results {
			tot += len(r.Obls)
			nrules++
		}
		fmt.Printf("%s %s: %d rules, %d obligations, %d violations, %d failures, %.1fs (load %.1fs, %d packages)\n", propID, tier, nrules, tot, len(viol), len(failures), wall, prog.LoadS, len(prog.Pkgs))
	}
	return exit
}

var thoroughSeeds []seedOutcome

func writeEvidence(outDir string, spec *PropertySpec, tier string, prog *Program, results []*RuleResult, failures []string, wall float64, viol []Finding) {
	type ruleEv struct {
		Rule      string         `json:"rule"`
		Doc       string         `json:"doc"`
		Instances int            `json:"instances"`
		Floor     int            `json:"floor"`
		Violated  int            `json:"violated"`
		Analysed  map[string]int `json:"analysed,omitempty"`
		SelfTest  string         `json:"embedded_fixture,omitempty"`
	}
	var rules []ruleEv
	var samples []any
	total, holds := 0, 0
	distinct := map[string]bool{}
	var docs []string
	for _, r := range results {
		v := 0
		for _, o := range r.Obls {
			total++
			if o.Verdict == "holds" {
				holds++
			} else {
				v++
			}
			distinct[o.Rule+"|"+o.Construct] = true
		}
		rules = append(rules, ruleEv{r.Rule, r.Doc, len(r.Obls), r.Floor, v, r.Analysed, r.SelfTest})
		docs = append(docs, r.Rule+": "+r.Doc)
		// up to 3 samples per rule, violated ones first
		obls := append([]Obl{}, r.Obls...)
		sort.SliceStable(obls, func(i, j int) bool { return obls[i].Verdict != "holds" && obls[j].Verdict == "holds" })
		for i, o := range obls {
			if i >= 3 {
				break
			}
			samples = append(samples, o)
		}
	}
	cov := map[string]any{
		"explanation":         spec.Explanation,
		"evaluations":         total,
		"distinct_nontrivial": len(distinct),
		"rule":                "every (rule, construct) pair the rule had to decide on the current source is one case; distinct = distinct pairs. Rules: " + strings.Join(docs, " || "),
		"samples":             samples,
		"exhaustive":          true,
		"per_rule":            rules,
		"check_failures":      failures,
	}
	if prog != nil {
		nf := 0
		for _, p := range prog.Pkgs {
			nf += len(p.Syntax)
		}
		cov["analysed"] = map[string]any{"packages": len(prog.Pkgs), "files": nf, "load_s": prog.LoadS}
	}
	if thoroughSeeds != nil {
		cov["seeded_variants"] = thoroughSeeds
		cov["seeded_variants_note"] = "advisory checker self-validation: each stored seeded change was applied in memory and the rules re-run on the variant; never affects the verdict on the real tree"
	}
	if spec.Level == "proof" {
		cov["obligations"] = total
		cov["discharged"] = holds
		cov["checker_cmd"] = fmt.Sprintf("./run_check.sh %s %s", spec.ID, tier)
		cov["trusted_base"] = []string{"go/types, go/cfg, go/ssa of golang.org/x/tools v0.50.0 under go1.26.8", "the lock model of DESIGN.md section 10 (locks identified by access path and class; panics do not return)", "frozen rule tables in /verif/sa (each entry carries its reason)"}
	}
	ev := map[string]any{
		"property_id": spec.ID,
		"tier":        tier,
		"seed":        0,
		"level":       spec.Level,
		"coverage":    cov,
		"assumptions": spec.Assumptions,
		"wall_s":      wall,
		"violations":  len(viol),
	}
	os.MkdirAll(filepath.Join(outDir, "evidence"), 0o755)
	b, _ := json.MarshalIndent(ev, "", " ")
	os.WriteFile(filepath.Join(outDir, "evidence", spec.ID+".json"), b, 0o644)
}
