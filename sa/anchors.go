package main

// Rename-tolerant anchors. Rules name a few functions of the repository ("task.complete",
// "isNextStateID", ...). If such a function is renamed, the rule would no longer see the code it is
// about. anchors.json (frozen from the tree the rules were confirmed on; regenerate with
// `bbverif anchors`) records for every anchored function its receiver, signature and a fingerprint
// (fields selected, functions called). When a name no longer resolves, the unique function of the
// same package with the same receiver and signature whose fingerprint is close enough is used
// instead, and the substitution is reported.

import (
	_ "embed"
	"encoding/json"
	"fmt"
	"go/ast"
	"go/types"
	"os"
	"sort"
	"strings"
)

//go:embed anchors.json
var anchorsJSON []byte

type anchorRec struct {
	Recv string   `json:"recv"`
	Sig  string   `json:"sig"`
	Refs []string `json:"refs"`
}

var (
	anchorTable    map[string]anchorRec
	anchorRecorded = map[string]anchorRec{}
	anchorNotes    []string
)

func loadAnchorTable() {
	if anchorTable != nil {
		return
	}
	anchorTable = map[string]anchorRec{}
	json.Unmarshal(anchorsJSON, &anchorTable)
}

func sigString(fn *types.Func) string {
	sig := fn.Type().(*types.Signature)
	q := func(p *types.Package) string { return p.Name() }
	var ps, rs []string
	for i := 0; i < sig.Params().Len(); i++ {
		ps = append(ps, types.TypeString(sig.Params().At(i).Type(), q))
	}
	for i := 0; i < sig.Results().Len(); i++ {
		rs = append(rs, types.TypeString(sig.Results().At(i).Type(), q))
	}
	v := ""
	if sig.Variadic() {
		v = "..."
	}
	return "(" + strings.Join(ps, ",") + v + ")(" + strings.Join(rs, ",") + ")"
}

func recvName(fn *types.Func) string {
	sig := fn.Type().(*types.Signature)
	if sig.Recv() == nil {
		return ""
	}
	t := sig.Recv().Type()
	if pt, ok := t.(*types.Pointer); ok {
		t = pt.Elem()
	}
	if n, ok := t.(*types.Named); ok {
		return n.Obj().Name()
	}
	return t.String()
}

func (p *Program) fingerprint(fn *types.Func) []string {
	fd := p.Decl(fn)
	if fd == nil || fd.Body == nil {
		return nil
	}
	info := p.InfoFor(fd)
	set := map[string]bool{}
	ast.Inspect(fd.Body, func(n ast.Node) bool {
		switch x := n.(type) {
		case *ast.SelectorExpr:
			if f := fieldOf(info, x); f != nil {
				set["field:"+f.Name()] = true
			}
		case *ast.CallExpr:
			if c := calleeOf(info, x); c != nil && c != fn {
				set["call:"+c.Name()] = true
			}
		}
		return true
	})
	return sortedKeys(set)
}

// anchoredFuncs: every function a rule asked for by name (rules recognise these by identity, so
// they are never inlined away when guards are expanded)
var anchoredFuncs = map[*types.Func]bool{}

func (p *Program) recordAnchor(pkgRel, name string, fn *types.Func) {
	anchoredFuncs[fn] = true
	anchorRecorded[pkgRel+"|"+name] = anchorRec{Recv: recvName(fn), Sig: sigString(fn), Refs: p.fingerprint(fn)}
}

// resolveRenamedAnchor looks for the function the anchor pkgRel|name stood for.
func (p *Program) resolveRenamedAnchor(pkgRel, name string) *types.Func {
	loadAnchorTable()
	rec, ok := anchorTable[pkgRel+"|"+name]
	if !ok {
		return nil
	}
	taken := map[string]bool{} // names that are anchors themselves and still exist
	for k := range anchorTable {
		if strings.HasPrefix(k, pkgRel+"|") {
			taken[strings.TrimPrefix(k, pkgRel+"|")] = true
		}
	}
	want := map[string]bool{}
	for _, r := range rec.Refs {
		want[r] = true
	}
	type cand struct {
		fn    *types.Func
		score float64
	}
	var cands []cand
	pkg := p.Pkg(pkgRel)
	// the receiver type itself may have been renamed: then the method keeps its name and the
	// candidates are the same-named, same-signature methods of types that are not anchors
	recvGone := rec.Recv != "" && pkg.Types.Scope().Lookup(rec.Recv) == nil
	methodName := name
	if i := strings.Index(name, "."); i >= 0 {
		methodName = name[i+1:]
	}
	for fn := range p.funcDecls {
		if fn.Pkg() != pkg.Types || sigString(fn) != rec.Sig {
			continue
		}
		if recvGone {
			if recvName(fn) == "" || fn.Name() != methodName {
				continue
			}
		} else if recvName(fn) != rec.Recv {
			continue
		}
		full := fn.Name()
		if rec.Recv != "" {
			full = recvName(fn) + "." + fn.Name()
		}
		if taken[full] {
			continue
		}
		got := p.fingerprint(fn)
		inter, union := 0, len(want)
		for _, g := range got {
			if want[g] {
				inter++
			} else {
				union++
			}
		}
		score := 1.0
		if union > 0 {
			score = float64(inter) / float64(union)
		}
		cands = append(cands, cand{fn, score})
	}
	sort.Slice(cands, func(i, j int) bool { return cands[i].score > cands[j].score })
	minScore := 0.5
	if recvGone {
		minScore = 0.3 // receiver renamed as well: fields of the type usually changed with it
	}
	if len(cands) == 0 || cands[0].score < minScore {
		return nil
	}
	if len(cands) > 1 && cands[1].score > cands[0].score-0.2 {
		return nil // ambiguous
	}
	note := fmt.Sprintf("anchor %s.%s no longer exists under that name; using %s (same receiver and signature, fingerprint similarity %.2f)", pkgRel, name, FuncName(cands[0].fn), cands[0].score)
	seen := false
	for _, n := range anchorNotes {
		if n == note {
			seen = true
		}
	}
	if !seen {
		anchorNotes = append(anchorNotes, note)
		fmt.Fprintln(os.Stderr, "NOTE: "+note)
	}
	anchoredFuncs[cands[0].fn] = true
	return cands[0].fn
}

func writeAnchors(path string) error {
	b, err := json.MarshalIndent(anchorRecorded, "", " ")
	if err != nil {
		return err
	}
	return os.WriteFile(path, append(b, '\n'), 0o644)
}


// ---- fields: a renamed struct field is recognised by its type and position in the struct

func fieldTypeString(v *types.Var) string {
	return types.TypeString(v.Type(), func(p *types.Package) string { return p.Name() })
}

func (p *Program) recordFieldAnchor(pkgRel, typeName, field string, st *types.Struct, idx int) {
	anchorRecorded[pkgRel+"|"+typeName+"#"+field] = anchorRec{Recv: typeName, Sig: fieldTypeString(st.Field(idx)), Refs: []string{fmt.Sprint(idx)}}
}

func (p *Program) resolveRenamedField(pkgRel, typeName, field string, st *types.Struct) *types.Var {
	loadAnchorTable()
	rec, ok := anchorTable[pkgRel+"|"+typeName+"#"+field]
	if !ok {
		return nil
	}
	// names of this struct's other anchored fields that still exist are not candidates
	taken := map[string]bool{}
	for k := range anchorTable {
		pre := pkgRel + "|" + typeName + "#"
		if strings.HasPrefix(k, pre) {
			taken[strings.TrimPrefix(k, pre)] = true
		}
	}
	var cands []*types.Var
	var atIndex *types.Var
	for i := 0; i < st.NumFields(); i++ {
		f := st.Field(i)
		if taken[f.Name()] || fieldTypeString(f) != rec.Sig {
			continue
		}
		cands = append(cands, f)
		if len(rec.Refs) == 1 && rec.Refs[0] == fmt.Sprint(i) {
			atIndex = f
		}
	}
	var pick *types.Var
	if len(cands) == 1 {
		pick = cands[0]
	} else if atIndex != nil {
		pick = atIndex
	}
	if pick == nil {
		return nil
	}
	note := fmt.Sprintf("anchor %s.%s.%s no longer exists under that name; using field %s (same struct, same type)", pkgRel, typeName, field, pick.Name())
	seen := false
	for _, n := range anchorNotes {
		if n == note {
			seen = true
		}
	}
	if !seen {
		anchorNotes = append(anchorNotes, note)
		fmt.Fprintln(os.Stderr, "NOTE: "+note)
	}
	return pick
}
