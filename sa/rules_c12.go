package main

import (
	"fmt"
	"go/ast"
	"go/token"
	"go/types"
	"strings"
)

const cleanerPkgPath = modPath + "/pkg/cleaner"

func isIdleInvokerCall(info *types.Info, call *ast.CallExpr, method string) (string, bool) {
	sel, ok := ast.Unparen(call.Fun).(*ast.SelectorExpr)
	if !ok || sel.Sel.Name != method {
		return "", false
	}
	tv, ok := info.Types[sel.X]
	if !ok || !namedIs(tv.Type, cleanerPkgPath, "IdleInvoker") {
		return "", false
	}
	return exprStr(sel.X), true
}

func c12Acquire(c *Ctx) *RuleResult {
	r := &RuleResult{Rule: "C12.acquire-release", Floor: 3,
		Doc: "every successful IdleInvoker.Acquire outside the cleaner package is matched by exactly one Release on every path to every exit, or the invoker is handed to a returned wrapper (composite literal field) whose Close releases it on all paths"}
	p := c.P
	for _, u := range p.Units("pkg/builder", "pkg/runner", "cmd") {
		info := u.Info()
		spec := &OblSpec{Name: "acquire", Min: 1, Max: 1,
			Create: func(n ast.Node) []Born {
				var out []Born
				switch x := n.(type) {
				case *ast.AssignStmt:
					if len(x.Rhs) == 1 && len(x.Lhs) == 1 {
						if call, ok := ast.Unparen(x.Rhs[0]).(*ast.CallExpr); ok {
							if key, ok := isIdleInvokerCall(info, call, "Acquire"); ok {
								out = append(out, Born{Key: key, Pos: call.Pos(), FailTest: errNotNilTest(exprStr(x.Lhs[0]))})
							}
						}
					}
				}
				return out
			},
			Discharge: func(n ast.Node, key string) int {
				if call, ok := n.(*ast.CallExpr); ok {
					if k, ok := isIdleInvokerCall(info, call, "Release"); ok && k == key {
						return 1
					}
				}
				return 0
			},
			Transfer: func(n ast.Node, key string) bool {
				kv, ok := n.(*ast.KeyValueExpr)
				return ok && exprStr(kv.Value) == key
			},
		}
		res := RunObligation(info, u.Decl.Body, spec)
		if res.Created == 0 {
			continue
		}
		construct := constructOf(u, "Acquire")
		if len(res.Violations) == 0 {
			r.ok(construct, posOf(p, u.Decl), fmt.Sprintf("released exactly once or handed to the returned wrapper on all %d exits", res.Exits))
		}
		for _, v := range res.Violations {
			r.bad(c.Prop, construct, p.Pos(v.Born.Pos), fmt.Sprintf("the idle invoker acquired here is released %d times on the path to the %s: cleaning is skipped for good (count never returns to zero) or runs while another action is active", v.Count, oblExitDesc(p, v)))
		}
	}
	return r
}

// directory-producing calls: X, _, err := Y.GetBuildDirectory(...) / X, err := Y.EnterBuildDirectory(...)
func c12Directories(c *Ctx) *RuleResult {
	r := &RuleResult{Rule: "C12.directory-close", Floor: 4,
		Doc: "every build directory obtained from GetBuildDirectory / EnterBuildDirectory in pkg/builder is closed exactly once on every path to every exit (directly or by a deferred call), or handed over: returned, or stored in the returned wrapper"}
	p := c.P
	for _, u := range p.UnitsIn("pkg/builder") {
		info := u.Info()
		spec := &OblSpec{Name: "dir", Min: 1, Max: 1,
			Create: func(n ast.Node) []Born {
				as, ok := n.(*ast.AssignStmt)
				if !ok || len(as.Rhs) != 1 || len(as.Lhs) < 2 {
					return nil
				}
				call, ok := ast.Unparen(as.Rhs[0]).(*ast.CallExpr)
				if !ok {
					return nil
				}
				sel, ok := ast.Unparen(call.Fun).(*ast.SelectorExpr)
				if !ok || (sel.Sel.Name != "GetBuildDirectory" && sel.Sel.Name != "EnterBuildDirectory") {
					return nil
				}
				if exprStr(as.Lhs[0]) == "_" {
					return nil
				}
				return []Born{{Key: exprStr(as.Lhs[0]), Pos: as.Pos(), FailTest: errNotNilTest(exprStr(as.Lhs[len(as.Lhs)-1])), Tag: sel.Sel.Name}}
			},
			Discharge: func(n ast.Node, key string) int {
				if _, ok := methodCallOn(n, key, "Close"); ok {
					return 1
				}
				return 0
			},
			Transfer: func(n ast.Node, key string) bool {
				switch x := n.(type) {
				case *ast.KeyValueExpr:
					return exprStr(x.Value) == key
				case *ast.ReturnStmt:
					for _, res := range x.Results {
						if exprStr(res) == key {
							return true
						}
					}
				}
				return false
			},
		}
		res := RunObligation(info, u.Decl.Body, spec)
		if res.Created == 0 {
			continue
		}
		if res.Undecided != "" {
			r.undecided(u.Name(), res.Undecided)
		}
		bad := map[string]bool{}
		for _, v := range res.Violations {
			construct := constructOf(u, v.Born.Tag+" -> "+v.Key)
			bad[construct] = true
			msg := v.Msg
			if msg == "" {
				msg = fmt.Sprintf("closed %d times on the path to the %s", v.Count, oblExitDesc(p, v))
			}
			r.bad(c.Prop, construct, p.Pos(v.Born.Pos), "build directory "+v.Key+": "+msg+" — the per-action directory (and what it pins) is left behind or closed twice")
		}
		// report ok obligations
		ast.Inspect(u.Decl.Body, func(n ast.Node) bool {
			for _, b := range spec.Create(n) {
				construct := constructOf(u, b.Tag+" -> "+b.Key)
				if !bad[construct] {
					r.ok(construct, p.Pos(b.Pos), "closed once or handed over on every path")
				}
			}
			return true
		})
	}
	return r
}

func c12WrapperClose(c *Ctx) *RuleResult {
	r := &RuleResult{Rule: "C12.wrapper-close", Floor: 5,
		Doc: "the Close method of every build-directory wrapper in pkg/builder discharges everything the wrapper owns on EVERY path, whatever the earlier steps returned: each BuildDirectory-typed field is closed, an IdleInvoker field is released, and a wrapper that created a per-action child directory removes it (RemoveAll of the child name on the parent)"}
	p := c.P
	pkg := p.Pkg("pkg/builder")
	bdIface := p.LookupType("pkg/builder", "BuildDirectory")
	for _, u := range p.UnitsIn("pkg/builder") {
		if u.Fn.Name() != "Close" || u.Decl.Recv == nil || len(u.Decl.Recv.List[0].Names) == 0 {
			continue
		}
		recvName := u.Decl.Recv.List[0].Names[0].Name
		rt := u.Fn.Type().(*types.Signature).Recv().Type()
		if pt, ok := rt.(*types.Pointer); ok {
			rt = pt.Elem()
		}
		st, ok := rt.Underlying().(*types.Struct)
		if !ok {
			continue
		}
		_ = pkg
		info := u.Info()
		g := NewFuncCFG(info, u.Decl.Body)
		mustPass := func(pred func(call *ast.CallExpr) bool) bool {
			return g.EveryPathPasses(func(n ast.Node) bool {
				call, ok := n.(*ast.CallExpr)
				return ok && pred(call)
			})
		}
		hasChildName := false
		for i := 0; i < st.NumFields(); i++ {
			if strings.Contains(st.Field(i).Name(), "childDirectoryName") {
				hasChildName = true
			}
		}
		owns := 0
		for i := 0; i < st.NumFields(); i++ {
			f := st.Field(i)
			fname := f.Name()
			switch {
			case types.Identical(f.Type(), bdIface):
				owns++
				construct := constructOf(u, "close "+fname)
				if mustPass(func(call *ast.CallExpr) bool {
					sel, ok := ast.Unparen(call.Fun).(*ast.SelectorExpr)
					return ok && sel.Sel.Name == "Close" && exprStr(sel.X) == recvName+"."+fname
				}) {
					r.ok(construct, posOf(p, u.Decl), "closed on every path")
				} else {
					r.bad(c.Prop, construct, posOf(p, u.Decl), "Close() can return without closing "+fname+" (e.g. when an earlier step failed): the directory stays open / pinned")
				}
			case namedIs(f.Type(), cleanerPkgPath, "IdleInvoker"):
				owns++
				construct := constructOf(u, "release "+fname)
				if mustPass(func(call *ast.CallExpr) bool {
					k, ok := isIdleInvokerCall(info, call, "Release")
					return ok && k == recvName+"."+fname
				}) {
					r.ok(construct, posOf(p, u.Decl), "released on every path")
				} else {
					r.bad(c.Prop, construct, posOf(p, u.Decl), "Close() can return without releasing the idle invoker: the use count never returns to zero and cleaning never runs again")
				}
			}
		}
		if hasChildName && owns > 0 {
			construct := constructOf(u, "remove child directory")
			if mustPass(func(call *ast.CallExpr) bool {
				sel, ok := ast.Unparen(call.Fun).(*ast.SelectorExpr)
				return ok && sel.Sel.Name == "RemoveAll" && len(call.Args) == 1 && strings.Contains(exprStr(call.Args[0]), "childDirectoryName")
			}) {
				r.ok(construct, posOf(p, u.Decl), "per-action directory removed on every path")
			} else {
				r.bad(c.Prop, construct, posOf(p, u.Decl), "Close() can return without removing the per-action subdirectory (e.g. when closing it failed): the action's files are left behind and a re-run of the same action fails with 'file exists'")
			}
		}
	}
	return r
}

func c12Monitor(c *Ctx) *RuleResult {
	r := &RuleResult{Rule: "C12.monitor", Floor: 6,
		Doc: "IdleInvoker is a correct monitor for 'clean exactly at the idle<->busy transitions': clean() requires the lock, publishes the wake-up channel before releasing it, runs the cleaner unlocked, and closes/clears the channel after re-locking; every call of clean() is guarded by a use count of zero established after the last lock re-acquisition; Acquire waits while a cleaning is in progress, counts itself only after a successful clean, and Release decrements before it cleans"}
	p := c.P
	e := sharedLockEngine(c)
	cleanFn := p.LookupFunc("pkg/cleaner", "IdleInvoker.clean")
	useCount := p.LookupField("pkg/cleaner", "IdleInvoker", "useCount")
	wakeup := p.LookupField("pkg/cleaner", "IdleInvoker", "wakeup")
	units := p.UnitsIn("pkg/cleaner")
	// clean(): lock protocol from the engine
	if s := e.Sums[cleanFn]; s != nil {
		ef := s.Effects["i.lock"]
		for k, v := range s.Effects {
			if v.Class == "cleaner.IdleInvoker.lock" {
				ef = s.Effects[k]
			}
		}
		construct := FuncName(cleanFn) + "|lock-protocol"
		if ef != nil && ef.Pre == kHeld && ef.Delta == 0 && ef.Touched {
			r.ok(construct, posOf(p, p.Decl(cleanFn)), "requires the lock, releases it around the cleaner, holds it again on return")
		} else {
			r.bad(c.Prop, construct, posOf(p, p.Decl(cleanFn)), "clean() no longer runs the cleaner with the lock released and re-acquired (requires-held, temporarily released, net 0)")
		}
	}
	cu := p.Unit("pkg/cleaner", "IdleInvoker.clean")
	{
		info := cu.Info()
		g := NewFuncCFG(info, cu.Decl.Body)
		var setW, unlock, lock, fcall, closeW, clearW ast.Node
		ast.Inspect(cu.Decl.Body, func(n ast.Node) bool {
			switch x := n.(type) {
			case *ast.AssignStmt:
				if len(x.Lhs) == 1 && fieldOf(info, x.Lhs[0]) == wakeup {
					if isNilIdent(x.Rhs[0]) {
						clearW = x
					} else {
						setW = x
					}
				}
			case *ast.CallExpr:
				if sel, ok := ast.Unparen(x.Fun).(*ast.SelectorExpr); ok {
					switch sel.Sel.Name {
					case "Unlock":
						unlock = x
					case "Lock":
						lock = x
					case "f":
						fcall = x
					}
				}
				if id, ok := ast.Unparen(x.Fun).(*ast.Ident); ok && id.Name == "close" {
					closeW = x
				}
			}
			return true
		})
		if unlock == nil && lock == nil && fcall == nil {
			// unlock -> cleaner -> lock moved into a helper called from clean()
			ast.Inspect(cu.Decl.Body, func(n ast.Node) bool {
				hc, ok := n.(*ast.CallExpr)
				if !ok {
					return true
				}
				hu := p.UnitOf(calleeOf(info, hc))
				if hu == nil || hu.Fn.Pkg() != cu.Fn.Pkg() {
					return true
				}
				var hUn, hLk, hF ast.Node
				ast.Inspect(hu.Decl.Body, func(m ast.Node) bool {
					if x, ok := m.(*ast.CallExpr); ok {
						if sel, ok := ast.Unparen(x.Fun).(*ast.SelectorExpr); ok {
							switch sel.Sel.Name {
							case "Unlock":
								hUn = x
							case "Lock":
								hLk = x
							case "f":
								hF = x
							}
						}
					}
					return true
				})
				if hUn != nil && hLk != nil && hF != nil {
					hg := NewFuncCFG(hu.Info(), hu.Decl.Body)
					if hg.Dominates(hUn, hF) && hg.Dominates(hF, hLk) && hg.EveryPathPasses(func(m ast.Node) bool { return m == hLk }) {
						unlock, fcall, lock = hc, hc, hc
					}
				}
				return true
			})
		}
		construct := cu.Name() + "|order"
		if setW != nil && unlock != nil && lock != nil && fcall != nil && closeW != nil && clearW != nil &&
			g.Dominates(setW, unlock) && (unlock == fcall || g.Dominates(unlock, fcall)) && (fcall == lock || g.Dominates(fcall, lock)) && g.Dominates(lock, closeW) && g.Dominates(lock, clearW) &&
			g.PostDominates(closeW, setW) && g.PostDominates(clearW, setW) {
			r.ok(construct, posOf(p, cu.Decl), "wakeup set -> unlock -> cleaner -> lock -> close(wakeup), wakeup = nil on all paths")
		} else {
			r.bad(c.Prop, construct, posOf(p, cu.Decl), "clean() does not publish the in-progress channel before unlocking, run the cleaner unlocked, and close + clear the channel after re-locking on every path: concurrent Acquire/Release can clean concurrently or wait forever")
		}
	}
	for _, cs := range CallsTo(units, cleanFn) {
		u := cs.Unit
		info := u.Info()
		call := cs.Node.(*ast.CallExpr)
		gs := flattenGuards(GuardsOf(info, u.Decl.Body, call))
		var guardCond ast.Expr
		for _, g := range gs {
			be, ok := ast.Unparen(g.Cond).(*ast.BinaryExpr)
			if !ok || fieldOf(info, be.X) != useCount || exprStr(be.Y) != "0" {
				continue
			}
			if g.Pos && (be.Op == token.EQL || be.Op == token.LEQ) {
				guardCond = g.Cond
			}
		}
		construct := constructOf(u, "clean-at-zero")
		if guardCond == nil {
			r.bad(c.Prop, construct, posOf(p, call), fmt.Sprintf("the cleaner is invoked without establishing that the use count is zero (guards: %v): cleaning can run while an action is active", guardStrings(gs)))
			continue
		}
		// no lock release between the test and the call
		g := NewFuncCFG(info, u.Decl.Body)
		stale := false
		ast.Inspect(u.Decl.Body, func(n ast.Node) bool {
			uc, ok := n.(*ast.CallExpr)
			if !ok {
				return true
			}
			if sel, ok := ast.Unparen(uc.Fun).(*ast.SelectorExpr); ok && sel.Sel.Name == "Unlock" {
				if _, isDefer := deferredCall(u, uc); isDefer {
					return true
				}
				if a, _ := g.ReachableWithout(guardCond, uc, func(ast.Node) bool { return false }); a {
					if b, _ := g.ReachableWithout(uc, call, func(m ast.Node) bool { return m == origOf(guardCond) }); b {
						stale = true
					}
				}
			}
			return true
		})
		if stale {
			r.bad(c.Prop, construct, posOf(p, call), "the use count is tested before the lock is released and re-acquired; by the time clean() runs another caller may have become active")
		} else {
			r.ok(construct, posOf(p, call), "guarded by a fresh use count == 0 test")
		}
		// the result of clean decides whether we count ourselves (Acquire) — failure must leave
		if u.Fn.Name() == "Acquire" {
			okFail := false
			for _, anc := range pathTo(u.Decl.Body, call) {
				if ifs, ok := anc.(*ast.IfStmt); ok && ifs.Init != nil {
					if as, ok := ifs.Init.(*ast.AssignStmt); ok && len(as.Rhs) == 1 && ast.Unparen(as.Rhs[0]) == ast.Expr(call) {
						if isT, whenTrue := errNotNilTest(exprStr(as.Lhs[0]))(ifs.Cond); isT && whenTrue && terminates(info, ifs.Body.List) {
							okFail = true
						}
					}
				}
			}
			construct := constructOf(u, "no-acquisition-after-failed-clean")
			if okFail {
				r.ok(construct, posOf(p, call), "a failed clean returns before the use count is incremented")
			} else {
				r.bad(c.Prop, construct, posOf(p, call), "Acquire continues (and counts itself as a user) after the cleaning before it failed")
			}
		}
	}
	// Acquire: waits while a cleaning is in progress before testing the count
	au := p.Unit("pkg/cleaner", "IdleInvoker.Acquire")
	{
		info := au.Info()
		// a test of the "cleaning in progress" channel against nil, directly or through a local
		isWakeupTest := func(u *FuncUnit, n ast.Node) bool {
			e, ok := n.(ast.Expr)
			if !ok {
				return false
			}
			be, ok := ast.Unparen(e).(*ast.BinaryExpr)
			if !ok || (be.Op != token.NEQ && be.Op != token.EQL) || !isNilIdent(be.Y) {
				return false
			}
			return fieldOf(u.Info(), resolveLocalAlias(u, be.X)) == wakeup
		}
		// functions that test it on all their paths (a wait loop moved into a helper)
		waiters := mustPass(p.UnitsIn("pkg/cleaner"), func(u *FuncUnit, n ast.Node) bool {
			if u.Fn == au.Fn {
				return false
			}
			return isWakeupTest(u, n)
		})
		var tests []ast.Node
		ast.Inspect(au.Decl.Body, func(n ast.Node) bool {
			switch x := n.(type) {
			case *ast.ForStmt:
				if x.Cond != nil && isWakeupTest(au, x.Cond) {
					tests = append(tests, x.Cond)
				}
			case *ast.IfStmt:
				if isWakeupTest(au, x.Cond) {
					tests = append(tests, x.Cond)
				}
			case *ast.CallExpr:
				if fn := calleeOf(info, x); fn != nil && waiters[fn] {
					tests = append(tests, x)
				}
			}
			return true
		})
		construct := au.Name() + "|wait-for-cleaning"
		g := NewFuncCFG(info, au.Decl.Body)
		okW := false
		for _, t := range tests {
			all := true
			for _, w := range FieldWrites([]*FuncUnit{au}, useCount, false) {
				if !g.Dominates(t, w.Node) {
					all = false
				}
			}
			for _, cs := range CallsTo([]*FuncUnit{au}, cleanFn) {
				if !g.Dominates(t, cs.Node) {
					all = false
				}
			}
			if all {
				okW = true
			}
		}
		if okW {
			r.ok(construct, posOf(p, au.Decl), "the wait for a cleaning in progress (test of wakeup against nil) dominates the count test, the clean and the increment")
		} else {
			r.bad(c.Prop, construct, posOf(p, au.Decl), "Acquire can proceed while a cleaning is still in progress")
		}
	}
	// Release: decrement dominates clean
	ru := p.Unit("pkg/cleaner", "IdleInvoker.Release")
	{
		g := NewFuncCFG(ru.Info(), ru.Decl.Body)
		okD := false
		for _, w := range FieldWrites([]*FuncUnit{ru}, useCount, false) {
			if inc, ok := w.Node.(*ast.IncDecStmt); ok && inc.Tok == token.DEC {
				okD = true
				for _, cs := range CallsTo([]*FuncUnit{ru}, cleanFn) {
					if !g.Dominates(inc, cs.Node) {
						okD = false
					}
				}
				// always decremented: the decrement is on every returning path
				if !g.EveryPathPasses(func(n ast.Node) bool { return n == ast.Node(inc) }) {
					okD = false
				}
			}
		}
		construct := ru.Name() + "|decrement-first"
		if okD {
			r.ok(construct, posOf(p, ru.Decl), "the use count is always decremented, before any cleaning")
		} else {
			r.bad(c.Prop, construct, posOf(p, ru.Decl), "Release does not always decrement the use count before cleaning")
		}
	}
	return r
}

// deferredCall reports whether call is the call of a defer statement in u.
func deferredCall(u *FuncUnit, call *ast.CallExpr) (*ast.DeferStmt, bool) {
	var out *ast.DeferStmt
	ast.Inspect(u.Decl.Body, func(n ast.Node) bool {
		if d, ok := n.(*ast.DeferStmt); ok && d.Call == call {
			out = d
		}
		return true
	})
	return out, out != nil
}

func init() {
	register(&PropertySpec{
		ID:          "C12",
		Level:       "other",
		Explanation: "Decides, on all paths: Acquire/Release pairing (or hand-over to a wrapper whose Close releases); every obtained build directory closed once or handed over; wrapper Close methods discharge everything they own on every path including removal of the per-action directory; the IdleInvoker monitor's shape (clean() lock protocol and channel ordering; clean only under a fresh use-count-zero test; Acquire waits for cleanings, counts itself only after a successful clean; Release decrements first). Mutual exclusion over all interleavings follows from the monitor shape by a standard argument that is not mechanised here.",
		Assumptions: []string{"BuildDirectory implementations remove what RemoveAll is asked to remove", "the lock model of C14"},
		Rules:       []RuleFunc{c12Acquire, c12Directories, c12WrapperClose, c12Monitor, c12AcquireFirst, freshMkdir, c12CloseOrder, c12CleanAlwaysInvokes, c12ChainKeepsFirstError},
	})
}
