package main

// Thorough tier: checker self-validation against the seeded changes kept under /verif/seeded.
// Each stored patch that targets the property is applied IN MEMORY (packages overlay; nothing in
// /repo is touched, nothing is executed), the property's rules are re-run on that variant and the
// outcome (fired / silent / patch no longer applies) is recorded in the evidence. The results are
// advisory: they never change the exit code of the check on the real tree.

import (
	"encoding/json"
	"fmt"
	"os"
	"os/exec"
	"path/filepath"
	"regexp"
	"sort"
	"strings"
)

type seedOutcome struct {
	ID       string   `json:"seed"`
	Applies  bool     `json:"applies"`
	Fired    bool     `json:"fired"`
	Rules    []string `json:"rules_fired,omitempty"`
	Expected bool     `json:"expected_to_fire"`
	Note     string   `json:"note,omitempty"`
}

var diffFileRe = regexp.MustCompile(`(?m)^\+\+\+ b/(\S+)`)

// overlayFromPatch applies patchFile to copies of the files it names and returns the patched
// contents keyed by their path under repoDir.
func overlayFromPatch(repoDir, patchFile string) (map[string][]byte, error) {
	b, err := os.ReadFile(patchFile)
	if err != nil {
		return nil, err
	}
	files := map[string]bool{}
	for _, m := range diffFileRe.FindAllStringSubmatch(string(b), -1) {
		files[m[1]] = true
	}
	tmp, err := os.MkdirTemp("", "bbverif-overlay-")
	if err != nil {
		return nil, err
	}
	defer os.RemoveAll(tmp)
	for f := range files {
		src, err := os.ReadFile(filepath.Join(repoDir, f))
		if err != nil {
			return nil, err
		}
		dst := filepath.Join(tmp, f)
		os.MkdirAll(filepath.Dir(dst), 0o755)
		if err := os.WriteFile(dst, src, 0o644); err != nil {
			return nil, err
		}
	}
	cmd := exec.Command("patch", "-p1", "-s", "-f", "--no-backup-if-mismatch", "-d", tmp, "-i", patchFile)
	if out, err := cmd.CombinedOutput(); err != nil {
		return nil, fmt.Errorf("patch does not apply: %s", strings.TrimSpace(string(out)))
	}
	ov := map[string][]byte{}
	for f := range files {
		nb, err := os.ReadFile(filepath.Join(tmp, f))
		if err != nil {
			return nil, err
		}
		ov[filepath.Join(repoDir, f)] = nb
	}
	return ov, nil
}

// runSeeds evaluates the property's rules on every seeded variant that targets it.
func runSeeds(spec *PropertySpec, repoDir, outDir string) []seedOutcome {
	var outs []seedOutcome
	dirs, _ := filepath.Glob(filepath.Join(outDir, "seeded", "*", "meta.json"))
	sort.Strings(dirs)
	for _, mf := range dirs {
		var meta struct {
			ID         string   `json:"id"`
			Property   string   `json:"property"`
			DetectedBy []string `json:"detected_by"`
		}
		b, err := os.ReadFile(mf)
		if err != nil || json.Unmarshal(b, &meta) != nil {
			continue
		}
		expected := false
		for _, d := range meta.DetectedBy {
			if strings.HasPrefix(d, spec.ID+"(") {
				expected = true
			}
		}
		if meta.Property != spec.ID && !expected {
			continue
		}
		so := seedOutcome{ID: meta.ID, Expected: expected}
		ov, err := overlayFromPatch(repoDir, filepath.Join(filepath.Dir(mf), "patch.diff"))
		if err != nil {
			so.Note = err.Error()
			outs = append(outs, so)
			continue
		}
		so.Applies = true
		prog, err := LoadProgram(repoDir, ov)
		if err != nil {
			so.Note = "variant does not load: " + firstLine(err.Error())
			outs = append(outs, so)
			continue
		}
		theProgram = prog
		c := &Ctx{P: prog, Tier: "thorough", Prop: spec.ID}
		rules := map[string]bool{}
		for _, rf := range spec.Rules {
			res, fail := runRule(c, rf)
			if fail != "" || len(res.Undecided) > 0 || len(res.Obls) < res.Floor {
				rules[res.Rule+"(cannot-decide)"] = true
			}
			for _, f := range res.Findings {
				rules[f.Rule] = true
			}
		}
		for r := range rules {
			so.Rules = append(so.Rules, r)
		}
		sort.Strings(so.Rules)
		so.Fired = len(so.Rules) > 0
		outs = append(outs, so)
		// drop per-program caches of the variant
		delete(lockEngineCache, prog)
		delete(schedGuardEngineCache, prog)
		delete(nfsEngineCache, prog)
		delete(dirGuardEngineCache, prog)
		delete(mutatesCache, prog)
	}
	return outs
}

func firstLine(s string) string {
	if i := strings.Index(s, "\n"); i >= 0 {
		return s[:i]
	}
	return s
}
