package main

import (
	"fmt"
	"go/ast"
	"go/token"
	"go/types"
	"sort"
	"strings"
)

func c09Guard(c *Ctx) *RuleResult {
	r := &RuleResult{Rule: "C09.guard", Floor: 6,
		Doc: "the Action Cache is written only for a cacheable, successful result: every Put on the caching executor's actionCache is guarded by !action.DoNotCache and executeResponseIsSuccessful(response) for the very response whose Result is stored; that predicate's decision table is 'status OK and exit code 0'; an error is attached to a response only if it has none yet (first error wins)"}
	p := c.P
	units := p.UnitsIn(builderPkg)
	ac := p.LookupField(builderPkg, "cachingBuildExecutor", "actionCache")
	succ := p.LookupFunc(builderPkg, "executeResponseIsSuccessful")
	for _, u := range units {
		info := u.Info()
		ast.Inspect(u.Decl.Body, func(n ast.Node) bool {
			call, ok := n.(*ast.CallExpr)
			if !ok {
				return true
			}
			sel, ok := ast.Unparen(call.Fun).(*ast.SelectorExpr)
			if !ok || sel.Sel.Name != "Put" || fieldOf(info, sel.X) != ac {
				return true
			}
			construct := constructOf(u, "actionCache.Put")
			// which response is stored?
			stored := ""
			ast.Inspect(call, func(m ast.Node) bool {
				if s, ok := m.(*ast.SelectorExpr); ok && s.Sel.Name == "Result" {
					stored = exprStr(s.X)
				}
				return true
			})
			dnc, ok2 := false, false
			for _, g := range flattenGuards(GuardsOf(info, u.Decl.Body, call)) {
				if s, ok := ast.Unparen(g.Cond).(*ast.SelectorExpr); ok && !g.Pos && s.Sel.Name == "DoNotCache" {
					dnc = true
				}
				if gc, ok := ast.Unparen(g.Cond).(*ast.CallExpr); ok && g.Pos && calleeOf(info, gc) == succ && len(gc.Args) == 1 && exprStr(gc.Args[0]) == stored && stored != "" {
					ok2 = true
				}
			}
			if dnc && ok2 {
				r.ok(construct, posOf(p, call), "guarded by !DoNotCache && executeResponseIsSuccessful("+stored+")")
			} else {
				r.bad(c.Prop, construct, posOf(p, call), fmt.Sprintf("an ActionResult is written to the Action Cache without both guards (do_not_cache unset: %v, response successful: %v)", dnc, ok2))
			}
			return true
		})
	}
	// predicate table
	su := p.Unit(builderPkg, "executeResponseIsSuccessful")
	d := BuildDTable(su, su.Decl.Body)
	if d.Err != "" {
		r.undecided(su.Name(), d.Err)
	} else {
		st := d.FindBool(func(k string) bool { return strings.Contains(k, "ErrorProto(") && strings.Contains(k, ".Status") })
		ex, _, okE := d.FindOrder(func(a, b string) (bool, bool) {
			return (strings.HasSuffix(a, ".ExitCode") && b == "0") || (strings.HasSuffix(b, ".ExitCode") && a == "0"), false
		})
		if st == nil || !okE || len(d.Atoms) != 2 {
			r.bad(c.Prop, su.Name()+"|shape", posOf(p, su.Decl), fmt.Sprintf("'successful' is not decided from the status and the exit code alone (conditions: %v)", d.describe()))
		} else {
			for _, row := range d.Rows {
				statusOK := row.Assign[st.Key] == 1
				exitZero := row.Assign[ex.Key] == 0
				want := statusOK && exitZero
				construct := fmt.Sprintf("%s|statusOK=%v,exit0=%v", su.Name(), statusOK, exitZero)
				if row.Result == fmt.Sprint(want) {
					r.ok(construct, posOf(p, su.Decl), row.Result)
				} else {
					r.bad(c.Prop, construct, posOf(p, su.Decl), fmt.Sprintf("a response with status OK=%v and exit code zero=%v is considered successful=%s", statusOK, exitZero, row.Result))
				}
			}
		}
	}
	// first error wins
	au := p.Unit(builderPkg, "attachErrorToExecuteResponse")
	okF := false
	ast.Inspect(au.Decl.Body, func(n ast.Node) bool {
		as, ok := n.(*ast.AssignStmt)
		if !ok || len(as.Lhs) != 1 || !strings.HasSuffix(exprStr(as.Lhs[0]), ".Status") {
			return true
		}
		for _, g := range flattenGuards(GuardsOf(au.Info(), au.Decl.Body, as)) {
			if be, ok := ast.Unparen(g.Cond).(*ast.BinaryExpr); ok && g.Pos && be.Op == token.EQL && strings.Contains(exprStr(be.X), "ErrorProto(") && isNilIdent(be.Y) {
				okF = true
			}
		}
		return true
	})
	if okF {
		r.ok(au.Name()+"|first-error-wins", posOf(p, au.Decl), "status only replaced when it is still OK")
	} else {
		r.bad(c.Prop, au.Name()+"|first-error-wins", posOf(p, au.Decl), "attaching an error overwrites an earlier error (or is unconditional)")
	}
	return r
}

func c09Prune(c *Ctx) *RuleResult {
	r := &RuleResult{Rule: "C09.prune", Floor: 6,
		Doc: "if the final flush fails, whatever the action's own outcome, the response gets the error attached and no longer advertises outputs: in the flushing executor the failure branch is conditioned on the flush error alone and clears OutputFiles, OutputDirectories, StdoutDigest, StderrDigest and ServerLogs, and it wraps the executor that produced the response"}
	p := c.P
	u := p.Unit(builderPkg, "storageFlushingBuildExecutor.Execute")
	info := u.Info()
	var flushIf *ast.IfStmt
	ast.Inspect(u.Decl.Body, func(n ast.Node) bool {
		ifs, ok := n.(*ast.IfStmt)
		if !ok || ifs.Init == nil {
			return true
		}
		if as, ok := ifs.Init.(*ast.AssignStmt); ok && len(as.Rhs) == 1 && strings.HasSuffix(exprStr(ast.Unparen(as.Rhs[0]).(interface{ Pos() token.Pos }).(ast.Expr)), ".flush(ctx)") {
			flushIf = ifs
		}
		return true
	})
	if flushIf == nil {
		panic(anchorError("storageFlushingBuildExecutor.Execute: `if err := be.flush(ctx); ...`"))
	}
	errName := exprStr(flushIf.Init.(*ast.AssignStmt).Lhs[0])
	construct := constructOf(u, "flush-failure condition")
	if exprStr(flushIf.Cond) == errName+" != nil" {
		r.ok(construct, posOf(p, flushIf), "the failure branch depends on the flush error only")
	} else {
		r.bad(c.Prop, construct, posOf(p, flushIf), "the flush-failure handling is conditioned on more than the flush error ("+exprStr(flushIf.Cond)+"): for some outcomes (e.g. a non-zero exit code) a failed flush leaves an OK status and output digests of blobs that were never stored")
	}
	attach := p.LookupFunc(builderPkg, "attachErrorToExecuteResponse")
	attached := false
	for _, cs := range CallsTo([]*FuncUnit{u}, attach) {
		call := cs.Node.(*ast.CallExpr)
		if flushIf.Body.Pos() <= call.Pos() && call.End() <= flushIf.Body.End() && len(call.Args) == 2 && exprStr(call.Args[1]) == errName {
			// directly in the branch (not nested under further conditions)
			if len(flattenGuards(GuardsOf(info, flushIf.Body, call))) == 0 {
				attached = true
			}
		}
	}
	if attached {
		r.ok(constructOf(u, "attach flush error"), posOf(p, flushIf), "error attached unconditionally in the failure branch")
	} else {
		r.bad(c.Prop, constructOf(u, "attach flush error"), posOf(p, flushIf), "the flush error is not attached to the response on every failing path")
	}
	for _, f := range []string{"OutputFiles", "OutputDirectories", "StdoutDigest", "StderrDigest", "ServerLogs"} {
		cleared := false
		ast.Inspect(flushIf.Body, func(n ast.Node) bool {
			as, ok := n.(*ast.AssignStmt)
			if !ok || len(as.Lhs) != 1 || !strings.HasSuffix(exprStr(as.Lhs[0]), "."+f) || !isNilIdent(as.Rhs[0]) {
				return true
			}
			gs := flattenGuards(GuardsOf(info, flushIf.Body, as))
			okG := true
			for _, g := range gs {
				// only the nil-check of the result object itself is tolerated
				if !(g.Pos && strings.HasSuffix(exprStr(g.Cond), "!= nil") && !strings.Contains(exprStr(g.Cond), "err")) {
					okG = false
				}
			}
			if okG {
				cleared = true
			}
			return true
		})
		construct := constructOf(u, "clear "+f)
		if cleared {
			r.ok(construct, posOf(p, flushIf), "cleared when the flush failed")
		} else {
			r.bad(c.Prop, construct, posOf(p, flushIf), "after a failed flush the response still advertises "+f)
		}
	}
	return r
}

func c09Batched(c *Ctx) *RuleResult {
	r := &RuleResult{Rule: "C09.batched-errors", Floor: 5,
		Doc: "a write acknowledged by the batching store is stored by the time flush reports success, or its failure is reported by that flush: every error of FindMissing / Put / Wait in flushLocked is recorded in flushError; the flush function runs flushLocked on every path and every return hands back the recorded error (then resets it); Put refuses new blobs while an error is recorded; a pending buffer is removed from the map before it is handed to the backend"}
	p := c.P
	fe := p.LookupField("pkg/blobstore", "batchedStoreBlobAccess", "flushError")
	pend := p.LookupField("pkg/blobstore", "batchedStoreBlobAccess", "pendingPutOperations")
	fl := p.Unit("pkg/blobstore", "batchedStoreBlobAccess.flushLocked")
	info := fl.Info()
	// errors recorded
	ast.Inspect(fl.Decl.Body, func(n ast.Node) bool {
		ifs, ok := n.(*ast.IfStmt)
		if !ok {
			return true
		}
		if !isErrNotNil(info, ifs.Cond) {
			return true
		}
		if enclosingFuncLit(fl.Decl.Body, ifs) != nil {
			// inside an errgroup goroutine: the error must be returned to the group
			retErr := false
			ast.Inspect(ifs.Body, func(m ast.Node) bool {
				if ret, ok := m.(*ast.ReturnStmt); ok && len(ret.Results) == 1 && !isNilIdent(ret.Results[0]) {
					retErr = true
				}
				return true
			})
			construct := constructOf(fl, "goroutine error@"+firstCallName(ifs))
			if retErr {
				r.ok(construct, posOf(p, ifs), "returned to the errgroup")
			} else {
				r.bad(c.Prop, construct, posOf(p, ifs), "an error inside the upload goroutine is swallowed")
			}
			return true
		}
		rec := false
		ast.Inspect(ifs.Body, func(m ast.Node) bool {
			if as, ok := m.(*ast.AssignStmt); ok && len(as.Lhs) == 1 && fieldOf(info, as.Lhs[0]) == fe && !isNilIdent(as.Rhs[0]) {
				rec = true
			}
			return true
		})
		construct := constructOf(fl, "record error@"+firstCallName(ifs))
		if rec {
			r.ok(construct, posOf(p, ifs), "recorded in flushError")
		} else {
			r.bad(c.Prop, construct, posOf(p, ifs), "a storage error during flushing is not recorded: flush reports success although acknowledged blobs were not stored")
		}
		return true
	})
	// delete before Put
	ast.Inspect(fl.Decl.Body, func(n ast.Node) bool {
		call, ok := n.(*ast.CallExpr)
		if !ok {
			return true
		}
		sel, ok := ast.Unparen(call.Fun).(*ast.SelectorExpr)
		if !ok || sel.Sel.Name != "Put" {
			return true
		}
		construct := constructOf(fl, "consume-once")
		deleted := false
		for _, w := range FieldWrites([]*FuncUnit{fl}, pend, false) {
			if dc, ok := w.Node.(*ast.CallExpr); ok && dc.Pos() < call.Pos() {
				deleted = true
			}
		}
		if deleted {
			r.ok(construct, posOf(p, call), "removed from the pending map before being handed to Put")
		} else {
			r.bad(c.Prop, construct, posOf(p, call), "a pending buffer is handed to the backend while still in the pending map (it would be discarded / used twice)")
		}
		return true
	})
	// the flush closure
	nu := p.Unit("pkg/blobstore", "NewBatchedStoreBlobAccess")
	// the flush function: second result of the constructor, a function literal or a method value
	var litBody *ast.BlockStmt
	var litPos ast.Node
	flushUnit := nu
	ast.Inspect(nu.Decl.Body, func(n ast.Node) bool {
		ret, ok := n.(*ast.ReturnStmt)
		if !ok || len(ret.Results) != 2 {
			return true
		}
		switch x := ast.Unparen(ret.Results[1]).(type) {
		case *ast.FuncLit:
			litBody, litPos = x.Body, x
		case *ast.SelectorExpr:
			if fn, ok := nu.Info().Uses[x.Sel].(*types.Func); ok {
				if fd := p.Decl(fn.Origin()); fd != nil {
					litBody, litPos = fd.Body, fd
					flushUnit = &FuncUnit{Fn: fn.Origin(), Decl: fd, Pkg: p.declPkg[fd]}
				}
			}
		}
		return true
	})
	if litBody == nil {
		panic(anchorError("NewBatchedStoreBlobAccess: flush function (second result)"))
	}
	lit := struct{ Body *ast.BlockStmt }{litBody}
	g := NewFuncCFG(flushUnit.Info(), lit.Body)
	construct := constructOf(nu, "flush closure")
	flushes := g.EveryPathPasses(func(n ast.Node) bool {
		call, ok := n.(*ast.CallExpr)
		return ok && calleeOf(flushUnit.Info(), call) == fl.Fn
	})
	retOK := true
	ast.Inspect(lit.Body, func(n ast.Node) bool {
		ret, ok := n.(*ast.ReturnStmt)
		if !ok || len(ret.Results) != 1 {
			return true
		}
		src := resolveLocalAliasIn(flushUnit, lit.Body, ret.Results[0])
		if fieldOf(flushUnit.Info(), src) != fe {
			retOK = false
		}
		return true
	})
	if flushes && retOK {
		r.ok(construct, posOf(p, litPos), "flushLocked on every path; every return yields the recorded error")
	} else {
		r.bad(c.Prop, construct, posOf(p, litPos), fmt.Sprintf("the flush function can report success without having flushed or without returning the recorded error (flushes on every path: %v, every return yields flushError: %v): a failure of an earlier automatic flush is lost and acknowledged blobs are missing", flushes, retOK))
	}
	// Put refuses while error set
	pu := p.Unit("pkg/blobstore", "batchedStoreBlobAccess.Put")
	refuses := false
	for _, w := range FieldWrites([]*FuncUnit{pu}, pend, false) {
		if _, ok := w.Node.(*ast.AssignStmt); !ok {
			continue
		}
		for _, gd := range flattenGuards(GuardsOf(pu.Info(), pu.Decl.Body, w.Node)) {
			if guardErrIsNil(pu.Info(), gd, "") {
				refuses = true
			}
		}
	}
	if refuses {
		r.ok(constructOf(pu, "refuse-after-error"), posOf(p, pu.Decl), "no blob is queued while a flush error is pending")
	} else {
		r.bad(c.Prop, constructOf(pu, "refuse-after-error"), posOf(p, pu.Decl), "Put acknowledges new blobs although an earlier flush failed")
	}
	return r
}

func firstCallName(ifs *ast.IfStmt) string {
	// the call whose error is tested: search backwards is hard syntactically; use the if-init or position
	if ifs.Init != nil {
		if as, ok := ifs.Init.(*ast.AssignStmt); ok && len(as.Rhs) == 1 {
			if call, ok := ast.Unparen(as.Rhs[0]).(*ast.CallExpr); ok {
				return exprStr(call.Fun)
			}
		}
	}
	return fmt.Sprintf("if#%d", ifs.Pos())
}

// resolveLocalAliasIn is resolveLocalAlias restricted to definitions inside body.
func resolveLocalAliasIn(u *FuncUnit, body *ast.BlockStmt, e ast.Expr) ast.Expr {
	id, ok := ast.Unparen(e).(*ast.Ident)
	if !ok {
		return e
	}
	info := u.Info()
	v, _ := info.Uses[id].(*types.Var)
	var rhs ast.Expr
	ast.Inspect(body, func(n ast.Node) bool {
		if as, ok := n.(*ast.AssignStmt); ok && len(as.Lhs) == len(as.Rhs) {
			for i, l := range as.Lhs {
				if lid, ok := l.(*ast.Ident); ok && info.Defs[lid] == v {
					rhs = as.Rhs[i]
				}
			}
		}
		return true
	})
	if rhs != nil {
		return rhs
	}
	return e
}

func c09Wiring(c *Ctx) *RuleResult {
	r := &RuleResult{Rule: "C09.wiring", Floor: 2,
		Doc: "in bb_worker the executors are composed so that the Action Cache is written after all blobs were flushed: the caching executor wraps (transitively, through the one variable that is re-wrapped) the storage-flushing executor, which wraps the local executor; the local executor writes through the batching store and the flushing executor's flusher is that same store's flush function"}
	p := c.P
	var u *FuncUnit
	for _, x := range p.UnitsIn("cmd/bb_worker") {
		if x.Fn.Name() == "main" {
			u = x
		}
	}
	if u == nil {
		panic(anchorError("cmd/bb_worker main"))
	}
	info := u.Info()
	// order of constructor applications on the variable that reaches NewCachingBuildExecutor
	type app struct {
		name string
		pos  token.Pos
		call *ast.CallExpr
	}
	var apps []app
	var collect func(e ast.Expr)
	collect = func(e ast.Expr) {
		call, ok := ast.Unparen(e).(*ast.CallExpr)
		if !ok {
			return
		}
		fn := calleeOf(info, call)
		if fn == nil || fn.Pkg() == nil || !strings.HasSuffix(fn.Pkg().Path(), "/pkg/builder") || !strings.HasSuffix(fn.Name(), "BuildExecutor") {
			return
		}
		if len(call.Args) > 0 {
			collect(call.Args[0]) // base first
		}
		apps = append(apps, app{fn.Name(), call.Pos(), call})
	}
	// the variable that holds the executor being built: the one assigned from NewLocalBuildExecutor
	chainVar := ""
	ast.Inspect(u.Decl.Body, func(n ast.Node) bool {
		if as, ok := n.(*ast.AssignStmt); ok && len(as.Lhs) == 1 && len(as.Rhs) == 1 {
			if call, ok := ast.Unparen(as.Rhs[0]).(*ast.CallExpr); ok {
				if fn := calleeOf(info, call); fn != nil && fn.Name() == "NewLocalBuildExecutor" {
					chainVar = exprStr(as.Lhs[0])
				}
			}
		}
		return true
	})
	if chainVar == "" {
		panic(anchorError("bb_worker main: variable assigned from NewLocalBuildExecutor"))
	}
	var assigns []*ast.AssignStmt
	ast.Inspect(u.Decl.Body, func(n ast.Node) bool {
		if as, ok := n.(*ast.AssignStmt); ok && len(as.Lhs) == 1 && exprStr(as.Lhs[0]) == chainVar {
			assigns = append(assigns, as)
		}
		return true
	})
	sort.Slice(assigns, func(i, j int) bool { return assigns[i].Pos() < assigns[j].Pos() })
	for _, as := range assigns {
		collect(as.Rhs[0])
	}
	idx := func(name string) int {
		for i, a := range apps {
			if a.name == name {
				return i
			}
		}
		return -1
	}
	li, fi, ci := idx("NewLocalBuildExecutor"), idx("NewStorageFlushingBuildExecutor"), idx("NewCachingBuildExecutor")
	construct := constructOf(u, "decorator order")
	if li >= 0 && fi > li && ci > fi {
		// no bypass: every wrapper after the local executor takes the variable or a nested wrapper as base
		okChain := true
		for _, a := range apps[li+1:] {
			if len(a.call.Args) == 0 {
				okChain = false
				continue
			}
			base := ast.Unparen(a.call.Args[0])
			if id, ok := base.(*ast.Ident); ok && id.Name != chainVar {
				okChain = false
			}
		}
		if okChain {
			r.ok(construct, p.Pos(apps[ci].pos), "local -> flushing -> ... -> caching")
		} else {
			r.bad(c.Prop, construct, p.Pos(apps[ci].pos), "an executor in the chain does not wrap the executor built so far: the flushing step can be bypassed")
		}
	} else {
		r.bad(c.Prop, construct, posOf(p, u.Decl), fmt.Sprintf("the executors are not composed local -> flushing -> caching (positions %d, %d, %d): the Action Cache can be written before the blobs it references are flushed", li, fi, ci))
	}
	// same batched store
	if li >= 0 && fi >= 0 {
		writer := exprStr(apps[li].call.Args[0])
		flusher := ""
		if len(apps[fi].call.Args) > 1 {
			flusher = exprStr(apps[fi].call.Args[1])
		}
		same := false
		ast.Inspect(u.Decl.Body, func(n ast.Node) bool {
			as, ok := n.(*ast.AssignStmt)
			if !ok || len(as.Lhs) != 2 || len(as.Rhs) != 1 {
				return true
			}
			if call, ok := ast.Unparen(as.Rhs[0]).(*ast.CallExpr); ok {
				if fn := calleeOf(info, call); fn != nil && fn.Name() == "NewBatchedStoreBlobAccess" && exprStr(as.Lhs[0]) == writer && exprStr(as.Lhs[1]) == flusher {
					same = true
				}
			}
			return true
		})
		construct := constructOf(u, "writer and flusher")
		if same {
			r.ok(construct, p.Pos(apps[fi].pos), writer+" and "+flusher+" come from the same NewBatchedStoreBlobAccess")
		} else {
			r.bad(c.Prop, construct, p.Pos(apps[fi].pos), "the store the local executor writes to and the flusher given to the flushing executor are not the two results of one NewBatchedStoreBlobAccess call: flushing does not cover the action's writes")
		}
	}
	return r
}

func init() {
	register(&PropertySpec{
		ID:          "C09",
		Level:       "other",
		Explanation: "Structural necessary conditions of 'only complete, successful results reach the Action Cache': the AC Put is dominated by both guards on the stored response and the success predicate's full table is 'status OK and exit 0'; first error wins; the flush-failure branch depends on the flush error alone, attaches it and clears all advertised digests and logs; in the batching store every storage error reaches flushError, the flush function flushes on every path and returns the recorded error, Put refuses after an error, buffers are consumed once; bb_worker composes local -> flushing -> caching over one batching store. The composed pipeline under every run-time fault position is not decided.",
		Assumptions: []string{"decorators between flushing and caching pass the response through"},
		Rules:       []RuleFunc{c09Guard, c09Prune, c09Batched, c09Wiring, c09StickyError, c09WriteErrors, c09SharedErrorState, c09UploadStores, c09UploadStoresVirtual, c09UploadErrorsSaved, c09ExecuteUploadErrors},
	})
}
