package main

import (
	"fmt"
	"go/ast"
	"go/token"
	"go/types"
	"strings"
)

const nfsPkg = "pkg/filesystem/virtual/nfsv4"

var mutatesCache = map[*Program]map[*types.Func]bool{}

// mutatingFuncs: functions of the NFS package that (transitively, through static in-package calls)
// write through a pointer, field, map or slice element, or call close()/delete().
func mutatingFuncs(p *Program) map[*types.Func]bool {
	if m, ok := mutatesCache[p]; ok {
		return m
	}
	units := p.UnitsIn(nfsPkg)
	direct := map[*types.Func]bool{}
	calls := map[*types.Func][]*types.Func{}
	for _, u := range units {
		info := u.Info()
		isLocalValue := func(e ast.Expr) bool {
			// assignment target rooted at a local variable of non-reference type, accessed without
			// pointer indirection: only the local copy changes
			for {
				switch x := ast.Unparen(e).(type) {
				case *ast.Ident:
					v, ok := info.Uses[x].(*types.Var)
					if !ok {
						v, ok = info.Defs[x].(*types.Var)
					}
					if !ok || v.IsField() || v.Parent() == nil || v.Parent() == v.Pkg().Scope() {
						return false
					}
					return true
				case *ast.SelectorExpr:
					if tv, ok := info.Types[x.X]; ok {
						if _, isPtr := tv.Type.Underlying().(*types.Pointer); isPtr {
							return false
						}
					}
					e = x.X
				case *ast.IndexExpr:
					if tv, ok := info.Types[x.X]; ok {
						switch tv.Type.Underlying().(type) {
						case *types.Map, *types.Slice, *types.Pointer:
							return false
						}
					}
					e = x.X
				default:
					return false
				}
			}
		}
		ast.Inspect(u.Decl.Body, func(n ast.Node) bool {
			switch x := n.(type) {
			case *ast.FuncLit:
				return false
			case *ast.AssignStmt:
				for _, l := range x.Lhs {
					if id, ok := l.(*ast.Ident); ok && id.Name == "_" {
						continue
					}
					if !isLocalValue(l) {
						direct[u.Fn] = true
					}
				}
			case *ast.IncDecStmt:
				if !isLocalValue(x.X) {
					direct[u.Fn] = true
				}
			case *ast.CallExpr:
				if id, ok := ast.Unparen(x.Fun).(*ast.Ident); ok {
					if _, isB := info.Uses[id].(*types.Builtin); isB && (id.Name == "delete" || id.Name == "close") {
						direct[u.Fn] = true
					}
				}
				if fn := calleeOf(info, x); fn != nil && p.Decl(fn) != nil {
					calls[u.Fn] = append(calls[u.Fn], fn)
				}
			}
			return true
		})
	}
	changed := true
	for changed {
		changed = false
		for f, cs := range calls {
			if direct[f] {
				continue
			}
			for _, c := range cs {
				if direct[c] {
					direct[f] = true
					changed = true
					break
				}
			}
		}
	}
	mutatesCache[p] = direct
	return direct
}

func isStartTransactionCall(info *types.Info, as *ast.AssignStmt) (*ast.CallExpr, bool) {
	if len(as.Rhs) != 1 || len(as.Lhs) != 3 {
		return nil, false
	}
	call, ok := ast.Unparen(as.Rhs[0]).(*ast.CallExpr)
	if !ok {
		return nil, false
	}
	fn := calleeOf(info, call)
	if fn == nil || (fn.Name() != "startTransaction" && txForwarders[fn] == nil) {
		return nil, false
	}
	return call, true
}

// txForwarders: functions whose result is that of a startTransaction call (`return
// x.startTransaction(...)`), possibly after a failed lookup that returns a status without a
// transaction; calling one starts a transaction just like calling startTransaction itself. The value
// maps the forwarder's parameter index to the parameter index of startTransaction it is passed as.
var txForwarders = map[*types.Func]map[int]int{}

func computeTxForwarders(p *Program) {
	txForwarders = map[*types.Func]map[int]int{}
	for _, u := range p.UnitsIn(nfsPkg) {
		if u.Fn.Type().(*types.Signature).Results().Len() != 3 || u.Fn.Name() == "startTransaction" {
			continue
		}
		info := u.Info()
		ast.Inspect(u.Decl.Body, func(n ast.Node) bool {
			ret, ok := n.(*ast.ReturnStmt)
			if !ok || len(ret.Results) != 1 {
				return true
			}
			call, ok := ast.Unparen(ret.Results[0]).(*ast.CallExpr)
			if !ok {
				return true
			}
			fn := calleeOf(info, call)
			if fn == nil || fn.Name() != "startTransaction" {
				return true
			}
			m := map[int]int{}
			sig := u.Fn.Type().(*types.Signature)
			for ai, a := range call.Args {
				if id, ok := ast.Unparen(a).(*ast.Ident); ok {
					for pi := 0; pi < sig.Params().Len(); pi++ {
						if info.ObjectOf(id) == sig.Params().At(pi) {
							m[pi] = ai
						}
					}
				}
			}
			txForwarders[u.Fn] = m
			return true
		})
	}
}

func c19TxLinear(c *Ctx) *RuleResult {
	r := &RuleResult{Rule: "C19.tx-linear", Floor: 9,
		Doc: "every successful open-owner / lock-owner startTransaction is completed exactly once on every path; on the failure edge (status != NFS4_OK: replay or bad sequence number) nothing with side effects is called before returning: no state-changing function of the package and no call into the virtual file system"}
	p := c.P
	computeTxForwarders(p)
	mut := mutatingFuncs(p)
	for _, u := range p.UnitsIn(nfsPkg) {
		info := u.Info()
		spec := &OblSpec{Name: "tx", Min: 1, Max: 1,
			Create: func(n ast.Node) []Born {
				as, ok := n.(*ast.AssignStmt)
				if !ok {
					return nil
				}
				if _, ok := isStartTransactionCall(info, as); !ok {
					return nil
				}
				return []Born{{Key: exprStr(as.Lhs[0]), Pos: as.Pos(), FailTest: statusNotOKTest(exprStr(as.Lhs[2]), "NFS4_OK")}}
			},
			Discharge: func(n ast.Node, key string) int {
				if _, ok := methodCallOn(n, key, "complete"); ok {
					return 1
				}
				return 0
			},
		}
		res := RunObligation(info, u.Decl.Body, spec)
		if res.Created == 0 {
			continue
		}
		if res.Undecided != "" {
			r.undecided(u.Name(), res.Undecided)
		}
		// group: one obligation per startTransaction call
		viol := map[string]OblViolation{}
		for _, v := range res.Violations {
			viol[p.Pos(v.Born.Pos)] = v
		}
		ast.Inspect(u.Decl.Body, func(n ast.Node) bool {
			as, ok := n.(*ast.AssignStmt)
			if !ok {
				return true
			}
			call, ok := isStartTransactionCall(info, as)
			if !ok {
				return true
			}
			construct := constructOf(u, "startTransaction on "+exprStr(ast.Unparen(call.Fun).(*ast.SelectorExpr).X))
			if v, bad := viol[p.Pos(as.Pos())]; bad {
				msg := v.Msg
				if msg == "" {
					msg = fmt.Sprintf("completed %d times on the path to the %s", v.Count, oblExitDesc(p, v))
				}
				r.bad(c.Prop, construct, posOf(p, as), "transaction started here is not completed exactly once: "+msg+" — the owner's sequence number / cached reply is not recorded (retransmissions re-execute) or the client stays pinned")
			} else {
				r.ok(construct, posOf(p, as), "completed exactly once on every success path")
			}
			// failure edge
			st := exprStr(as.Lhs[2])
			test := statusNotOKTest(st, "NFS4_OK")
			ast.Inspect(u.Decl.Body, func(m ast.Node) bool {
				ifs, ok := m.(*ast.IfStmt)
				if !ok || ifs.Pos() < as.End() {
					return true
				}
				isT, whenTrue := test(ifs.Cond)
				if !isT || !whenTrue {
					return true
				}
				// only the first such test after the call
				if reach, _ := NewFuncCFG(info, u.Decl.Body).ReachableWithout(as, ifs.Cond, func(k ast.Node) bool {
					o, ok := k.(*ast.AssignStmt)
					if !ok || o == as {
						return false
					}
					for _, l := range o.Lhs {
						if exprStr(l) == st {
							return true
						}
					}
					return false
				}); !reach {
					return true
				}
				fconstruct := constructOf(u, "failure-edge@"+exprStr(ast.Unparen(call.Fun).(*ast.SelectorExpr).X))
				bad := ""
				ast.Inspect(ifs.Body, func(k ast.Node) bool {
					ce, ok := k.(*ast.CallExpr)
					if !ok {
						return true
					}
					if fn := calleeOf(info, ce); fn != nil {
						if mut[fn] {
							bad = "calls " + FuncName(fn) + ", which changes state"
						}
						if fn.Pkg() != nil && strings.HasSuffix(fn.Pkg().Path(), "/pkg/filesystem/virtual") {
							bad = "calls into the file system: " + FuncName(fn)
						}
					}
					return true
				})
				if bad == "" {
					r.ok(fconstruct, posOf(p, ifs), "replay / bad-sequence branch only builds a reply")
				} else {
					r.bad(c.Prop, fconstruct, posOf(p, ifs), "on the replay / bad-sequence-number path the operation "+bad+": a rejected or retransmitted request has side effects")
				}
				return false
			})
			return true
		})
	}
	return r
}

func c19StartShape(c *Ctx) *RuleResult {
	r := &RuleResult{Rule: "C19.start", Floor: 4,
		Doc: "in every startTransaction: a retransmission (request sequence number equal to the owner's lastSeqID with a cached reply present) returns the STORED reply; no state-changing call or assignment to the owner can be followed by a rejecting return (status other than NFS4_OK), i.e. out-of-order requests are rejected before anything is touched"}
	p := c.P
	mut := mutatingFuncs(p)
	for _, u := range p.UnitsIn(nfsPkg) {
		if u.Fn.Name() != "startTransaction" || u.Decl.Recv == nil {
			continue
		}
		info := u.Info()
		recv := u.Decl.Recv.List[0].Names[0].Name
		g := NewFuncCFG(info, u.Decl.Body)
		// returns
		var rejecting []*ast.ReturnStmt
		replayOK := false
		ast.Inspect(u.Decl.Body, func(n ast.Node) bool {
			ret, ok := n.(*ast.ReturnStmt)
			if !ok || len(ret.Results) != 3 {
				return true
			}
			if !strings.HasSuffix(exprStr(ret.Results[2]), "NFS4_OK") {
				rejecting = append(rejecting, ret)
				if !isNilIdent(ret.Results[1]) {
					// replay return: must hand back the stored response under seqID == lastSeqID
					gs := flattenGuards(GuardsOf(info, u.Decl.Body, ret))
					eq := false
					for _, gd := range gs {
						if be, ok := ast.Unparen(gd.Cond).(*ast.BinaryExpr); ok && gd.Pos && be.Op == token.EQL && (strings.HasSuffix(exprStr(be.Y), ".lastSeqID") || strings.HasSuffix(exprStr(be.X), ".lastSeqID")) {
							eq = true
						}
					}
					src := resolveLocalAlias(u, rootOfSelector(ret.Results[1]))
					if eq && strings.HasSuffix(exprStr(src), recv+".lastResponse") {
						replayOK = true
					}
				}
			}
			return true
		})
		construct := constructOf(u, "replay-returns-stored-reply")
		if replayOK {
			r.ok(construct, posOf(p, u.Decl), "seqID == lastSeqID returns the stored lastResponse")
		} else {
			r.bad(c.Prop, construct, posOf(p, u.Decl), "a retransmission (same sequence number) is not answered with the stored reply of the owner")
		}
		// mutations before rejecting returns
		bad := ""
		ast.Inspect(u.Decl.Body, func(n ast.Node) bool {
			var mnode ast.Node
			what := ""
			switch x := n.(type) {
			case *ast.AssignStmt:
				for _, l := range x.Lhs {
					if rootIdent(l) == recv && exprStr(l) != recv {
						mnode, what = x, "assignment to "+exprStr(l)
					}
				}
			case *ast.CallExpr:
				if fn := calleeOf(info, x); fn != nil && mut[fn] {
					if _, isStmt := g.Locate(x); isStmt {
						mnode, what = x, "call to "+FuncName(fn)
					}
				}
			}
			if mnode == nil || bad != "" {
				return true
			}
			for _, ret := range rejecting {
				// the status of a helper that rejects before it changes anything: the return that
				// forwards it is the helper's rejection, not a rejection after the helper's effects
				if hc, ok := mnode.(*ast.CallExpr); ok {
					if id, ok := ast.Unparen(ret.Results[2]).(*ast.Ident); ok {
						forwards := false
						for _, dc := range definingCalls(u, id) {
							if dc == hc {
								forwards = true
							}
						}
						if forwards && rejectsBeforeEffects(p, mut, calleeOf(info, hc)) {
							continue
						}
					}
				}
				if reach, _ := g.ReachableWithout(mnode, ret, func(ast.Node) bool { return false }); reach {
					bad = fmt.Sprintf("%s at %s can be followed by the rejecting return at %s", what, posOf(p, mnode), posOf(p, ret))
				}
			}
			return true
		})
		construct = constructOf(u, "reject-before-effects")
		if bad == "" {
			r.ok(construct, posOf(p, u.Decl), fmt.Sprintf("%d rejecting returns, none reachable from a state change", len(rejecting)))
		} else {
			r.bad(c.Prop, construct, posOf(p, u.Decl), "a request that is then rejected (replay or out-of-order sequence number) has already changed the owner's state: "+bad+" — e.g. the cached reply is forgotten, so a later genuine retransmission fails instead of getting the original reply")
		}
	}
	return r
}

func rootOfSelector(e ast.Expr) ast.Expr {
	// lastResponse.response -> lastResponse
	if sel, ok := ast.Unparen(e).(*ast.SelectorExpr); ok {
		if _, ok := ast.Unparen(sel.X).(*ast.Ident); ok {
			return sel.X
		}
	}
	return e
}

func c19Together(c *Ctx) *RuleResult {
	r := &RuleResult{Rule: "C19.seq-and-reply", Floor: 4,
		Doc: "the sequence number that identifies the last executed request and the reply cached for it are always recorded together: every store to an owner's lastSeqID (4.0 open- and lock-owners), to clientIncarnationState.lastSequenceID (CREATE_SESSION) and to slotState.lastSequenceID (SEQUENCE) has a store to the matching reply field on exactly the same paths; in 4.0 both are guarded by transactionShouldComplete"}
	p := c.P
	units := p.UnitsIn(nfsPkg)
	pairs := [][3]string{
		{"nfs40OpenOwnerState", "lastSeqID", "lastResponse"},
		{"nfs40LockOwnerState", "lastSeqID", "lastResponse"},
		{"clientIncarnationState", "lastSequenceID", "lastCreateSessionResponse"},
		{"slotState", "lastSequenceID", "lastResult"},
	}
	tsc := p.LookupFunc(nfsPkg, "transactionShouldComplete")
	for _, pr := range pairs {
		fs := p.LookupField(nfsPkg, pr[0], pr[1])
		fr := p.LookupField(nfsPkg, pr[0], pr[2])
		n := 0
		for _, w := range FieldWrites(units, fs, false) {
			n++
			u := w.Unit
			info := u.Info()
			g := NewFuncCFG(info, u.Decl.Body)
			construct := constructOf(u, pr[0]+"."+pr[1])
			paired := false
			for _, o := range FieldWrites([]*FuncUnit{u}, fr, false) {
				if (g.Dominates(w.Node, o.Node) && g.PostDominates(o.Node, w.Node)) || (g.Dominates(o.Node, w.Node) && g.PostDominates(w.Node, o.Node)) {
					paired = true
				}
			}
			guarded := true
			if strings.HasPrefix(pr[0], "nfs40") {
				guarded = false
				for _, gd := range flattenGuards(GuardsOf(info, u.Decl.Body, w.Node)) {
					if call, ok := ast.Unparen(gd.Cond).(*ast.CallExpr); ok && gd.Pos && calleeOf(info, call) == tsc {
						guarded = true
					}
				}
			}
			if paired && guarded {
				r.ok(construct, posOf(p, w.Node), "stored together with "+pr[2])
			} else {
				r.bad(c.Prop, construct, posOf(p, w.Node), fmt.Sprintf("the last sequence number is recorded without the reply cached for it on the same paths (paired: %v, guarded by transactionShouldComplete: %v): a retransmission is answered with a stale or missing reply, or re-executed", paired, guarded))
			}
		}
		if n == 0 {
			r.bad(c.Prop, pr[0]+"."+pr[1]+"|never-stored", "-", "the last sequence number is never recorded: every retransmission is re-executed")
		}
	}
	return r
}

func c19Sequence(c *Ctx) *RuleResult {
	r := &RuleResult{Rule: "C19.sequence", Floor: 4,
		Doc: "NFSv4.1 SEQUENCE: operations are only executed in the arm for lastSequenceID+1; the replay arm (== lastSequenceID) returns the slot's stored result only after the false-retry shape tests (length mismatch and per-operation opcode comparison); a duplicate arriving while the original is in flight appends its own channel to the slot's waiter list before it releases the lock and blocks on that channel; the original snapshots and clears the waiter list in the critical section that stores sequence number and result, then sends the result to every waiter"}
	p := c.P
	u := p.Unit(nfsPkg, "nfs41Program.opSequence")
	info := u.Info()
	g := NewFuncCFG(info, u.Decl.Body)
	lastSeq := p.LookupField(nfsPkg, "slotState", "lastSequenceID")
	lastRes := p.LookupField(nfsPkg, "slotState", "lastResult")
	waiters := p.LookupField(nfsPkg, "slotState", "currentSequenceWaiters")
	// The request's sequence number is compared with the slot's lastSequenceID ("replay" arm) and
	// with lastSequenceID + 1 ("next" arm), by a tagged switch or an if/else-if chain.
	armCache := map[ast.Node]string{}
	armOf := func(n ast.Node) string {
		if a, ok := armCache[n]; ok {
			return a
		}
		arm := ""
		for _, gd := range flattenGuards(GuardsOf(info, u.Decl.Body, n)) {
			be, ok := ast.Unparen(gd.Cond).(*ast.BinaryExpr)
			if !ok || be.Op != token.EQL || !gd.Pos {
				continue
			}
			for _, side := range []ast.Expr{be.X, be.Y} {
				side = ast.Unparen(side)
				if fieldOf(info, side) == lastSeq {
					arm = "replay"
				}
				if add, ok := side.(*ast.BinaryExpr); ok && add.Op == token.ADD && fieldOf(info, add.X) == lastSeq && exprStr(add.Y) == "1" {
					arm = "next"
				}
			}
		}
		armCache[n] = arm
		return arm
	}
	var replayArm, nextArm ast.Node
	ast.Inspect(u.Decl.Body, func(n ast.Node) bool {
		if st, ok := n.(ast.Stmt); ok {
			switch armOf(st) {
			case "replay":
				if replayArm == nil {
					replayArm = st
				}
			case "next":
				if nextArm == nil {
					nextArm = st
				}
			}
		}
		return true
	})
	if replayArm == nil || nextArm == nil {
		panic(anchorError("opSequence: branches for sequence id == lastSequenceID and == lastSequenceID + 1"))
	}
	inArm := func(arm string, n ast.Node) bool { return armOf(n) == arm }
	sw := ast.Node(u.Decl.Body)
	// the parameter holding the operations of the compound (a slice of NfsArgop4)
	argArray := paramNameOfType(u, func(t types.Type) bool {
		sl, ok := t.Underlying().(*types.Slice)
		return ok && strings.HasSuffix(sl.Elem().String(), "NfsArgop4")
	})
	if argArray == "" {
		panic(anchorError("opSequence: parameter with the compound's operations"))
	}
	// (i) operations loop only in nextArm
	okLoop, nLoops := true, 0
	ast.Inspect(u.Decl.Body, func(n ast.Node) bool {
		rs, ok := n.(*ast.RangeStmt)
		if !ok {
			return true
		}
		if id, ok := ast.Unparen(rs.X).(*ast.Ident); ok && id.Name == argArray {
			// dispatch loop = contains a type switch
			hasTS := false
			ast.Inspect(rs.Body, func(m ast.Node) bool {
				if _, ok := m.(*ast.TypeSwitchStmt); ok {
					hasTS = true
				}
				return true
			})
			if hasTS {
				nLoops++
				if !inArm("next", rs) {
					okLoop = false
				}
			}
		}
		return true
	})
	if okLoop && nLoops == 1 {
		r.ok(constructOf(u, "execute-only-next"), posOf(p, nextArm), "the operation dispatch loop is inside the lastSequenceID+1 arm only")
	} else {
		r.bad(c.Prop, constructOf(u, "execute-only-next"), posOf(p, sw), "operations are executed outside the arm for the next sequence number: replays or misordered requests are (re-)executed")
	}
	// (ii) replay arm
	var retStored *ast.ReturnStmt
	lenTest, opTest := false, false
	ast.Inspect(u.Decl.Body, func(n ast.Node) bool {
		ret, ok := n.(*ast.ReturnStmt)
		if !ok || len(ret.Results) != 1 || !inArm("replay", ret) {
			return true
		}
		if fieldOf(info, ret.Results[0]) == lastRes {
			retStored = ret
			return true
		}
		if !strings.Contains(exprStr(ret.Results[0]), "FalseRetry") {
			return true
		}
		for _, gd := range GuardsOf(info, u.Decl.Body, ret) {
			ast.Inspect(gd.Cond, func(m ast.Node) bool {
				be, ok := m.(*ast.BinaryExpr)
				if !ok || be.Op != token.NEQ {
					return true
				}
				l, rr := exprStr(be.X), exprStr(be.Y)
				if strings.HasPrefix(l, "len(") && strings.HasPrefix(rr, "len(") && (strings.Contains(l, argArray) || strings.Contains(rr, argArray)) {
					lenTest = true
				}
				if strings.Contains(l+rr, "GetArgop()") {
					opTest = true
				}
				return true
			})
		}
		return true
	})
	construct := constructOf(u, "replay-arm")
	switch {
	case retStored == nil:
		r.bad(c.Prop, construct, posOf(p, replayArm), "the replay arm does not return the slot's stored result")
	case !lenTest || !opTest:
		r.bad(c.Prop, construct, posOf(p, replayArm), fmt.Sprintf("the replay arm returns the stored result without the complete false-retry check (length-mismatch test present: %v, per-operation opcode test present: %v): a different request reusing slot and sequence number is answered with another request's reply", lenTest, opTest))
	default:
		r.ok(construct, posOf(p, retStored), "stored result returned after length and opcode shape tests")
	}
	// (iii) in-flight duplicate registers its channel
	ast.Inspect(u.Decl.Body, func(n ast.Node) bool {
		ue, ok := n.(*ast.UnaryExpr)
		if !ok || ue.Op != token.ARROW || !inArm("next", ue) {
			return true
		}
		chID, ok := ast.Unparen(ue.X).(*ast.Ident)
		if !ok {
			return true
		}
		construct := constructOf(u, "in-flight-duplicate")
		registered := false
		for _, w := range FieldWrites([]*FuncUnit{u}, waiters, false) {
			if w.RHS == nil {
				continue
			}
			call, ok := ast.Unparen(w.RHS).(*ast.CallExpr)
			if !ok || exprStr(call.Fun) != "append" {
				continue
			}
			has := false
			for _, a := range call.Args[1:] {
				if exprStr(a) == chID.Name {
					has = true
				}
			}
			if has && fieldOf(info, call.Args[0]) == waiters && g.Dominates(w.Node, ue) {
				registered = true
			}
		}
		if registered {
			r.ok(construct, posOf(p, ue), "its channel is appended to currentSequenceWaiters before blocking")
		} else {
			r.bad(c.Prop, construct, posOf(p, ue), "the duplicate request blocks on a channel that was never added to the slot's waiter list: it waits forever instead of completing with the original's result")
		}
		return true
	})
	// (iv) broadcast. The waiter list is snapshotted, the result stored and the list cleared in one
	// critical section -- in opSequence itself or in a helper that returns the snapshot -- and every
	// snapshotted channel is then sent the result.
	nfsUnits := p.UnitsIn(nfsPkg)
	var su *FuncUnit // the unit that clears the list
	var clear ast.Node
	for _, w := range FieldWrites(nfsUnits, waiters, false) {
		if w.RHS != nil && isNilIdent(w.RHS) && (w.Unit.Fn == u.Fn || staticReach(p, []ast.Node{u.Decl.Body}, info)[w.Unit.Fn]) {
			su, clear = w.Unit, w.Node
		}
	}
	var snapshot *ast.AssignStmt // in su: V := slot.currentSequenceWaiters
	var snapVarInU string        // the name the snapshot has in opSequence
	var snapPos ast.Node
	if su != nil {
		sinfo := su.Info()
		ast.Inspect(su.Decl.Body, func(n ast.Node) bool {
			if as, ok := n.(*ast.AssignStmt); ok && len(as.Rhs) == 1 && len(as.Lhs) == 1 && fieldOf(sinfo, as.Rhs[0]) == waiters && as.Tok == token.DEFINE {
				if su.Fn != u.Fn || inArm("next", as) {
					snapshot = as
				}
			}
			return true
		})
	}
	construct = constructOf(u, "broadcast")
	okB := false
	why := "no snapshot of the waiter list"
	if snapshot != nil {
		why = ""
		if su.Fn == u.Fn {
			snapVarInU, snapPos = exprStr(snapshot.Lhs[0]), snapshot
		} else {
			// the helper must return the snapshot, and opSequence must bind the call's result
			returned := false
			ast.Inspect(su.Decl.Body, func(n ast.Node) bool {
				if ret, ok := n.(*ast.ReturnStmt); ok {
					for _, res := range ret.Results {
						if exprStr(res) == exprStr(snapshot.Lhs[0]) {
							returned = true
						}
					}
				}
				return true
			})
			ast.Inspect(u.Decl.Body, func(n ast.Node) bool {
				if as, ok := n.(*ast.AssignStmt); ok && len(as.Rhs) == 1 && len(as.Lhs) >= 1 && inArm("next", as) {
					if call, ok := ast.Unparen(as.Rhs[0]).(*ast.CallExpr); ok && calleeOf(info, call) == su.Fn {
						snapVarInU, snapPos = exprStr(as.Lhs[0]), as
					}
				}
				return true
			})
			if !returned || snapVarInU == "" {
				why = "the helper that clears the waiter list does not hand the snapshot back to opSequence"
			}
		}
	}
	if snapshot != nil && why == "" {
		e := sharedLockEngine(c)
		sinfo := su.Info()
		var storeSeq ast.Node
		for _, w := range FieldWrites([]*FuncUnit{su}, lastSeq, false) {
			storeSeq = w.Node
		}
		if storeSeq == nil || clear == nil {
			why = "sequence number not stored / waiter list not cleared"
		} else {
			// same critical section: no lock-releasing call between snapshot, store and clear
			for _, pair := range [][2]ast.Node{{snapshot, storeSeq}, {storeSeq, clear}} {
				a, b := pair[0], pair[1]
				if b.Pos() < a.Pos() {
					a, b = b, a
				}
				ast.Inspect(su.Decl.Body, func(m ast.Node) bool {
					call, ok := m.(*ast.CallExpr)
					if !ok {
						return true
					}
					rel, _ := e.CallEffectOnClass(sinfo, call, "nfsv4.nfs41Program.clientsLock")
					rel2, _ := e.CallEffectOnClass(sinfo, call, lockClassOfProgram41(e))
					if (rel || rel2) && a.End() <= call.Pos() && call.End() <= b.Pos() {
						why = "the lock is released between snapshotting the waiters, storing the result and clearing the list"
					}
					return true
				})
			}
			// sends to every waiter: `for _, w := range V { w <- result }` or the index form
			sent := false
			var loopAnchor ast.Node
			ast.Inspect(u.Decl.Body, func(m ast.Node) bool {
				switch rs := m.(type) {
				case *ast.RangeStmt:
					if exprStr(rs.X) != snapVarInU {
						return true
					}
					ast.Inspect(rs.Body, func(k ast.Node) bool {
						if ss, ok := k.(*ast.SendStmt); ok && rs.Value != nil && exprStr(ss.Chan) == exprStr(rs.Value) {
							sent = true
						}
						return true
					})
					loopAnchor = rs.X
				case *ast.ForStmt:
					be, ok := ast.Unparen(rs.Cond).(*ast.BinaryExpr)
					if rs.Cond == nil || !ok || be.Op != token.LSS || exprStr(be.Y) != "len("+snapVarInU+")" {
						return true
					}
					idx := exprStr(be.X)
					startsAtZero := false
					if as, ok := rs.Init.(*ast.AssignStmt); ok && len(as.Lhs) == 1 && exprStr(as.Lhs[0]) == idx && exprStr(as.Rhs[0]) == "0" {
						startsAtZero = true
					}
					stepsByOne := false
					if inc, ok := rs.Post.(*ast.IncDecStmt); ok && inc.Tok == token.INC && exprStr(inc.X) == idx {
						stepsByOne = true
					}
					ast.Inspect(rs.Body, func(k ast.Node) bool {
						if ss, ok := k.(*ast.SendStmt); ok && exprStr(ss.Chan) == snapVarInU+"["+idx+"]" && startsAtZero && stepsByOne {
							sent = true
						}
						return true
					})
					loopAnchor = rs.Cond
				}
				return true
			})
			// the result is stored (in opSequence, or by the helper call) before anyone is notified
			storedAt := storeSeq
			if su.Fn != u.Fn {
				storedAt = snapPos
			}
			if loopAnchor != nil && !g.Dominates(g.Anchor(storedAt), g.Anchor(loopAnchor)) {
				why = "waiters are notified before the result is stored"
			}
			if !sent && why == "" {
				why = "the result is not sent to every registered waiter"
			}
		}
		okB = why == ""
	}
	if okB {
		r.ok(construct, posOf(p, snapPos), "snapshot+store+clear in one critical section, then send to every waiter")
	} else {
		r.bad(c.Prop, construct, posOf(p, nextArm), "in-flight duplicates are not completed with the original's result: "+why)
	}
	return r
}

func lockClassOfProgram41(e *LockEngine) string {
	// the class of the lock taken by nfs41Program.enter
	for _, s := range e.Order {
		if s.Name == "nfsv4.(*nfs41Program).enter" {
			for _, ef := range s.Effects {
				if ef.Delta > 0 {
					return ef.Class
				}
			}
		}
	}
	return ""
}

func init() {
	register(&PropertySpec{
		ID:          "C19",
		Level:       "other",
		Explanation: "Structural necessary conditions of 'retransmitted requests execute once and get the same reply', on all paths: every successful start of an owner transaction is completed exactly once and its failure edge is side-effect free; startTransaction returns the stored reply for an equal sequence number and rejects before touching state; sequence number and cached reply are always recorded together (4.0 owners, CREATE_SESSION, SEQUENCE slots); the SEQUENCE state machine executes only in the next-sequence arm, replays only after the false-retry shape tests, and in-flight duplicates register their channel before blocking and are broadcast the result. Byte equality of replies over all duplication histories is not decided.",
		Assumptions: []string{"the XDR layer delivers what the program returns"},
		Rules:       []RuleFunc{c19TxLinear, c19StartShape, c19Together, c19Sequence, c19WakeAll, c19ReplayStateID, c19ClosedStateRetained, c19InitialFlag, c19BadSeqidNotCached, c19PolicyRules, c19DowngradeBumps},
	})
}

// rejectsBeforeEffects: in helper h (returning a status as its last result) no state change can be
// followed by a return of anything but NFS4_OK.
func rejectsBeforeEffects(p *Program, mut map[*types.Func]bool, h *types.Func) bool {
	hu := p.UnitOf(h)
	if hu == nil || hu.Decl.Recv == nil || len(hu.Decl.Recv.List[0].Names) == 0 {
		return false
	}
	info := hu.Info()
	recv := hu.Decl.Recv.List[0].Names[0].Name
	g := NewFuncCFG(info, hu.Decl.Body)
	var rejecting []*ast.ReturnStmt
	ast.Inspect(hu.Decl.Body, func(n ast.Node) bool {
		if ret, ok := n.(*ast.ReturnStmt); ok && len(ret.Results) > 0 && !strings.HasSuffix(exprStr(ret.Results[len(ret.Results)-1]), "NFS4_OK") {
			rejecting = append(rejecting, ret)
		}
		return true
	})
	clean := true
	ast.Inspect(hu.Decl.Body, func(n ast.Node) bool {
		var mnode ast.Node
		switch x := n.(type) {
		case *ast.AssignStmt:
			for _, l := range x.Lhs {
				if rootIdent(l) == recv && exprStr(l) != recv {
					mnode = x
				}
			}
		case *ast.CallExpr:
			if fn := calleeOf(info, x); fn != nil && mut[fn] {
				mnode = x
			}
		}
		if mnode == nil {
			return true
		}
		for _, ret := range rejecting {
			if reach, _ := g.ReachableWithout(mnode, ret, func(ast.Node) bool { return false }); reach {
				clean = false
			}
		}
		return true
	})
	return clean
}
