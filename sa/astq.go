package main

// Typed-AST query helpers shared by the rules (E3/E4 of DESIGN.md, on go/ast + go/types + go/cfg).
// Everything resolves objects through types.Info; nothing matches source text or positions.

import (
	"fmt"
	"go/ast"
	"go/token"
	"go/types"
	"sort"
	"strconv"
	"strings"

	"golang.org/x/tools/go/cfg"
	"golang.org/x/tools/go/packages"
)

// FuncUnit is a declared function together with its package.
type FuncUnit struct {
	Fn   *types.Func
	Decl *ast.FuncDecl
	Pkg  *packages.Package
}

func (u *FuncUnit) Info() *types.Info { return u.Pkg.TypesInfo }
func (u *FuncUnit) Name() string      { return FuncName(u.Fn) }

// Units returns all declared functions with bodies in the packages with the given prefixes.
func (p *Program) Units(prefixes ...string) []*FuncUnit {
	var out []*FuncUnit
	for _, fd := range p.AllFuncDecls(prefixes...) {
		fn := p.FuncOf(fd)
		if fn == nil {
			continue
		}
		out = append(out, &FuncUnit{Fn: fn, Decl: fd, Pkg: p.declPkg[fd]})
	}
	return out
}

// UnitsIn returns the declared functions of exactly one package (no sub-packages).
func (p *Program) UnitsIn(pkgRel string) []*FuncUnit {
	var out []*FuncUnit
	for _, u := range p.Units(pkgRel) {
		if relPkg(u.Pkg.Types) == pkgRel {
			out = append(out, u)
		}
	}
	return out
}

func (p *Program) Unit(pkgRel, name string) *FuncUnit {
	fn := p.LookupFunc(pkgRel, name)
	fd := p.MustDecl(fn)
	return &FuncUnit{Fn: fn, Decl: fd, Pkg: p.declPkg[fd]}
}

// Site is a syntactic location inside a function.
type Site struct {
	Unit *FuncUnit
	Node ast.Node
	// for writes: the assigned expression (RHS) if it is a simple 1:1 assignment
	RHS ast.Expr
	// the selector / call expression itself
	Expr ast.Expr
}

func fieldOf(info *types.Info, e ast.Expr) *types.Var {
	sel, ok := ast.Unparen(e).(*ast.SelectorExpr)
	if !ok {
		return nil
	}
	if s, ok := info.Selections[sel]; ok && s.Kind() == types.FieldVal {
		v, _ := s.Obj().(*types.Var)
		return v
	}
	return nil
}

// FieldWrites finds assignments, inc/dec, op-assignments, map updates and deletes through a field,
// in the given units. Composite-literal initialisations are reported when lit==true.
func FieldWrites(units []*FuncUnit, field *types.Var, lit bool) []Site {
	var out []Site
	for _, u := range units {
		info := u.Info()
		ast.Inspect(u.Decl.Body, func(n ast.Node) bool {
			switch x := n.(type) {
			case *ast.AssignStmt:
				for i, l := range x.Lhs {
					if fieldOf(info, l) == field {
						s := Site{Unit: u, Node: x, Expr: l}
						if len(x.Lhs) == len(x.Rhs) {
							s.RHS = x.Rhs[i]
						}
						out = append(out, s)
					}
					// map element update: x.f[k] = v (also through a local that aliases the container)
					if ix, ok := ast.Unparen(l).(*ast.IndexExpr); ok && containerFieldOf(u, ix.X) == field {
						s := Site{Unit: u, Node: x, Expr: l}
						if len(x.Lhs) == len(x.Rhs) {
							s.RHS = x.Rhs[i]
						}
						out = append(out, s)
					}
				}
			case *ast.IncDecStmt:
				if fieldOf(info, x.X) == field {
					out = append(out, Site{Unit: u, Node: x, Expr: x.X})
				}
				if ix, ok := ast.Unparen(x.X).(*ast.IndexExpr); ok && fieldOf(info, ix.X) == field {
					out = append(out, Site{Unit: u, Node: x, Expr: x.X})
				}
			case *ast.CallExpr:
				if id, ok := ast.Unparen(x.Fun).(*ast.Ident); ok && id.Name == "delete" && len(x.Args) == 2 {
					if _, isB := info.Uses[id].(*types.Builtin); isB && containerFieldOf(u, x.Args[0]) == field {
						out = append(out, Site{Unit: u, Node: x, Expr: x})
					}
				}
			case *ast.CompositeLit:
				if !lit {
					return true
				}
				for _, el := range x.Elts {
					if kv, ok := el.(*ast.KeyValueExpr); ok {
						if id, ok := kv.Key.(*ast.Ident); ok && info.Uses[id] == field {
							out = append(out, Site{Unit: u, Node: kv, Expr: kv.Key, RHS: kv.Value})
						}
					}
				}
			}
			return true
		})
	}
	return out
}

// containerFieldOf: the field a map/slice-typed expression denotes, looking through a local variable
// that was assigned the field once (`m := x.f; delete(m, k)` changes x.f's map).
func containerFieldOf(u *FuncUnit, e ast.Expr) *types.Var {
	info := u.Info()
	if f := fieldOf(info, e); f != nil {
		return f
	}
	if id, ok := ast.Unparen(e).(*ast.Ident); ok {
		if v, ok := info.Uses[id].(*types.Var); ok {
			switch v.Type().Underlying().(type) {
			case *types.Map, *types.Slice:
				if src := resolveLocalAlias(u, id); src != ast.Expr(id) {
					return fieldOf(info, src)
				}
			}
		}
	}
	return nil
}

// FieldReads finds every selector expression that resolves to the field (reads and writes).
func FieldRefs(units []*FuncUnit, field *types.Var) []Site {
	var out []Site
	for _, u := range units {
		info := u.Info()
		ast.Inspect(u.Decl.Body, func(n ast.Node) bool {
			if sel, ok := n.(*ast.SelectorExpr); ok && fieldOf(info, sel) == field {
				out = append(out, Site{Unit: u, Node: sel, Expr: sel})
			}
			return true
		})
	}
	return out
}

// CallsTo finds all static calls of fn in the units.
func CallsTo(units []*FuncUnit, fns ...*types.Func) []Site {
	set := map[*types.Func]bool{}
	for _, f := range fns {
		set[f] = true
	}
	var out []Site
	for _, u := range units {
		info := u.Info()
		ast.Inspect(u.Decl.Body, func(n ast.Node) bool {
			if c, ok := n.(*ast.CallExpr); ok {
				if callee := calleeOf(info, c); callee != nil && set[callee] {
					out = append(out, Site{Unit: u, Node: c, Expr: c})
				}
			}
			return true
		})
	}
	return out
}

// MethodCallsNamed finds calls of methods with the given name whose receiver type (static) is
// the named type / interface typeName in package pkgPath (full import path).
func MethodCallsOn(units []*FuncUnit, pkgPath, typeName string, methods ...string) []Site {
	ms := map[string]bool{}
	for _, m := range methods {
		ms[m] = true
	}
	var out []Site
	for _, u := range units {
		info := u.Info()
		ast.Inspect(u.Decl.Body, func(n ast.Node) bool {
			c, ok := n.(*ast.CallExpr)
			if !ok {
				return true
			}
			sel, ok := ast.Unparen(c.Fun).(*ast.SelectorExpr)
			if !ok || !ms[sel.Sel.Name] {
				return true
			}
			tv, ok := info.Types[sel.X]
			if !ok {
				return true
			}
			if namedIs(tv.Type, pkgPath, typeName) {
				out = append(out, Site{Unit: u, Node: c, Expr: c})
			}
			return true
		})
	}
	return out
}

// ---------------------------------------------------------------------------
// path conditions (syntactic guards)

// Guard is a condition known to hold (Pos) or not hold (!Pos) whenever the guarded node executes.
type Guard struct {
	Cond ast.Expr
	Pos  bool
}

func (g Guard) String() string {
	if g.Pos {
		return types.ExprString(g.Cond)
	}
	return "!(" + types.ExprString(g.Cond) + ")"
}

// pathTo returns the chain of AST nodes from root down to target (inclusive).
func pathTo(root ast.Node, target ast.Node) []ast.Node {
	var path, found []ast.Node
	ast.Inspect(root, func(n ast.Node) bool {
		if found != nil {
			return false
		}
		if n == nil {
			path = path[:len(path)-1]
			return true
		}
		path = append(path, n)
		if n == target {
			found = append([]ast.Node{}, path...)
			return false
		}
		return true
	})
	return found
}

// terminates reports whether a statement list always leaves the enclosing block without falling
// through (return, panic, continue, break, goto; or if/else both terminating).
func terminates(info *types.Info, stmts []ast.Stmt) bool {
	if len(stmts) == 0 {
		return false
	}
	switch s := stmts[len(stmts)-1].(type) {
	case *ast.ReturnStmt:
		return true
	case *ast.BranchStmt:
		return s.Tok == token.CONTINUE || s.Tok == token.BREAK || s.Tok == token.GOTO
	case *ast.ExprStmt:
		if c, ok := s.X.(*ast.CallExpr); ok {
			return isNoReturnCall(info, c)
		}
	case *ast.BlockStmt:
		return terminates(info, s.List)
	case *ast.IfStmt:
		if s.Else == nil {
			return false
		}
		var elseStmts []ast.Stmt
		switch e := s.Else.(type) {
		case *ast.BlockStmt:
			elseStmts = e.List
		case *ast.IfStmt:
			elseStmts = []ast.Stmt{e}
		}
		return terminates(info, s.Body.List) && terminates(info, elseStmts)
	}
	return false
}

// GuardsOf collects the conditions that syntactically guard target inside body: conditions of
// enclosing if statements (with polarity), and negations of earlier sibling `if c { ...leaves... }`
// statements in every enclosing block. It stops at function literal boundaries unless crossLit.
func GuardsOf(info *types.Info, body *ast.BlockStmt, target ast.Node) []Guard {
	path := pathTo(body, target)
	var gs []Guard
	for i := 0; i+1 < len(path); i++ {
		parent, child := path[i], path[i+1]
		switch p := parent.(type) {
		case *ast.IfStmt:
			if child == p.Body {
				gs = append(gs, Guard{p.Cond, true})
			} else if p.Else != nil && child == p.Else {
				gs = append(gs, Guard{p.Cond, false})
			}
		case *ast.BlockStmt:
			gs = append(gs, earlierExits(info, p.List, child)...)
		case *ast.CaseClause:
			gs = append(gs, earlierExits(info, p.Body, child)...)
		case *ast.CommClause:
			gs = append(gs, earlierExits(info, p.Body, child)...)
		case *ast.ForStmt:
			if child == p.Body && p.Cond != nil {
				gs = append(gs, Guard{p.Cond, true})
			}
		case *ast.BinaryExpr:
			// short-circuit evaluation: in `X && Y`, Y only runs when X holds; in `X || Y` when it does not
			if child == p.Y {
				if p.Op == token.LAND {
					gs = append(gs, Guard{p.X, true})
				} else if p.Op == token.LOR {
					gs = append(gs, Guard{p.X, false})
				}
			}
		case *ast.SwitchStmt:
			if blk, ok := child.(*ast.BlockStmt); ok && blk == p.Body && i+2 < len(path) {
				cc, ok := path[i+2].(*ast.CaseClause)
				if !ok {
					break
				}
				mk := func(e ast.Expr) ast.Expr {
					if p.Tag == nil {
						return e // tagless switch: the case expression is the condition
					}
					return &ast.BinaryExpr{X: p.Tag, Op: token.EQL, Y: e} // tagged: tag == case value
				}
				if len(cc.List) == 1 {
					gs = append(gs, Guard{mk(cc.List[0]), true})
				}
				// earlier single-valued cases did not match; for the default clause none did
				for _, other := range p.Body.List {
					oc := other.(*ast.CaseClause)
					if oc == cc {
						if cc.List != nil {
							break
						}
						continue
					}
					for _, e := range oc.List {
						gs = append(gs, Guard{mk(e), false})
					}
				}
			}
		}
	}
	for i := range gs {
		if n := expandGuardCond(info, body, gs[i].Cond, 0); n != gs[i].Cond {
			synthOrigin[n] = gs[i].Cond
			gs[i].Cond = n
		}
	}
	return gs
}

func earlierExits(info *types.Info, list []ast.Stmt, child ast.Node) []Guard {
	var gs []Guard
	for _, s := range list {
		if s == child {
			break
		}
		// `if a { leave } else if b { leave } ...`: the leading arms that leave contribute !a, !b, ...
		// (a later arm's condition is only known to be false if all earlier arms left as well)
		for ifs, ok := s.(*ast.IfStmt); ok && terminates(info, ifs.Body.List); {
			gs = append(gs, Guard{ifs.Cond, false})
			if ifs.Else == nil {
				break
			}
			ifs, ok = ifs.Else.(*ast.IfStmt)
		}
		// a tagless `switch { case a: leave; case b: leave; ... }`: the same for its leading cases
		if sw, ok := s.(*ast.SwitchStmt); ok && sw.Tag == nil && sw.Init == nil {
			for _, c := range sw.Body.List {
				cc := c.(*ast.CaseClause)
				if cc.List == nil || !terminates(info, cc.Body) {
					break
				}
				for _, e := range cc.List {
					gs = append(gs, Guard{e, false})
				}
			}
		}
	}
	return gs
}

// flattenGuards splits conjunctions: a guard `a && b` (positive) yields a and b; `!(a || b)` yields
// !a, !b; and brings every comparison into a canonical form (canonGuard), so that rules compare
// meanings rather than spellings.
func flattenGuards(gs []Guard) []Guard {
	var out []Guard
	var rec func(g Guard)
	rec = func(g Guard) {
		e := ast.Unparen(g.Cond)
		switch x := e.(type) {
		case *ast.UnaryExpr:
			if x.Op == token.NOT {
				rec(Guard{x.X, !g.Pos})
				return
			}
		case *ast.BinaryExpr:
			if x.Op == token.LAND && g.Pos {
				rec(Guard{x.X, true})
				rec(Guard{x.Y, true})
				return
			}
			if x.Op == token.LOR && !g.Pos {
				rec(Guard{x.X, false})
				rec(Guard{x.Y, false})
				return
			}
		}
		out = append(out, canonGuard(Guard{e, g.Pos}))
	}
	for _, g := range gs {
		rec(g)
	}
	return out
}

// canonGuard normalises a comparison guard: negative polarity is folded into the operator
// (`!(a > b)` -> `a <= b`), a literal on the left is moved to the right, and for len()/cap() the
// equivalent integer forms are unified: `> 0`, `>= 1` -> `!= 0`; `<= 0`, `< 1` -> `== 0`;
// `< k` -> `<= k-1`; `> k` -> `>= k+1`. Other guards are returned unchanged.
func canonGuard(g Guard) Guard {
	be, ok := ast.Unparen(g.Cond).(*ast.BinaryExpr)
	if !ok {
		return g
	}
	neg := map[token.Token]token.Token{token.EQL: token.NEQ, token.NEQ: token.EQL, token.LSS: token.GEQ, token.GEQ: token.LSS, token.GTR: token.LEQ, token.LEQ: token.GTR}
	mirror := map[token.Token]token.Token{token.EQL: token.EQL, token.NEQ: token.NEQ, token.LSS: token.GTR, token.GTR: token.LSS, token.LEQ: token.GEQ, token.GEQ: token.LEQ}
	op, isCmp := be.Op, false
	if _, isCmp = neg[op]; !isCmp {
		return g
	}
	x, y := be.X, be.Y
	changed := false
	if !g.Pos {
		op = neg[op]
		changed = true
	}
	isLit := func(e ast.Expr) bool {
		_, ok := ast.Unparen(e).(*ast.BasicLit)
		return ok || isNilIdent(e)
	}
	if isLit(x) && !isLit(y) {
		x, y = y, x
		op = mirror[op]
		changed = true
	}
	// integer forms for quantities that cannot be negative: len()/cap(), X.Len(), unsigned values
	if nonNegativeExpr(x) {
		{
			if lit, ok := ast.Unparen(y).(*ast.BasicLit); ok && lit.Kind == token.INT {
				if k, err := strconv.Atoi(lit.Value); err == nil {
					nk, nop := k, op
					switch op {
					case token.LSS:
						nk, nop = k-1, token.LEQ
					case token.GTR:
						nk, nop = k+1, token.GEQ
					}
					if nop == token.LEQ && nk == 0 {
						nop = token.EQL
					}
					if nop == token.GEQ && nk == 1 {
						nk, nop = 0, token.NEQ
					}
					if nk != k || nop != op {
						y = &ast.BasicLit{Kind: token.INT, Value: strconv.Itoa(nk), ValuePos: lit.ValuePos}
						op = nop
						changed = true
					}
				}
			}
		}
	}
	if !changed {
		return g
	}
	nb := &ast.BinaryExpr{X: x, Op: op, Y: y, OpPos: be.OpPos}
	synthOrigin[nb] = origOf(g.Cond)
	return Guard{nb, true}
}

// synthOrigin maps a condition rebuilt by canonGuard/expandGuardCond to the source node it stands for,
// so that control-flow queries about a guard find the branch it came from.
var synthOrigin = map[ast.Node]ast.Node{}

func origOf(n ast.Node) ast.Node {
	for i := 0; i < 8; i++ {
		o, ok := synthOrigin[n]
		if !ok {
			return n
		}
		n = o
	}
	return n
}

// nonNegativeExpr: len(x), cap(x), x.Len() or an expression of unsigned integer type.
func nonNegativeExpr(e ast.Expr) bool {
	e = ast.Unparen(e)
	if call, ok := e.(*ast.CallExpr); ok {
		if id, ok := ast.Unparen(call.Fun).(*ast.Ident); ok && (id.Name == "len" || id.Name == "cap") {
			return true
		}
		if sel, ok := ast.Unparen(call.Fun).(*ast.SelectorExpr); ok && sel.Sel.Name == "Len" && len(call.Args) == 0 {
			return true
		}
	}
	if t := typeOfAnywhere(e); t != nil {
		if b, ok := t.Underlying().(*types.Basic); ok && b.Info()&types.IsUnsigned != 0 {
			return true
		}
	}
	return false
}

// typeOfAnywhere looks an expression up in the type information of every loaded package.
func typeOfAnywhere(e ast.Expr) types.Type {
	if theProgram == nil {
		return nil
	}
	for _, pkg := range theProgram.Pkgs {
		if tv, ok := pkg.TypesInfo.Types[e]; ok {
			return tv.Type
		}
	}
	return nil
}

// expandGuardCond rewrites a branch condition so that its meaning is visible in place: a boolean
// local that is assigned exactly once inside body is replaced by its defining expression, and a
// call of a small boolean predicate of the repository (`return e`, optionally preceded by
// `if c { return lit }` steps) is replaced by the predicate's body with operands substituted.
func expandGuardCond(info *types.Info, body *ast.BlockStmt, e ast.Expr, depth int) ast.Expr {
	if depth > 3 {
		return e
	}
	switch x := e.(type) {
	case *ast.ParenExpr:
		n := expandGuardCond(info, body, x.X, depth)
		if n == x.X {
			return e
		}
		return &ast.ParenExpr{X: n}
	case *ast.UnaryExpr:
		if x.Op != token.NOT {
			return e
		}
		n := expandGuardCond(info, body, x.X, depth)
		if n == x.X {
			return e
		}
		return &ast.UnaryExpr{Op: x.Op, X: n, OpPos: x.OpPos}
	case *ast.BinaryExpr:
		if x.Op != token.LAND && x.Op != token.LOR {
			return e
		}
		a, b := expandGuardCond(info, body, x.X, depth), expandGuardCond(info, body, x.Y, depth)
		if a == x.X && b == x.Y {
			return e
		}
		return &ast.BinaryExpr{X: a, Op: x.Op, Y: b, OpPos: x.OpPos}
	case *ast.Ident:
		v, ok := info.Uses[x].(*types.Var)
		if !ok || !isBoolType(v.Type()) || body == nil {
			return e
		}
		var rhs ast.Expr
		count := 0
		ast.Inspect(body, func(n ast.Node) bool {
			as, ok := n.(*ast.AssignStmt)
			if !ok {
				return true
			}
			for i, l := range as.Lhs {
				if lid, ok := l.(*ast.Ident); ok && (info.Defs[lid] == v || info.Uses[lid] == v) {
					count++
					if len(as.Lhs) == len(as.Rhs) {
						rhs = as.Rhs[i]
					} else {
						rhs = nil
						count += 10
					}
				}
			}
			return true
		})
		if count == 1 && rhs != nil && rhs.Pos() < x.Pos() {
			return &ast.ParenExpr{X: expandGuardCond(info, body, rhs, depth+1)}
		}
		return e
	case *ast.CallExpr:
		if in := inlinePredicateCall(info, x); in != nil {
			return &ast.ParenExpr{X: expandGuardCond(info, body, in, depth+1)}
		}
		return e
	}
	return e
}

func guardStrings(gs []Guard) []string {
	var out []string
	for _, g := range gs {
		out = append(out, g.String())
	}
	return out
}

// ---------------------------------------------------------------------------
// CFG dominance inside one function

type FuncCFG struct {
	G     *cfg.CFG
	info  *types.Info
	idom  []int
	ipdom []int // post-dominators w.r.t. a virtual exit (index len(Blocks))
	where map[ast.Node][2]int
	reach []bool
}

func NewFuncCFG(info *types.Info, body *ast.BlockStmt) *FuncCFG {
	g := cfg.New(body, func(c *ast.CallExpr) bool { return !isNoReturnCall(info, c) })
	f := &FuncCFG{G: g, info: info, where: map[ast.Node][2]int{}}
	n := len(g.Blocks)
	idx := map[*cfg.Block]int{}
	for i, b := range g.Blocks {
		idx[b] = i
	}
	succ := make([][]int, n+1)
	pred := make([][]int, n+1)
	for i, b := range g.Blocks {
		for _, s := range b.Succs {
			succ[i] = append(succ[i], idx[s])
			pred[idx[s]] = append(pred[idx[s]], i)
		}
	}
	// reachability
	f.reach = make([]bool, n)
	var stack []int
	if n > 0 {
		stack = append(stack, 0)
		f.reach[0] = true
	}
	for len(stack) > 0 {
		v := stack[len(stack)-1]
		stack = stack[:len(stack)-1]
		for _, w := range succ[v] {
			if !f.reach[w] {
				f.reach[w] = true
				stack = append(stack, w)
			}
		}
	}
	// virtual exit n: successors of returning blocks
	for i, b := range g.Blocks {
		if !f.reach[i] {
			continue
		}
		if len(b.Succs) == 0 && !(b.Kind == cfg.KindSelectAfterCase) && !blockPanics(info, b) {
			succ[i] = append(succ[i], n)
			pred[n] = append(pred[n], i)
		}
	}
	f.idom = computeIdom(n+1, 0, succ, pred)
	f.ipdom = computeIdom(n+1, n, pred, succ)
	for i, b := range g.Blocks {
		for j, nd := range b.Nodes {
			jj := j
			ast.Inspect(nd, func(m ast.Node) bool {
				if m == nil {
					return true
				}
				if _, isLit := m.(*ast.FuncLit); isLit {
					return false
				}
				if _, ok := f.where[m]; !ok {
					f.where[m] = [2]int{i, jj}
				}
				return true
			})
		}
	}
	return f
}

func blockPanics(info *types.Info, b *cfg.Block) bool {
	if len(b.Nodes) == 0 {
		return false
	}
	if es, ok := b.Nodes[len(b.Nodes)-1].(*ast.ExprStmt); ok {
		if c, ok := es.X.(*ast.CallExpr); ok {
			return isNoReturnCall(info, c)
		}
	}
	return false
}

// computeIdom: simple iterative dominator computation (Cooper-Harvey-Kennedy).
func computeIdom(n, root int, succ, pred [][]int) []int {
	order := []int{}
	seen := make([]bool, n)
	var dfs func(v int)
	dfs = func(v int) {
		seen[v] = true
		for _, w := range succ[v] {
			if !seen[w] {
				dfs(w)
			}
		}
		order = append(order, v)
	}
	dfs(root)
	rpoNum := make([]int, n)
	for i := range rpoNum {
		rpoNum[i] = -1
	}
	for i, v := range order {
		rpoNum[v] = len(order) - 1 - i
	}
	idom := make([]int, n)
	for i := range idom {
		idom[i] = -1
	}
	idom[root] = root
	intersect := func(a, b int) int {
		for a != b {
			for rpoNum[a] > rpoNum[b] {
				a = idom[a]
			}
			for rpoNum[b] > rpoNum[a] {
				b = idom[b]
			}
		}
		return a
	}
	changed := true
	for changed {
		changed = false
		for i := len(order) - 1; i >= 0; i-- {
			v := order[i]
			if v == root {
				continue
			}
			newIdom := -1
			for _, p := range pred[v] {
				if rpoNum[p] < 0 || idom[p] < 0 {
					continue
				}
				if newIdom < 0 {
					newIdom = p
				} else {
					newIdom = intersect(p, newIdom)
				}
			}
			if newIdom >= 0 && idom[v] != newIdom {
				idom[v] = newIdom
				changed = true
			}
		}
	}
	return idom
}

func domBy(idom []int, a, b int) bool { // a dominates b
	if idom[b] < 0 || idom[a] < 0 {
		return false
	}
	for {
		if b == a {
			return true
		}
		if idom[b] == b {
			return false
		}
		b = idom[b]
	}
}

// Anchor returns n if it is part of a CFG node, otherwise its first descendant (in source order) that is.
func (f *FuncCFG) Anchor(n ast.Node) ast.Node {
	n = origOf(n)
	if _, ok := f.where[n]; ok {
		return n
	}
	var out ast.Node
	ast.Inspect(n, func(m ast.Node) bool {
		if m == nil || out != nil {
			return false
		}
		if _, ok := f.where[m]; ok {
			out = m
			return false
		}
		return true
	})
	if out == nil {
		return n
	}
	return out
}

// Locate returns (block, index) of the CFG node containing n.
func (f *FuncCFG) Locate(n ast.Node) ([2]int, bool) {
	w, ok := f.where[origOf(n)]
	return w, ok
}

// Dominates: every path from entry to b passes a first.
func (f *FuncCFG) Dominates(a, b ast.Node) bool {
	a, b = origOf(a), origOf(b)
	wa, ok1 := f.where[a]
	wb, ok2 := f.where[b]
	if !ok1 || !ok2 {
		return false
	}
	if wa[0] == wb[0] {
		return wa[1] < wb[1] || (wa[1] == wb[1] && a.Pos() <= b.Pos())
	}
	return domBy(f.idom, wa[0], wb[0])
}

// PostDominates: every path from b to a (returning) exit passes a afterwards.
func (f *FuncCFG) PostDominates(a, b ast.Node) bool {
	a, b = origOf(a), origOf(b)
	wa, ok1 := f.where[a]
	wb, ok2 := f.where[b]
	if !ok1 || !ok2 {
		return false
	}
	if wa[0] == wb[0] {
		return wa[1] > wb[1] || (wa[1] == wb[1] && a.Pos() >= b.Pos())
	}
	return domBy(f.ipdom, wa[0], wb[0])
}

// ReachableWithout reports whether `to` (or, if to == nil, a returning exit) can be reached from
// the point just after `from` without passing through any node for which barrier returns true.
// It returns a witness description of the offending path end.
// EveryPathPasses reports whether every path from the function entry to a returning exit passes a
// node for which pred holds.
func (f *FuncCFG) EveryPathPasses(pred func(ast.Node) bool) bool {
	reach, _ := f.reachableFrom(0, 0, nil, pred)
	return !reach
}

func (f *FuncCFG) ReachableWithout(from ast.Node, to ast.Node, barrier func(ast.Node) bool) (bool, ast.Node) {
	from = origOf(from)
	wf, ok := f.where[from]
	if !ok {
		panic(fmt.Sprintf("internal: ReachableWithout from a node that is not in the CFG (%T)", from))
	}
	return f.reachableFrom(wf[0], wf[1]+1, to, barrier)
}

func (f *FuncCFG) reachableFrom(b0, i0 int, to ast.Node, barrier func(ast.Node) bool) (bool, ast.Node) {
	if to != nil {
		to = origOf(to)
	}
	var from ast.Node
	wf := [2]int{b0, i0 - 1}
	idx := map[*cfg.Block]int{}
	for i, b := range f.G.Blocks {
		idx[b] = i
	}
	type pt struct{ b, i int }
	seen := map[pt]bool{}
	var stack []pt
	stack = append(stack, pt{wf[0], wf[1] + 1})
	hasBarrier := func(n ast.Node) bool {
		hit := false
		ast.Inspect(n, func(m ast.Node) bool {
			if m == nil || hit {
				return false
			}
			if _, isLit := m.(*ast.FuncLit); isLit {
				return false
			}
			if barrier(m) {
				hit = true
				return false
			}
			return true
		})
		return hit
	}
	containsTo := func(n ast.Node) bool {
		if to == nil {
			return false
		}
		found := false
		ast.Inspect(n, func(m ast.Node) bool {
			if m == to {
				found = true
			}
			return !found
		})
		return found
	}
	for len(stack) > 0 {
		p := stack[len(stack)-1]
		stack = stack[:len(stack)-1]
		if seen[p] {
			continue
		}
		seen[p] = true
		blk := f.G.Blocks[p.b]
		blocked := false
		var lastNode ast.Node
		for i := p.i; i < len(blk.Nodes); i++ {
			nd := blk.Nodes[i]
			lastNode = nd
			if containsTo(nd) {
				return true, nd
			}
			if hasBarrier(nd) {
				blocked = true
				break
			}
		}
		if blocked {
			continue
		}
		if len(blk.Succs) == 0 {
			if blk.Kind == cfg.KindSelectAfterCase || blockPanics(f.info, blk) {
				continue
			}
			if to == nil {
				if lastNode == nil {
					lastNode = from
				}
				return true, lastNode
			}
			continue
		}
		for _, s := range blk.Succs {
			stack = append(stack, pt{idx[s], 0})
		}
	}
	return false, nil
}

// ---------------------------------------------------------------------------
// misc

func exprStr(e ast.Expr) string { return types.ExprString(e) }

func sortedKeys[M ~map[string]V, V any](m M) []string {
	ks := make([]string, 0, len(m))
	for k := range m {
		ks = append(ks, k)
	}
	sort.Strings(ks)
	return ks
}

// enclosingFuncLit returns the innermost function literal in body that contains n, or nil.
func enclosingFuncLit(body *ast.BlockStmt, n ast.Node) *ast.FuncLit {
	var best *ast.FuncLit
	for _, x := range pathTo(body, n) {
		if fl, ok := x.(*ast.FuncLit); ok {
			best = fl
		}
	}
	return best
}

func posOf(p *Program, n ast.Node) string { return p.Pos(n.Pos()) }

func constructOf(u *FuncUnit, what string) string { return u.Name() + "|" + what }

var _ = fmt.Sprintf
var _ = strings.Contains

// ---------------------------------------------------------------------------
// name-independent helpers (rules must not depend on what locals are called)

// paramNameOfType returns the name of the first parameter whose type satisfies pred.
func paramNameOfType(u *FuncUnit, pred func(types.Type) bool) string {
	sig := u.Fn.Type().(*types.Signature)
	for i := 0; i < sig.Params().Len(); i++ {
		if pred(sig.Params().At(i).Type()) {
			return sig.Params().At(i).Name()
		}
	}
	return ""
}

func isContextType(t types.Type) bool { return namedIs(t, "context", "Context") }

func isErrorType(t types.Type) bool {
	n, ok := t.(*types.Named)
	return ok && n.Obj().Pkg() == nil && n.Obj().Name() == "error"
}

// isErrNotNil reports whether cond is `X != nil` (or, with neg, `X == nil`) for an X of type error.
func isErrNotNil(info *types.Info, cond ast.Expr) bool {
	be, ok := ast.Unparen(cond).(*ast.BinaryExpr)
	if !ok || be.Op != token.NEQ || !isNilIdent(be.Y) {
		return false
	}
	tv, ok := info.Types[be.X]
	return ok && isErrorType(tv.Type)
}

// commaOkSource returns the right-hand side of the `v, ok := rhs` / `v, ok = rhs` statement that
// most recently precedes the use `id` and defines it as its second variable.
func commaOkSource(u *FuncUnit, id *ast.Ident) ast.Expr {
	info := u.Info()
	v, _ := info.Uses[id].(*types.Var)
	if v == nil {
		return nil
	}
	var rhs ast.Expr
	last := token.NoPos
	ast.Inspect(u.Decl.Body, func(n ast.Node) bool {
		as, ok := n.(*ast.AssignStmt)
		if !ok || len(as.Lhs) != 2 || len(as.Rhs) != 1 || as.Pos() > id.Pos() {
			return true
		}
		okID, isID := as.Lhs[1].(*ast.Ident)
		if !isID || !(info.Defs[okID] == v || info.Uses[okID] == v) {
			return true
		}
		if as.Pos() >= last {
			last = as.Pos()
			rhs = as.Rhs[0]
		}
		return true
	})
	return rhs
}

// guardIdentSource: if the guard condition is a bare identifier defined by a comma-ok statement,
// returns that statement's right-hand side.
func guardIdentSource(u *FuncUnit, g Guard) ast.Expr {
	id, ok := ast.Unparen(g.Cond).(*ast.Ident)
	if !ok {
		return nil
	}
	return commaOkSource(u, id)
}

// nilTestOf decodes a guard as a nil test of some expression: returns the tested expression and
// whether the guard asserts it to be NON-nil. Handles `x != nil`, `x == nil` and both polarities.
func nilTestOf(g Guard) (ast.Expr, bool, bool) {
	be, ok := ast.Unparen(g.Cond).(*ast.BinaryExpr)
	if !ok || (be.Op != token.NEQ && be.Op != token.EQL) {
		return nil, false, false
	}
	var x ast.Expr
	if isNilIdent(be.Y) {
		x = be.X
	} else if isNilIdent(be.X) {
		x = be.Y
	} else {
		return nil, false, false
	}
	nonNil := (be.Op == token.NEQ) == g.Pos
	return x, nonNil, true
}

// guardErrIsNil / guardErrNotNil: the guard establishes that an error-typed expression (optionally a
// specific variable name) is nil / non-nil.
func guardErrIsNil(info *types.Info, g Guard, name string) bool {
	x, nonNil, ok := nilTestOf(g)
	if !ok || nonNil {
		return false
	}
	if name != "" {
		return exprStr(x) == name
	}
	tv, ok := info.Types[x]
	return ok && isErrorType(tv.Type)
}

func guardErrNotNil(info *types.Info, g Guard, name string) bool {
	x, nonNil, ok := nilTestOf(g)
	if !ok || !nonNil {
		return false
	}
	if name != "" {
		return exprStr(x) == name
	}
	tv, ok := info.Types[x]
	return ok && isErrorType(tv.Type)
}

// mentionsIdent reports whether expression e contains an identifier with the given name.
func mentionsIdent(e ast.Expr, name string) bool {
	found := false
	ast.Inspect(e, func(n ast.Node) bool {
		if id, ok := n.(*ast.Ident); ok && id.Name == name {
			found = true
		}
		return !found
	})
	return found
}

// paramNameAt returns the name of the i-th parameter of a function declaration ("" if unnamed).
func paramNameAt(fd *ast.FuncDecl, i int) string {
	pi := 0
	for _, f := range fd.Type.Params.List {
		if len(f.Names) == 0 {
			pi++
			continue
		}
		for _, n := range f.Names {
			if pi == i {
				return n.Name
			}
			pi++
		}
	}
	return ""
}

// mustPass computes the functions (among units) in which every path from entry to a returning exit
// passes a node satisfying base, directly or through a call of another such function. Rules use it
// so that a step that was moved into a helper still counts where the helper is called.
func mustPass(units []*FuncUnit, base func(u *FuncUnit, n ast.Node) bool) map[*types.Func]bool {
	must := map[*types.Func]bool{}
	cfgs := map[*FuncUnit]*FuncCFG{}
	for changed := true; changed; {
		changed = false
		for _, u := range units {
			if must[u.Fn] {
				continue
			}
			g := cfgs[u]
			if g == nil {
				g = NewFuncCFG(u.Info(), u.Decl.Body)
				cfgs[u] = g
			}
			if len(g.G.Blocks) == 0 {
				continue
			}
			info := u.Info()
			if g.EveryPathPasses(func(n ast.Node) bool {
				if base(u, n) {
					return true
				}
				if call, ok := n.(*ast.CallExpr); ok {
					if fn := calleeOf(info, call); fn != nil && must[fn] {
						return true
					}
				}
				return false
			}) {
				must[u.Fn] = true
				changed = true
			}
		}
	}
	return must
}

// mayDo computes the functions (among units) that contain a node satisfying base, directly or through
// calls of other such functions.
func mayDo(units []*FuncUnit, base func(u *FuncUnit, n ast.Node) bool) map[*types.Func]bool {
	may := map[*types.Func]bool{}
	for changed := true; changed; {
		changed = false
		for _, u := range units {
			if may[u.Fn] {
				continue
			}
			info := u.Info()
			ast.Inspect(u.Decl.Body, func(n ast.Node) bool {
				if may[u.Fn] || n == nil {
					return false
				}
				if base(u, n) {
					may[u.Fn] = true
				} else if call, ok := n.(*ast.CallExpr); ok {
					if fn := calleeOf(info, call); fn != nil && may[fn] {
						may[u.Fn] = true
					}
				}
				return !may[u.Fn]
			})
			if may[u.Fn] {
				changed = true
			}
		}
	}
	return may
}

// typeBranches returns the statement lists that run when a value has the dynamic type whose name
// ends in typeSuffix: the bodies of type-switch clauses listing exactly that type, and the bodies of
// `if x, ok := v.(T); ok { ... }` statements (including else-if chains).
func typeBranches(body ast.Node, typeSuffix string) [][]ast.Stmt {
	var out [][]ast.Stmt
	ast.Inspect(body, func(n ast.Node) bool {
		switch x := n.(type) {
		case *ast.TypeSwitchStmt:
			for _, s := range x.Body.List {
				if cc, ok := s.(*ast.CaseClause); ok && len(cc.List) == 1 && strings.HasSuffix(exprStr(cc.List[0]), typeSuffix) {
					out = append(out, cc.Body)
				}
			}
		case *ast.IfStmt:
			as, ok := x.Init.(*ast.AssignStmt)
			if !ok || len(as.Lhs) != 2 || len(as.Rhs) != 1 {
				return true
			}
			ta, ok := ast.Unparen(as.Rhs[0]).(*ast.TypeAssertExpr)
			if !ok || ta.Type == nil || !strings.HasSuffix(exprStr(ta.Type), typeSuffix) {
				return true
			}
			if id, ok := ast.Unparen(x.Cond).(*ast.Ident); ok && id.Name == exprStr(as.Lhs[1]) {
				out = append(out, x.Body.List)
			}
		}
		return true
	})
	return out
}

// argsOfParam: if e is (an identifier for) a parameter of u, the expressions passed for it at every
// static call of u inside units (nil if e is not a parameter or u has no callers there).
func argsOfParam(units []*FuncUnit, u *FuncUnit, e ast.Expr) []Site {
	id, ok := ast.Unparen(e).(*ast.Ident)
	if !ok {
		return nil
	}
	v, ok := u.Info().Uses[id].(*types.Var)
	if !ok || !isParamOf(u, v) {
		return nil
	}
	idx := -1
	sig := u.Fn.Type().(*types.Signature)
	for i := 0; i < sig.Params().Len(); i++ {
		if sig.Params().At(i) == v {
			idx = i
		}
	}
	var out []Site
	for _, cs := range CallsTo(units, u.Fn) {
		call := cs.Node.(*ast.CallExpr)
		if idx < len(call.Args) {
			out = append(out, Site{Unit: cs.Unit, Node: call, Expr: call.Args[idx]})
		}
	}
	return out
}

// UnitOf returns the unit of a function declared (with a body) in the loaded program, or nil.
func (p *Program) UnitOf(fn *types.Func) *FuncUnit {
	fd := p.funcDecls[fn]
	if fd == nil || fd.Body == nil {
		return nil
	}
	return &FuncUnit{Fn: fn, Decl: fd, Pkg: p.declPkg[fd]}
}

// inlinedStr prints an expression with every local variable that has exactly one definition
// replaced by the expression it was defined from (recursively, bounded): `ci, cj := h[i], h[j];
// ci.f.Before(cj.f)` prints as `h[i].f.Before(h[j].f)`.
func inlinedStr(u *FuncUnit, e ast.Expr) string {
	var pr func(e ast.Expr, depth int) string
	pr = func(e ast.Expr, depth int) string {
		switch x := e.(type) {
		case *ast.Ident:
			if depth < 6 {
				if r := resolveLocalAlias(u, x); r != ast.Expr(x) {
					if _, isCall := ast.Unparen(r).(*ast.CallExpr); !isCall || depth < 3 {
						return pr(r, depth+1)
					}
				}
			}
			return x.Name
		case *ast.ParenExpr:
			return "(" + pr(x.X, depth) + ")"
		case *ast.SelectorExpr:
			return pr(x.X, depth) + "." + x.Sel.Name
		case *ast.IndexExpr:
			return pr(x.X, depth) + "[" + pr(x.Index, depth) + "]"
		case *ast.StarExpr:
			return "*" + pr(x.X, depth)
		case *ast.UnaryExpr:
			return x.Op.String() + pr(x.X, depth)
		case *ast.BinaryExpr:
			return pr(x.X, depth) + " " + x.Op.String() + " " + pr(x.Y, depth)
		case *ast.CallExpr:
			var args []string
			for _, a := range x.Args {
				args = append(args, pr(a, depth))
			}
			return pr(x.Fun, depth) + "(" + strings.Join(args, ", ") + ")"
		}
		return exprStr(e)
	}
	return pr(e, 0)
}

// guardsWithCallers: the flattened guards of node n in u, plus -- when u is only a helper -- the
// guards that hold at EVERY static call site of u in units (a condition tested by all callers
// before calling the helper guards the helper's body as well). One level.
func guardsWithCallers(units []*FuncUnit, u *FuncUnit, n ast.Node) []Guard {
	gs := flattenGuards(GuardsOf(u.Info(), u.Decl.Body, n))
	sites := callSitesOfGeneric(units, u)
	if len(sites) == 0 {
		return gs
	}
	var common map[string]Guard
	for _, s := range sites {
		cur := map[string]Guard{}
		for _, g := range flattenGuards(GuardsOf(s.Unit.Info(), s.Unit.Decl.Body, s.Node)) {
			cur[g.String()] = g
		}
		if common == nil {
			common = cur
			continue
		}
		for k := range common {
			if _, ok := cur[k]; !ok {
				delete(common, k)
			}
		}
	}
	for _, k := range sortedKeys(common) {
		gs = append(gs, common[k])
	}
	return gs
}
