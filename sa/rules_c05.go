package main

import (
	"fmt"
	"go/ast"
	"go/token"
	"go/types"
	"strings"
)

const platformPkgPath = modPath + "/pkg/scheduler/platform"

func hasParamOfType(u *FuncUnit, pkgPath, name string) bool {
	sig := u.Fn.Type().(*types.Signature)
	for i := 0; i < sig.Params().Len(); i++ {
		if namedIs(sig.Params().At(i).Type(), pkgPath, name) {
			return true
		}
	}
	return false
}

func c05Lookup(c *Ctx) *RuleResult {
	r := &RuleResult{Rule: "C05.lookup", Floor: 3,
		Doc: "the only longest-prefix lookup of the platform-queue trie is in the Execute path (function taking an ExecuteRequest); every other trie lookup (Synchronize, registration, removal) is exact; Synchronize selects the size-class queue by the exact key (platform key of the worker's own prefix+platform, the worker's own size class); trie entries are removed after the index bookkeeping (Set dominates Remove)"}
	p := c.P
	units := p.UnitsIn(schedPkg)
	for _, cs := range MethodCallsOn(units, platformPkgPath, "Trie", "GetLongestPrefix", "GetExact", "ContainsExact") {
		call := cs.Node.(*ast.CallExpr)
		m := ast.Unparen(call.Fun).(*ast.SelectorExpr).Sel.Name
		u := cs.Unit
		isExec := hasParamOfType(u, "github.com/bazelbuild/remote-apis/build/bazel/remote/execution/v2", "ExecuteRequest")
		construct := constructOf(u, "trie."+m)
		switch {
		case m == "GetLongestPrefix" && isExec:
			r.ok(construct, posOf(p, call), "longest-prefix lookup in the Execute path")
		case m == "GetLongestPrefix":
			r.bad(c.Prop, construct, posOf(p, call), "a longest-prefix lookup of the platform queue outside the Execute path: workers/registrations must match their queue exactly")
		case isExec:
			r.bad(c.Prop, construct, posOf(p, call), "the Execute path selects the platform queue with an exact lookup instead of the longest registered prefix")
		default:
			r.ok(construct, posOf(p, call), "exact lookup")
		}
	}
	// Synchronize: key of the sizeClassQueues lookup
	scqs := p.LookupField(schedPkg, "InMemoryBuildQueue", "sizeClassQueues")
	for _, u := range units {
		if !hasParamOfType(u, modPath+"/pkg/proto/remoteworker", "SynchronizeRequest") {
			continue
		}
		info := u.Info()
		for _, ix := range findMapLookups(u, scqs) {
			construct := constructOf(u, "sizeClassQueues[...]")
			key := resolveLocalAlias(u, ix.Index)
			cl, ok := ast.Unparen(key).(*ast.CompositeLit)
			good := false
			why := "key is not a sizeClassKey literal"
			if ok {
				var pk, sc ast.Expr
				for _, el := range cl.Elts {
					if kv, ok := el.(*ast.KeyValueExpr); ok {
						switch exprStr(kv.Key) {
						case "platformKey":
							pk = kv.Value
						case "sizeClass":
							sc = kv.Value
						}
					}
				}
				why = ""
				if sc == nil || !strings.HasSuffix(exprStr(sc), ".SizeClass") || rootIsParamOfType(u, sc, "SynchronizeRequest") == false {
					why = "size class of the key is not the worker's own request.SizeClass"
				}
				if pk != nil {
					src := resolveLocalAlias(u, pk)
					call, ok := ast.Unparen(src).(*ast.CallExpr)
					if !ok || calleeOf(info, call) == nil || calleeOf(info, call).Name() != "NewKey" || len(call.Args) != 2 || !strings.HasSuffix(exprStr(call.Args[1]), ".Platform") {
						why = "platform key is not platform.NewKey(worker's prefix, request.Platform)"
					}
				} else {
					why = "no platform key"
				}
				good = why == ""
			}
			if good {
				r.ok(construct, posOf(p, ix), "exact (platformKey, request.SizeClass) lookup")
			} else {
				r.bad(c.Prop, construct, posOf(p, ix), "Synchronize does not select the worker's queue by its exact platform key and size class: "+why)
			}
		}
	}
	// Set dominates Remove
	for _, u := range units {
		sets := MethodCallsOn([]*FuncUnit{u}, platformPkgPath, "Trie", "Set")
		rems := MethodCallsOn([]*FuncUnit{u}, platformPkgPath, "Trie", "Remove")
		if len(sets) == 0 || len(rems) == 0 {
			continue
		}
		g := NewFuncCFG(u.Info(), u.Decl.Body)
		for _, rm := range rems {
			ok := true
			for _, st := range sets {
				if !g.Dominates(st.Node, rm.Node) {
					ok = false
				}
			}
			construct := constructOf(u, "trie.Remove-last")
			if ok {
				r.ok(construct, posOf(p, rm.Node), "the re-indexing Set precedes Remove, so removing the last queue cannot leave a stale entry")
			} else {
				r.bad(c.Prop, construct, posOf(p, rm.Node), "the trie entry is removed before the swap-with-last re-indexing Set: when the removed queue is the last one, Set re-inserts a stale entry and later requests are routed to a queue index that belongs to another platform")
			}
		}
	}
	return r
}

func rootIsParamOfType(u *FuncUnit, e ast.Expr, typeName string) bool {
	v := rootVarOf(u.Info(), e)
	if v == nil {
		return false
	}
	t := v.Type()
	if pt, ok := t.(*types.Pointer); ok {
		t = pt.Elem()
	}
	n, ok := t.(*types.Named)
	return ok && n.Obj().Name() == typeName
}

func c05Drain(c *Ctx) *RuleResult {
	r := &RuleResult{Rule: "C05.drain", Floor: 4,
		Doc: "every call that may hand a queued task to a synchronizing worker (assignNextQueuedTask) is guarded by !isDrained, where isDrained holds the result of worker.isDrained for that worker; the flag is never stale: no read of it is reachable from a re-acquisition of the scheduler lock without passing a re-evaluation; isDrained is 'terminating or some drain pattern matches' and pattern matching is 'every pattern key agrees'"}
	p := c.P
	units := p.UnitsIn(schedPkg)
	assign := p.LookupFunc(schedPkg, "worker.assignNextQueuedTask")
	isDrained := p.LookupFunc(schedPkg, "worker.isDrained")
	enter := p.LookupFunc(schedPkg, "InMemoryBuildQueue.enter")
	for _, cs := range CallsTo(units, assign) {
		u := cs.Unit
		info := u.Info()
		gs := flattenGuards(GuardsOf(info, u.Decl.Body, cs.Node))
		var flag *types.Var
		for _, g := range gs {
			if id, ok := ast.Unparen(g.Cond).(*ast.Ident); ok && !g.Pos {
				if v, ok := info.Uses[id].(*types.Var); ok && varAssignedOnlyFrom(u, v, isDrained) {
					flag = v
				}
			}
		}
		construct := constructOf(u, fmt.Sprintf("assign@%s", strings.Join(guardStrings(gs), "&")))
		if flag == nil {
			r.bad(c.Prop, construct, posOf(p, cs.Node), fmt.Sprintf("a queued task can be assigned to the worker without checking that it is not drained/terminating (guards: %v)", guardStrings(gs)))
			continue
		}
		r.ok(construct, posOf(p, cs.Node), "guarded by !"+flag.Name())
		// staleness
		g := NewFuncCFG(info, u.Decl.Body)
		var reads []*ast.Ident
		var writes []ast.Node
		ast.Inspect(u.Decl.Body, func(n ast.Node) bool {
			if as, ok := n.(*ast.AssignStmt); ok {
				for _, l := range as.Lhs {
					if id, ok := l.(*ast.Ident); ok && (info.Uses[id] == flag || info.Defs[id] == flag) {
						writes = append(writes, as)
					}
				}
			}
			return true
		})
		ast.Inspect(u.Decl.Body, func(n ast.Node) bool {
			if id, ok := n.(*ast.Ident); ok && info.Uses[id] == flag {
				isWrite := false
				for _, w := range writes {
					as := w.(*ast.AssignStmt)
					for _, l := range as.Lhs {
						if l == ast.Expr(id) {
							isWrite = true
						}
					}
				}
				if !isWrite {
					reads = append(reads, id)
				}
			}
			return true
		})
		isWriteNode := func(n ast.Node) bool {
			for _, w := range writes {
				if w == n {
					return true
				}
			}
			return false
		}
		for _, en := range CallsTo([]*FuncUnit{u}, enter) {
			stale := false
			for _, rd := range reads {
				if reach, _ := g.ReachableWithout(en.Node, rd, isWriteNode); reach {
					stale = true
					r.bad(c.Prop, constructOf(u, "stale-"+flag.Name()+"@enter"), posOf(p, en.Node), fmt.Sprintf("after the scheduler lock is re-acquired here, %s (read at %s) can be used without being re-evaluated: a drain added or a termination requested while the worker was blocked is ignored and the worker still picks up work", flag.Name(), posOf(p, rd)))
					break
				}
			}
			if !stale {
				r.ok(constructOf(u, "fresh-"+flag.Name()+"@"+posOf(p, en.Node)), posOf(p, en.Node), "every read reachable from this lock re-acquisition passes a re-evaluation")
			}
		}
	}
	// shape of isDrained
	u := p.Unit(schedPkg, "worker.isDrained")
	info := u.Info()
	term := p.LookupField(schedPkg, "worker", "terminating")
	drains := p.LookupField(schedPkg, "sizeClassQueue", "drains")
	match := p.LookupFunc(schedPkg, "workerMatchesPattern")
	termOK, drainOK := false, false
	ast.Inspect(u.Decl.Body, func(n ast.Node) bool {
		ret, ok := n.(*ast.ReturnStmt)
		if !ok || len(ret.Results) != 1 || exprStr(ret.Results[0]) != "true" {
			return true
		}
		for _, g := range flattenGuards(GuardsOf(info, u.Decl.Body, ret)) {
			if g.Pos && fieldOf(info, g.Cond) == term {
				termOK = true
			}
			if call, ok := ast.Unparen(g.Cond).(*ast.CallExpr); ok && g.Pos && calleeOf(info, call) == match {
				for _, anc := range pathTo(u.Decl.Body, ret) {
					if rs, ok := anc.(*ast.RangeStmt); ok && fieldOf(info, rs.X) == drains {
						drainOK = true
					}
				}
			}
		}
		return true
	})
	if termOK && drainOK {
		r.ok(constructOf(u, "shape"), posOf(p, u.Decl), "true when terminating, true when any drain pattern matches")
	} else {
		r.bad(c.Prop, constructOf(u, "shape"), posOf(p, u.Decl), fmt.Sprintf("isDrained no longer returns true for terminating workers (%v) / for a matching drain among all drains (%v)", termOK, drainOK))
	}
	return r
}

// varAssignedOnlyFrom: every assignment to v has the form v = <recv>.fn(...)
func varAssignedOnlyFrom(u *FuncUnit, v *types.Var, fn *types.Func) bool {
	info := u.Info()
	n, ok := 0, true
	ast.Inspect(u.Decl.Body, func(nd ast.Node) bool {
		as, isAs := nd.(*ast.AssignStmt)
		if !isAs {
			return true
		}
		for i, l := range as.Lhs {
			id, isID := l.(*ast.Ident)
			if !isID || !(info.Uses[id] == v || info.Defs[id] == v) {
				continue
			}
			n++
			if len(as.Lhs) != len(as.Rhs) {
				ok = false
				continue
			}
			call, isCall := ast.Unparen(as.Rhs[i]).(*ast.CallExpr)
			if !isCall || calleeOf(info, call) != fn {
				ok = false
			}
		}
		return true
	})
	return ok && n > 0
}

func c05Wake(c *Ctx) *RuleResult {
	r := &RuleResult{Rule: "C05.wake", Floor: 3,
		Doc: "changing the drain set wakes the workers it affects on exactly the same paths: every insertion into sizeClassQueue.drains is followed by a loop over the queue's workers waking the parked ones that match; every deletion is accompanied by closing undrainWakeup (and the channel is replaced after being closed); marking a parked worker terminating wakes it"}
	p := c.P
	units := p.UnitsIn(schedPkg)
	drains := p.LookupField(schedPkg, "sizeClassQueue", "drains")
	workers := p.LookupField(schedPkg, "sizeClassQueue", "workers")
	undrain := p.LookupField(schedPkg, "sizeClassQueue", "undrainWakeup")
	wakeUp := p.LookupFunc(schedPkg, "worker.wakeUp")
	for _, w := range FieldWrites(units, drains, false) {
		u := w.Unit
		info := u.Info()
		body := u.Decl.Body
		scope := ast.Node(body)
		if fl := enclosingFuncLit(body, w.Node); fl != nil {
			scope = fl.Body
		}
		g := NewFuncCFG(info, scope.(*ast.BlockStmt))
		samePaths := func(a, b ast.Node) bool {
			return (g.Dominates(a, b) && g.PostDominates(b, a)) || (g.Dominates(b, a) && g.PostDominates(a, b))
		}
		switch n := w.Node.(type) {
		case *ast.AssignStmt:
			construct := constructOf(u, "add-drain")
			found := false
			ast.Inspect(scope, func(m ast.Node) bool {
				rs, ok := m.(*ast.RangeStmt)
				if !ok || fieldOf(info, rs.X) != workers {
					return true
				}
				for _, cs := range CallsTo([]*FuncUnit{u}, wakeUp) {
					if rs.Pos() <= cs.Node.Pos() && cs.Node.End() <= rs.End() && samePaths(n, rs.X) {
						found = true
					}
				}
				return true
			})
			if found {
				r.ok(construct, posOf(p, n), "followed on all paths by the wake-up loop over the queue's workers")
			} else {
				r.bad(c.Prop, construct, posOf(p, n), "a drain is added without waking the parked workers it matches: they keep waiting for (and receive) work")
			}
		case *ast.CallExpr:
			construct := constructOf(u, "remove-drain")
			found := false
			ast.Inspect(scope, func(m ast.Node) bool {
				call, ok := m.(*ast.CallExpr)
				if !ok {
					return true
				}
				if id, ok := ast.Unparen(call.Fun).(*ast.Ident); ok && id.Name == "close" && len(call.Args) == 1 && fieldOf(info, call.Args[0]) == undrain && samePaths(n, call) {
					found = true
				}
				return true
			})
			if found {
				r.ok(construct, posOf(p, n), "undrainWakeup is closed on exactly the paths that remove a drain")
			} else {
				r.bad(c.Prop, construct, posOf(p, n), "a drain is removed on a path that does not close undrainWakeup (or only conditionally): parked workers that are no longer drained are not woken and tasks stay queued while they wait")
			}
		}
	}
	// terminating: markWorkerTerminating followed by wakeUp of a parked worker
	mark := p.LookupFunc(schedPkg, "sizeClassQueue.markWorkerTerminating")
	wk := p.LookupField(schedPkg, "worker", "wakeup")
	for _, cs := range CallsTo(units, mark) {
		u := cs.Unit
		// a worker that is removed from the queue altogether in the same function cannot be handed
		// anything any more: nothing to wake
		removed := false
		for _, w := range FieldWrites([]*FuncUnit{u}, workers, false) {
			if _, isDel := w.Node.(*ast.CallExpr); isDel {
				removed = true
			}
		}
		if removed {
			continue
		}
		info := u.Info()
		found := false
		for _, wu := range CallsTo([]*FuncUnit{u}, wakeUp) {
			for _, g := range flattenGuards(GuardsOf(info, u.Decl.Body, wu.Node)) {
				if be, ok := ast.Unparen(g.Cond).(*ast.BinaryExpr); ok && g.Pos && be.Op == token.NEQ && fieldOf(info, be.X) == wk {
					found = true
				}
			}
		}
		construct := constructOf(u, "terminate-wakes")
		if found {
			r.ok(construct, posOf(p, cs.Node), "a parked worker marked terminating is woken")
		} else {
			r.bad(c.Prop, construct, posOf(p, cs.Node), "workers are marked terminating without waking the parked ones: they can still be handed a task")
		}
	}
	return r
}

func c05Reject(c *Ctx) *RuleResult {
	r := &RuleResult{Rule: "C05.reject", Floor: 2,
		Doc: "when no platform queue matches, Execute returns an error whose code is FAILED_PRECONDITION, replaced by UNAVAILABLE only while now is before the start-up grace deadline, and does so before any task/operation is created; the worker is told the instance name suffix produced by the matched queue's instance-name patcher from the request's instance name"}
	p := c.P
	for _, u := range p.UnitsIn(schedPkg) {
		if !hasParamOfType(u, "github.com/bazelbuild/remote-apis/build/bazel/remote/execution/v2", "ExecuteRequest") {
			continue
		}
		info := u.Info()
		hard := p.LookupField(schedPkg, "InMemoryBuildQueue", "platformQueueAbsenceHardFailureTime")
		for _, cs := range MethodCallsOn([]*FuncUnit{u}, platformPkgPath, "Trie", "GetLongestPrefix") {
			// variable holding the index
			var idxVar *types.Var
			ast.Inspect(u.Decl.Body, func(n ast.Node) bool {
				if as, ok := n.(*ast.AssignStmt); ok && len(as.Rhs) == 1 && ast.Unparen(as.Rhs[0]) == cs.Node.(ast.Expr) {
					if id, ok := as.Lhs[0].(*ast.Ident); ok {
						idxVar, _ = info.Defs[id].(*types.Var)
					}
				}
				return true
			})
			if idxVar == nil {
				panic(anchorError("Execute: result of GetLongestPrefix is not bound to a variable"))
			}
			// the rejecting if statement
			var rej *ast.IfStmt
			ast.Inspect(u.Decl.Body, func(n ast.Node) bool {
				if ifs, ok := n.(*ast.IfStmt); ok && rej == nil {
					if be, ok := ast.Unparen(ifs.Cond).(*ast.BinaryExpr); ok && be.Op == token.LSS {
						if id, ok := ast.Unparen(be.X).(*ast.Ident); ok && info.Uses[id] == idxVar && exprStr(be.Y) == "0" {
							rej = ifs
						}
					}
				}
				return true
			})
			construct := constructOf(u, "no-queue")
			if rej == nil || !terminates(info, rej.Body.List) {
				r.bad(c.Prop, construct, posOf(p, cs.Node), "no `index < 0` branch that returns: a request without a matching queue is not rejected")
				continue
			}
			// code variable -- computed in the rejecting branch, or in a helper whose result it returns
			codeOK := false
			why := ""
			rejBody, rejInfo := rej.Body, info
			ast.Inspect(rej.Body, func(n ast.Node) bool {
				ret, ok := n.(*ast.ReturnStmt)
				if !ok || len(ret.Results) != 1 {
					return true
				}
				if call, ok := ast.Unparen(ret.Results[0]).(*ast.CallExpr); ok {
					if fn := calleeOf(info, call); fn != nil && p.Decl(fn) != nil && relPkg(fn.Pkg()) == schedPkg {
						rejBody, rejInfo = p.Decl(fn).Body, p.InfoFor(p.Decl(fn))
					}
				}
				return true
			})
			{
				info := rejInfo
				_ = info
			}
			ast.Inspect(rejBody, func(n ast.Node) bool {
				info := rejInfo
				ret, ok := n.(*ast.ReturnStmt)
				if !ok || len(ret.Results) != 1 {
					return true
				}
				call, ok := ast.Unparen(ret.Results[0]).(*ast.CallExpr)
				if !ok || len(call.Args) < 1 {
					why = "does not return a status error"
					return true
				}
				codeID, ok := ast.Unparen(call.Args[0]).(*ast.Ident)
				if !ok {
					why = "status code is not the computed code variable"
					return true
				}
				cv, _ := info.Uses[codeID].(*types.Var)
				def, alt, altGuardOK := "", "", false
				ast.Inspect(rejBody, func(m ast.Node) bool {
					as, ok := m.(*ast.AssignStmt)
					if !ok || len(as.Lhs) != 1 {
						return true
					}
					id, ok := as.Lhs[0].(*ast.Ident)
					if !ok || !(info.Defs[id] == cv || info.Uses[id] == cv) {
						return true
					}
					if as.Tok == token.DEFINE {
						def = exprStr(as.Rhs[0])
					} else {
						alt = exprStr(as.Rhs[0])
						for _, g := range flattenGuards(GuardsOf(info, rejBody, as)) {
							if gc, ok := ast.Unparen(g.Cond).(*ast.CallExpr); ok && g.Pos {
								if name, a, b, ok := isTimeCmp(info, gc); ok && name == "Before" && strings.HasSuffix(exprStr(a), ".now") && fieldOf(info, b) == hard {
									altGuardOK = true
								}
							}
						}
					}
					return true
				})
				if def == "codes.FailedPrecondition" && alt == "codes.Unavailable" && altGuardOK {
					codeOK = true
				} else {
					why = fmt.Sprintf("default code %s, alternative %s (grace-period guard present: %v)", def, alt, altGuardOK)
				}
				return true
			})
			if codeOK {
				r.ok(construct, posOf(p, rej), "FAILED_PRECONDITION, UNAVAILABLE only before the grace deadline")
			} else {
				r.bad(c.Prop, construct, posOf(p, rej), "requests without a matching queue are not rejected with the documented codes: "+why)
			}
			// no state creation before the rejection decision
			newOp := p.LookupFunc(schedPkg, "task.newOperation")
			g := NewFuncCFG(info, u.Decl.Body)
			for _, no := range CallsTo([]*FuncUnit{u}, newOp) {
				gs := flattenGuards(GuardsOf(info, u.Decl.Body, no.Node))
				isDedup := false
				for _, gd := range gs {
					if src := guardIdentSource(u, gd); src != nil && gd.Pos {
						if _, isIx := ast.Unparen(src).(*ast.IndexExpr); isIx {
							isDedup = true // inside the "found an existing task / operation" branch
						}
					}
				}
				if isDedup {
					continue
				}
				if g.Dominates(rej.Cond, no.Node) {
					r.ok(constructOf(u, "create-after-match"), posOf(p, no.Node), "task/operation creation is dominated by the queue-match test")
				} else {
					r.bad(c.Prop, constructOf(u, "create-after-match"), posOf(p, no.Node), "an operation is created on a path that has not established that a matching queue exists")
				}
			}
		}
		// instance name suffix
		ast.Inspect(u.Decl.Body, func(n ast.Node) bool {
			kv, ok := n.(*ast.KeyValueExpr)
			if !ok || exprStr(kv.Key) != "InstanceNameSuffix" {
				return true
			}
			construct := constructOf(u, "InstanceNameSuffix")
			s := exprStr(kv.Value)
			patcher := p.LookupField(schedPkg, "platformQueue", "instanceNamePatcher")
			okShape := false
			if outer, ok := ast.Unparen(kv.Value).(*ast.CallExpr); ok {
				if sel, ok := ast.Unparen(outer.Fun).(*ast.SelectorExpr); ok && sel.Sel.Name == "String" {
					if inner, ok := ast.Unparen(sel.X).(*ast.CallExpr); ok && len(inner.Args) == 1 {
						if isel, ok := ast.Unparen(inner.Fun).(*ast.SelectorExpr); ok && isel.Sel.Name == "PatchInstanceName" && fieldOf(info, isel.X) == patcher {
							src := resolveLocalAlias(u, inner.Args[0])
							if call, ok := ast.Unparen(src).(*ast.CallExpr); ok && strings.Contains(exprStr(call), "NewInstanceName(") && strings.Contains(exprStr(call), ".InstanceName") {
								okShape = true
							}
						}
					}
				}
			}
			if okShape {
				r.ok(construct, posOf(p, kv), s)
			} else {
				r.bad(c.Prop, construct, posOf(p, kv), "the instance name suffix sent to the worker is not the matched queue's patcher applied to the request's instance name: "+s)
			}
			return true
		})
	}
	return r
}

func init() {
	register(&PropertySpec{
		ID:          "C05",
		Level:       "other",
		Explanation: "Structural necessary conditions of 'tasks only reach matching, undrained workers': longest-prefix lookup only for Execute, exact lookups elsewhere and exact (platform, size class) key in Synchronize; trie re-indexing before removal; every assignment of queued work is guarded by a never-stale !isDrained; drain additions/removals and terminations wake the affected workers on the same paths; the no-queue rejection codes and ordering; the patched instance name suffix. Trie semantics and registration histories are not decided.",
		Assumptions: []string{"platform.Trie (tested by the existing suite) implements exact/longest-prefix lookup correctly"},
		Rules:       []RuleFunc{c05Lookup, c05Drain, c05Wake, c05Reject, schedMatchArgs, schedParallelSlices, c05TrieRemove, c05RouteLongestPrefix, c05TrieSiblings},
	})
}
