package main

// Worker-side rules added after the second round of independently seeded changes (DESIGN.md §8.1).

import (
	"go/ast"
	"go/constant"
	"go/token"
	"go/types"
	"strings"
)

// c08Deadline: the moment until which the scheduler may believe the worker executes is derived from
// the synchronisation time the scheduler itself announced.
func c08Deadline(c *Ctx) *RuleResult {
	r := &RuleResult{Rule: "C08.deadline-source", Floor: 1,
		Doc: "on shutdown the worker keeps synchronizing until the scheduler cannot believe it is executing: every non-nil value stored in BuildClient.schedulerMayThinkExecutingUntil is <nextSynchronizationAt>.Add(d) with a positive constant d — derived from the time the SCHEDULER promised to wait for, not from the worker's own clock (the scheduler may have been told to expect the next contact much later than now+d)"}
	p := c.P
	units := p.UnitsIn(builderPkg)
	until := p.LookupField(builderPkg, "BuildClient", "schedulerMayThinkExecutingUntil")
	next := p.LookupField(builderPkg, "BuildClient", "nextSynchronizationAt")
	for _, w := range FieldWrites(units, until, true) {
		if w.RHS == nil || isNilIdent(w.RHS) {
			continue
		}
		u := w.Unit
		info := u.Info()
		construct := constructOf(u, "schedulerMayThinkExecutingUntil = "+exprStr(w.RHS))
		v := ast.Unparen(w.RHS)
		if ue, ok := v.(*ast.UnaryExpr); ok && ue.Op == token.AND {
			v = resolveLocalAlias(u, ue.X)
		} else {
			v = resolveLocalAlias(u, v)
		}
		okV := false
		if call, ok := ast.Unparen(v).(*ast.CallExpr); ok && len(call.Args) == 1 {
			if sel, ok := ast.Unparen(call.Fun).(*ast.SelectorExpr); ok && sel.Sel.Name == "Add" && fieldOf(info, resolveLocalAlias(u, sel.X)) == next {
				if tv, ok := info.Types[call.Args[0]]; ok && tv.Value != nil && constant.Sign(tv.Value) > 0 {
					okV = true
				}
			}
		}
		if okV {
			r.ok(construct, posOf(p, w.Node), "announced next synchronisation time plus a positive grace period")
		} else {
			r.bad(c.Prop, construct, posOf(p, w.Node), "the deadline after which the worker assumes the scheduler has forgotten it ("+exprStr(v)+") is not derived from the next synchronisation time announced by the scheduler: a worker that shuts down may stop synchronizing while the scheduler still believes it is executing the action")
		}
	}
	return r
}

// c08CompletedSend: the completion of an action is reported, not dropped.
func c08CompletedSend(c *Ctx) *RuleResult {
	r := &RuleResult{Rule: "C08.completed-send", Floor: 1,
		Doc: "the completion of an action is always reported with that action's response: the Completed execution state is sent on the updates channel by a plain (blocking) send statement that every path of the executing goroutine passes before closing the channel — not by a select with a default or alternative case that can drop it"}
	p := c.P
	for _, u := range p.UnitsIn(builderPkg) {
		info := u.Info()
		ast.Inspect(u.Decl.Body, func(n ast.Node) bool {
			cl, ok := n.(*ast.CompositeLit)
			if !ok {
				return true
			}
			tv, ok := info.Types[cl]
			if !ok || !namedIs(tv.Type, "github.com/buildbarn/bb-remote-execution/pkg/proto/remoteworker", "CurrentState_Executing_Completed") {
				return true
			}
			// only where the value is produced for a channel: find the send that carries it
			var send *ast.SendStmt
			path := pathTo(u.Decl.Body, cl)
			for _, anc := range path {
				if s, ok := anc.(*ast.SendStmt); ok {
					send = s
				}
			}
			if send == nil {
				// carried through a local variable
				for _, anc := range path {
					as, ok := anc.(*ast.AssignStmt)
					if !ok || len(as.Lhs) != 1 {
						continue
					}
					id, ok := as.Lhs[0].(*ast.Ident)
					if !ok {
						continue
					}
					obj := info.ObjectOf(id)
					ast.Inspect(u.Decl.Body, func(m ast.Node) bool {
						if s, ok := m.(*ast.SendStmt); ok {
							if vid, ok := ast.Unparen(s.Value).(*ast.Ident); ok && info.ObjectOf(vid) == obj {
								send = s
							}
						}
						return true
					})
				}
			}
			if send == nil {
				return true // not sent from here (e.g. tests/other consumers); not an instance
			}
			construct := constructOf(u, "send Completed")
			inSelect := false
			for _, anc := range pathTo(u.Decl.Body, send) {
				if cc, ok := anc.(*ast.CommClause); ok && cc.Comm == ast.Stmt(send) {
					inSelect = true
				}
			}
			if inSelect {
				r.bad(c.Prop, construct, posOf(p, send), "the Completed state is sent from a select statement, so it can be dropped when the consumer is not ready at that instant: the worker then reports the action as finished without its response (or never reports completion)")
				return true
			}
			// every path of the enclosing goroutine body passes the send
			body := u.Decl.Body
			if fl := enclosingFuncLit(u.Decl.Body, send); fl != nil {
				body = fl.Body
			}
			g := NewFuncCFG(info, body)
			if g.EveryPathPasses(func(m ast.Node) bool { return m == ast.Node(send) }) {
				r.ok(construct, posOf(p, send), "plain blocking send on every path")
			} else {
				r.bad(c.Prop, construct, posOf(p, send), "some path of the executing goroutine ends without sending the Completed state")
			}
			return true
		})
	}
	return r
}

// c10Parents: parent directories of ALL declared outputs are created, at every depth.
func c10Parents(c *Ctx) *RuleResult {
	r := &RuleResult{Rule: "C10.parents-recursion", Floor: 1,
		Doc: "parent directories of declared outputs exist before the command runs, at every depth: in the recursive creation of parent directories the descent into a child is conditioned on nothing but (a) the absence of an error so far and (b) the child having subdirectories of its own; in particular a directory that already exists is still descended into"}
	p := c.P
	u := p.Unit(builderPkg, "outputNode.createParentDirectories")
	info := u.Info()
	n := 0
	// the descent may go through a helper that enters the child directory and recurses
	units := p.UnitsIn(builderPkg)
	viaHelper := mayDo(units, func(x *FuncUnit, m ast.Node) bool {
		call, ok := m.(*ast.CallExpr)
		return ok && x.Fn != u.Fn && calleeOf(x.Info(), call) == u.Fn
	})
	type site struct {
		unit *FuncUnit
		call ast.Node
		pre  []Guard // guards collected on the way from the recursive function
	}
	var sites []site
	for _, cs := range CallsTo([]*FuncUnit{u}, u.Fn) {
		sites = append(sites, site{u, cs.Node, nil})
	}
	ast.Inspect(u.Decl.Body, func(m ast.Node) bool {
		call, ok := m.(*ast.CallExpr)
		if !ok {
			return true
		}
		fn := calleeOf(info, call)
		if fn == nil || fn == u.Fn || !viaHelper[fn] {
			return true
		}
		pre := flattenGuards(GuardsOf(info, u.Decl.Body, call))
		for _, hu := range units {
			if hu.Fn != fn {
				continue
			}
			for _, cs := range CallsTo([]*FuncUnit{hu}, u.Fn) {
				sites = append(sites, site{hu, cs.Node, pre})
			}
		}
		return true
	})
	for _, st := range sites {
		n++
		construct := constructOf(u, "recursive descent")
		bad := ""
		sinfo := st.unit.Info()
		gs := append(append([]Guard{}, st.pre...), flattenGuards(GuardsOf(sinfo, st.unit.Decl.Body, st.call))...)
		for _, g := range gs {
			if guardErrIsNil(sinfo, g, "") {
				continue
			}
			// mentions the child's own subdirectories (len(..) > 0, != nil, ...)
			mentions := false
			ast.Inspect(g.Cond, func(m ast.Node) bool {
				if sel, ok := m.(*ast.SelectorExpr); ok && sel.Sel.Name == p.LookupField(builderPkg, "outputNode", "subdirectories").Name() {
					mentions = true
				}
				return true
			})
			if mentions {
				continue
			}
			// err != nil && !os.IsExist(err) being false is fine as well: it is the error filter itself
			if !g.Pos && mentionsErrVar(sinfo, g.Cond) && isConj(g.Cond) && conjHasErrNotNil(sinfo, g.Cond) {
				continue
			}
			bad = g.String()
		}
		if bad == "" {
			r.ok(construct, posOf(p, st.call), "conditioned only on success and on the child having subdirectories")
		} else {
			r.bad(c.Prop, construct, posOf(p, st.call), "the descent into a child directory is skipped under the additional condition "+bad+" (e.g. when the directory already exists because it is part of the input root): deeper parent directories of declared outputs are not created before the command runs")
		}
	}
	if n == 0 {
		r.bad(c.Prop, constructOf(u, "recursive descent"), posOf(p, u.Decl), "the creation of parent directories no longer descends into child directories")
	}
	return r
}

func isConj(e ast.Expr) bool {
	be, ok := ast.Unparen(e).(*ast.BinaryExpr)
	return ok && be.Op == token.LAND
}

func conjHasErrNotNil(info *types.Info, e ast.Expr) bool {
	be, ok := ast.Unparen(e).(*ast.BinaryExpr)
	if !ok {
		return false
	}
	if be.Op == token.LAND {
		return conjHasErrNotNil(info, be.X) || conjHasErrNotNil(info, be.Y)
	}
	return isErrNotNil(info, be)
}

func mentionsErrVar(info *types.Info, e ast.Expr) bool {
	found := false
	ast.Inspect(e, func(m ast.Node) bool {
		if id, ok := m.(*ast.Ident); ok {
			if v, ok := info.Uses[id].(*types.Var); ok && isErrorType(v.Type()) {
				found = true
			}
		}
		return true
	})
	return found
}

// c12AcquireFirst: the wrapped work happens inside the acquire/release bracket.
func c12AcquireFirst(c *Ctx) *RuleResult {
	r := &RuleResult{Rule: "C12.acquire-first", Floor: 3,
		Doc: "cleaning happens BEFORE the wrapped component is touched and an action does not start if it failed: in every decorator method that acquires the idle invoker, the successful Acquire dominates every call made on the decorated (base) object"}
	p := c.P
	for _, u := range p.Units("pkg/builder", "pkg/runner") {
		info := u.Info()
		var acq *ast.CallExpr
		ast.Inspect(u.Decl.Body, func(n ast.Node) bool {
			if call, ok := n.(*ast.CallExpr); ok {
				if _, ok := isIdleInvokerCall(info, call, "Acquire"); ok && acq == nil {
					acq = call
				}
			}
			return true
		})
		if acq == nil || u.Decl.Recv == nil || len(u.Decl.Recv.List[0].Names) == 0 {
			continue
		}
		recv := info.Defs[u.Decl.Recv.List[0].Names[0]]
		g := NewFuncCFG(info, u.Decl.Body)
		ast.Inspect(u.Decl.Body, func(n ast.Node) bool {
			call, ok := n.(*ast.CallExpr)
			if !ok || call == acq {
				return true
			}
			sel, ok := ast.Unparen(call.Fun).(*ast.SelectorExpr)
			if !ok {
				return true
			}
			// a method call on a field of the receiver whose type is an interface, other than the invoker
			fs, ok := ast.Unparen(sel.X).(*ast.SelectorExpr)
			if !ok {
				return true
			}
			rid, ok := ast.Unparen(fs.X).(*ast.Ident)
			if !ok || info.Uses[rid] != recv {
				return true
			}
			f := fieldOf(info, fs)
			if f == nil || !types.IsInterface(f.Type()) {
				return true
			}
			if _, isInv := isIdleInvokerCall(info, call, sel.Sel.Name); isInv || strings.Contains(f.Type().String(), "IdleInvoker") {
				return true
			}
			construct := constructOf(u, exprStr(call.Fun)+" after Acquire")
			if g.Dominates(acq, call) {
				r.ok(construct, posOf(p, call), "dominated by the Acquire")
			} else {
				r.bad(c.Prop, construct, posOf(p, call), "the decorated component is used before (or without) the idle invoker having been acquired: the cleaning that must precede the action runs after the component has already created its state (and wipes it), and a failed cleaning no longer prevents the component from being touched")
			}
			return true
		})
	}
	return r
}
