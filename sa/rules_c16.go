package main

import (
	"fmt"
	"go/ast"
	"go/token"
	"go/types"
	"strings"
)

// poolFileMutation: call f.file.WriteAt / f.file.Truncate on the pool file of a fileBackedFile.
func poolFileMutations(p *Program, u *FuncUnit) []*ast.CallExpr {
	fileField := p.LookupField(virtualPkg, "fileBackedFile", "file")
	var out []*ast.CallExpr
	ast.Inspect(u.Decl.Body, func(n ast.Node) bool {
		call, ok := n.(*ast.CallExpr)
		if !ok {
			return true
		}
		sel, ok := ast.Unparen(call.Fun).(*ast.SelectorExpr)
		if !ok || (sel.Sel.Name != "WriteAt" && sel.Sel.Name != "Truncate") {
			return true
		}
		if fieldOf(u.Info(), sel.X) == fileField {
			out = append(out, call)
		}
		return true
	})
	return out
}

func c16MutatingLock(c *Ctx) *RuleResult {
	r := &RuleResult{Rule: "C16.mutating-lock", Floor: 4,
		Doc: "the contents of a pool-backed file are only changed (WriteAt / Truncate on the pool file, directly or through a lock-free helper) on paths that took the file's lock through lockMutatingData, which waits for frozen readers (uploads) to finish: the acquisition's path conditions are a subset of the mutation's; and the cached digest is invalidated after every successful mutation, conditioned only on that call's own results"}
	p := c.P
	units := p.UnitsIn(virtualPkg)
	lmd := p.LookupFunc(virtualPkg, "fileBackedFile.lockMutatingData")
	cd := p.LookupField(virtualPkg, "fileBackedFile", "cachedDigest")
	// helpers: functions that mutate directly but perform no lock operation themselves
	helper := map[*types.Func]bool{}
	for _, u := range units {
		if len(poolFileMutations(p, u)) == 0 {
			continue
		}
		hasLock := false
		ast.Inspect(u.Decl.Body, func(n ast.Node) bool {
			if call, ok := n.(*ast.CallExpr); ok {
				if fn := calleeOf(u.Info(), call); fn != nil && (fn == lmd || (fn.Pkg() != nil && fn.Pkg().Path() == "sync")) {
					hasLock = true
				}
			}
			return true
		})
		if !hasLock {
			helper[u.Fn] = true
		}
	}
	checkSite := func(u *FuncUnit, site ast.Node, what string) {
		info := u.Info()
		siteGuards := map[string]bool{}
		for _, g := range flattenGuards(GuardsOf(info, u.Decl.Body, site)) {
			siteGuards[g.String()] = true
		}
		g := NewFuncCFG(info, u.Decl.Body)
		construct := constructOf(u, what)
		okL := false
		why := "no call of lockMutatingData"
		for _, cs := range CallsTo([]*FuncUnit{u}, lmd) {
			why = ""
			sub := true
			for _, lg := range flattenGuards(GuardsOf(info, u.Decl.Body, cs.Node)) {
				if !siteGuards[lg.String()] {
					sub = false
					why = "lockMutatingData is only taken under " + lg.String() + ", which the mutation is not restricted to"
				}
			}
			if sub && (g.Dominates(cs.Node, site) || condDominates(g, info, u, cs.Node, site)) {
				okL = true
			}
		}
		if okL {
			r.ok(construct, posOf(p, site), "under the lock taken by lockMutatingData")
		} else {
			r.bad(c.Prop, construct, posOf(p, site), "the file's contents are changed without having waited for frozen readers (lockMutatingData): an upload in progress hashes one version and stores another, so the reported digest does not match the stored bytes ("+why+")")
		}
	}
	for _, u := range units {
		info := u.Info()
		for _, m := range poolFileMutations(p, u) {
			name := ast.Unparen(m.Fun).(*ast.SelectorExpr).Sel.Name
			if !helper[u.Fn] {
				checkSite(u, m, "file."+name)
			}
			// digest invalidation
			construct := constructOf(u, "invalidate-after-"+name)
			g := NewFuncCFG(info, u.Decl.Body)
			okR := false
			resN, resErr := mutationResults(u, m)
			siteGuards := map[string]bool{}
			for _, gd := range flattenGuards(GuardsOf(info, u.Decl.Body, m)) {
				siteGuards[gd.String()] = true
			}
			for _, w := range FieldWrites([]*FuncUnit{u}, cd, false) {
				if w.RHS == nil || !strings.HasSuffix(exprStr(w.RHS), "BadDigest") {
					continue
				}
				if !g.Dominates(m, w.Node) && !(m.Pos() < w.Node.Pos()) {
					continue
				}
				extraOK := true
				for _, gd := range flattenGuards(GuardsOf(info, u.Decl.Body, w.Node)) {
					if siteGuards[gd.String()] {
						continue
					}
					s := exprStr(gd.Cond)
					switch {
					case gd.Pos && resN != "" && s == resN+" > 0":
					case resErr != "" && resN == "" && guardErrIsNil(info, gd, resErr):
						// (a call that also reports a byte count may have changed part of the
						// contents although it failed: its invalidation must not depend on err)
					default:
						extraOK = false
					}
				}
				if extraOK {
					okR = true
				}
			}
			if okR {
				r.ok(construct, posOf(p, m), "cachedDigest = BadDigest follows, conditioned only on the call's own results")
			} else {
				r.bad(c.Prop, construct, posOf(p, m), "after the file's contents change the cached digest is not invalidated on every path on which bytes were changed (for a write that reports a byte count this includes partial writes that end in an error): a later upload reuses a digest of the old contents")
			}
		}
		// callers of helpers
		for h := range helper {
			for _, cs := range CallsTo([]*FuncUnit{u}, h) {
				if helper[u.Fn] {
					continue
				}
				checkSite(u, cs.Node, h.Name())
			}
		}
	}
	// the cached digest only receives a real value in updateCachedDigest, called with a frozen reader
	upd := p.LookupFunc(virtualPkg, "fileBackedFile.updateCachedDigest")
	for _, w := range FieldWrites(units, cd, false) {
		if w.RHS != nil && strings.HasSuffix(exprStr(w.RHS), "BadDigest") {
			continue
		}
		construct := constructOf(w.Unit, "cachedDigest = "+exprStr(w.RHS))
		onlyFromUpd := func(fn *types.Func) bool {
			// every static call site of the helper is inside updateCachedDigest
			sites := CallsTo(units, fn)
			if len(sites) == 0 {
				return false
			}
			for _, s := range sites {
				if s.Unit.Fn != upd {
					return false
				}
			}
			return true
		}
		if w.Unit.Fn == upd || onlyFromUpd(w.Unit.Fn) {
			r.ok(construct, posOf(p, w.Node), "in updateCachedDigest (or a helper only it calls)")
		} else {
			r.bad(c.Prop, construct, posOf(p, w.Node), "a digest is cached outside updateCachedDigest, i.e. without the contents being frozen")
		}
	}
	for _, cs := range CallsTo(units, upd) {
		call := cs.Node.(*ast.CallExpr)
		construct := constructOf(cs.Unit, "updateCachedDigest("+exprStr(call.Args[len(call.Args)-1])+")")
		src := tupleSource(cs.Unit, call.Args[len(call.Args)-1])
		okF := false
		if src != nil {
			if fn := calleeOf(cs.Unit.Info(), src); fn != nil && (fn.Name() == "waitAndOpenReadFrozen" || fn.Name() == "openReadFrozen") {
				okF = true
			}
		}
		if okF {
			r.ok(construct, posOf(p, call), "digest computed from a frozen reader")
		} else {
			r.bad(c.Prop, construct, posOf(p, call), "the digest is computed from a reader that does not freeze the file: writers can change the bytes while they are hashed")
		}
	}
	return r
}

// condDominates: the lock call sits in the then-branch of `if c { lockMutatingData() } else { lock.Lock() }`
// and the site is guarded by the same c.
func condDominates(g *FuncCFG, info *types.Info, u *FuncUnit, lockCall, site ast.Node) bool {
	for _, anc := range pathTo(u.Decl.Body, lockCall) {
		if ifs, ok := anc.(*ast.IfStmt); ok {
			if g.Dominates(ifs.Cond, site) {
				return true
			}
		}
	}
	return false
}

// mutationResults returns the names bound to the (count, err) results of the mutation call.
func mutationResults(u *FuncUnit, call *ast.CallExpr) (string, string) {
	n, e := "", ""
	ast.Inspect(u.Decl.Body, func(m ast.Node) bool {
		as, ok := m.(*ast.AssignStmt)
		if !ok || len(as.Rhs) != 1 || ast.Unparen(as.Rhs[0]) != ast.Expr(call) {
			return true
		}
		if len(as.Lhs) == 2 {
			n, e = exprStr(as.Lhs[0]), exprStr(as.Lhs[1])
		} else if len(as.Lhs) == 1 {
			e = exprStr(as.Lhs[0])
		}
		return true
	})
	return n, e
}

func c16Lifetime(c *Ctx) *RuleResult {
	r := &RuleResult{Rule: "C16.lifetime", Floor: 8,
		Doc: "backing storage is released exactly once, when the last reference disappears: the pool file has one Close site, guarded by referenceCount == 0 and followed by file = nil; every operation that adds a reference (Link, VirtualOpenSelf, openReadFrozen, and the handle allocators' Link) first refuses when the count is already zero, so a dead file cannot be resurrected; handle allocators forward Unlink to the file only when their link count reaches zero; a frozen reader's Close undoes exactly what openReadFrozen did"}
	p := c.P
	units := p.UnitsIn(virtualPkg)
	fileField := p.LookupField(virtualPkg, "fileBackedFile", "file")
	rc := p.LookupField(virtualPkg, "fileBackedFile", "referenceCount")
	fdc := p.LookupField(virtualPkg, "fileBackedFile", "frozenDescriptorsCount")
	// close site
	nClose := 0
	for _, u := range units {
		info := u.Info()
		ast.Inspect(u.Decl.Body, func(n ast.Node) bool {
			call, ok := n.(*ast.CallExpr)
			if !ok {
				return true
			}
			sel, ok := ast.Unparen(call.Fun).(*ast.SelectorExpr)
			if !ok || sel.Sel.Name != "Close" || fieldOf(info, sel.X) != fileField {
				return true
			}
			nClose++
			construct := constructOf(u, "pool file Close")
			okG := false
			for _, g := range flattenGuards(GuardsOf(info, u.Decl.Body, call)) {
				if be, ok := ast.Unparen(g.Cond).(*ast.BinaryExpr); ok && g.Pos && be.Op == token.EQL && fieldOf(info, be.X) == rc && exprStr(be.Y) == "0" {
					okG = true
				}
			}
			cleared := false
			gcf := NewFuncCFG(info, u.Decl.Body)
			for _, w := range FieldWrites([]*FuncUnit{u}, fileField, false) {
				if w.RHS != nil && isNilIdent(w.RHS) && gcf.PostDominates(w.Node, call) {
					cleared = true
				}
			}
			if okG && cleared {
				r.ok(construct, posOf(p, call), "guarded by referenceCount == 0, then file = nil")
			} else {
				r.bad(c.Prop, construct, posOf(p, call), fmt.Sprintf("the backing file is closed without the guard referenceCount == 0 (%v) or without clearing the pointer (%v): storage is released while references exist, or twice", okG, cleared))
			}
			return true
		})
	}
	if nClose != 1 {
		r.bad(c.Prop, "fileBackedFile.file|close-sites", "-", fmt.Sprintf("%d sites close the backing file (expected exactly one)", nClose))
	}
	// reference-adding operations refuse at zero
	isCounter := func(v *types.Var) bool {
		return v != nil && (v.Name() == "referenceCount" || v.Name() == "linkCount")
	}
	for _, u := range units {
		if u.Decl.Recv == nil {
			continue
		}
		switch u.Fn.Name() {
		case "Link", "VirtualOpenSelf", "openReadFrozen":
		default:
			continue
		}
		info := u.Info()
		g := NewFuncCFG(info, u.Decl.Body)
		// increments of a counter field of the receiver
		var incs []ast.Node
		var counter *types.Var
		ast.Inspect(u.Decl.Body, func(n ast.Node) bool {
			switch x := n.(type) {
			case *ast.IncDecStmt:
				if f := fieldOf(info, x.X); isCounter(f) && x.Tok == token.INC {
					incs = append(incs, x)
					counter = f
				}
			case *ast.CallExpr:
				if sel, ok := ast.Unparen(x.Fun).(*ast.SelectorExpr); ok {
					if f := fieldOf(info, sel.X); isCounter(f) && (sel.Sel.Name == "Add" || sel.Sel.Name == "CompareAndSwap") {
						incs = append(incs, x)
						counter = f
					}
					if sel.Sel.Name == "acquireShareAccessLocked" {
						incs = append(incs, x)
						counter = rc
					}
				}
			}
			return true
		})
		if len(incs) == 0 {
			continue
		}
		// zero test: if <counter or value loaded from it> == 0 { return non-OK }
		var test ast.Expr
		ast.Inspect(u.Decl.Body, func(n ast.Node) bool {
			ifs, ok := n.(*ast.IfStmt)
			if !ok || !terminates(info, ifs.Body.List) {
				return true
			}
			be, ok := ast.Unparen(ifs.Cond).(*ast.BinaryExpr)
			if !ok || be.Op != token.EQL || exprStr(be.Y) != "0" {
				return true
			}
			operand := resolveLocalAliasNearest(u, be.X, ifs.Pos())
			isCnt := fieldOf(info, operand) == counter
			if call, ok := ast.Unparen(operand).(*ast.CallExpr); ok {
				if sel, ok := ast.Unparen(call.Fun).(*ast.SelectorExpr); ok && sel.Sel.Name == "Load" && fieldOf(info, sel.X) == counter {
					isCnt = true
				}
			}
			if !isCnt {
				return true
			}
			ret, ok := ifs.Body.List[len(ifs.Body.List)-1].(*ast.ReturnStmt)
			if !ok {
				return true
			}
			refuses := true
			for _, res := range ret.Results {
				if s := exprStr(res); s == "StatusOK" || s == "true" {
					refuses = false
				}
			}
			if refuses {
				test = ifs.Cond
			}
			return true
		})
		construct := constructOf(u, "refuse-at-zero")
		okT := test != nil
		if okT {
			for _, inc := range incs {
				if !g.Dominates(test, inc) {
					okT = false
				}
			}
		}
		if okT {
			r.ok(construct, posOf(p, u.Decl), "the "+counter.Name()+" == 0 test dominates every increment")
		} else {
			r.bad(c.Prop, construct, posOf(p, u.Decl), "a reference is added to a file whose "+counter.Name()+" may already be zero: the file's storage has been (or will be) released while a directory entry or descriptor still refers to it, and the final release happens twice")
		}
	}
	// Unlink forwarding
	for _, u := range units {
		if u.Fn.Name() != "Unlink" || u.Decl.Recv == nil {
			continue
		}
		info := u.Info()
		ast.Inspect(u.Decl.Body, func(n ast.Node) bool {
			call, ok := n.(*ast.CallExpr)
			if !ok {
				return true
			}
			sel, ok := ast.Unparen(call.Fun).(*ast.SelectorExpr)
			if !ok || sel.Sel.Name != "Unlink" || !strings.HasSuffix(exprStr(sel.X), ".LinkableLeaf") {
				return true
			}
			construct := constructOf(u, "forward Unlink")
			okG := false
			for _, g := range flattenGuards(GuardsOf(info, u.Decl.Body, call)) {
				be, ok := ast.Unparen(g.Cond).(*ast.BinaryExpr)
				if !ok || !g.Pos || be.Op != token.EQL || exprStr(be.Y) != "0" {
					continue
				}
				if f := fieldOf(info, be.X); isCounter(f) {
					okG = true
				}
				if c2, ok := ast.Unparen(be.X).(*ast.CallExpr); ok {
					if s2, ok := ast.Unparen(c2.Fun).(*ast.SelectorExpr); ok && isCounter(fieldOf(info, s2.X)) {
						okG = true
					}
				}
			}
			if okG {
				r.ok(construct, posOf(p, call), "only when the link count reached zero")
			} else {
				r.bad(c.Prop, construct, posOf(p, call), "the underlying file is unlinked although other hard links may remain (no link-count == 0 guard)")
			}
			return true
		})
	}
	// frozen reader pairing
	op := p.Unit(virtualPkg, "fileBackedFile.openReadFrozen")
	cl := p.Unit(virtualPkg, "frozenFileBackedFile.Close")
	// the functions themselves plus the helpers they call
	withCallees := func(u *FuncUnit) []*FuncUnit {
		out := []*FuncUnit{u}
		for fn := range staticReach(p, []ast.Node{u.Decl.Body}, u.Info()) {
			if fd := p.Decl(fn); fd != nil && relPkg(fn.Pkg()) == virtualPkg {
				out = append(out, &FuncUnit{Fn: fn, Decl: fd, Pkg: p.declPkg[fd]})
			}
		}
		return out
	}
	opU, clU := withCallees(op), withCallees(cl)
	incBoth := len(FieldWrites(opU, rc, false)) > 0 && len(FieldWrites(opU, fdc, false)) > 0
	decF := false
	for _, w := range FieldWrites(clU, fdc, false) {
		if inc, ok := w.Node.(*ast.IncDecStmt); ok && inc.Tok == token.DEC {
			decF = true
		}
	}
	rel := len(CallsTo(clU, p.LookupFunc(virtualPkg, "fileBackedFile.releaseReferencesLocked"))) > 0
	if incBoth && decF && rel {
		r.ok("frozen-reader|pairing", posOf(p, cl.Decl), "openReadFrozen takes a reference and a freeze; Close gives both back")
	} else {
		r.bad(c.Prop, "frozen-reader|pairing", posOf(p, cl.Decl), "opening and closing a frozen reader do not change the same counters")
	}
	return r
}

func c16Frozen(c *Ctx) *RuleResult {
	r := &RuleResult{Rule: "C16.frozen-readers", Floor: 2,
		Doc: "every frozen reader obtained inside pool_backed_file_allocator (waitAndOpenReadFrozen / openReadFrozen with success) is closed exactly once on every path, or handed over: to a buffer built from it (which closes it), returned, or stored in the caller's request structure"}
	p := c.P
	for _, u := range p.UnitsIn(virtualPkg) {
		info := u.Info()
		spec := &OblSpec{Name: "frozen", Min: 1, Max: 1,
			Create: func(n ast.Node) []Born {
				as, ok := n.(*ast.AssignStmt)
				if !ok || len(as.Rhs) != 1 || len(as.Lhs) != 2 {
					return nil
				}
				call, ok := ast.Unparen(as.Rhs[0]).(*ast.CallExpr)
				if !ok {
					return nil
				}
				fn := calleeOf(info, call)
				if fn == nil || (fn.Name() != "waitAndOpenReadFrozen" && fn.Name() != "openReadFrozen") {
					return nil
				}
				return []Born{{Key: exprStr(as.Lhs[0]), Pos: as.Pos(), FailTest: boolOKTest(exprStr(as.Lhs[1]))}}
			},
			Discharge: func(n ast.Node, key string) int {
				if _, ok := methodCallOn(n, key, "Close"); ok {
					return 1
				}
				return 0
			},
			Transfer: func(n ast.Node, key string) bool {
				switch x := n.(type) {
				case *ast.CallExpr:
					if fn := calleeOf(info, x); fn != nil && strings.HasPrefix(fn.Name(), "NewValidatedBufferFromReaderAt") {
						for _, a := range x.Args {
							if exprStr(a) == key {
								return true
							}
						}
					}
				case *ast.AssignStmt:
					for i, rhs := range x.Rhs {
						if exprStr(rhs) == key && i < len(x.Lhs) {
							if _, isSel := ast.Unparen(x.Lhs[i]).(*ast.SelectorExpr); isSel {
								return true
							}
						}
					}
				case *ast.ReturnStmt:
					for _, res := range x.Results {
						if exprStr(res) == key {
							return true
						}
					}
				}
				return false
			},
		}
		res := RunObligation(info, u.Decl.Body, spec)
		if res.Created == 0 {
			continue
		}
		construct := constructOf(u, "frozen reader")
		if len(res.Violations) == 0 {
			r.ok(construct, posOf(p, u.Decl), fmt.Sprintf("closed once or handed over on all %d exits", res.Exits))
		}
		for _, v := range res.Violations {
			msg := v.Msg
			if msg == "" {
				msg = fmt.Sprintf("closed %d times on the path to the %s", v.Count, oblExitDesc(p, v))
			}
			r.bad(c.Prop, construct, p.Pos(v.Born.Pos), "a frozen reader is not released exactly once ("+msg+"): the file stays frozen (writers block forever) and keeps a reference (storage never released)")
		}
	}
	return r
}

func init() {
	register(&PropertySpec{
		ID:    "C16",
		Level: "other",
		Explanation: "Structural necessary conditions, on all paths: the contents of a pool-backed file change only under the lock obtained through lockMutatingData (which waits for uploads) and the cached digest is invalidated after every successful change; digests are only cached from frozen readers; one guarded close site of the backing file; reference-adding operations refuse a zero count (no resurrection), Unlink is forwarded only at zero; frozen readers are closed once or handed to a buffer. Lifetime over all histories and digest equality with the stored bytes are not decided.",
		Assumptions: []string{"buffers built from a reader close it exactly once (bb-storage contract)"},
		Rules:       []RuleFunc{c16MutatingLock, c16Lifetime, c16Frozen, c16LinkForwarding, c13LinkBalance},
	})
}
