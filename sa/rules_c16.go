package main

import (
	"fmt"
	"go/ast"
	"go/token"
	"go/types"
	"strings"
)

// poolFileMutation: call f.file.WriteAt / f.file.Truncate on the pool file of a fileBackedFile.
func poolFileMutations(p *Program, u *FuncUnit) []*ast.CallExpr {
	fileField := p.LookupField(virtualPkg, "fileBackedFile", "file")
	var out []*ast.CallExpr
	ast.Inspect(u.Decl.Body, func(n ast.Node) bool {
		call, ok := n.(*ast.CallExpr)
		if !ok {
			return true
		}
		sel, ok := ast.Unparen(call.Fun).(*ast.SelectorExpr)
		if !ok || (sel.Sel.Name != "WriteAt" && sel.Sel.Name != "Truncate") {
			return true
		}
		if fieldOf(u.Info(), sel.X) == fileField {
			out = append(out, call)
		}
		return true
	})
	return out
}

func c16MutatingLock(c *Ctx) *RuleResult {
	r := &RuleResult{Rule: "C16.mutating-lock", Floor: 4,
		Doc: "the contents of a pool-backed file are only changed (WriteAt / Truncate on the pool file, directly or through a lock-free helper) on paths that took the file's lock through lockMutatingData, which waits for frozen readers (uploads) to finish: the acquisition's path conditions are a subset of the mutation's; and the cached digest is invalidated after every successful mutation, conditioned only on that call's own results"}
	p := c.P
	units := p.UnitsIn(virtualPkg)
	lmd := p.LookupFunc(virtualPkg, "fileBackedFile.lockMutatingData")
	cd := p.LookupField(virtualPkg, "fileBackedFile", "cachedDigest")
	// helpers: functions that mutate directly but perform no lock operation themselves
	helper := map[*types.Func]bool{}
	for _, u := range units {
		if len(poolFileMutations(p, u)) == 0 {
			continue
		}
		hasLock := false
		ast.Inspect(u.Decl.Body, func(n ast.Node) bool {
			if call, ok := n.(*ast.CallExpr); ok {
				if fn := calleeOf(u.Info(), call); fn != nil && (fn == lmd || (fn.Pkg() != nil && fn.Pkg().Path() == "sync")) {
					hasLock = true
				}
			}
			return true
		})
		if !hasLock {
			helper[u.Fn] = true
		}
	}
	// helpers `func (f) h(..., b bool, ...) { if b { f.lockMutatingData() } else { f.lock.Lock() } }`:
	// function -> index of the deciding parameter
	condLockers := map[*types.Func]int{}
	for _, hu := range units {
		for _, cs := range CallsTo([]*FuncUnit{hu}, lmd) {
			gs := flattenGuards(GuardsOf(hu.Info(), hu.Decl.Body, cs.Node))
			if len(gs) != 1 || !gs[0].Pos {
				continue
			}
			id, ok := ast.Unparen(gs[0].Cond).(*ast.Ident)
			if !ok {
				continue
			}
			v, ok := hu.Info().Uses[id].(*types.Var)
			if !ok || !isParamOf(hu, v) {
				continue
			}
			sig := hu.Fn.Type().(*types.Signature)
			for i := 0; i < sig.Params().Len(); i++ {
				if sig.Params().At(i) == v {
					condLockers[hu.Fn] = i
				}
			}
		}
	}
	checkSite := func(u *FuncUnit, site ast.Node, what string) {
		info := u.Info()
		siteGuards := map[string]bool{}
		for _, g := range flattenGuards(GuardsOf(info, u.Decl.Body, site)) {
			siteGuards[g.String()] = true
		}
		g := NewFuncCFG(info, u.Decl.Body)
		construct := constructOf(u, what)
		okL := false
		why := "no call of lockMutatingData"
		type lockSite struct {
			node   ast.Node
			guards []Guard
		}
		var lockSites []lockSite
		for _, cs := range CallsTo([]*FuncUnit{u}, lmd) {
			lockSites = append(lockSites, lockSite{cs.Node, flattenGuards(GuardsOf(info, u.Decl.Body, cs.Node))})
		}
		// ... or through a helper that takes the lock that way when its boolean parameter says so
		for h, pi := range condLockers {
			for _, cs := range CallsTo([]*FuncUnit{u}, h) {
				call := cs.Node.(*ast.CallExpr)
				if pi < len(call.Args) {
					gs := GuardsOf(info, u.Decl.Body, cs.Node)
					gs = append(gs, Guard{expandGuardCond(info, u.Decl.Body, call.Args[pi], 0), true})
					lockSites = append(lockSites, lockSite{cs.Node, flattenGuards(gs)})
				}
			}
		}
		for _, cs := range lockSites {
			why = ""
			sub := true
			for _, lg := range cs.guards {
				if !siteGuards[lg.String()] {
					sub = false
					why = "lockMutatingData is only taken under " + lg.String() + ", which the mutation is not restricted to"
				}
			}
			if sub && (g.Dominates(cs.node, site) || condDominates(g, info, u, cs.node, site)) {
				okL = true
			}
		}
		if okL {
			r.ok(construct, posOf(p, site), "under the lock taken by lockMutatingData")
		} else {
			r.bad(c.Prop, construct, posOf(p, site), "the file's contents are changed without having waited for frozen readers (lockMutatingData): an upload in progress hashes one version and stores another, so the reported digest does not match the stored bytes ("+why+")")
		}
	}
	// helpers that invalidate the cached digest on all their paths
	invalidators := mustPass(units, func(x *FuncUnit, n ast.Node) bool {
		as, ok := n.(*ast.AssignStmt)
		if !ok || len(as.Lhs) != 1 || len(as.Rhs) != 1 {
			return false
		}
		return fieldOf(x.Info(), as.Lhs[0]) == cd && strings.HasSuffix(exprStr(as.Rhs[0]), "BadDigest")
	})
	for _, u := range units {
		info := u.Info()
		for _, m := range poolFileMutations(p, u) {
			name := ast.Unparen(m.Fun).(*ast.SelectorExpr).Sel.Name
			if !helper[u.Fn] {
				checkSite(u, m, "file."+name)
			}
			// digest invalidation
			construct := constructOf(u, "invalidate-after-"+name)
			g := NewFuncCFG(info, u.Decl.Body)
			okR := false
			resN, resErr := mutationResults(u, m)
			siteGuards := map[string]bool{}
			for _, gd := range flattenGuards(GuardsOf(info, u.Decl.Body, m)) {
				siteGuards[gd.String()] = true
			}
			var invNodes []ast.Node
			for _, w := range FieldWrites([]*FuncUnit{u}, cd, false) {
				if w.RHS == nil || !strings.HasSuffix(exprStr(w.RHS), "BadDigest") {
					continue
				}
				invNodes = append(invNodes, w.Node)
			}
			ast.Inspect(u.Decl.Body, func(k ast.Node) bool {
				if call, ok := k.(*ast.CallExpr); ok {
					if fn := calleeOf(info, call); fn != nil && invalidators[fn] {
						invNodes = append(invNodes, call)
					}
				}
				return true
			})
			for _, wn := range invNodes {
				if !g.Dominates(m, wn) && !(m.Pos() < wn.Pos()) {
					continue
				}
				extraOK := true
				for _, gd := range flattenGuards(GuardsOf(info, u.Decl.Body, wn)) {
					if siteGuards[gd.String()] {
						continue
					}
					s := exprStr(gd.Cond)
					switch {
					case gd.Pos && resN != "" && s == resN+" > 0":
					case resErr != "" && resN == "" && guardErrIsNil(info, gd, resErr):
						// (a call that also reports a byte count may have changed part of the
						// contents although it failed: its invalidation must not depend on err)
					default:
						extraOK = false
					}
				}
				if extraOK {
					okR = true
				}
			}
			if okR {
				r.ok(construct, posOf(p, m), "cachedDigest = BadDigest follows, conditioned only on the call's own results")
			} else {
				r.bad(c.Prop, construct, posOf(p, m), "after the file's contents change the cached digest is not invalidated on every path on which bytes were changed (for a write that reports a byte count this includes partial writes that end in an error): a later upload reuses a digest of the old contents")
			}
		}
		// callers of helpers
		for h := range helper {
			for _, cs := range CallsTo([]*FuncUnit{u}, h) {
				if helper[u.Fn] {
					continue
				}
				checkSite(u, cs.Node, h.Name())
			}
		}
	}
	// the cached digest only receives a real value in updateCachedDigest, called with a frozen reader
	upd := p.LookupFunc(virtualPkg, "fileBackedFile.updateCachedDigest")
	for _, w := range FieldWrites(units, cd, false) {
		if w.RHS != nil && strings.HasSuffix(exprStr(w.RHS), "BadDigest") {
			continue
		}
		construct := constructOf(w.Unit, "cachedDigest = "+exprStr(w.RHS))
		onlyFromUpd := func(fn *types.Func) bool {
			// every static call site of the helper is inside updateCachedDigest
			sites := CallsTo(units, fn)
			if len(sites) == 0 {
				return false
			}
			for _, s := range sites {
				if s.Unit.Fn != upd {
					return false
				}
			}
			return true
		}
		if w.Unit.Fn == upd || onlyFromUpd(w.Unit.Fn) {
			r.ok(construct, posOf(p, w.Node), "in updateCachedDigest (or a helper only it calls)")
		} else {
			r.bad(c.Prop, construct, posOf(p, w.Node), "a digest is cached outside updateCachedDigest, i.e. without the contents being frozen")
		}
	}
	for _, cs := range CallsTo(units, upd) {
		call := cs.Node.(*ast.CallExpr)
		construct := constructOf(cs.Unit, "updateCachedDigest("+exprStr(call.Args[len(call.Args)-1])+")")
		src := tupleSource(cs.Unit, call.Args[len(call.Args)-1])
		okF := false
		if src != nil {
			if fn := calleeOf(cs.Unit.Info(), src); fn != nil && (fn.Name() == "waitAndOpenReadFrozen" || fn.Name() == "openReadFrozen") {
				okF = true
			}
		}
		if okF {
			r.ok(construct, posOf(p, call), "digest computed from a frozen reader")
		} else {
			r.bad(c.Prop, construct, posOf(p, call), "the digest is computed from a reader that does not freeze the file: writers can change the bytes while they are hashed")
		}
	}
	return r
}

// condDominates: the lock call sits in the then-branch of `if c { lockMutatingData() } else { lock.Lock() }`
// and the site is guarded by the same c.
func condDominates(g *FuncCFG, info *types.Info, u *FuncUnit, lockCall, site ast.Node) bool {
	for _, anc := range pathTo(u.Decl.Body, lockCall) {
		if ifs, ok := anc.(*ast.IfStmt); ok {
			if g.Dominates(ifs.Cond, site) {
				return true
			}
		}
	}
	return false
}

// mutationResults returns the names bound to the (count, err) results of the mutation call.
func mutationResults(u *FuncUnit, call *ast.CallExpr) (string, string) {
	n, e := "", ""
	ast.Inspect(u.Decl.Body, func(m ast.Node) bool {
		as, ok := m.(*ast.AssignStmt)
		if !ok || len(as.Rhs) != 1 || ast.Unparen(as.Rhs[0]) != ast.Expr(call) {
			return true
		}
		if len(as.Lhs) == 2 {
			n, e = exprStr(as.Lhs[0]), exprStr(as.Lhs[1])
		} else if len(as.Lhs) == 1 {
			e = exprStr(as.Lhs[0])
		}
		return true
	})
	return n, e
}

func c16Lifetime(c *Ctx) *RuleResult {
	r := &RuleResult{Rule: "C16.lifetime", Floor: 8,
		Doc: "backing storage is released exactly once, when the last reference disappears: the pool file has one Close site, guarded by referenceCount == 0 and followed by file = nil; every operation that adds a reference (Link, VirtualOpenSelf, openReadFrozen, and the handle allocators' Link) first refuses when the count is already zero, so a dead file cannot be resurrected; handle allocators forward Unlink to the file only when their link count reaches zero; a frozen reader's Close undoes exactly what openReadFrozen did"}
	p := c.P
	units := p.UnitsIn(virtualPkg)
	fileField := p.LookupField(virtualPkg, "fileBackedFile", "file")
	rc := p.LookupField(virtualPkg, "fileBackedFile", "referenceCount")
	fdc := p.LookupField(virtualPkg, "fileBackedFile", "frozenDescriptorsCount")
	// close site
	nClose := 0
	for _, u := range units {
		info := u.Info()
		ast.Inspect(u.Decl.Body, func(n ast.Node) bool {
			call, ok := n.(*ast.CallExpr)
			if !ok {
				return true
			}
			sel, ok := ast.Unparen(call.Fun).(*ast.SelectorExpr)
			if !ok || sel.Sel.Name != "Close" || fieldOf(info, sel.X) != fileField {
				return true
			}
			nClose++
			construct := constructOf(u, "pool file Close")
			okG := false
			for _, g := range flattenGuards(GuardsOf(info, u.Decl.Body, call)) {
				if be, ok := ast.Unparen(g.Cond).(*ast.BinaryExpr); ok && g.Pos && be.Op == token.EQL && fieldOf(info, be.X) == rc && exprStr(be.Y) == "0" {
					okG = true
				}
			}
			cleared := false
			gcf := NewFuncCFG(info, u.Decl.Body)
			for _, w := range FieldWrites([]*FuncUnit{u}, fileField, false) {
				if w.RHS != nil && isNilIdent(w.RHS) && gcf.PostDominates(w.Node, call) {
					cleared = true
				}
			}
			if okG && cleared {
				r.ok(construct, posOf(p, call), "guarded by referenceCount == 0, then file = nil")
			} else {
				r.bad(c.Prop, construct, posOf(p, call), fmt.Sprintf("the backing file is closed without the guard referenceCount == 0 (%v) or without clearing the pointer (%v): storage is released while references exist, or twice", okG, cleared))
			}
			return true
		})
	}
	if nClose != 1 {
		r.bad(c.Prop, "fileBackedFile.file|close-sites", "-", fmt.Sprintf("%d sites close the backing file (expected exactly one)", nClose))
	}
	// reference-adding operations refuse at zero
	isCounter := func(v *types.Var) bool {
		return v != nil && (v.Name() == "referenceCount" || v.Name() == "linkCount")
	}
	for _, u := range units {
		if u.Decl.Recv == nil {
			continue
		}
		switch u.Fn.Name() {
		case "Link", "VirtualOpenSelf", "openReadFrozen":
		default:
			continue
		}
		info := u.Info()
		// increments of a counter field of the receiver
		var incs []ast.Node
		var counter *types.Var
		ast.Inspect(u.Decl.Body, func(n ast.Node) bool {
			switch x := n.(type) {
			case *ast.IncDecStmt:
				if f := fieldOf(info, x.X); isCounter(f) && x.Tok == token.INC {
					incs = append(incs, x)
					counter = f
				}
			case *ast.CallExpr:
				if sel, ok := ast.Unparen(x.Fun).(*ast.SelectorExpr); ok {
					if f := fieldOf(info, sel.X); isCounter(f) && (sel.Sel.Name == "Add" || sel.Sel.Name == "CompareAndSwap") {
						incs = append(incs, x)
						counter = f
					}
					if sel.Sel.Name == "acquireShareAccessLocked" {
						incs = append(incs, x)
						counter = rc
					}
				}
			}
			return true
		})
		if len(incs) == 0 {
			continue
		}
		// every increment happens under the knowledge "counter != 0" (the zero case left the function)
		construct := constructOf(u, "refuse-at-zero")
		okT := true
		for _, inc := range incs {
			known := false
			for _, gd := range flattenGuards(GuardsOf(info, u.Decl.Body, inc)) {
				be, ok := ast.Unparen(gd.Cond).(*ast.BinaryExpr)
				if !ok || !gd.Pos || exprStr(be.Y) != "0" {
					continue
				}
				if (be.Op == token.NEQ || be.Op == token.GTR) && isCounterValue(u, be.X, counter) {
					known = true
				}
			}
			if !known {
				okT = false
			}
		}
		if okT {
			r.ok(construct, posOf(p, u.Decl), "the "+counter.Name()+" == 0 test dominates every increment")
		} else {
			r.bad(c.Prop, construct, posOf(p, u.Decl), "a reference is added to a file whose "+counter.Name()+" may already be zero: the file's storage has been (or will be) released while a directory entry or descriptor still refers to it, and the final release happens twice")
		}
	}
	// Unlink forwarding
	for _, u := range units {
		if u.Fn.Name() != "Unlink" || u.Decl.Recv == nil {
			continue
		}
		info := u.Info()
		ast.Inspect(u.Decl.Body, func(n ast.Node) bool {
			call, ok := n.(*ast.CallExpr)
			if !ok {
				return true
			}
			sel, ok := ast.Unparen(call.Fun).(*ast.SelectorExpr)
			if !ok || sel.Sel.Name != "Unlink" || !strings.HasSuffix(exprStr(sel.X), ".LinkableLeaf") {
				return true
			}
			construct := constructOf(u, "forward Unlink")
			okG := false
			for _, g := range flattenGuards(GuardsOf(info, u.Decl.Body, call)) {
				be, ok := ast.Unparen(g.Cond).(*ast.BinaryExpr)
				if !ok || !g.Pos || be.Op != token.EQL || exprStr(be.Y) != "0" {
					continue
				}
				if isCounterValue(u, be.X, nil) {
					okG = true
				}
			}
			if okG {
				r.ok(construct, posOf(p, call), "only when the link count reached zero")
			} else {
				r.bad(c.Prop, construct, posOf(p, call), "the underlying file is unlinked although other hard links may remain (no link-count == 0 guard)")
			}
			return true
		})
	}
	// frozen reader pairing
	op := p.Unit(virtualPkg, "fileBackedFile.openReadFrozen")
	cl := p.Unit(virtualPkg, "frozenFileBackedFile.Close")
	// the functions themselves plus the helpers they call
	withCallees := func(u *FuncUnit) []*FuncUnit {
		out := []*FuncUnit{u}
		for fn := range staticReach(p, []ast.Node{u.Decl.Body}, u.Info()) {
			if fd := p.Decl(fn); fd != nil && relPkg(fn.Pkg()) == virtualPkg {
				out = append(out, &FuncUnit{Fn: fn, Decl: fd, Pkg: p.declPkg[fd]})
			}
		}
		return out
	}
	opU, clU := withCallees(op), withCallees(cl)
	incBoth := len(FieldWrites(opU, rc, false)) > 0 && len(FieldWrites(opU, fdc, false)) > 0
	decF := false
	for _, w := range FieldWrites(clU, fdc, false) {
		if inc, ok := w.Node.(*ast.IncDecStmt); ok && inc.Tok == token.DEC {
			decF = true
		}
	}
	rel := len(CallsTo(clU, p.LookupFunc(virtualPkg, "fileBackedFile.releaseReferencesLocked"))) > 0
	if incBoth && decF && rel {
		r.ok("frozen-reader|pairing", posOf(p, cl.Decl), "openReadFrozen takes a reference and a freeze; Close gives both back")
	} else {
		r.bad(c.Prop, "frozen-reader|pairing", posOf(p, cl.Decl), "opening and closing a frozen reader do not change the same counters")
	}
	return r
}

func c16Frozen(c *Ctx) *RuleResult {
	r := &RuleResult{Rule: "C16.frozen-readers", Floor: 2,
		Doc: "every frozen reader obtained inside pool_backed_file_allocator (waitAndOpenReadFrozen / openReadFrozen with success) is closed exactly once on every path, or handed over: to a buffer built from it (which closes it), returned, or stored in the caller's request structure"}
	p := c.P
	for _, u := range p.UnitsIn(virtualPkg) {
		info := u.Info()
		spec := &OblSpec{Name: "frozen", Min: 1, Max: 1,
			Create: func(n ast.Node) []Born {
				as, ok := n.(*ast.AssignStmt)
				if !ok || len(as.Rhs) != 1 || len(as.Lhs) != 2 {
					return nil
				}
				call, ok := ast.Unparen(as.Rhs[0]).(*ast.CallExpr)
				if !ok {
					return nil
				}
				fn := calleeOf(info, call)
				if fn == nil || (fn.Name() != "waitAndOpenReadFrozen" && fn.Name() != "openReadFrozen") {
					return nil
				}
				return []Born{{Key: exprStr(as.Lhs[0]), Pos: as.Pos(), FailTest: boolOKTest(exprStr(as.Lhs[1]))}}
			},
			Discharge: func(n ast.Node, key string) int {
				if _, ok := methodCallOn(n, key, "Close"); ok {
					return 1
				}
				return 0
			},
			Transfer: func(n ast.Node, key string) bool {
				switch x := n.(type) {
				case *ast.CallExpr:
					if fn := calleeOf(info, x); fn != nil && strings.HasPrefix(fn.Name(), "NewValidatedBufferFromReaderAt") {
						for _, a := range x.Args {
							if exprStr(a) == key {
								return true
							}
						}
					}
				case *ast.AssignStmt:
					for i, rhs := range x.Rhs {
						if exprStr(rhs) == key && i < len(x.Lhs) {
							if _, isSel := ast.Unparen(x.Lhs[i]).(*ast.SelectorExpr); isSel {
								return true
							}
						}
					}
				case *ast.ReturnStmt:
					for _, res := range x.Results {
						if exprStr(res) == key {
							return true
						}
					}
				}
				return false
			},
		}
		res := RunObligation(info, u.Decl.Body, spec)
		if res.Created == 0 {
			continue
		}
		construct := constructOf(u, "frozen reader")
		if len(res.Violations) == 0 {
			r.ok(construct, posOf(p, u.Decl), fmt.Sprintf("closed once or handed over on all %d exits", res.Exits))
		}
		for _, v := range res.Violations {
			msg := v.Msg
			if msg == "" {
				msg = fmt.Sprintf("closed %d times on the path to the %s", v.Count, oblExitDesc(p, v))
			}
			r.bad(c.Prop, construct, p.Pos(v.Born.Pos), "a frozen reader is not released exactly once ("+msg+"): the file stays frozen (writers block forever) and keeps a reference (storage never released)")
		}
	}
	return r
}

func init() {
	register(&PropertySpec{
		ID:          "C16",
		Level:       "other",
		Explanation: "Structural necessary conditions, on all paths: the contents of a pool-backed file change only under the lock obtained through lockMutatingData (which waits for uploads) and the cached digest is invalidated after every successful change; digests are only cached from frozen readers; one guarded close site of the backing file; reference-adding operations refuse a zero count (no resurrection), Unlink is forwarded only at zero; frozen readers are closed once or handed to a buffer. Lifetime over all histories and digest equality with the stored bytes are not decided.",
		Assumptions: []string{"buffers built from a reader close it exactly once (bb-storage contract)"},
		Rules:       []RuleFunc{c16MutatingLock, c16Lifetime, c16Frozen, c16LinkForwarding, c13LinkBalance, c16FrozenRules, c16CloseReleasesCount},
	})
}

// isCounterValue: x denotes the current value of a reference/link counter field (the given one, or
// any field named referenceCount/linkCount when counter == nil): the field itself, a Load()/Add()
// on it (atomic counters), or a local every assignment of which is one of those.
func isCounterValue(u *FuncUnit, x ast.Expr, counter *types.Var) bool {
	info := u.Info()
	isC := func(v *types.Var) bool {
		if v == nil {
			return false
		}
		if counter != nil {
			return v == counter
		}
		return v.Name() == "referenceCount" || v.Name() == "linkCount"
	}
	var direct func(e ast.Expr) bool
	direct = func(e ast.Expr) bool {
		e = ast.Unparen(e)
		if isC(fieldOf(info, e)) {
			return true
		}
		if call, ok := e.(*ast.CallExpr); ok {
			if sel, ok := ast.Unparen(call.Fun).(*ast.SelectorExpr); ok && isC(fieldOf(info, sel.X)) && (sel.Sel.Name == "Load" || sel.Sel.Name == "Add") {
				return true
			}
		}
		return false
	}
	if direct(x) {
		return true
	}
	id, ok := ast.Unparen(x).(*ast.Ident)
	if !ok {
		return false
	}
	v, ok := info.Uses[id].(*types.Var)
	if !ok {
		return false
	}
	n, all := 0, true
	ast.Inspect(u.Decl.Body, func(m ast.Node) bool {
		as, ok := m.(*ast.AssignStmt)
		if !ok || len(as.Lhs) != len(as.Rhs) {
			return true
		}
		for i, l := range as.Lhs {
			if lid, ok := l.(*ast.Ident); ok && (info.Defs[lid] == v || info.Uses[lid] == v) {
				n++
				if !direct(as.Rhs[i]) {
					all = false
				}
			}
		}
		return true
	})
	return n > 0 && all
}
