package main

// Rules added after the sixth round of independently seeded changes (DESIGN.md §8.5).

import (
	"fmt"
	"go/ast"
	"go/token"
	"go/types"
	"strings"
)

// schedStaleWorkerRemoval: the emptiness test that arms queue removal sees the map without the
// worker, and the removal deadline is counted from the worker's own removal time.
func schedStaleWorkerRemoval(c *Ctx) *RuleResult {
	r := &RuleResult{Rule: c.Prop + ".stale-worker-removal", Floor: 2,
		Doc: "a size-class queue whose last worker disappeared is removed after its timeout, failing what it holds: where a worker is deleted from sizeClassQueue.workers and queue removal is armed under len(workers) == 0 in the same function, the deletion dominates that test; and when the function is handed the time of the removal as a parameter, the deadline is computed from that parameter (not from the scheduler's cached 'now', which only advances when somebody calls in)"}
	p := c.P
	units := p.UnitsIn(schedPkg)
	workers := p.LookupField(schedPkg, "sizeClassQueue", "workers")
	qKey := p.LookupField(schedPkg, "sizeClassQueue", "cleanupKey")
	add := p.LookupFunc(schedPkg, "cleanupQueue.add")
	// arming sites: add(&queue.cleanupKey, deadline, ...) with the emptiness test that guards them
	type arming struct {
		u    *FuncUnit
		call *ast.CallExpr
		test ast.Node
	}
	var armings []arming
	armers := map[*types.Func]bool{}
	for _, u := range units {
		info := u.Info()
		for _, cs := range CallsTo([]*FuncUnit{u}, add) {
			call := cs.Node.(*ast.CallExpr)
			if len(call.Args) != 3 {
				continue
			}
			ue, ok := ast.Unparen(call.Args[0]).(*ast.UnaryExpr)
			if !ok || fieldOf(info, ue.X) != qKey {
				continue
			}
			var test ast.Node
			for _, gd := range flattenGuards(GuardsOf(info, u.Decl.Body, call)) {
				ast.Inspect(gd.Cond, func(n ast.Node) bool {
					if e, ok := n.(ast.Expr); ok && fieldOf(info, e) == workers {
						test = origOf(gd.Cond)
					}
					return true
				})
			}
			armings = append(armings, arming{u, call, test})
			armers[u.Fn] = true
		}
	}
	// (a) the deletion precedes the test -- locally, or the call of the helper that tests and arms
	for _, u := range units {
		info := u.Info()
		var del ast.Node
		for _, w := range FieldWrites([]*FuncUnit{u}, workers, false) {
			if _, ok := w.Node.(*ast.CallExpr); ok {
				del = w.Node
			}
		}
		if del == nil {
			continue
		}
		g := NewFuncCFG(info, u.Decl.Body)
		var tests []ast.Node
		for _, a := range armings {
			if a.u.Fn == u.Fn && a.test != nil {
				tests = append(tests, a.test)
			}
		}
		// an emptiness test in this function that guards a call of an arming helper
		ast.Inspect(u.Decl.Body, func(n ast.Node) bool {
			call, ok := n.(*ast.CallExpr)
			if !ok || !armers[calleeOf(info, call)] {
				return true
			}
			for _, gd := range flattenGuards(GuardsOf(info, u.Decl.Body, call)) {
				ast.Inspect(gd.Cond, func(m ast.Node) bool {
					if e, ok := m.(ast.Expr); ok && fieldOf(info, e) == workers {
						tests = append(tests, origOf(gd.Cond))
					}
					return true
				})
			}
			return true
		})
		ast.Inspect(u.Decl.Body, func(n ast.Node) bool {
			if call, ok := n.(*ast.CallExpr); ok && armers[calleeOf(info, call)] && calleeOf(info, call) != u.Fn {
				tests = append(tests, call)
			}
			return true
		})
		for _, test := range tests {
			construct := constructOf(u, "emptiness test after deletion")
			if g.Dominates(del, test) {
				r.ok(construct, posOf(p, del), "the worker is deleted before the queue is tested for emptiness")
			} else {
				r.bad(c.Prop, construct, posOf(p, del), "the queue is tested for emptiness while the disappearing worker is still registered: the test never holds, the queue is never removed and clients blocked on it are never failed")
			}
		}
	}
	// (b) the deadline
	for _, a := range armings {
		u, call := a.u, a.call
		info := u.Info()
		sig := u.Fn.Type().(*types.Signature)
		var tparam *types.Var
		for i := 0; i < sig.Params().Len(); i++ {
			if namedIs(sig.Params().At(i).Type(), "time", "Time") {
				tparam = sig.Params().At(i)
			}
		}
		if tparam == nil {
			continue
		}
		construct := constructOf(u, "removal deadline")
		uses := false
		ast.Inspect(call.Args[1], func(n ast.Node) bool {
			if id, ok := n.(*ast.Ident); ok && info.Uses[id] == tparam {
				uses = true
			}
			return true
		})
		if !uses {
			if id, ok := ast.Unparen(call.Args[1]).(*ast.Ident); ok {
				ast.Inspect(resolveLocalAlias(u, id), func(n ast.Node) bool {
					if x, ok := n.(*ast.Ident); ok && info.Uses[x] == tparam {
						uses = true
					}
					return true
				})
			}
		}
		if uses {
			r.ok(construct, posOf(p, call), "counted from "+tparam.Name())
		} else {
			r.bad(c.Prop, construct, posOf(p, call), "the queue's removal deadline is not computed from the removal time the function is given ("+tparam.Name()+"): on a quiet scheduler the queue outlives its timeout and blocked clients are not failed in time")
		}
	}
	return r
}

// c04StartedPerLevel: the least-recently-served order is maintained on every level.
func c04StartedPerLevel(c *Ctx) *RuleResult {
	r := &RuleResult{Rule: "C04.started-per-level", Floor: 1,
		Doc: "ties go to the least recently served invocation on every level of the tree: the store to invocation.lastOperationStarted sits inside the loop that walks from the invocation up to the root (the loop that advances its cursor to .parent), like the executing-workers count it accompanies"}
	p := c.P
	los := p.LookupField(schedPkg, "invocation", "lastOperationStarted")
	parent := p.LookupField(schedPkg, "invocation", "parent")
	for _, w := range FieldWrites(p.UnitsIn(schedPkg), los, false) {
		u := w.Unit
		info := u.Info()
		construct := constructOf(u, "lastOperationStarted per level")
		inWalk := false
		for _, anc := range pathTo(u.Decl.Body, w.Node) {
			fs, ok := anc.(*ast.ForStmt)
			if !ok {
				continue
			}
			ast.Inspect(fs, func(n ast.Node) bool {
				if as, ok := n.(*ast.AssignStmt); ok && len(as.Rhs) == 1 && fieldOf(info, as.Rhs[0]) == parent {
					inWalk = true
				}
				return true
			})
		}
		if inWalk {
			r.ok(construct, posOf(p, w.Node), "updated for the invocation and all its ancestors")
		} else {
			r.bad(c.Prop, construct, posOf(p, w.Node), "only one level's 'last served' time is refreshed: among nested invocations the older top-level invocation wins every tie")
		}
	}
	return r
}

// c05TrieSiblings: the exact lookups of the two-level trie stay exact.
func c05TrieSiblings(c *Ctx) *RuleResult {
	r := &RuleResult{Rule: "C05.trie-exact", Floor: 2,
		Doc: "a task is matched to the longest REGISTERED prefix: the methods of platform.Trie that answer for one exact key (names ending in Exact) consult the per-platform instance-name trie through an exact lookup as well, never through GetLongestPrefix (which would report unregistered nested names as registered)"}
	p := c.P
	for _, u := range p.UnitsIn("pkg/scheduler/platform") {
		if u.Decl.Recv == nil || recvTypeName(u) != "Trie" || !strings.HasSuffix(u.Fn.Name(), "Exact") {
			continue
		}
		construct := constructOf(u, "exact lookup")
		bad := ""
		ast.Inspect(u.Decl.Body, func(n ast.Node) bool {
			if call, ok := n.(*ast.CallExpr); ok {
				if sel, ok := ast.Unparen(call.Fun).(*ast.SelectorExpr); ok && strings.Contains(sel.Sel.Name, "LongestPrefix") {
					bad = posOf(p, call)
				}
			}
			return true
		})
		if bad == "" {
			r.ok(construct, posOf(p, u.Decl), "no longest-prefix lookup")
		} else {
			r.bad(c.Prop, construct, bad, "an exact-key method of the platform trie answers with a longest-prefix lookup: a worker announcing an unregistered nested prefix is attached to the queue of a shorter registered one")
		}
	}
	return r
}

// c07QueueOnce / c07AnalyzeReleases
func c07QueueOnce(c *Ctx) *RuleResult {
	r := &RuleResult{Rule: "C07.queue-once", Floor: 1,
		Doc: "a later update is never overwritten or dropped: a statistics handle is appended to the write queue only when its recorded queue position says it is not queued (index < 0), so it is never queued twice"}
	p := c.P
	units := p.UnitsIn("pkg/blobstore")
	htw := p.LookupField("pkg/blobstore", "blobAccessMutableProtoStore", "handlesToWrite")
	idx := p.LookupField("pkg/blobstore", "blobAccessMutableProtoHandle", "handlesToWriteIndex")
	for _, u := range units {
		info := u.Info()
		ast.Inspect(u.Decl.Body, func(n ast.Node) bool {
			x, ok := n.(*ast.AssignStmt)
			if !ok || len(x.Lhs) != 1 || len(x.Rhs) != 1 || !fieldOfGeneric(info, x.Lhs[0], htw) || !strings.HasPrefix(exprStr(x.Rhs[0]), "append(") {
				return true
			}
			construct := constructOf(u, "queue only when not queued")
			okG := false
			for _, g := range flattenGuards(GuardsOf(info, u.Decl.Body, x)) {
				be, ok := ast.Unparen(g.Cond).(*ast.BinaryExpr)
				if ok && g.Pos && fieldOfGeneric(info, be.X, idx) && (be.Op == token.LSS && exprStr(be.Y) == "0" || be.Op == token.EQL && exprStr(be.Y) == "-1") {
					okG = true
				}
			}
			if okG {
				r.ok(construct, posOf(p, x), "guarded by handlesToWriteIndex < 0")
			} else {
				r.bad(c.Prop, construct, posOf(p, x), "a handle can be appended to the write queue while it is already in it: the queue's index invariant breaks (panic with the store lock held) and the later update is never written")
			}
			return true
		})
	}
	return r
}

// c09ExecuteUploadErrors: a failed upload of stdout/stderr is reported.
func c09ExecuteUploadErrors(c *Ctx) *RuleResult {
	r := &RuleResult{Rule: "C09.log-upload-errors", Floor: 1,
		Doc: "if any storage write fails the response carries an error: in localBuildExecutor.Execute the error of EVERY UploadFile call (stdout, stderr) reaches attachErrorToExecuteResponse on the branch where it is non-nil"}
	p := c.P
	u0 := p.Unit(builderPkg, "localBuildExecutor.Execute")
	attach := p.LookupFunc(builderPkg, "attachErrorToExecuteResponse")
	// the executor itself and the helpers that attach errors to the response on its behalf
	cands := []*FuncUnit{u0}
	for _, cs := range CallsTo(p.UnitsIn(builderPkg), attach) {
		dup := false
		for _, x := range cands {
			if x.Fn == cs.Unit.Fn {
				dup = true
			}
		}
		if !dup {
			cands = append(cands, cs.Unit)
		}
	}
	for _, u := range cands {
		info := u.Info()
		ast.Inspect(u.Decl.Body, func(n ast.Node) bool {
			as, ok := n.(*ast.AssignStmt)
			if !ok || len(as.Rhs) != 1 || len(as.Lhs) != 2 {
				return true
			}
			call, ok := ast.Unparen(as.Rhs[0]).(*ast.CallExpr)
			if !ok {
				return true
			}
			sel, ok := ast.Unparen(call.Fun).(*ast.SelectorExpr)
			if !ok || sel.Sel.Name != "UploadFile" {
				return true
			}
			eid, ok := as.Lhs[1].(*ast.Ident)
			if !ok {
				return true
			}
			eobj := info.ObjectOf(eid)
			construct := constructOf(u, "UploadFile("+exprStr(call.Args[1])+") error reported")
			okA := false
			for _, cs := range CallsTo([]*FuncUnit{u}, attach) {
				ac := cs.Node.(*ast.CallExpr)
				if ac.Pos() < call.Pos() {
					continue
				}
				mentions := false
				ast.Inspect(ac, func(m ast.Node) bool {
					if id, ok := m.(*ast.Ident); ok && info.ObjectOf(id) == eobj {
						mentions = true
					}
					return true
				})
				if !mentions {
					continue
				}
				// the variable must still hold THIS call's error: no other assignment in between
				clobbered := false
				ast.Inspect(u.Decl.Body, func(m ast.Node) bool {
					if o, ok := m.(*ast.AssignStmt); ok && o != as && o.Pos() > as.Pos() && o.Pos() < ac.Pos() {
						for _, l := range o.Lhs {
							if lid, ok := l.(*ast.Ident); ok && info.ObjectOf(lid) == eobj {
								clobbered = true
							}
						}
					}
					return true
				})
				if !clobbered {
					okA = true
				}
			}
			if okA {
				r.ok(construct, posOf(p, call), "attached to the response when non-nil")
			} else {
				r.bad(c.Prop, construct, posOf(p, call), "the error of this upload never reaches the response: a failed write of the command's output leaves the response OK and the incomplete result is cached")
			}
			return true
		})
	}
	return r
}

// c11NoDeadlineOverride: the compensated context does not advertise an uncompensated deadline.
func c11NoDeadlineOverride(c *Ctx) *RuleResult {
	r := &RuleResult{Rule: "C11.context-methods", Floor: 1,
		Doc: "a command that finishes within its unsuspended budget is never cancelled: the context handed to the action overrides Done/Err (and values) only; it does not define its own Deadline, so what gRPC forwards to the runner is the base context's deadline, which already includes the maximum compensation"}
	p := c.P
	errFn := p.LookupFunc("pkg/clock", "suspendableContext.Err")
	rt := recvNamedOf(errFn)
	n := 0
	for _, u := range p.UnitsIn("pkg/clock") {
		if u.Decl.Recv == nil || recvNamedOf(u.Fn) != rt {
			continue
		}
		n++
		construct := constructOf(u, "context method")
		if u.Fn.Name() == "Deadline" {
			r.bad(c.Prop, construct, posOf(p, u.Decl), "the action's context reports a deadline of its own: the runner (reached over gRPC, which forwards Deadline()) kills the command at the plain wall-clock timeout although time spent stalled on storage was to be excluded")
		} else {
			r.ok(construct, posOf(p, u.Decl), u.Fn.Name())
		}
	}
	_ = n
	return r
}

func recvNamedOf(fn *types.Func) *types.TypeName {
	sig := fn.Type().(*types.Signature)
	if sig.Recv() == nil {
		return nil
	}
	t := sig.Recv().Type()
	if pt, ok := t.(*types.Pointer); ok {
		t = pt.Elem()
	}
	if nt, ok := t.(*types.Named); ok {
		return nt.Obj()
	}
	return nil
}

// c12ChainKeepsFirstError: a later successful cleaner does not hide an earlier failure.
func c12ChainKeepsFirstError(c *Ctx) *RuleResult {
	r := &RuleResult{Rule: "C12.chain-first-error", Floor: 1,
		Doc: "an action does not start if the cleaning before it failed: the chained cleaner overwrites its accumulated error only while that error is still nil (the store is guarded by `acc == nil` as a conjunct), so the first failure survives the cleaners that follow it"}
	p := c.P
	u := p.Unit("pkg/cleaner", "NewChainedCleaner")
	info := u.Info()
	// the accumulator: the error variable (or field of a recorder object) returned by the closure
	objOf := func(x *FuncUnit, e ast.Expr) types.Object {
		switch y := ast.Unparen(e).(type) {
		case *ast.Ident:
			return x.Info().ObjectOf(y)
		case *ast.SelectorExpr:
			if f := fieldOf(x.Info(), y); f != nil {
				return f
			}
		}
		return nil
	}
	var acc types.Object
	ast.Inspect(u.Decl.Body, func(n ast.Node) bool {
		if fl, ok := n.(*ast.FuncLit); ok {
			ast.Inspect(fl.Body, func(m ast.Node) bool {
				if ret, ok := m.(*ast.ReturnStmt); ok && len(ret.Results) == 1 && enclosingFuncLit(u.Decl.Body, ret) == fl {
					if o := objOf(u, ret.Results[0]); o != nil {
						acc = o
					}
				}
				return true
			})
		}
		return true
	})
	_ = info
	if acc == nil {
		panic(anchorError("NewChainedCleaner: accumulated error variable"))
	}
	for _, x := range p.UnitsIn("pkg/cleaner") {
		xinfo := x.Info()
		ast.Inspect(x.Decl.Body, func(n ast.Node) bool {
			as, ok := n.(*ast.AssignStmt)
			if !ok || as.Tok != token.ASSIGN || len(as.Lhs) != 1 || objOf(x, as.Lhs[0]) != acc {
				return true
			}
			construct := constructOf(x, "accumulated error store")
			okG := false
			for _, g := range flattenGuards(GuardsOf(xinfo, x.Decl.Body, as)) {
				if y, nonNil, ok := nilTestOf(g); ok && !nonNil && objOf(x, y) == acc {
					okG = true
				}
			}
			if okG {
				r.ok(construct, posOf(p, as), "only while no error was recorded yet")
			} else {
				r.bad(c.Prop, construct, posOf(p, as), "the accumulated error can be overwritten after a failure was recorded: a cleaner that succeeds after one that failed resets the error, and the action starts although cleaning failed")
			}
			return true
		})
	}
	return r
}

// c13HiddenOnlyLeaves: the hidden-files pattern hides files, never directories.
func c13HiddenOnlyLeaves(c *Ctx) *RuleResult {
	r := &RuleResult{Rule: "C13.hidden-only-leaves", Floor: 1,
		Doc: "worker-facing and kernel-facing calls agree on what a directory contains: in the methods of the in-memory directory that list entries (ReadDir), the hidden-files matcher is only consulted for entries that are not directories (under the failed `directory != nil` test), as the emptiness check and the kernel-facing listing do"}
	p := c.P
	hm := p.LookupField(virtualPkg, "inMemoryFilesystem", "hiddenFilesMatcher")
	u0 := p.Unit(virtualPkg, "inMemoryPrepopulatedDirectory.ReadDir")
	cands := []*FuncUnit{u0}
	for fn := range staticReach(p, []ast.Node{u0.Decl.Body}, u0.Info()) {
		if hu := p.UnitOf(fn); hu != nil && fn.Pkg() == u0.Fn.Pkg() && hu.Fn.Name() != "isDeletable" {
			cands = append(cands, hu)
		}
	}
	for _, u := range cands {
		info := u.Info()
		ast.Inspect(u.Decl.Body, func(n ast.Node) bool {
			call, ok := n.(*ast.CallExpr)
			if !ok {
				return true
			}
			if fieldOf(info, call.Fun) != hm {
				// ... or the matcher handed down as a function value
				tv, ok := info.Types[call.Fun]
				if !ok || !namedIs(tv.Type, modPath+"/"+virtualPkg, "StringMatcher") {
					return true
				}
			}
			construct := constructOf(u, "hidden-files matcher")
			okG := false
			for _, g := range flattenGuards(GuardsOf(info, u.Decl.Body, call)) {
				if x, nonNil, ok := nilTestOf(g); ok {
					if tv, ok := info.Types[x]; ok {
						if !nonNil && strings.Contains(tv.Type.String(), "Directory") {
							okG = true // not a directory
						}
						if nonNil && strings.Contains(tv.Type.String(), "Leaf") {
							okG = true // a leaf
						}
					}
				}
			}
			if okG {
				r.ok(construct, posOf(p, call), "only for non-directories")
			} else {
				r.bad(c.Prop, construct, posOf(p, call), "directories whose name matches the hidden-files pattern disappear from the worker-facing listing while lookups, rmdir's emptiness check and the kernel-facing listing still see them")
			}
			return true
		})
	}
	return r
}

// c15PoolRules: device offsets are computed in 64 bits; Close always gives the sectors back.
func c15PoolRules(c *Ctx) *RuleResult {
	r := &RuleResult{Rule: "C15.pool-close-offset", Floor: 2,
		Doc: "files never see each other's data and sectors are conserved also after failed operations: the byte offset of a sector on the block device is a product of 64-bit operands (a 32-bit product aliases sectors 4 GiB apart); and blockDeviceBackedFile.Close hands its sectors back to the allocator on every returning path (also when closing the hole source fails)"}
	p := c.P
	tu := p.Unit(poolPkg, "blockDeviceBackedFile.toDeviceOffset")
	info := tu.Info()
	n := 0
	ast.Inspect(tu.Decl.Body, func(m ast.Node) bool {
		be, ok := m.(*ast.BinaryExpr)
		if !ok || be.Op != token.MUL {
			return true
		}
		n++
		construct := constructOf(tu, "64-bit product")
		tv, ok := info.Types[be]
		if ok {
			if b, isB := tv.Type.Underlying().(*types.Basic); isB && (b.Kind() == types.Int64 || b.Kind() == types.Uint64) {
				r.ok(construct, posOf(p, be), b.Name())
				return true
			}
		}
		r.bad(c.Prop, construct, posOf(p, be), "the sector offset is multiplied in fewer than 64 bits: beyond 4 GiB the product wraps and two files' sectors map to the same device location")
		return true
	})
	if n == 0 {
		r.ok(constructOf(tu, "64-bit product"), posOf(p, tu.Decl), "no multiplication (computed otherwise)")
	}
	cu := p.Unit(poolPkg, "blockDeviceBackedFile.Close")
	cinfo := cu.Info()
	sectors := p.LookupField(poolPkg, "blockDeviceBackedFile", "sectors")
	_ = cinfo
	construct := constructOf(cu, "sectors released on every path")
	// every returning path passes the test of len(sectors) (whose true branch frees them) or a free
	// call -- directly or in a helper all of whose paths do
	if mustPass(p.UnitsIn(poolPkg), func(x *FuncUnit, m ast.Node) bool {
		call, ok := m.(*ast.CallExpr)
		if !ok {
			return false
		}
		// len(f.sectors) in the guarding test, or FreeList(f.sectors)
		for _, a := range call.Args {
			if fieldOf(x.Info(), a) == sectors || containerFieldOf(x, a) == sectors {
				return true
			}
		}
		return false
	})[cu.Fn] {
		r.ok(construct, posOf(p, cu.Decl), "freed before anything that can fail")
	} else {
		r.bad(c.Prop, construct, posOf(p, cu.Decl), "Close can return (e.g. with the hole source's error) without having handed the file's sectors back: they leak while the quota is released, so the pool runs out of space")
	}
	return r
}

// c16CloseReleasesCount: a descriptor gives back as many references as it took.
func c16CloseReleasesCount(c *Ctx) *RuleResult {
	r := &RuleResult{Rule: "C16.close-count", Floor: 1,
		Doc: "storage is released exactly once, when the last reference disappears: VirtualClose of a pool-backed file releases references on every returning path, and the number released is computed from the share mask (its Count()), matching what opening with that mask acquired -- not a constant per branch"}
	p := c.P
	u := p.Unit(virtualPkg, "fileBackedFile.VirtualClose")
	rel := p.LookupFunc(virtualPkg, "fileBackedFile.releaseReferencesLocked")
	cands := []*FuncUnit{u}
	for fn := range staticReach(p, []ast.Node{u.Decl.Body}, u.Info()) {
		if hu := p.UnitOf(fn); hu != nil && fn.Pkg() == u.Fn.Pkg() && fn != rel {
			cands = append(cands, hu)
		}
	}
	construct := constructOf(u, "references released")
	nsites := 0
	okAll := true
	for _, x := range cands {
		for _, cs := range CallsTo([]*FuncUnit{x}, rel) {
			nsites++
			call := cs.Node.(*ast.CallExpr)
			fromMask := false
			ast.Inspect(resolveLocalAlias(x, call.Args[0]), func(n ast.Node) bool {
				if mc, ok := n.(*ast.CallExpr); ok {
					if sel, ok := ast.Unparen(mc.Fun).(*ast.SelectorExpr); ok && sel.Sel.Name == "Count" {
						if tv, ok := x.Info().Types[sel.X]; ok && namedIs(tv.Type, modPath+"/"+virtualPkg, "ShareMask") {
							fromMask = true
						}
					}
				}
				return true
			})
			if !fromMask {
				okAll = false
			}
		}
	}
	if nsites == 0 || !mustPass(cands, func(x *FuncUnit, n ast.Node) bool {
		call, ok := n.(*ast.CallExpr)
		return ok && calleeOf(x.Info(), call) == rel
	})[u.Fn] {
		okAll = false
	}
	if okAll {
		r.ok(construct, posOf(p, u.Decl), "count derived from the share mask, on every path")
	} else {
		r.bad(c.Prop, construct, posOf(p, u.Decl), "closing does not give back the number of references the share mask stands for on every path: a descriptor opened for reading and writing took two references but returns one, and the backing file is never released")
	}
	return r
}

// c17ShortReadIsError: a short read from storage is an error, not a short file.
func c17ShortReadIsError(c *Ctx) *RuleResult {
	r := &RuleResult{Rule: "C17.short-read", Floor: 1,
		Doc: "storage errors surface as errors and files have the contents named by the digest: in the CAS file's VirtualRead, every path on which fewer bytes than requested were read (the `n != len(buf)` branch) returns a status other than StatusOK"}
	p := c.P
	u := p.Unit(virtualPkg, "blobAccessCASFile.VirtualRead")
	cands := []*FuncUnit{u}
	for fn := range staticReach(p, []ast.Node{u.Decl.Body}, u.Info()) {
		if hu := p.UnitOf(fn); hu != nil && fn.Pkg() == u.Fn.Pkg() {
			cands = append(cands, hu)
		}
	}
	isOKRet := func(ret *ast.ReturnStmt) bool {
		return len(ret.Results) > 0 && strings.HasSuffix(exprStr(ret.Results[len(ret.Results)-1]), "StatusOK")
	}
	noOK := func(stmts []ast.Stmt) bool {
		res := true
		for _, st := range stmts {
			ast.Inspect(st, func(k ast.Node) bool {
				if ret, ok := k.(*ast.ReturnStmt); ok && isOKRet(ret) {
					res = false
				}
				return true
			})
		}
		return res
	}
	n := 0
	for _, x := range cands {
		info := x.Info()
		hasRead := false
		ast.Inspect(x.Decl.Body, func(m ast.Node) bool {
			if call, ok := m.(*ast.CallExpr); ok {
				if sel, ok := ast.Unparen(call.Fun).(*ast.SelectorExpr); ok && sel.Sel.Name == "ReadAt" {
					hasRead = true
				}
			}
			return true
		})
		if !hasRead {
			continue
		}
		ast.Inspect(x.Decl.Body, func(m ast.Node) bool {
			blk, ok := m.(*ast.BlockStmt)
			if !ok {
				return true
			}
			for i, st := range blk.List {
				ifs, ok := st.(*ast.IfStmt)
				if !ok {
					continue
				}
				be, ok := ast.Unparen(ifs.Cond).(*ast.BinaryExpr)
				if !ok || (be.Op != token.NEQ && be.Op != token.EQL) || !(strings.HasPrefix(exprStr(be.Y), "len(") || strings.HasPrefix(exprStr(be.X), "len(")) {
					continue
				}
				if _, isLit := ast.Unparen(be.Y).(*ast.BasicLit); isLit {
					continue // len(buf) == 0 and the like
				}
				if _, isLit := ast.Unparen(be.X).(*ast.BasicLit); isLit {
					continue
				}
				n++
				construct := constructOf(x, "short read")
				okB := false
				if be.Op == token.NEQ {
					okB = terminates(info, ifs.Body.List) && noOK(ifs.Body.List)
				} else {
					// `if n == len(p) { return OK }` followed by the short-read handling
					rest := blk.List[i+1:]
					if ifs.Else != nil {
						if eb, ok := ifs.Else.(*ast.BlockStmt); ok {
							rest = eb.List
						}
					}
					okB = terminates(info, ifs.Body.List) && len(rest) > 0 && terminates(info, rest) && noOK(rest)
				}
				if okB {
					r.ok(construct, posOf(p, ifs), "always an error")
				} else {
					r.bad(c.Prop, construct, posOf(p, ifs), "a read that was cut short by a storage error can be reported as a successful (shorter) read: the file appears truncated instead of the error surfacing")
				}
			}
			return true
		})
	}
	if n == 0 {
		r.bad(c.Prop, constructOf(u, "short read"), posOf(p, u.Decl), "the number of bytes read is no longer compared with the number requested")
	}
	return r
}

// c18DowngradeSubset / idle list order
func c18DowngradeAndIdleOrder(c *Ctx) *RuleResult {
	r := &RuleResult{Rule: "C18.downgrade-subset", Floor: 3,
		Doc: "a state ID never claims more access than the file was opened for, and leases expire oldest first: every comparison of a requested share mask with an open's share mask that guards a refusal is the subset test `requested &^ granted != 0` (never an overlap test), in both protocol versions; and a client confirmation is linked into the idle list at its tail (next = the list head sentinel), the order the expiry loop relies on"}
	p := c.P
	units := p.UnitsIn(nfsPkg)
	for _, u := range units {
		info := u.Info()
		ast.Inspect(u.Decl.Body, func(n ast.Node) bool {
			be, ok := n.(*ast.BinaryExpr)
			if !ok || (be.Op != token.AND_NOT && be.Op != token.AND) {
				return true
			}
			isMask := func(e ast.Expr) bool {
				tv, ok := info.Types[e]
				return ok && namedIs(tv.Type, modPath+"/"+virtualPkg, "ShareMask")
			}
			// requested (a local) against a granted mask (a field named shareAccess)
			f := fieldOf(info, be.Y)
			if !isMask(be.X) || !isMask(be.Y) || f == nil || f.Name() != "shareAccess" {
				return true
			}
			if _, isLocal := ast.Unparen(be.X).(*ast.Ident); !isLocal {
				return true
			}
			construct := constructOf(u, "share mask test against "+exprStr(be.Y))
			if be.Op == token.AND_NOT {
				r.ok(construct+"@"+posOf(p, be), posOf(p, be), "subset test")
			} else {
				r.bad(c.Prop, construct, posOf(p, be), "the requested access is tested for overlap with, not containment in, the access the file was opened with: a 'downgrade' to a superset is accepted and the state ID then claims access the leaf was never opened for (closing underflows the share count)")
			}
			return true
		})
	}
	// idle list: wherever an element's "next" link is set from the list head, it is set to the head
	// itself (insertion before the sentinel = at the tail), never to the head's successor
	next := p.LookupField(nfsPkg, "clientConfirmationState", "nextIdle")
	head := p.LookupField(nfsPkg, "nfs40Program", "idleClientConfirmations")
	for _, w := range FieldWrites(units, next, false) {
		if w.RHS == nil {
			continue
		}
		u := w.Unit
		info := u.Info()
		// the element being linked: a plain variable (receiver / parameter), not <x>.previous.next
		if _, isVar := ast.Unparen(ast.Unparen(w.Expr).(*ast.SelectorExpr).X).(*ast.Ident); !isVar {
			continue
		}
		rhs := ast.Unparen(resolveLocalAlias(u, w.RHS))
		mentionsHead := false
		ast.Inspect(rhs, func(n ast.Node) bool {
			if e, ok := n.(ast.Expr); ok && fieldOf(info, e) == head {
				mentionsHead = true
			}
			return true
		})
		if !mentionsHead {
			continue
		}
		construct := constructOf(u, "linked at the tail")
		ue, ok := rhs.(*ast.UnaryExpr)
		if ok && ue.Op == token.AND && fieldOf(info, ue.X) == head {
			r.ok(construct, posOf(p, w.Node), "next = &sentinel")
		} else {
			r.bad(c.Prop, construct, posOf(p, w.Node), "a client that becomes idle is not linked at the tail of the idle list: the expiry loop stops at the first client that is still alive, so clients that vanished earlier are never reclaimed")
		}
	}
	return r
}

// c19DowngradeBumps / c20OwnerEmptiness
func c19DowngradeBumps(c *Ctx) *RuleResult {
	r := &RuleResult{Rule: "C19.downgrade-bumps", Floor: 1,
		Doc: "a retransmitted request gets the original reply: every successful return of txOpenDowngrade passes the increment of the open state ID's seqid (the replay test of OPEN_DOWNGRADE requires the cached reply's state ID to be the successor of the request's)"}
	p := c.P
	u := p.Unit(nfsPkg, "compoundState.txOpenDowngrade")
	info := u.Info()
	seq := p.LookupField(nfsPkg, "nfs40RegularStateID", "seqID")
	g := NewFuncCFG(info, u.Decl.Body)
	construct := constructOf(u, "seqid incremented on success")
	bad := ""
	ast.Inspect(u.Decl.Body, func(n ast.Node) bool {
		ret, ok := n.(*ast.ReturnStmt)
		if !ok || len(ret.Results) != 1 || !strings.Contains(exprStr(ret.Results[0]), "_NFS4_OK") {
			return true
		}
		if reach, _ := g.reachableFrom(0, 0, ret, func(m ast.Node) bool {
			as, ok := m.(*ast.AssignStmt)
			return ok && len(as.Lhs) == 1 && fieldOf(info, as.Lhs[0]) == seq
		}); reach {
			bad = posOf(p, ret)
		}
		return true
	})
	if bad == "" {
		r.ok(construct, posOf(p, u.Decl), "always")
	} else {
		r.bad(c.Prop, construct, bad, "OPEN_DOWNGRADE can succeed without advancing the state ID: its retransmission no longer matches the successor test and gets BAD_SEQID instead of the cached reply")
	}
	return r
}

func c20OwnerEmptiness(c *Ctx) *RuleResult {
	r := &RuleResult{Rule: "C20.owner-emptiness", Floor: 1,
		Doc: "an owner's own locks never block it (the owner record must live as long as it has files): a lock-owner is deleted from the client's lock-owner map only under an emptiness test of THAT lock-owner's own file list"}
	p := c.P
	units := p.UnitsIn(nfsPkg)
	lo := p.LookupField(nfsPkg, "confirmedClientState", "lockOwners")
	files := p.LookupField(nfsPkg, "nfs40LockOwnerState", "files")
	for _, w := range FieldWrites(units, lo, false) {
		call, ok := w.Node.(*ast.CallExpr)
		if !ok {
			continue
		}
		u := w.Unit
		info := u.Info()
		construct := constructOf(u, "delete lock-owner")
		okG, whole := false, false
		for _, g := range flattenGuards(GuardsOf(info, u.Decl.Body, call)) {
			ast.Inspect(g.Cond, func(n ast.Node) bool {
				if e, ok := n.(ast.Expr); ok && fieldOf(info, e) == files {
					okG = true
				}
				return true
			})
		}
		// removal of the whole client (no guard needed): the map itself is dropped / ranged over
		for _, anc := range pathTo(u.Decl.Body, call) {
			if rs, ok := anc.(*ast.RangeStmt); ok && fieldOf(info, rs.X) == lo {
				whole = true
			}
		}
		if okG || whole {
			r.ok(construct+"@"+posOf(p, call), posOf(p, call), "under len(owner.files) == 0")
		} else {
			r.bad(c.Prop, construct, posOf(p, call), "a lock-owner is dropped from the client's table without its own file list being empty: it still holds locks on another file, a later LOCKT creates a new record for the same owner and is refused because of its own locks")
		}
	}
	return r
}

var _ = fmt.Sprintf

// c07FreshHandleAccounted: a statistics handle obtained from the store is not leaked.
func c07FreshHandleAccounted(c *Ctx) *RuleResult {
	r := &RuleResult{Rule: "C07.fresh-handle", Floor: 1,
		Doc: "statistics are eventually written: a handle obtained from the previous-execution-stats store (a successful Get) is, on every path, released or handed to the object that is returned (stored in a field of a returned composite literal); an error return after the Get that forgets the handle keeps its use count above zero for ever, so the statistics of every request sharing it are never written"}
	p := c.P
	for _, u := range p.UnitsIn(isccPkg) {
		info := u.Info()
		isGet := func(as *ast.AssignStmt) bool {
			if len(as.Lhs) != 2 || len(as.Rhs) != 1 {
				return false
			}
			call, ok := ast.Unparen(as.Rhs[0]).(*ast.CallExpr)
			if !ok {
				return false
			}
			tv, ok := info.Types[call]
			if !ok {
				return false
			}
			tup, ok := tv.Type.(*types.Tuple)
			return ok && tup.Len() == 2 && (namedIs(tup.At(0).Type(), modPath+"/"+isccPkg, "PreviousExecutionStatsHandle") || namedIs(tup.At(0).Type(), modPath+"/pkg/blobstore", "MutableProtoHandle"))
		}
		spec := &OblSpec{Name: "fresh handle", Min: 1, Max: 1,
			Create: func(n ast.Node) []Born {
				if as, ok := n.(*ast.AssignStmt); ok && isGet(as) {
					return []Born{{Key: exprStr(as.Lhs[0]), Pos: as.Pos(), FailTest: errNotNilTest(exprStr(as.Lhs[1]))}}
				}
				return nil
			},
			Discharge: func(n ast.Node, key string) int {
				if _, ok := methodCallOn(n, key, "Release"); ok {
					return 1
				}
				return 0
			},
			Transfer: func(n ast.Node, key string) bool {
				if kv, ok := n.(*ast.KeyValueExpr); ok && exprStr(kv.Value) == key {
					return true
				}
				if ret, ok := n.(*ast.ReturnStmt); ok {
					for _, res := range ret.Results {
						if exprStr(res) == key {
							return true
						}
					}
				}
				return false
			},
		}
		res := RunObligation(info, u.Decl.Body, spec)
		if res.Created == 0 {
			continue
		}
		construct := constructOf(u, "handle from Get")
		if len(res.Violations) == 0 {
			r.ok(construct, posOf(p, u.Decl), "released or handed to the returned object on every path")
			continue
		}
		v := res.Violations[0]
		r.bad(c.Prop, construct, p.Pos(v.Born.Pos), fmt.Sprintf("the handle obtained here is released/handed over %d times on the path to the %s: its use count never returns to zero and the statistics recorded through it are never written", v.Count, oblExitDesc(p, v)))
	}
	return r
}

// c08MayThinkExecuting: after any Synchronize the worker remembers that the scheduler may believe
// it is executing.
func c08MayThinkExecuting(c *Ctx) *RuleResult {
	r := &RuleResult{Rule: "C08.may-think-executing", Floor: 1,
		Doc: "on shutdown the worker keeps synchronizing until the scheduler cannot believe it is still executing: in BuildClient.Run no return is reachable from the Synchronize call without passing the 'scheduler may think we are executing' bookkeeping (the nil test of schedulerMayThinkExecutingUntil or the call that sets it) -- a reply that is dropped later (invalid timestamp, ...) may have carried an execute request just like a failed call"}
	p := c.P
	u := p.Unit(builderPkg, "BuildClient.Run")
	info := u.Info()
	fld := p.LookupField(builderPkg, "BuildClient", "schedulerMayThinkExecutingUntil")
	touch := p.LookupFunc(builderPkg, "BuildClient.touchSchedulerMayThinkExecuting")
	g := NewFuncCFG(info, u.Decl.Body)
	n := 0
	ast.Inspect(u.Decl.Body, func(m ast.Node) bool {
		call, ok := m.(*ast.CallExpr)
		if !ok {
			return true
		}
		sel, ok := ast.Unparen(call.Fun).(*ast.SelectorExpr)
		if !ok || sel.Sel.Name != "Synchronize" {
			return true
		}
		n++
		construct := constructOf(u, "bookkeeping after Synchronize")
		reach, at := g.ReachableWithout(call, nil, func(k ast.Node) bool {
			switch x := k.(type) {
			case *ast.CallExpr:
				return calleeOf(info, x) == touch
			case *ast.BinaryExpr:
				return (x.Op == token.EQL || x.Op == token.NEQ) && isNilIdent(x.Y) && fieldOf(info, x.X) == fld
			}
			return false
		})
		if reach {
			r.bad(c.Prop, construct, posOf(p, at), "Run can return after a Synchronize call without recording that the scheduler may think the worker is executing: if that reply carried an execute request and shutdown begins, the worker announces it may terminate while the scheduler still believes the action is running")
		} else {
			r.ok(construct, posOf(p, call), "recorded on every path")
		}
		return true
	})
	if n == 0 {
		panic(anchorError("BuildClient.Run: Synchronize call"))
	}
	return r
}

// schedNoExecuteAfterComplete: a worker is never told to execute a task the scheduler has just completed.
func schedNoExecuteAfterComplete(c *Ctx) *RuleResult {
	r := &RuleResult{Rule: c.Prop + ".no-execute-after-complete", Floor: 1,
		Doc: "once a task has completed no worker is told to (re)start it: in the worker's methods no return of an 'execute this task' response (the executing desired-state literal, or the result of the helper that builds it) is reachable from a task.complete call of the same function"}
	p := c.P
	complete := p.LookupFunc(schedPkg, "task.complete")
	builder := p.LookupFunc(schedPkg, "worker.getExecutingSynchronizeResponse")
	for _, u := range p.UnitsIn(schedPkg) {
		if u.Decl.Recv == nil || recvTypeName(u) != "worker" {
			continue
		}
		info := u.Info()
		sites := CallsTo([]*FuncUnit{u}, complete)
		if len(sites) == 0 {
			continue
		}
		isExecResp := func(e ast.Expr) bool {
			e = ast.Unparen(resolveLocalAlias(u, e))
			if call, ok := e.(*ast.CallExpr); ok && calleeOf(info, call) == builder {
				return true
			}
			found := false
			ast.Inspect(e, func(n ast.Node) bool {
				if cl, ok := n.(*ast.CompositeLit); ok {
					if tv, ok := info.Types[cl]; ok && strings.HasSuffix(tv.Type.String(), "DesiredState_Executing_") {
						found = true
					}
				}
				return true
			})
			return found
		}
		g := NewFuncCFG(info, u.Decl.Body)
		construct := constructOf(u, "no execute response after complete")
		bad := ""
		ast.Inspect(u.Decl.Body, func(n ast.Node) bool {
			ret, ok := n.(*ast.ReturnStmt)
			if !ok || len(ret.Results) == 0 || !isExecResp(ret.Results[0]) {
				return true
			}
			for _, cs := range sites {
				if reach, _ := g.ReachableWithout(cs.Node, ret, func(ast.Node) bool { return false }); reach {
					bad = posOf(p, ret)
				}
			}
			return true
		})
		if bad == "" {
			r.ok(construct, posOf(p, u.Decl), "no executing response is returned after the task was completed")
		} else {
			r.bad(c.Prop, construct, bad, "after completing the worker's task (retry limit, ...) the same call can still return a response telling the worker to execute it: a completed task is restarted")
		}
	}
	return r
}
