package main

// Virtual file system / NFS rules added after the second round of independently seeded changes
// (DESIGN.md §8.1).

import (
	"fmt"
	"go/ast"
	"go/token"
	"go/types"
	"strings"
)

// c13DeleteSelf: a removed directory is marked deleted in every state it can be in.
func c13DeleteSelf(c *Ctx) *RuleResult {
	r := &RuleResult{Rule: "C13.delete-self", Floor: 3,
		Doc: "a removed directory accepts no new entries, whatever state it was in: in every function that marks its own directory deleted under a boolean 'delete self' parameter, EVERY path from entry to exit passes such a `if param { markDeleted() }` test (initialised and not-yet-initialised directories alike); callers that dispose of detached child directories pass the constant true"}
	p := c.P
	units := p.UnitsIn(virtualPkg)
	md := p.LookupFunc(virtualPkg, "inMemoryPrepopulatedDirectory.markDeleted")
	for _, u := range units {
		if u.Decl.Recv == nil || len(u.Decl.Recv.List[0].Names) == 0 {
			continue
		}
		info := u.Info()
		recv := u.Decl.Recv.List[0].Names[0].Name
		// bool parameters
		bools := map[string]bool{}
		sig := u.Fn.Type().(*types.Signature)
		for i := 0; i < sig.Params().Len(); i++ {
			if b, ok := sig.Params().At(i).Type().Underlying().(*types.Basic); ok && b.Kind() == types.Bool {
				bools[sig.Params().At(i).Name()] = true
			}
		}
		if len(bools) == 0 {
			continue
		}
		tests := map[ast.Expr]bool{}
		ast.Inspect(u.Decl.Body, func(n ast.Node) bool {
			ifs, ok := n.(*ast.IfStmt)
			if !ok {
				return true
			}
			id, ok := ast.Unparen(ifs.Cond).(*ast.Ident)
			if !ok || !bools[id.Name] {
				return true
			}
			for _, cs := range ifs.Body.List {
				if es, ok := cs.(*ast.ExprStmt); ok {
					if call, ok := es.X.(*ast.CallExpr); ok && calleeOf(info, call) == md {
						if sel, ok := ast.Unparen(call.Fun).(*ast.SelectorExpr); ok && exprStr(sel.X) == recv {
							tests[ifs.Cond] = true
						}
					}
				}
			}
			return true
		})
		if len(tests) == 0 {
			continue
		}
		construct := constructOf(u, "delete-self on every path")
		g := NewFuncCFG(info, u.Decl.Body)
		if g.EveryPathPasses(func(n ast.Node) bool {
			e, ok := n.(ast.Expr)
			return ok && tests[e]
		}) {
			r.ok(construct, posOf(p, u.Decl), fmt.Sprintf("%d guarded markDeleted sites cover all paths", len(tests)))
		} else {
			r.bad(c.Prop, construct, posOf(p, u.Decl), "on some path (e.g. for a directory whose contents were never instantiated) the directory is emptied and detached but not marked deleted: files can still be created in a directory that no longer exists")
		}
		// callers other than the receiver forwarding its own parameter
		for _, cs := range CallsTo(units, u.Fn) {
			call := cs.Node.(*ast.CallExpr)
			for i := 0; i < sig.Params().Len(); i++ {
				if !bools[sig.Params().At(i).Name()] || i >= len(call.Args) {
					continue
				}
				a := exprStr(call.Args[i])
				cc := constructOf(cs.Unit, u.Fn.Name()+"("+a+")")
				// forwarding of an identically typed parameter of an exported wrapper is the caller's choice
				if id, ok := ast.Unparen(call.Args[i]).(*ast.Ident); ok {
					if v, ok := cs.Unit.Info().Uses[id].(*types.Var); ok && isParamOf(cs.Unit, v) {
						r.ok(cc, posOf(p, call), "forwards its caller's choice")
						continue
					}
				}
				ownRecv := false
				if cs.Unit.Decl.Recv != nil && len(cs.Unit.Decl.Recv.List[0].Names) > 0 {
					if sel, ok := ast.Unparen(call.Fun).(*ast.SelectorExpr); ok && exprStr(sel.X) == cs.Unit.Decl.Recv.List[0].Names[0].Name {
						ownRecv = true
					}
				}
				if a == "false" && ownRecv {
					r.ok(cc, posOf(p, call), "a directory emptying itself stays linked and is not deleted")
					continue
				}
				if a == "true" {
					r.ok(cc, posOf(p, call), "detached child directories are deleted")
				} else {
					r.bad(c.Prop, cc, posOf(p, call), "a directory that was detached from its parent is emptied without being marked deleted")
				}
			}
		}
	}
	return r
}

func isParamOf(u *FuncUnit, v *types.Var) bool {
	sig := u.Fn.Type().(*types.Signature)
	for i := 0; i < sig.Params().Len(); i++ {
		if sig.Params().At(i) == v {
			return true
		}
	}
	return false
}

// c13LinkBalance: a link count taken for a new directory entry is used or given back.
func c13LinkBalance(c *Ctx) *RuleResult {
	r := &RuleResult{Rule: "C13.link-balance", Floor: 1,
		Doc: "hard links share one file and its link count is exact: after a successful LinkableLeaf.Link() every path either attaches that leaf to directory contents or gives the link back with Unlink(); in particular no failure return (name exists, directory deleted, contents unavailable) may follow a successful Link"}
	p := c.P
	for _, u := range p.UnitsIn(virtualPkg) {
		info := u.Info()
		if u.Fn.Name() == "Link" {
			continue // the implementations and decorators of Link themselves
		}
		spec := &OblSpec{Name: "link", Min: 1, Max: 1,
			Create: func(n ast.Node) []Born {
				as, ok := n.(*ast.AssignStmt)
				if !ok || len(as.Rhs) != 1 || len(as.Lhs) != 1 {
					return nil
				}
				call, ok := ast.Unparen(as.Rhs[0]).(*ast.CallExpr)
				if !ok {
					return nil
				}
				sel, ok := ast.Unparen(call.Fun).(*ast.SelectorExpr)
				if !ok || sel.Sel.Name != "Link" || len(call.Args) != 0 {
					return nil
				}
				fn := calleeOf(info, call)
				if fn == nil || fn.Pkg() == nil || relPkg(fn.Pkg()) != virtualPkg {
					return nil
				}
				return []Born{{Key: exprStr(sel.X), Pos: call.Pos(), FailTest: statusNotOKTest(exprStr(as.Lhs[0]), "StatusOK")}}
			},
			Discharge: func(n ast.Node, key string) int {
				call, ok := n.(*ast.CallExpr)
				if !ok {
					return 0
				}
				if _, ok := methodCallOn(n, key, "Unlink"); ok {
					return 1
				}
				if sel, ok := ast.Unparen(call.Fun).(*ast.SelectorExpr); ok && sel.Sel.Name == "attach" {
					for _, a := range call.Args {
						if mentionsIdent(a, key) {
							return 1
						}
					}
				}
				return 0
			},
		}
		res := RunObligation(info, u.Decl.Body, spec)
		if res.Created == 0 {
			continue
		}
		construct := constructOf(u, "Link")
		if len(res.Violations) == 0 && res.Undecided == "" {
			r.ok(construct, posOf(p, u.Decl), fmt.Sprintf("attached or unlinked on all %d exits", res.Exits))
		}
		if res.Undecided != "" {
			r.Undecided = append(r.Undecided, construct+": "+res.Undecided)
		}
		for _, v := range res.Violations {
			r.bad(c.Prop, construct, p.Pos(v.Born.Pos), fmt.Sprintf("the link count of the file was raised here, but on the path to the %s the file is neither attached to the directory nor unlinked again (%d): the file reports a link that does not exist and its storage is never released", oblExitDesc(p, v), v.Count))
		}
	}
	return r
}

// c16LinkForwarding: decorators that count links forward Link/Unlink symmetrically.
func c16LinkForwarding(c *Ctx) *RuleResult {
	r := &RuleResult{Rule: "C16.link-forwarding", Floor: 5,
		Doc: "handle-allocator decorators keep their own link count and hold exactly ONE reference on the file they wrap: where Unlink is forwarded to the wrapped file only when the decorator's count reaches zero, Link is not forwarded at all (otherwise the wrapped file's reference count grows with every hard link and its storage is never released); a decorator that forwards every Unlink forwards every Link"}
	p := c.P
	units := p.UnitsIn(virtualPkg)
	type fw struct {
		any, guarded bool
		pos          ast.Node
	}
	forwards := func(u *FuncUnit, method string) fw {
		info := u.Info()
		out := fw{}
		ast.Inspect(u.Decl.Body, func(n ast.Node) bool {
			call, ok := n.(*ast.CallExpr)
			if !ok {
				return true
			}
			sel, ok := ast.Unparen(call.Fun).(*ast.SelectorExpr)
			if !ok || sel.Sel.Name != method {
				return true
			}
			// receiver's embedded field
			f := fieldOf(info, sel.X)
			if f == nil || !f.Embedded() {
				return true
			}
			out.any = true
			out.pos = call
			for _, g := range flattenGuards(GuardsOf(info, u.Decl.Body, call)) {
				if be, ok := ast.Unparen(g.Cond).(*ast.BinaryExpr); ok && g.Pos && be.Op == token.EQL && exprStr(be.Y) == "0" {
					out.guarded = true
				}
			}
			return true
		})
		return out
	}
	byRecv := map[string]map[string]*FuncUnit{}
	for _, u := range units {
		if u.Decl.Recv == nil || (u.Fn.Name() != "Link" && u.Fn.Name() != "Unlink") {
			continue
		}
		rt := recvTypeName(u)
		if byRecv[rt] == nil {
			byRecv[rt] = map[string]*FuncUnit{}
		}
		byRecv[rt][u.Fn.Name()] = u
	}
	for _, rt := range sortedKeys(byRecv) {
		ms := byRecv[rt]
		l, ul := ms["Link"], ms["Unlink"]
		if l == nil || ul == nil {
			continue
		}
		// only decorators: the receiver struct embeds a LinkableLeaf
		if !embedsNamed(l, "LinkableLeaf") {
			continue
		}
		fl, fu := forwards(l, "Link"), forwards(ul, "Unlink")
		construct := "virtual." + rt + "|Link/Unlink forwarding"
		switch {
		case fl.any && (fu.guarded || !fu.any):
			r.bad(c.Prop, construct, posOf(p, fl.pos), "every Link is forwarded to the wrapped file but only the last Unlink is: the wrapped file keeps a reference per hard link that was ever made, so its backing storage is not released when the last directory entry disappears")
		case !fl.any && fu.any && !fu.guarded:
			r.bad(c.Prop, construct, posOf(p, fu.pos), "every Unlink is forwarded to the wrapped file but Link is not: the wrapped file is released while hard links remain")
		default:
			r.ok(construct, posOf(p, l.Decl), fmt.Sprintf("Link forwarded: %v; Unlink forwarded: %v (only at zero: %v)", fl.any, fu.any, fu.guarded))
		}
	}
	return r
}

func scopeName(n ast.Node) string {
	if cc, ok := n.(*ast.CaseClause); ok && len(cc.List) == 1 {
		return exprStr(cc.List[0])
	}
	return "body"
}

func recvTypeName(u *FuncUnit) string {
	if u.Fn.Type().(*types.Signature).Recv() == nil {
		return ""
	}
	t := u.Fn.Type().(*types.Signature).Recv().Type()
	if pt, ok := t.(*types.Pointer); ok {
		t = pt.Elem()
	}
	if n, ok := t.(*types.Named); ok {
		return n.Obj().Name()
	}
	return t.String()
}

func embedsNamed(u *FuncUnit, name string) bool {
	t := u.Fn.Type().(*types.Signature).Recv().Type()
	if pt, ok := t.(*types.Pointer); ok {
		t = pt.Elem()
	}
	st, ok := t.Underlying().(*types.Struct)
	if !ok {
		return false
	}
	for i := 0; i < st.NumFields(); i++ {
		if f := st.Field(i); f.Embedded() && f.Name() == name {
			return true
		}
	}
	return false
}

// c17CacheKey: a cache of fetched input files is keyed by everything that determines the file.
func c17CacheKey(c *Ctx) *RuleResult {
	r := &RuleResult{Rule: "C17.cache-key", Floor: 1,
		Doc: "input files materialised from a local cache are the file that was asked for: in every FileFetcher decorator in pkg/cas that keeps files under string keys, the key used for lookups, downloads bookkeeping and insertion depends (by data or control dependence inside GetFile) on BOTH the blob digest and the executable flag — a cached non-executable copy is never handed out for an executable request or vice versa"}
	p := c.P
	for _, u := range p.UnitsIn("pkg/cas") {
		if u.Fn.Name() != "GetFile" || u.Decl.Recv == nil {
			continue
		}
		info := u.Info()
		sig := u.Fn.Type().(*types.Signature)
		var digestP, execP string
		for i := 0; i < sig.Params().Len(); i++ {
			pv := sig.Params().At(i)
			if namedIs(pv.Type(), "github.com/buildbarn/bb-storage/pkg/digest", "Digest") {
				digestP = pv.Name()
			}
			if b, ok := pv.Type().Underlying().(*types.Basic); ok && b.Kind() == types.Bool {
				execP = pv.Name()
			}
		}
		if digestP == "" || execP == "" {
			continue
		}
		// string-typed local variables used as an index of a map field of the receiver
		keys := map[*types.Var]ast.Node{}
		ast.Inspect(u.Decl.Body, func(n ast.Node) bool {
			ix, ok := n.(*ast.IndexExpr)
			if !ok {
				return true
			}
			f := fieldOf(info, ix.X)
			if f == nil {
				return true
			}
			if _, isMap := f.Type().Underlying().(*types.Map); !isMap {
				return true
			}
			if id, ok := ast.Unparen(ix.Index).(*ast.Ident); ok {
				if v, ok := info.Uses[id].(*types.Var); ok && !isParamOf(u, v) {
					if _, seen := keys[v]; !seen {
						keys[v] = ix
					}
				}
			}
			return true
		})
		for v, at := range keys {
			deps := map[string]bool{}
			ast.Inspect(u.Decl.Body, func(n ast.Node) bool {
				as, ok := n.(*ast.AssignStmt)
				if !ok {
					return true
				}
				for i, l := range as.Lhs {
					id, ok := l.(*ast.Ident)
					if !ok || (info.Defs[id] != v && info.Uses[id] != v) {
						continue
					}
					var rhs ast.Expr
					if len(as.Rhs) == len(as.Lhs) {
						rhs = as.Rhs[i]
					} else if len(as.Rhs) == 1 {
						rhs = as.Rhs[0]
					}
					collect := func(e ast.Expr) {
						ast.Inspect(e, func(m ast.Node) bool {
							if mid, ok := m.(*ast.Ident); ok {
								deps[mid.Name] = true
							}
							return true
						})
					}
					if rhs != nil {
						collect(rhs)
					}
					for _, g := range GuardsOf(info, u.Decl.Body, as) {
						collect(g.Cond)
					}
				}
				return true
			})
			construct := constructOf(u, "cache key "+v.Name())
			if deps[digestP] && deps[execP] {
				r.ok(construct, posOf(p, at), "depends on the digest and on the executable flag")
			} else {
				r.bad(c.Prop, construct, posOf(p, at), fmt.Sprintf("the key under which fetched files are cached does not depend on both the digest (%v) and the executable flag (%v): a file cached for one request is hard-linked into the input root of an action that asked for a different file (wrong executable bit or contents)", deps[digestP], deps[execP]))
			}
		}
	}
	return r
}

// c18PoolEntry: an opened file stays in the pool while anybody uses it.
func c18PoolEntry(c *Ctx) *RuleResult {
	r := &RuleResult{Rule: c.Prop + ".pool-entry", Floor: 1,
		Doc: "an opened file stays reachable (and keeps ONE byte-range lock table) while any open or lock state uses it: entries of OpenedFilesPool.filesByHandle are only deleted under the positive outcome of useCount.decrease() of that entry, i.e. when the last user is gone"}
	p := c.P
	units := p.UnitsIn(nfsPkg)
	fbh := p.LookupField(nfsPkg, "OpenedFilesPool", "filesByHandle")
	uc := p.LookupField(nfsPkg, "OpenedFile", "useCount")
	for _, w := range FieldWrites(units, fbh, false) {
		del, ok := w.Node.(*ast.CallExpr)
		if !ok {
			continue
		}
		u := w.Unit
		info := u.Info()
		construct := constructOf(u, "delete pool entry")
		okG := false
		for _, g := range flattenGuards(GuardsOf(info, u.Decl.Body, del)) {
			cond := resolveLocalAlias(u, g.Cond)
			if call, ok := ast.Unparen(cond).(*ast.CallExpr); ok && g.Pos {
				if sel, ok := ast.Unparen(call.Fun).(*ast.SelectorExpr); ok && sel.Sel.Name == "decrease" && fieldOf(info, sel.X) == uc {
					okG = true
				}
			}
		}
		if okG {
			r.ok(construct, posOf(p, del), "only when useCount.decrease() reports that the last user left")
		} else {
			r.bad(c.Prop, construct, posOf(p, del), "the pool forgets an opened file while other opens still use it: the file is no longer reachable through its handle after it was unlinked, and a later open gets a second, independent byte-range lock table")
		}
	}
	return r
}

// c18EnterOnly: the state lock is only taken through enter(), which refreshes the clock.
func c18EnterOnly(c *Ctx) *RuleResult {
	r := &RuleResult{Rule: "C18.enter-only", Floor: 2,
		Doc: "leases are renewed with the time of the request, and expired state is collected before any request looks at it: the lock that protects all client state of an NFS program (nfs40Program.lock, nfs41Program.clientsLock) is acquired only inside that program's enter(), which reads the clock, advances program.now and purges expired clients"}
	p := c.P
	units := p.UnitsIn(nfsPkg)
	for _, spec := range [][2]string{{"nfs40Program", "lock"}, {"nfs41Program", "clientsLock"}} {
		f := p.LookupField(nfsPkg, spec[0], spec[1])
		now := p.LookupField(nfsPkg, spec[0], "now")
		n := 0
		for _, u := range units {
			info := u.Info()
			ast.Inspect(u.Decl.Body, func(m ast.Node) bool {
				call, ok := m.(*ast.CallExpr)
				if !ok {
					return true
				}
				sel, ok := ast.Unparen(call.Fun).(*ast.SelectorExpr)
				if !ok || (sel.Sel.Name != "Lock" && sel.Sel.Name != "TryLock") || fieldOf(info, sel.X) != f {
					return true
				}
				n++
				construct := constructOf(u, spec[0]+"."+spec[1]+".Lock")
				isEnterUnit := func(x *FuncUnit) bool {
					return x.Fn.Name() == "enter" && x.Decl.Recv != nil && recvTypeName(x) == spec[0]
				}
				isEnter := isEnterUnit(u)
				nowUnits := []*FuncUnit{u}
				if !isEnter {
					// a helper that only enter() calls is part of enter()
					sites := CallsTo(units, u.Fn)
					onlyEnter := len(sites) > 0
					for _, s := range sites {
						if !isEnterUnit(s.Unit) {
							onlyEnter = false
						} else {
							nowUnits = append(nowUnits, s.Unit)
						}
					}
					isEnter = onlyEnter
				}
				if !isEnter {
					r.bad(c.Prop, construct, posOf(p, call), "the state lock is taken directly instead of through enter(): program.now is not advanced, so the client's lease is renewed with a stale time (state is purged although the client was active), and expired state is not collected first")
					return true
				}
				// enter() advances now from the clock
				okNow := false
				for _, w := range FieldWrites(nowUnits, now, false) {
					if w.RHS == nil {
						continue
					}
					src := resolveLocalAlias(w.Unit, w.RHS)
					if strings.Contains(exprStr(src), "clock.Now()") {
						okNow = true
					}
				}
				if okNow {
					r.ok(construct, posOf(p, call), "inside enter(), which advances now from the clock")
				} else {
					r.bad(c.Prop, construct, posOf(p, call), "enter() no longer advances program.now from the clock")
				}
				return true
			})
		}
		if n == 0 {
			panic(anchorError(spec[0] + "." + spec[1] + ": no acquisition found"))
		}
	}
	return r
}

// c19WakeAll: completing a transaction wakes every waiter.
func c19WakeAll(c *Ctx) *RuleResult {
	r := &RuleResult{Rule: "C19.wake-all", Floor: 1,
		Doc: "a retransmission that arrives while the original is in progress completes once the original does — as does every other waiter: the channel through which a transaction announces its completion is closed (not sent on, which wakes at most one waiter and can block) on every path of complete(); no function of the package sends on a `chan struct{}` field"}
	p := c.P
	units := p.UnitsIn(nfsPkg)
	for _, u := range units {
		if u.Fn.Name() != "complete" || u.Decl.Recv == nil {
			continue
		}
		// channel fields of the receiver
		t := u.Fn.Type().(*types.Signature).Recv().Type()
		if pt, ok := t.(*types.Pointer); ok {
			t = pt.Elem()
		}
		st, ok := t.Underlying().(*types.Struct)
		if !ok {
			continue
		}
		info := u.Info()
		for i := 0; i < st.NumFields(); i++ {
			f := st.Field(i)
			if _, ok := f.Type().Underlying().(*types.Chan); !ok {
				continue
			}
			construct := constructOf(u, "close "+f.Name())
			g := NewFuncCFG(info, u.Decl.Body)
			if g.EveryPathPasses(func(n ast.Node) bool {
				call, ok := n.(*ast.CallExpr)
				if !ok {
					return false
				}
				id, ok := ast.Unparen(call.Fun).(*ast.Ident)
				return ok && id.Name == "close" && len(call.Args) == 1 && fieldOf(info, call.Args[0]) == f
			}) {
				r.ok(construct, posOf(p, u.Decl), "closed on every path")
			} else {
				r.bad(c.Prop, construct, posOf(p, u.Decl), "completing the transaction does not close its wait channel on every path: requests waiting for the transaction (retransmissions, the next request of the owner) are not all woken and hang")
			}
		}
	}
	for _, u := range units {
		info := u.Info()
		ast.Inspect(u.Decl.Body, func(n ast.Node) bool {
			s, ok := n.(*ast.SendStmt)
			if !ok {
				return true
			}
			if f := fieldOf(info, s.Chan); f != nil {
				if ch, ok := f.Type().Underlying().(*types.Chan); ok {
					if st, ok := ch.Elem().Underlying().(*types.Struct); ok && st.NumFields() == 0 {
						r.bad(c.Prop, constructOf(u, "send on "+f.Name()), posOf(p, s), "a completion channel is sent on instead of closed: at most one waiter is woken")
					}
				}
			}
			return true
		})
	}
	return r
}

// c19ReplayStateID: a cached reply is only returned to the request it belongs to.
func c19ReplayStateID(c *Ctx) *RuleResult {
	r := &RuleResult{Rule: "C19.replay-stateid", Floor: 8,
		Doc: "a retransmission whose content differs from the original is not answered with the original's reply: wherever the operation's successful reply carries the successor of a state ID that the request itself names (CLOSE, LOCK on an existing lock-owner, LOCKU, OPEN_CONFIRM, OPEN_DOWNGRADE — decided from the message types), the cached reply is only returned on the failure edge of startTransaction when it is an error reply or isNextStateID(reply state ID, request state ID) holds"}
	p := c.P
	nfsProto := "github.com/buildbarn/go-xdr/pkg/protocols/nfsv4"
	isStateID := func(t types.Type) bool { return namedIs(t, nfsProto, "Stateid4") }
	var stateFields func(t types.Type, depth int, out map[string]bool)
	stateFields = func(t types.Type, depth int, out map[string]bool) {
		if pt, ok := t.(*types.Pointer); ok {
			t = pt.Elem()
		}
		st, ok := t.Underlying().(*types.Struct)
		if !ok || depth > 2 {
			return
		}
		for i := 0; i < st.NumFields(); i++ {
			f := st.Field(i)
			if isStateID(f.Type()) {
				out[f.Name()] = true
			} else {
				stateFields(f.Type(), depth+1, out)
			}
		}
	}
	isn := p.LookupFunc(nfsPkg, "isNextStateID")
	computeTxForwarders(p)
	for _, u := range p.UnitsIn(nfsPkg) {
		info := u.Info()
		ast.Inspect(u.Decl.Body, func(n ast.Node) bool {
			as, ok := n.(*ast.AssignStmt)
			if !ok {
				return true
			}
			call, ok := isStartTransactionCall(info, as)
			if !ok || len(as.Lhs) != 3 {
				return true
			}
			lastName := exprStr(as.Lhs[1])
			// request state IDs named in the innermost case clause / function body around the call
			var scope ast.Node = u.Decl.Body
			for _, anc := range pathTo(u.Decl.Body, as) {
				if cc, ok := anc.(*ast.CaseClause); ok {
					scope = cc
				}
			}
			reqFields := map[string]bool{}
			ast.Inspect(scope, func(m ast.Node) bool {
				if sel, ok := m.(*ast.SelectorExpr); ok && m.Pos() < call.Pos() {
					if tv, ok := info.Types[sel]; ok && isStateID(tv.Type) {
						reqFields[sel.Sel.Name] = true
					}
				}
				return true
			})
			// the failure branch: the statement `if st != NFS4_OK { ... }` that follows the call
			stName := exprStr(as.Lhs[2])
			var failBranch *ast.IfStmt
			ast.Inspect(scope, func(m ast.Node) bool {
				ifs, ok := m.(*ast.IfStmt)
				if !ok || failBranch != nil || ifs.Pos() < as.Pos() {
					return true
				}
				be, ok := ast.Unparen(ifs.Cond).(*ast.BinaryExpr)
				if ok && be.Op == token.NEQ && exprStr(be.X) == stName && strings.HasSuffix(exprStr(be.Y), "NFS4_OK") {
					failBranch = ifs
				}
				return true
			})
			var failBody *ast.BlockStmt
			if failBranch != nil {
				failBody = failBranch.Body
			} else {
				// inverted form: `if st == NFS4_OK { ...; return }` followed by the failure handling
				ast.Inspect(scope, func(m ast.Node) bool {
					var list []ast.Stmt
					switch x := m.(type) {
					case *ast.BlockStmt:
						list = x.List
					case *ast.CaseClause:
						list = x.Body
					default:
						return true
					}
					for i, st := range list {
						ifs, ok := st.(*ast.IfStmt)
						if !ok || failBody != nil || ifs.Pos() < as.Pos() || ifs.Else != nil {
							continue
						}
						be, ok := ast.Unparen(ifs.Cond).(*ast.BinaryExpr)
						if ok && be.Op == token.EQL && exprStr(be.X) == stName && strings.HasSuffix(exprStr(be.Y), "NFS4_OK") && terminates(info, ifs.Body.List) && i+1 < len(list) {
							failBody = &ast.BlockStmt{Lbrace: list[i+1].Pos(), List: list[i+1:], Rbrace: list[len(list)-1].End()}
						}
					}
					return true
				})
			}
			if failBody == nil {
				r.bad(c.Prop, constructOf(u, "failure edge of "+exprStr(call.Fun)), posOf(p, as), "the status of startTransaction is not tested right after the call")
				return true
			}
			// decision table of the failure branch: which value is returned under which outcome of the
			// type assertions on the cached reply and of the state ID comparison
			d := BuildDTable(u, failBody)
			construct := constructOf(u, "cached reply after "+exprStr(call.Fun)+"@"+scopeName(scope))
			if d.Err != "" {
				r.Undecided = append(r.Undecided, construct+": "+d.Err)
				return true
			}
			// atoms
			var isNextKey, okVariantKey string
			var respIface *types.Named
			ast.Inspect(failBody, func(m ast.Node) bool {
				switch x := m.(type) {
				case *ast.CallExpr:
					if calleeOf(info, x) == isn {
						isNextKey = d.canon(x)
					}
				case *ast.AssignStmt:
					if len(x.Lhs) == 2 && len(x.Rhs) == 1 {
						if ta, ok := ast.Unparen(x.Rhs[0]).(*ast.TypeAssertExpr); ok && ta.Type != nil && exprStr(ta.X) == lastName {
							if tv, ok := info.Types[ta.Type]; ok {
								if named, ok := tv.Type.(*types.Named); ok && types.IsInterface(tv.Type) {
									respIface = named
								} else if id, ok := x.Lhs[1].(*ast.Ident); ok && strings.HasSuffix(exprStr(ta.Type), "_NFS4_OK") {
									_ = id
									okVariantKey = "ok(" + d.canon(x.Rhs[0]) + ")"
								}
							}
						}
					}
				}
				return true
			})
			if respIface == nil {
				r.bad(c.Prop, construct, posOf(p, failBody), "a retransmission (status other than NFS4_OK with a cached reply of the same operation) is not answered with the cached reply")
				return true
			}
			okType := respIface.Obj().Pkg().Scope().Lookup(respIface.Obj().Name() + "_NFS4_OK")
			respFields := map[string]bool{}
			if okType != nil {
				stateFields(okType.Type(), 0, respFields)
			}
			var common []string
			for f := range respFields {
				if reqFields[f] {
					common = append(common, f)
				}
			}
			cachedMarker := lastName + ".(" // canonical rendering of the asserted cached reply
			nCached, bad := 0, ""
			for _, row := range d.Rows {
				if !strings.Contains(row.Result, cachedMarker) {
					continue
				}
				nCached++
				if len(common) == 0 {
					continue
				}
				okVariant, known := row.Assign[okVariantKey]
				isNext := row.Assign[isNextKey]
				if okVariantKey == "" || !known {
					okVariant = 1 // not even distinguished: the reply may be the OK variant
				}
				if okVariant == 1 && (isNextKey == "" || isNext != 1) {
					bad = "the cached reply, which carries the successor of a state ID (" + strings.Join(common, ",") + "), can be returned although it is the successful variant and isNextStateID(reply state ID, request state ID) does not hold"
				}
			}
			switch {
			case nCached == 0:
				r.bad(c.Prop, construct, posOf(p, failBody), "a retransmission is never answered with the cached reply")
			case bad != "":
				r.bad(c.Prop, construct, posOf(p, failBody), bad+": a different request that reuses the sequence number is answered with another request's reply")
			case len(common) == 0:
				r.ok(construct, posOf(p, failBody), "operation type and sequence number identify the request (no state ID in common)")
			default:
				r.ok(construct, posOf(p, failBody), fmt.Sprintf("cached reply returned only for an error reply or when the request's state ID is the predecessor of the reply's (%d table rows)", len(d.Rows)))
			}
			return true
		})
	}
	return r
}
