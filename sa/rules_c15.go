package main

import (
	"fmt"
	"go/ast"
	"go/token"
	"go/types"
	"strings"
)

const poolPkg = "pkg/filesystem/pool"

// lastResultIsNil: `return ..., nil`
func lastResultIsNil(ret *ast.ReturnStmt) bool {
	if len(ret.Results) == 0 {
		return false
	}
	return isNilIdent(ret.Results[len(ret.Results)-1])
}

// containsNegatedCall: cond has a conjunct `!key.method(...)`; returns true if so.
func negatedCallTest(key, method string) func(ast.Expr) (bool, bool) {
	var find func(e ast.Expr) bool
	find = func(e ast.Expr) bool {
		e = ast.Unparen(e)
		if be, ok := e.(*ast.BinaryExpr); ok && be.Op == token.LAND {
			return find(be.X) || find(be.Y)
		}
		if ue, ok := e.(*ast.UnaryExpr); ok && ue.Op == token.NOT {
			if _, ok := methodCallOn(ast.Unparen(ue.X), key, method); ok {
				return true
			}
		}
		return false
	}
	return func(cond ast.Expr) (bool, bool) {
		if find(cond) {
			return true, true
		}
		return false, false
	}
}

func c15Quota(c *Ctx) *RuleResult {
	r := &RuleResult{Rule: "C15.quota", Floor: 3,
		Doc: "every successful quotaMetric.allocate in the quota-enforcing pool is matched, on every return that reports failure (last result not the nil literal), by release of the same metric; successful returns transfer ownership to the file, whose Close releases both the file-count and the byte quota"}
	p := c.P
	units := p.UnitsIn(poolPkg)
	alloc := p.LookupFunc(poolPkg, "quotaMetric.allocate")
	for _, u := range units {
		sites := CallsTo([]*FuncUnit{u}, alloc)
		if len(sites) == 0 || u.Fn == alloc {
			continue
		}
		info := u.Info()
		// WriteAt releases a computed remainder; its arithmetic is covered by C15.size-from-count
		numeric := false
		for _, s := range sites {
			gs := GuardsOf(info, u.Decl.Body, s.Node)
			_ = gs
		}
		spec := &OblSpec{Name: "quota", Min: 1, Max: 3,
			Create: func(n ast.Node) []Born {
				var out []Born
				e, ok := n.(ast.Expr)
				if !ok {
					return nil
				}
				ast.Inspect(e, func(m ast.Node) bool {
					if call, ok := m.(*ast.CallExpr); ok && calleeOf(info, call) == alloc {
						key := exprStr(ast.Unparen(call.Fun).(*ast.SelectorExpr).X)
						out = append(out, Born{Key: key, Pos: call.Pos(), FailTest: negatedCallTest(key, "allocate")})
					}
					return true
				})
				return out
			},
			Discharge: func(n ast.Node, key string) int {
				if _, ok := methodCallOn(n, key, "release"); ok {
					return 1
				}
				return 0
			},
			ExitOK: func(ret *ast.ReturnStmt, key string) bool {
				if lastResultIsNil(ret) {
					return true
				}
				// `return n, err` with err possibly nil: not a known failure
				if id, ok := ast.Unparen(ret.Results[len(ret.Results)-1]).(*ast.Ident); ok {
					// `return n, err` where err may be nil is not a known failure; it is one when the
					// return is guarded by err != nil
					known := false
					for _, g := range flattenGuards(GuardsOf(info, u.Decl.Body, ret)) {
						if be, ok := ast.Unparen(g.Cond).(*ast.BinaryExpr); ok && g.Pos && be.Op == token.NEQ && exprStr(be.X) == id.Name && isNilIdent(be.Y) {
							known = true
						}
					}
					if !known {
						numeric = true
						return true
					}
				}
				return false
			},
		}
		res := RunObligation(info, u.Decl.Body, spec)
		if res.Undecided != "" {
			r.undecided(u.Name(), res.Undecided)
		}
		// one obligation per allocate site
		bad := map[string]bool{}
		for _, v := range res.Violations {
			construct := constructOf(u, "allocate "+v.Key)
			bad[construct] = true
			r.bad(c.Prop, construct, p.Pos(v.Born.Pos), fmt.Sprintf("quota taken from %s here is not given back on the failing return at %s (%d releases on that path): after a failed operation part of the quota is lost for good", v.Key, p.Pos(v.Exit), v.Count))
		}
		for _, s := range sites {
			key := exprStr(ast.Unparen(s.Node.(*ast.CallExpr).Fun).(*ast.SelectorExpr).X)
			construct := constructOf(u, "allocate "+key)
			if !bad[construct] {
				d := "released on every failing return"
				if numeric {
					d += " (the partial-release arithmetic of short writes is checked by C15.size-from-count)"
				}
				r.ok(construct, posOf(p, s.Node), d)
			}
		}
	}
	// Close releases both
	cl := p.Unit(poolPkg, "quotaEnforcingFile.Close")
	rel := p.LookupFunc(poolPkg, "quotaMetric.release")
	seen := map[string]bool{}
	g := NewFuncCFG(cl.Info(), cl.Decl.Body)
	for _, s := range CallsTo([]*FuncUnit{cl}, rel) {
		key := exprStr(ast.Unparen(s.Node.(*ast.CallExpr).Fun).(*ast.SelectorExpr).X)
		// must be on every path: dominates the (single) exit
		if g.EveryPathPasses(func(n ast.Node) bool { return n == s.Node }) {
			seen[key[strings.LastIndex(key, ".")+1:]] = true
		}
	}
	for _, m := range []string{"filesRemaining", "bytesRemaining"} {
		construct := constructOf(cl, "release "+m)
		if seen[m] {
			r.ok(construct, posOf(p, cl.Decl), "released on every path of Close")
		} else {
			r.bad(c.Prop, construct, posOf(p, cl.Decl), "closing a file does not give back its "+m+" quota on every path")
		}
	}
	return r
}

func c15Sectors(c *Ctx) *RuleResult {
	r := &RuleResult{Rule: "C15.sectors", Floor: 1,
		Doc: "sectors obtained from AllocateContiguous are returned with FreeContiguous on every failing return of the function that allocated them; successful returns hand them to the caller, which records them in the file's sector table"}
	p := c.P
	for _, u := range p.UnitsIn(poolPkg) {
		info := u.Info()
		spec := &OblSpec{Name: "sectors", Min: 1, Max: 1,
			Create: func(n ast.Node) []Born {
				as, ok := n.(*ast.AssignStmt)
				if !ok || len(as.Rhs) != 1 || len(as.Lhs) != 3 {
					return nil
				}
				call, ok := ast.Unparen(as.Rhs[0]).(*ast.CallExpr)
				if !ok {
					return nil
				}
				if sel, ok := ast.Unparen(call.Fun).(*ast.SelectorExpr); !ok || sel.Sel.Name != "AllocateContiguous" {
					return nil
				}
				return []Born{{Key: exprStr(as.Lhs[0]), Pos: as.Pos(), FailTest: errNotNilTest(exprStr(as.Lhs[2]))}}
			},
			Discharge: func(n ast.Node, key string) int {
				call, ok := n.(*ast.CallExpr)
				if !ok {
					return 0
				}
				if sel, ok := ast.Unparen(call.Fun).(*ast.SelectorExpr); ok && sel.Sel.Name == "FreeContiguous" && len(call.Args) >= 1 && exprStr(call.Args[0]) == key {
					return 1
				}
				// a helper of the package that frees the sectors passed to it on all of its paths
				if fn := calleeOf(info, call); fn != nil {
					if fd := p.Decl(fn); fd != nil && fd.Body != nil {
						for ai, a := range call.Args {
							if exprStr(a) != key {
								continue
							}
							pname := paramNameAt(fd, ai)
							if pname == "" {
								continue
							}
							g := NewFuncCFG(p.InfoFor(fd), fd.Body)
							if g.EveryPathPasses(func(m ast.Node) bool {
								hc, ok := m.(*ast.CallExpr)
								if !ok {
									return false
								}
								hs, ok := ast.Unparen(hc.Fun).(*ast.SelectorExpr)
								return ok && hs.Sel.Name == "FreeContiguous" && len(hc.Args) >= 1 && exprStr(hc.Args[0]) == pname
							}) {
								return 1
							}
						}
					}
				}
				return 0
			},
			ExitOK: func(ret *ast.ReturnStmt, key string) bool { return lastResultIsNil(ret) },
		}
		res := RunObligation(info, u.Decl.Body, spec)
		if res.Created == 0 {
			continue
		}
		construct := constructOf(u, "AllocateContiguous")
		if len(res.Violations) == 0 {
			r.ok(construct, posOf(p, u.Decl), fmt.Sprintf("freed on every failing return (%d exits explored)", res.Exits))
		}
		for _, v := range res.Violations {
			r.bad(c.Prop, construct, p.Pos(v.Born.Pos), fmt.Sprintf("sectors allocated here are freed %d times on the failing return at %s: device space leaks (or is freed twice) when a write fails", v.Count, p.Pos(v.Exit)))
		}
	}
	return r
}

// dependsOn computes, flow-insensitively, whether the value of expression e can depend on variable v
// through the assignments of the function.
func dependsOn(u *FuncUnit, e ast.Expr, target *types.Var) bool {
	info := u.Info()
	deps := map[*types.Var]map[*types.Var]bool{}
	addDeps := func(lhs *types.Var, rhs ast.Expr) {
		if lhs == nil {
			return
		}
		if deps[lhs] == nil {
			deps[lhs] = map[*types.Var]bool{}
		}
		ast.Inspect(rhs, func(n ast.Node) bool {
			if id, ok := n.(*ast.Ident); ok {
				if v, ok := info.Uses[id].(*types.Var); ok && !v.IsField() {
					deps[lhs][v] = true
				}
			}
			return true
		})
	}
	ast.Inspect(u.Decl.Body, func(n ast.Node) bool {
		as, ok := n.(*ast.AssignStmt)
		if !ok {
			return true
		}
		for i, l := range as.Lhs {
			id, ok := l.(*ast.Ident)
			if !ok {
				continue
			}
			v, _ := info.Defs[id].(*types.Var)
			if v == nil {
				v, _ = info.Uses[id].(*types.Var)
			}
			if len(as.Lhs) == len(as.Rhs) {
				addDeps(v, as.Rhs[i])
			}
		}
		return true
	})
	seen := map[*types.Var]bool{}
	var reach func(v *types.Var) bool
	reach = func(v *types.Var) bool {
		if v == target {
			return true
		}
		if seen[v] {
			return false
		}
		seen[v] = true
		for d := range deps[v] {
			if reach(d) {
				return true
			}
		}
		return false
	}
	found := false
	ast.Inspect(e, func(n ast.Node) bool {
		if id, ok := n.(*ast.Ident); ok {
			if v, ok := info.Uses[id].(*types.Var); ok && reach(v) {
				found = true
			}
		}
		return true
	})
	return found
}

func c15SizeFromCount(c *Ctx) *RuleResult {
	r := &RuleResult{Rule: "C15.size-from-count", Floor: 1,
		Doc: "after a growing write through the quota-enforcing file, the recorded size (and therefore the amount of quota kept) is computed from the byte count the underlying write actually returned, not from whether it reported an error: the value stored in quotaEnforcingFile.size data-depends on that count, and the partial release is `reserved end - recorded size`"}
	p := c.P
	size := p.LookupField(poolPkg, "quotaEnforcingFile", "size")
	u := p.Unit(poolPkg, "quotaEnforcingFile.WriteAt")
	info := u.Info()
	// n of `n, err := f.FileReadWriter.WriteAt(p, off)` after an allocate
	var nVar *types.Var
	ast.Inspect(u.Decl.Body, func(m ast.Node) bool {
		as, ok := m.(*ast.AssignStmt)
		if !ok || len(as.Lhs) != 2 || len(as.Rhs) != 1 {
			return true
		}
		if call, ok := ast.Unparen(as.Rhs[0]).(*ast.CallExpr); ok {
			if sel, ok := ast.Unparen(call.Fun).(*ast.SelectorExpr); ok && sel.Sel.Name == "WriteAt" {
				if id, ok := as.Lhs[0].(*ast.Ident); ok {
					nVar, _ = info.Defs[id].(*types.Var)
				}
			}
		}
		return true
	})
	if nVar == nil {
		panic(anchorError("quotaEnforcingFile.WriteAt: byte count of the underlying write"))
	}
	for _, w := range FieldWrites([]*FuncUnit{u}, size, false) {
		construct := constructOf(u, "size = "+exprStr(w.RHS))
		if w.RHS != nil && dependsOn(u, w.RHS, nVar) {
			r.ok(construct, posOf(p, w.Node), "depends on the returned byte count "+nVar.Name())
		} else {
			r.bad(c.Prop, construct, posOf(p, w.Node), "the size recorded after a growing write does not depend on the number of bytes the underlying write reported: a short (partially successful) write leaves bytes stored that are not accounted for, so quota is over-released and later truncation is skipped")
		}
	}
	return r
}

func init() {
	register(&PropertySpec{
		ID:          "C15",
		Level:       "other",
		Explanation: "Only the conservation-on-failure clause is decided: every quota allocation is released on every failing return or transferred to the returned file, whose Close releases files and bytes; allocated sectors are freed on every failing return of the allocating function; the size recorded after a growing write comes from the returned byte count. Byte-level sparse-file semantics, hole contents, bitmap arithmetic and exact conservation over histories are NOT decided by static analysis.",
		Assumptions: []string{"quotaMetric.allocate/release and the bitmap allocator are correct in themselves"},
		Rules:       []RuleFunc{c15Quota, c15Sectors, c15SizeFromCount, c15WriteSizeFromCount, c15PoolRules},
	})
}
