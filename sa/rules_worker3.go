package main

// Worker-side rules added after the third round of independently seeded changes (DESIGN.md §8.2).

import (
	"fmt"
	"go/ast"
	"go/token"
	"go/types"
	"strings"
)

// c08DeadlineInit: the base of the shutdown deadline is meaningful from construction on.
func c08DeadlineInit(c *Ctx) *RuleResult {
	r := &RuleResult{Rule: "C08.deadline-init", Floor: 1,
		Doc: "the time from which 'the scheduler may think we are executing' is derived (BuildClient.nextSynchronizationAt) is initialised from the clock when the client is constructed, so that a worker whose first synchronisations fail does not consider the deadline passed since year 1 and exit while the scheduler still waits for it"}
	p := c.P
	next := p.LookupField(builderPkg, "BuildClient", "nextSynchronizationAt")
	n := 0
	for _, w := range FieldWrites(p.UnitsIn(builderPkg), next, true) {
		kv, ok := w.Node.(*ast.KeyValueExpr)
		if !ok {
			continue
		}
		n++
		construct := constructOf(w.Unit, "nextSynchronizationAt initialised")
		if call, ok := ast.Unparen(kv.Value).(*ast.CallExpr); ok {
			if sel, ok := ast.Unparen(call.Fun).(*ast.SelectorExpr); ok && sel.Sel.Name == "Now" {
				r.ok(construct, posOf(p, kv), "from the clock")
				continue
			}
		}
		r.bad(c.Prop, construct, posOf(p, kv), "the initial value is not the current time")
	}
	for _, w := range FieldWrites(p.UnitsIn(builderPkg), next, false) {
		if w.Unit.Decl.Recv == nil && w.RHS != nil {
			n++
			r.ok(constructOf(w.Unit, "nextSynchronizationAt initialised"), posOf(p, w.Node), "assigned in the constructor")
		}
	}
	if n == 0 {
		r.bad(c.Prop, "builder.BuildClient|nextSynchronizationAt initialised", "-", "no constructor initialises nextSynchronizationAt: until the first successful synchronisation the shutdown deadline is the zero time plus a minute, so a worker that is shut down after a failed first synchronisation terminates at once although it may have been handed an action")
	}
	return r
}

// c09StickyError: a failure of an earlier batch is reported by the final flush.
func c09StickyError(c *Ctx) *RuleResult {
	r := &RuleResult{Rule: "C09.sticky-error", Floor: 1,
		Doc: "a write that was acknowledged but failed in an intermediate flush is reported by the final flush: the batching store's error field is only reset by the flush function handed out by its constructor (which returns the value it resets), never by Put or by the batch flush itself"}
	p := c.P
	units := p.UnitsIn("pkg/blobstore")
	var fe *types.Var
	func() {
		defer func() { recover() }()
		fe = p.LookupField("pkg/blobstore", "batchedStoreBlobAccess", "flushError")
	}()
	if fe == nil {
		panic(anchorError("pkg/blobstore.batchedStoreBlobAccess.flushError"))
	}
	for _, w := range FieldWrites(units, fe, false) {
		if w.RHS == nil || !isNilIdent(w.RHS) {
			continue
		}
		u := w.Unit
		construct := constructOf(u, "flushError = nil")
		// the function that clears: a literal, or the method itself
		info := u.Info()
		fl := enclosingFuncLit(u.Decl.Body, w.Node)
		body := u.Decl.Body
		if fl != nil {
			body = fl.Body
		}
		// (a) it returns the value it clears: v := x.flushError; x.flushError = nil; return v
		reports := false
		ast.Inspect(body, func(n ast.Node) bool {
			ret, ok := n.(*ast.ReturnStmt)
			if !ok || len(ret.Results) != 1 || enclosingFuncLit(body, ret) != nil {
				return true
			}
			if id, ok := ast.Unparen(ret.Results[0]).(*ast.Ident); ok {
				ast.Inspect(body, func(m ast.Node) bool {
					if as, ok := m.(*ast.AssignStmt); ok && len(as.Lhs) == 1 && len(as.Rhs) == 1 && exprStr(as.Lhs[0]) == id.Name && fieldOf(info, as.Rhs[0]) == fe && as.Pos() < w.Node.Pos() {
						reports = true
					}
					return true
				})
			}
			return true
		})
		// (b) it is the flusher handed out by the constructor (as a literal or a method value)
		returned := false
		for _, cu := range units {
			cinfo := cu.Info()
			ast.Inspect(cu.Decl.Body, func(n ast.Node) bool {
				ret, ok := n.(*ast.ReturnStmt)
				if !ok || enclosingFuncLit(cu.Decl.Body, ret) != nil {
					return true
				}
				for _, res := range ret.Results {
					res = ast.Unparen(res)
					if fl != nil && res == ast.Expr(fl) {
						returned = true
					}
					if fl == nil {
						if sel, ok := res.(*ast.SelectorExpr); ok {
							if s, ok := cinfo.Selections[sel]; ok && s.Kind() == types.MethodVal && s.Obj() == types.Object(u.Fn) {
								returned = true
							}
						}
					}
				}
				return true
			})
		}
		okR := returned && reports
		if okR {
			r.ok(construct, posOf(p, w.Node), "in the flush function, which returns the error it resets")
		} else {
			r.bad(c.Prop, construct, posOf(p, w.Node), "the pending flush error is cleared outside the final flush (or without being returned): the failure of an already acknowledged write is reported once to an unrelated caller, or never, and the final flush reports success")
		}
	}
	return r
}

// c09WriteErrors: a failed storage write shows in the response.
func c09WriteErrors(c *Ctx) *RuleResult {
	r := &RuleResult{Rule: "C09.write-errors", Floor: 2,
		Doc: "if a storage write made by the caching executor fails, the response carries an error: the error result of every Action Cache Put and CASPutProto in cachingBuildExecutor.Execute is bound to a variable, and on the branch where it is non-nil it is passed to attachErrorToExecuteResponse"}
	p := c.P
	u := p.Unit(builderPkg, "cachingBuildExecutor.Execute")
	info := u.Info()
	attach := p.LookupFunc(builderPkg, "attachErrorToExecuteResponse")
	ast.Inspect(u.Decl.Body, func(n ast.Node) bool {
		call, ok := n.(*ast.CallExpr)
		if !ok {
			return true
		}
		fn := calleeOf(info, call)
		if fn == nil {
			return true
		}
		isWrite := fn.Name() == "CASPutProto" || (fn.Name() == "Put" && strings.HasSuffix(exprStr(ast.Unparen(call.Fun).(*ast.SelectorExpr).X), ".actionCache"))
		if !isWrite {
			return true
		}
		construct := constructOf(u, fn.Name()+" error attached")
		// bound to an error variable
		var errName string
		for _, anc := range pathTo(u.Decl.Body, call) {
			if as, ok := anc.(*ast.AssignStmt); ok && len(as.Rhs) == 1 && ast.Unparen(as.Rhs[0]) == ast.Expr(call) {
				errName = exprStr(as.Lhs[len(as.Lhs)-1])
			}
		}
		if errName == "" || errName == "_" {
			r.bad(c.Prop, construct, posOf(p, call), "the error of the storage write is not kept (compared in place or discarded): when the write fails the response still claims success and advertises digests that were never stored")
			return true
		}
		attached := false
		for _, cs := range CallsTo([]*FuncUnit{u}, attach) {
			ac := cs.Node.(*ast.CallExpr)
			if ac.Pos() < call.Pos() || len(ac.Args) < 2 || !mentionsIdent(ac.Args[1], errName) {
				continue
			}
			for _, g := range flattenGuards(GuardsOf(info, u.Decl.Body, ac)) {
				if guardErrNotNil(info, g, errName) {
					attached = true
				}
			}
		}
		if attached {
			r.ok(construct, posOf(p, call), "attached to the response when non-nil")
		} else {
			r.bad(c.Prop, construct, posOf(p, call), "a failed storage write is not reported in the response")
		}
		return true
	})
	return r
}

// c10Recursions: the traversals of the output hierarchy visit every subdirectory.
func c10Recursions(c *Ctx) *RuleResult {
	r := &RuleResult{Rule: "C10.traversal-complete", Floor: 2,
		Doc: "the ActionResult lists precisely the declared outputs that exist, at every depth: in every self-recursive method of the output hierarchy node the recursive descent into a subdirectory is conditioned only on errors so far / on having entered the directory / on the child having something below it -- never on bookkeeping such as 'already uploaded as an output directory' or 'already exists'"}
	p := c.P
	units := p.UnitsIn(builderPkg)
	for _, u := range units {
		if u.Decl.Recv == nil || recvTypeName(u) != "outputNode" {
			continue
		}
		info := u.Info()
		for _, st := range recursiveSites(p, units, u) {
			construct := constructOf(u, "recursive descent")
			sinfo := st.unit.Info()
			gs := append(append([]Guard{}, st.pre...), flattenGuards(GuardsOf(sinfo, st.unit.Decl.Body, st.call))...)
			bad := ""
			for _, g := range gs {
				if guardErrIsNil(sinfo, g, "") || guardErrNotNil(sinfo, g, "") {
					continue
				}
				mentions := false
				ast.Inspect(g.Cond, func(m ast.Node) bool {
					if sel, ok := m.(*ast.SelectorExpr); ok && (sel.Sel.Name == p.LookupField(builderPkg, "outputNode", "subdirectories").Name() || sel.Sel.Name == p.LookupField(builderPkg, "outputNode", "pathsToUpload").Name()) {
						mentions = true
					}
					return true
				})
				if mentions {
					continue
				}
				// filters on the error of creating/entering the directory
				if mentionsErrVar(sinfo, g.Cond) {
					if !g.Pos && isConj(g.Cond) && conjHasErrNotNil(sinfo, g.Cond) {
						continue
					}
					if call, ok := ast.Unparen(g.Cond).(*ast.CallExpr); ok {
						if fn := calleeOf(sinfo, call); fn != nil && fn.Pkg() != nil && fn.Pkg().Path() == "os" && !g.Pos {
							continue // !os.IsNotExist(err) etc. on the failure side
						}
					}
				}
				bad = g.String()
			}
			_ = info
			if bad == "" {
				r.ok(construct, posOf(p, st.call), "conditioned only on success / having entered the directory")
			} else {
				r.bad(c.Prop, construct, posOf(p, st.call), "the descent into a subdirectory is skipped under the additional condition "+bad+": declared outputs (or their parent directories) below it are silently not processed")
			}
		}
	}
	return r
}

type recSite struct {
	unit *FuncUnit
	call ast.Node
	pre  []Guard
}

// recursiveSites: the calls through which method u reaches itself: direct ones, and calls of u made
// from a helper that u calls (with the guards of the helper call).
func recursiveSites(p *Program, units []*FuncUnit, u *FuncUnit) []recSite {
	info := u.Info()
	var sites []recSite
	for _, cs := range CallsTo([]*FuncUnit{u}, u.Fn) {
		sites = append(sites, recSite{u, cs.Node, nil})
	}
	viaHelper := mayDo(units, func(x *FuncUnit, m ast.Node) bool {
		call, ok := m.(*ast.CallExpr)
		return ok && x.Fn != u.Fn && calleeOf(x.Info(), call) == u.Fn
	})
	ast.Inspect(u.Decl.Body, func(m ast.Node) bool {
		call, ok := m.(*ast.CallExpr)
		if !ok {
			return true
		}
		fn := calleeOf(info, call)
		if fn == nil || fn == u.Fn || !viaHelper[fn] {
			return true
		}
		pre := flattenGuards(GuardsOf(info, u.Decl.Body, call))
		for _, hu := range units {
			if hu.Fn != fn {
				continue
			}
			for _, cs := range CallsTo([]*FuncUnit{hu}, u.Fn) {
				sites = append(sites, recSite{hu, cs.Node, pre})
			}
		}
		return true
	})
	return sites
}

// c10UploadAlways: outputs are collected whatever the command's outcome.
func c10UploadAlways(c *Ctx) *RuleResult {
	r := &RuleResult{Rule: "C10.upload-always", Floor: 1,
		Doc: "the ActionResult lists the declared outputs that exist after the command, also when the command failed or timed out: the call that uploads the outputs in the local executor is not conditioned on the error of running the command"}
	p := c.P
	for _, u := range p.UnitsIn(builderPkg) {
		info := u.Info()
		// the error variable of the runner's Run call
		runErr := ""
		ast.Inspect(u.Decl.Body, func(n ast.Node) bool {
			as, ok := n.(*ast.AssignStmt)
			if !ok || len(as.Rhs) != 1 || len(as.Lhs) != 2 {
				return true
			}
			if call, ok := ast.Unparen(as.Rhs[0]).(*ast.CallExpr); ok {
				if sel, ok := ast.Unparen(call.Fun).(*ast.SelectorExpr); ok && sel.Sel.Name == "Run" {
					if tv, ok := info.Types[sel.X]; ok && strings.Contains(tv.Type.String(), "RunnerClient") {
						runErr = exprStr(as.Lhs[1])
					}
				}
			}
			return true
		})
		if runErr == "" && u.Fn == p.LookupFunc(builderPkg, "localBuildExecutor.Execute") {
			runners := runnerRunCallers(p)
			ast.Inspect(u.Decl.Body, func(n ast.Node) bool {
				as, ok := n.(*ast.AssignStmt)
				if !ok || len(as.Rhs) != 1 || len(as.Lhs) < 2 {
					return true
				}
				if call, ok := ast.Unparen(as.Rhs[0]).(*ast.CallExpr); ok && runners[calleeOf(info, call)] {
					runErr = exprStr(as.Lhs[len(as.Lhs)-1])
				}
				return true
			})
		}
		if runErr == "" {
			continue
		}
		uploaders := uploadOutputsCallers(p)
		ast.Inspect(u.Decl.Body, func(n ast.Node) bool {
			call, ok := n.(*ast.CallExpr)
			if !ok {
				return true
			}
			sel, ok := ast.Unparen(call.Fun).(*ast.SelectorExpr)
			if !ok || (sel.Sel.Name != "UploadOutputs" && !uploaders[calleeOf(info, call)]) {
				return true
			}
			construct := constructOf(u, "UploadOutputs")
			bad := ""
			for _, g := range flattenGuards(GuardsOf(info, u.Decl.Body, call)) {
				if mentionsIdent(g.Cond, runErr) {
					bad = g.String()
				}
			}
			if bad == "" {
				r.ok(construct, posOf(p, call), "not conditioned on the outcome of running the command")
			} else {
				r.bad(c.Prop, construct, posOf(p, call), "outputs are only collected when "+bad+": after a failed or timed-out command the outputs it wrote exist but are not reported")
			}
			return true
		})
	}
	return r
}

// c11Transitions: suspension accounting changes only on the 0<->1 transitions.
func c11Transitions(c *Ctx) *RuleResult {
	r := &RuleResult{Rule: "C11.transitions", Floor: 2,
		Doc: "time during which the clock is suspended is never credited as run time, also with overlapping suspensions: SuspendableClock.totalUnsuspended and unsuspensionStart are only written (outside the constructor) under suspensionCount == 0, i.e. when the clock goes from running to suspended (Suspend, before the increment) or from suspended to running (Resume, after the decrement)"}
	p := c.P
	units := p.UnitsIn("pkg/clock")
	sc := p.LookupField("pkg/clock", "SuspendableClock", "suspensionCount")
	for _, fname := range []string{"totalUnsuspended", "unsuspensionStart"} {
		f := p.LookupField("pkg/clock", "SuspendableClock", fname)
		for _, w := range FieldWrites(units, f, false) {
			u := w.Unit
			if u.Decl.Recv == nil {
				continue // a constructor filling in the object it is about to return
			}
			info := u.Info()
			construct := constructOf(u, "write "+fname)
			okG := false
			for _, g := range flattenGuards(GuardsOf(info, u.Decl.Body, w.Node)) {
				be, ok := ast.Unparen(g.Cond).(*ast.BinaryExpr)
				if ok && g.Pos && be.Op == token.EQL && fieldOf(info, be.X) == sc && exprStr(be.Y) == "0" {
					okG = true
				}
			}
			if !okG {
				// `count = 0` (the last suspension being dropped) dominates the write in the same block
				g := NewFuncCFG(info, u.Decl.Body)
				for _, zw := range FieldWrites([]*FuncUnit{u}, sc, false) {
					if zw.RHS == nil {
						continue
					}
					if tv, ok := info.Types[zw.RHS]; ok && tv.Value != nil && tv.Value.ExactString() == "0" && g.Dominates(zw.Node, w.Node) && sameInnermostBlock(u.Decl.Body, zw.Node, w.Node) {
						okG = true
					}
				}
			}
			if !okG && w.RHS != nil {
				// the new value comes from a getter that only adds the time since the last resumption
				// while the clock is running: every read of unsuspensionStart in it is under count == 0
				if call, ok := ast.Unparen(w.RHS).(*ast.CallExpr); ok {
					if hu := p.UnitOf(calleeOf(info, call)); hu != nil && hu.Fn.Pkg() == u.Fn.Pkg() {
						us := p.LookupField("pkg/clock", "SuspendableClock", "unsuspensionStart")
						reads, allGuarded := 0, true
						ast.Inspect(hu.Decl.Body, func(n ast.Node) bool {
							sel, ok := n.(*ast.SelectorExpr)
							if !ok || fieldOf(hu.Info(), sel) != us {
								return true
							}
							reads++
							gd := false
							for _, g := range flattenGuards(GuardsOf(hu.Info(), hu.Decl.Body, sel)) {
								be, ok := ast.Unparen(g.Cond).(*ast.BinaryExpr)
								if ok && g.Pos && be.Op == token.EQL && fieldOf(hu.Info(), be.X) == sc && exprStr(be.Y) == "0" {
									gd = true
								}
							}
							if !gd {
								allGuarded = false
							}
							return true
						})
						if reads > 0 && allGuarded && fname == "totalUnsuspended" {
							okG = true
						}
					}
				}
			}
			if okG {
				r.ok(construct, posOf(p, w.Node), "only on a running<->suspended transition")
			} else {
				r.bad(c.Prop, construct, posOf(p, w.Node), "the accounting of unsuspended time is updated while the clock may already be suspended: with two overlapping suspensions the stall between them is counted as run time, so a command that stayed within its budget is cancelled and its reported duration is inflated")
			}
		}
	}
	return r
}

// c11ContextErr: the error of a context created by the suspendable clock.
func c11ContextErr(c *Ctx) *RuleResult {
	r := &RuleResult{Rule: "C11.context-err", Floor: 2,
		Doc: "a command that runs into its (suspension-compensated) timeout is reported as DEADLINE_EXCEEDED, also when the bound on compensation is what ends it: the error stored in a suspendable context is context.DeadlineExceeded (own timer) or whatever the base context, which carries timeout + maximum compensation, reports -- never a constant cancellation"}
	p := c.P
	units := p.UnitsIn("pkg/clock")
	errF := p.LookupField("pkg/clock", "suspendableContext", "err")
	type valueSite struct {
		u    *FuncUnit
		e    ast.Expr
		node ast.Node
	}
	for _, w := range FieldWrites(units, errF, false) {
		if w.RHS == nil {
			continue
		}
		// a value stored through a helper's parameter is judged where the helper is called
		sites := []valueSite{{w.Unit, w.RHS, w.Node}}
		if args := argsOfParam(units, w.Unit, w.RHS); args != nil {
			sites = nil
			for _, a := range args {
				sites = append(sites, valueSite{a.Unit, a.Expr, a.Node})
			}
		}
		for _, vs := range sites {
			info := vs.u.Info()
			construct := constructOf(vs.u, "ctx.err = "+exprStr(vs.e))
			okV := exprStr(vs.e) == "context.DeadlineExceeded"
			if call, ok := ast.Unparen(vs.e).(*ast.CallExpr); ok {
				if sel, ok := ast.Unparen(call.Fun).(*ast.SelectorExpr); ok && sel.Sel.Name == "Err" {
					if tv, ok := info.Types[sel.X]; ok && isContextType(tv.Type) {
						okV = true
					}
				}
			}
			if okV {
				r.ok(construct, posOf(p, vs.node), "deadline, or the base context's own error")
			} else {
				r.bad(c.Prop, construct, posOf(p, vs.node), "the context ends with a fixed error instead of the base context's: when the bounded compensation is exhausted the action is reported as cancelled rather than DEADLINE_EXCEEDED")
			}
		}
	}
	return r
}

// freshMkdir: directories that must be new are created without tolerating "already exists".
func freshMkdir(c *Ctx) *RuleResult {
	r := &RuleResult{Rule: c.Prop + ".fresh-mkdir", Floor: 5,
		Doc: "a directory that has to be new (the per-action build directory, the input root and its parts, temporary and log directories) is created with every Mkdir error treated as a failure; 'already exists' is only tolerated at the frozen sites where pre-existing directories are expected (parents of declared outputs, which may be part of the input root; /dev in the input root)"}
	p := c.P
	allow := map[string]string{
		"createParentDirectories": "output parent directories may already exist in the input root",
		"createCharacterDevices":  "/dev may have been provided by the input root",
	}
	for _, u := range p.UnitsIn(builderPkg) {
		info := u.Info()
		ast.Inspect(u.Decl.Body, func(n ast.Node) bool {
			ifs, ok := n.(*ast.IfStmt)
			if !ok || ifs.Init == nil {
				return true
			}
			as, ok := ifs.Init.(*ast.AssignStmt)
			if !ok || len(as.Rhs) != 1 {
				return true
			}
			call, ok := ast.Unparen(as.Rhs[0]).(*ast.CallExpr)
			if !ok {
				return true
			}
			sel, ok := ast.Unparen(call.Fun).(*ast.SelectorExpr)
			if !ok || sel.Sel.Name != "Mkdir" {
				return true
			}
			construct := constructOf(u, "Mkdir("+exprStr(call.Args[0])+")")
			tolerates := false
			ast.Inspect(ifs.Cond, func(m ast.Node) bool {
				if cc, ok := m.(*ast.CallExpr); ok {
					if fn := calleeOf(info, cc); fn != nil && fn.Pkg() != nil && fn.Pkg().Path() == "os" && fn.Name() == "IsExist" {
						tolerates = true
					}
				}
				return true
			})
			switch {
			case !tolerates:
				r.ok(construct, posOf(p, call), "every error is a failure")
			case allow[u.Fn.Name()] != "":
				r.ok(construct, posOf(p, call), "tolerates EEXIST: "+allow[u.Fn.Name()])
			default:
				r.bad(c.Prop, construct, posOf(p, call), fmt.Sprintf("%s tolerates a directory that already exists: an action is started in a directory that is not its own and empty (shared with a concurrent action, or left over), or an input root with duplicate directory names is merged instead of rejected", u.Fn.Name()))
			}
			return true
		})
	}
	return r
}

// sameInnermostBlock: a and b are statements of the same statement list (block or case clause).
func sameInnermostBlock(body *ast.BlockStmt, a, b ast.Node) bool {
	holder := func(n ast.Node) ast.Node {
		var h ast.Node
		for _, anc := range pathTo(body, n) {
			switch anc.(type) {
			case *ast.BlockStmt, *ast.CaseClause, *ast.CommClause:
				if anc != n {
					h = anc
				}
			}
		}
		return h
	}
	return holder(a) != nil && holder(a) == holder(b)
}

// uploadOutputsCallers: the functions of the builder package (other than UploadOutputs itself) that
// call OutputHierarchy.UploadOutputs directly or through one another: a call of one of them in the
// executor is "the call that uploads the outputs".
func uploadOutputsCallers(p *Program) map[*types.Func]bool {
	up := p.LookupFunc(builderPkg, "OutputHierarchy.UploadOutputs")
	m := mayDo(p.UnitsIn(builderPkg), func(x *FuncUnit, n ast.Node) bool {
		call, ok := n.(*ast.CallExpr)
		return ok && calleeOf(x.Info(), call) == up
	})
	delete(m, up)
	delete(m, p.LookupFunc(builderPkg, "localBuildExecutor.Execute"))
	return m
}

// runnerRunCallers: unexported functions of the builder package that call the runner's Run.
func runnerRunCallers(p *Program) map[*types.Func]bool {
	m := mayDo(p.UnitsIn(builderPkg), func(x *FuncUnit, n ast.Node) bool {
		call, ok := n.(*ast.CallExpr)
		if !ok {
			return false
		}
		sel, ok := ast.Unparen(call.Fun).(*ast.SelectorExpr)
		return ok && sel.Sel.Name == "Run" && strings.HasSuffix(exprStr(sel.X), ".runner")
	})
	delete(m, p.LookupFunc(builderPkg, "localBuildExecutor.Execute"))
	return m
}
