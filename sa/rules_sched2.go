package main

// Scheduler rules added after the second round of independently seeded changes (DESIGN.md §8.1).

import (
	"fmt"
	"go/ast"
	"go/token"
	"go/types"
	"strings"
)

// schedWorkerRemoval: a worker that disappears always gives up its task.
func schedWorkerRemoval(c *Ctx) *RuleResult {
	r := &RuleResult{Rule: c.Prop + ".worker-removal", Floor: 1,
		Doc: "a worker is only forgotten (delete from sizeClassQueue.workers) after its current task, if any, was completed: in the removing function the call task.complete is conditioned on nothing but the presence of a current task, and it dominates the delete on the paths where a task exists"}
	p := c.P
	units := p.UnitsIn(schedPkg)
	workers := p.LookupField(schedPkg, "sizeClassQueue", "workers")
	ct := p.LookupField(schedPkg, "worker", "currentTask")
	complete := p.LookupFunc(schedPkg, "task.complete")
	for _, w := range FieldWrites(units, workers, false) {
		del, ok := w.Node.(*ast.CallExpr)
		if !ok {
			continue
		}
		u := w.Unit
		info := u.Info()
		construct := constructOf(u, "forget worker")
		calls := CallsTo([]*FuncUnit{u}, complete)
		if len(calls) == 0 {
			r.bad(c.Prop, construct, posOf(p, del), "a worker is removed without completing the task it holds: the task stays EXECUTING on a worker that no longer exists")
			continue
		}
		okC := false
		why := ""
		for _, cs := range calls {
			gs := flattenGuards(GuardsOf(info, u.Decl.Body, cs.Node))
			only := true
			hasTask := false
			for _, g := range gs {
				x, nonNil, isNil := nilTestOf(g)
				if isNil && (fieldOf(info, resolveLocalAlias(u, x)) == ct || fieldOf(info, x) == ct) {
					if nonNil {
						hasTask = true
					}
					continue
				}
				only = false
				why = g.String()
			}
			if only && hasTask && cs.Node.Pos() < del.Pos() {
				okC = true
			}
		}
		if okC {
			r.ok(construct, posOf(p, del), "the held task is completed whenever there is one, before the worker is deleted")
		} else {
			r.bad(c.Prop, construct, posOf(p, del), "the removed worker's task is only completed under an extra condition ("+why+"): in the other case the task stays assigned to a worker that is gone, its clients and TerminateWorkers hang")
		}
	}
	return r
}

// schedUnqueueAll: a task taken from a queue is unqueued for ALL of its operations.
func schedUnqueueAll(c *Ctx) *RuleResult {
	r := &RuleResult{Rule: c.Prop + ".unqueue-all", Floor: 2,
		Doc: "when a queued task is given to a worker it leaves every queue it is in: a task read out of an invocation's queuedOperations is only passed to a function that removes, in a loop over task.operations, each operation from its invocation; operation.removeQueuedFromInvocation is only called from such a loop or for the single operation that is being removed itself"}
	p := c.P
	units := p.UnitsIn(schedPkg)
	qo := p.LookupField(schedPkg, "invocation", "queuedOperations")
	ops := p.LookupField(schedPkg, "task", "operations")
	rq := p.LookupFunc(schedPkg, "operation.removeQueuedFromInvocation")
	unqueuesAll := func(fn *types.Func) bool {
		fd := p.Decl(fn)
		if fd == nil {
			return false
		}
		info := p.InfoFor(fd)
		found := false
		ast.Inspect(fd.Body, func(n ast.Node) bool {
			rs, ok := n.(*ast.RangeStmt)
			if !ok || fieldOf(info, rs.X) != ops {
				return true
			}
			ast.Inspect(rs.Body, func(m ast.Node) bool {
				if call, ok := m.(*ast.CallExpr); ok && calleeOf(info, call) == rq {
					found = true
				}
				return true
			})
			return true
		})
		return found
	}
	for _, u := range units {
		info := u.Info()
		ast.Inspect(u.Decl.Body, func(n ast.Node) bool {
			call, ok := n.(*ast.CallExpr)
			if !ok {
				return true
			}
			fn := calleeOf(info, call)
			if fn == nil || p.Decl(fn) == nil {
				return true
			}
			for _, a := range call.Args {
				src := resolveLocalAlias(u, a)
				fromQueue := false
				ast.Inspect(src, func(m ast.Node) bool {
					if e, ok := m.(ast.Expr); ok && fieldOf(info, e) == qo {
						fromQueue = true
					}
					return true
				})
				sel, isSel := ast.Unparen(src).(*ast.SelectorExpr)
				if !fromQueue || !isSel || sel.Sel.Name != "task" {
					continue
				}
				construct := constructOf(u, "hand out queued task via "+fn.Name())
				// methods invoked ON the task (complete) handle queued tasks themselves
				if unqueuesAll(fn) {
					r.ok(construct, posOf(p, call), fn.Name()+" unqueues every operation of the task")
				} else {
					r.bad(c.Prop, construct, posOf(p, call), "a task taken from a queue is assigned through "+fn.Name()+", which does not remove all of the task's operations from their invocations: the task is both assigned to a worker and still queued, and is handed out a second time")
				}
			}
			return true
		})
		// direct calls of removeQueuedFromInvocation
		for _, cs := range CallsTo([]*FuncUnit{u}, rq) {
			inLoop := false
			for _, anc := range pathTo(u.Decl.Body, cs.Node) {
				if rs, ok := anc.(*ast.RangeStmt); ok && fieldOf(info, rs.X) == ops {
					inLoop = true
				}
			}
			recv := exprStr(ast.Unparen(cs.Node.(*ast.CallExpr).Fun).(*ast.SelectorExpr).X)
			self := u.Decl.Recv != nil && len(u.Decl.Recv.List[0].Names) > 0 && u.Decl.Recv.List[0].Names[0].Name == recv
			construct := constructOf(u, "removeQueuedFromInvocation on "+recv)
			if inLoop || self {
				r.ok(construct, posOf(p, cs.Node), "all operations of the task, or the operation being removed itself")
			} else {
				r.bad(c.Prop, construct, posOf(p, cs.Node), "only one operation of a (possibly deduplicated) task is unqueued")
			}
		}
	}
	return r
}

// shrinkers: functions that (transitively) remove elements from a container field.
func shrinkersOf(p *Program, units []*FuncUnit, field *types.Var) map[*types.Func]bool {
	direct := map[*types.Func]bool{}
	calls := map[*types.Func][]*types.Func{}
	for _, u := range units {
		info := u.Info()
		ast.Inspect(u.Decl.Body, func(n ast.Node) bool {
			switch x := n.(type) {
			case *ast.CallExpr:
				fn := calleeOf(info, x)
				if fn != nil {
					if p.Decl(fn) != nil {
						calls[u.Fn] = append(calls[u.Fn], fn)
					}
					name := fn.Name()
					isRemover := (fn.Pkg() != nil && fn.Pkg().Path() == "container/heap" && (name == "Remove" || name == "Pop")) || name == "heapRemoveOrFix"
					if isRemover && len(x.Args) > 0 {
						if ue, ok := ast.Unparen(x.Args[0]).(*ast.UnaryExpr); ok && fieldOf(info, ue.X) == field {
							direct[u.Fn] = true
						}
					}
				}
				if id, ok := ast.Unparen(x.Fun).(*ast.Ident); ok && id.Name == "delete" && len(x.Args) == 2 && fieldOf(info, x.Args[0]) == field {
					direct[u.Fn] = true
				}
			case *ast.AssignStmt:
				for i, l := range x.Lhs {
					if fieldOf(info, l) == field && i < len(x.Rhs) {
						if sl, ok := ast.Unparen(x.Rhs[i]).(*ast.SliceExpr); ok && fieldOf(info, sl.X) == field {
							direct[u.Fn] = true
						}
					}
				}
			}
			return true
		})
	}
	for changed := true; changed; {
		changed = false
		for f, cs := range calls {
			if direct[f] {
				continue
			}
			for _, c := range cs {
				if direct[c] {
					direct[f] = true
					changed = true
					break
				}
			}
		}
	}
	return direct
}

func schedDrainLoops(c *Ctx) *RuleResult {
	r := &RuleResult{Rule: c.Prop + ".drain-loops", Floor: 2,
		Doc: "loops that empty a scheduler container by completing/removing its elements re-test the container itself (for len(X) > 0 / X.Len() > 0): no loop walks a container by a counting index while its body, through the functions it calls, removes elements from that same container (which skips every other element and leaves clients without a final message)"}
	p := c.P
	units := p.UnitsIn(schedPkg)
	fields := []*types.Var{
		p.LookupField(schedPkg, "invocation", "queuedChildren"),
		p.LookupField(schedPkg, "invocation", "queuedOperations"),
		p.LookupField(schedPkg, "invocation", "idleSynchronizingWorkersChildren"),
	}
	for _, f := range fields {
		shr := shrinkersOf(p, units, f)
		for _, u := range units {
			info := u.Info()
			ast.Inspect(u.Decl.Body, func(n ast.Node) bool {
				loop, ok := n.(*ast.ForStmt)
				if !ok {
					return true
				}
				mentionsF := func(e ast.Node) bool {
					found := false
					ast.Inspect(e, func(m ast.Node) bool {
						if x, ok := m.(ast.Expr); ok {
							if fieldOf(info, x) == f {
								found = true
							} else if id, ok := x.(*ast.Ident); ok {
								// a local that holds len(F) / F.Len() for this iteration
								if src := resolveLocalAlias(u, id); src != ast.Expr(id) {
									ast.Inspect(src, func(k ast.Node) bool {
										if y, ok := k.(ast.Expr); ok && fieldOf(info, y) == f {
											found = true
										}
										return true
									})
								}
							}
						}
						return !found
					})
					return found
				}
				// the loop's exit tests: its condition and the guards of the breaks/returns in its body
				mentions := loop.Cond != nil && mentionsF(loop.Cond)
				ast.Inspect(loop.Body, func(m ast.Node) bool {
					switch x := m.(type) {
					case *ast.FuncLit, *ast.ForStmt, *ast.RangeStmt:
						return false
					case *ast.BranchStmt, *ast.ReturnStmt:
						if b, ok := x.(*ast.BranchStmt); ok && b.Tok != token.BREAK {
							return true
						}
						for _, gd := range GuardsOf(info, loop.Body, x) {
							if mentionsF(gd.Cond) {
								mentions = true
							}
						}
					}
					return true
				})
				if !mentions {
					return true
				}
				// a counting loop is only "over F" when its bound is F's length
				if (loop.Post != nil || loop.Init != nil) && !(loop.Cond != nil && mentionsF(loop.Cond)) {
					return true
				}
				bodyShrinks := false
				ast.Inspect(loop.Body, func(m ast.Node) bool {
					if call, ok := m.(*ast.CallExpr); ok {
						if fn := calleeOf(info, call); fn != nil && shr[fn] {
							bodyShrinks = true
						}
					}
					return true
				})
				if !bodyShrinks {
					return true
				}
				construct := constructOf(u, "drain "+f.Name())
				if loop.Post == nil && loop.Init == nil {
					r.ok(construct, posOf(p, loop), "re-tests the container every iteration")
				} else {
					r.bad(c.Prop, construct, posOf(p, loop), "the loop advances an index over "+f.Name()+" while its body removes elements from it: every other element is skipped, so some queued operations are never completed and their clients never receive a final message")
				}
				return true
			})
		}
	}
	return r
}

func schedParkedRecheck(c *Ctx) *RuleResult {
	r := &RuleResult{Rule: c.Prop + ".parked-recheck", Floor: 1,
		Doc: "a worker that was parked (registered in idleSynchronizingWorkers) may have been handed a task while it waited without the lock: after re-acquiring the lock, every return that tells it to go idle is preceded by a test of worker.currentTask that returns the execute response instead"}
	p := c.P
	ct := p.LookupField(schedPkg, "worker", "currentTask")
	idle := p.LookupFunc(schedPkg, "InMemoryBuildQueue.getIdleSynchronizeResponse")
	// functions that park the worker, directly or through callees
	isEnqueue := func(call *ast.CallExpr) bool {
		sel, ok := ast.Unparen(call.Fun).(*ast.SelectorExpr)
		return ok && sel.Sel.Name == "enqueue" && strings.HasSuffix(exprStr(sel.X), ".idleSynchronizingWorkers")
	}
	parkers := map[*types.Func]bool{}
	for changed := true; changed; {
		changed = false
		for _, u := range p.UnitsIn(schedPkg) {
			if parkers[u.Fn] {
				continue
			}
			ast.Inspect(u.Decl.Body, func(n ast.Node) bool {
				if call, ok := n.(*ast.CallExpr); ok && !parkers[u.Fn] {
					if fn := calleeOf(u.Info(), call); isEnqueue(call) || (fn != nil && parkers[fn]) {
						parkers[u.Fn] = true
						changed = true
					}
				}
				return true
			})
		}
	}
	for _, u := range p.UnitsIn(schedPkg) {
		info := u.Info()
		var park ast.Node
		ast.Inspect(u.Decl.Body, func(n ast.Node) bool {
			if call, ok := n.(*ast.CallExpr); ok {
				if fn := calleeOf(info, call); isEnqueue(call) || (fn != nil && parkers[fn]) {
					park = call
				}
			}
			return true
		})
		if park == nil {
			continue
		}
		g := NewFuncCFG(info, u.Decl.Body)
		for _, cs := range CallsTo([]*FuncUnit{u}, idle) {
			var ret *ast.ReturnStmt
			for _, anc := range pathTo(u.Decl.Body, cs.Node) {
				if rs, ok := anc.(*ast.ReturnStmt); ok {
					ret = rs
				}
			}
			if ret == nil {
				continue
			}
			// reachable from the parking point within the same iteration (without passing a new parking)?
			isTaskTest := func(n ast.Node) bool {
				e, ok := n.(ast.Expr)
				if !ok {
					return false
				}
				be, ok := ast.Unparen(e).(*ast.BinaryExpr)
				return ok && (be.Op == token.NEQ || be.Op == token.EQL) && fieldOf(info, be.X) == ct && isNilIdent(be.Y)
			}
			reach, _ := g.ReachableWithout(park, ret, func(n ast.Node) bool { return isTaskTest(n) })
			construct := constructOf(u, "idle response after parking")
			if reach {
				r.bad(c.Prop, construct, posOf(p, ret), "after having been parked the worker can be told to go idle without checking whether a task was assigned to it in the meantime: the task stays assigned to a worker that was told to idle, burns a retry or fails with INTERNAL although it never ran")
			} else {
				r.ok(construct+"@"+posOf(p, ret), posOf(p, ret), "worker.currentTask is tested first")
			}
		}
	}
	return r
}

func schedOpsKey(c *Ctx) *RuleResult {
	r := &RuleResult{Rule: c.Prop + ".operations-key", Floor: 1,
		Doc: "an operation is removed from its task under its own key: every delete(task.operations, K) uses the operation's invocation field (or a variable that holds it and is never reassigned), mirroring the insertion invariant operations[i] = o <=> o.invocation = i"}
	p := c.P
	units := p.UnitsIn(schedPkg)
	ops := p.LookupField(schedPkg, "task", "operations")
	inv := p.LookupField(schedPkg, "operation", "invocation")
	for _, w := range FieldWrites(units, ops, false) {
		del, ok := w.Node.(*ast.CallExpr)
		if !ok {
			continue
		}
		u := w.Unit
		info := u.Info()
		key := del.Args[1]
		construct := constructOf(u, "delete(operations, "+exprStr(key)+")")
		okK := fieldOf(info, key) == inv
		if !okK {
			if id, isID := ast.Unparen(key).(*ast.Ident); isID {
				v, _ := info.Uses[id].(*types.Var)
				n, fromInv := 0, false
				ast.Inspect(u.Decl.Body, func(m ast.Node) bool {
					as, ok := m.(*ast.AssignStmt)
					if !ok {
						return true
					}
					for i, l := range as.Lhs {
						if lid, ok := l.(*ast.Ident); ok && (info.Defs[lid] == v || info.Uses[lid] == v) {
							n++
							if i < len(as.Rhs) && fieldOf(info, as.Rhs[i]) == inv {
								fromInv = true
							}
						}
					}
					return true
				})
				okK = n == 1 && fromInv
			}
		}
		if okK {
			r.ok(construct, posOf(p, del), "the operation's own invocation")
		} else {
			r.bad(c.Prop, construct, posOf(p, del), "the key used to detach the operation from its task is not (guaranteed to be) the operation's own invocation — e.g. a variable that was walked up to a parent invocation: the abandoned operation stays attached to the task, or another client's operation is detached")
		}
	}
	return r
}

func schedPropagationLoops(c *Ctx) *RuleResult {
	r := &RuleResult{Rule: "C04.propagate", Floor: 4,
		Doc: "changes at an invocation are propagated to ALL ancestors: every loop that re-sorts a parent's heap (heapPushOrFix / heapRemoveOrFix / heapMaybeFix on X.parent.<heap>) or adjusts a per-invocation counter (X.count++ / --) and steps X = X.parent runs until the root — its only exits are the X.parent == nil test (as loop condition or guarded break)"}
	p := c.P
	parent := p.LookupField(schedPkg, "invocation", "parent")
	fixers := map[*types.Func]bool{p.LookupFunc(schedPkg, "heapPushOrFix"): true, p.LookupFunc(schedPkg, "heapRemoveOrFix"): true, p.LookupFunc(schedPkg, "heapMaybeFix"): true}
	for _, u := range p.UnitsIn(schedPkg) {
		info := u.Info()
		ast.Inspect(u.Decl.Body, func(n ast.Node) bool {
			loop, ok := n.(*ast.ForStmt)
			if !ok {
				return true
			}
			fixes, steps := false, false
			ast.Inspect(loop.Body, func(m ast.Node) bool {
				switch x := m.(type) {
				case *ast.ForStmt, *ast.RangeStmt, *ast.FuncLit:
					return false // nested loops are judged on their own
				case *ast.CallExpr:
					if fn := calleeOf(info, x); fn != nil {
						if fixers[fn] {
							fixes = true
						}
						// container/heap used directly on a heap of the parent
						if fn.Pkg() != nil && fn.Pkg().Path() == "container/heap" && len(x.Args) > 0 {
							if ue, ok := ast.Unparen(x.Args[0]).(*ast.UnaryExpr); ok {
								if sel, ok := ast.Unparen(ue.X).(*ast.SelectorExpr); ok && fieldOf(info, sel.X) == parent {
									fixes = true
								}
							}
						}
					}
				case *ast.IncDecStmt:
					// a per-invocation counter of the loop variable is adjusted at every level
					if sel, ok := ast.Unparen(x.X).(*ast.SelectorExpr); ok && fieldOf(info, sel) != nil {
						if _, isID := ast.Unparen(sel.X).(*ast.Ident); isID && namedIs(info.TypeOf(sel.X), modPath+"/"+schedPkg, "invocation") {
							fixes = true
						}
					}
				case *ast.AssignStmt:
					if len(x.Lhs) == 1 && len(x.Rhs) == 1 && fieldOf(info, x.Rhs[0]) == parent {
						if sel, ok := ast.Unparen(x.Rhs[0]).(*ast.SelectorExpr); ok && exprStr(sel.X) == exprStr(x.Lhs[0]) {
							steps = true
						}
					}
				}
				return true
			})
			if as, ok := loop.Post.(*ast.AssignStmt); ok && len(as.Lhs) == 1 && len(as.Rhs) == 1 && fieldOf(info, as.Rhs[0]) == parent {
				steps = true
			}
			if !fixes || !steps {
				return true
			}
			construct := constructOf(u, "propagation loop")
			bad := ""
			// the walk ends when there is no parent (`X.parent == nil`) or when the cursor itself ran off
			// the root (`X == nil`, for loops written `for X := start; X != nil; X = X.parent`)
			isRootTest := func(e ast.Expr, wantEq bool) bool {
				be, ok := ast.Unparen(e).(*ast.BinaryExpr)
				if !ok || !isNilIdent(be.Y) || (be.Op != token.EQL && be.Op != token.NEQ) {
					return false
				}
				isCursor := false
				if id, ok := ast.Unparen(be.X).(*ast.Ident); ok && namedIs(info.TypeOf(id), modPath+"/"+schedPkg, "invocation") {
					isCursor = true
				}
				if fieldOf(info, be.X) != parent && !isCursor {
					return false
				}
				return (be.Op == token.EQL) == wantEq
			}
			if loop.Cond != nil && !isRootTest(loop.Cond, false) {
				bad = "loop condition is not `X.parent != nil` / `X != nil`"
			}
			var walkExits func(n ast.Node, breakable bool)
			walkExits = func(n ast.Node, breakable bool) {
				ast.Inspect(n, func(m ast.Node) bool {
					if m == n {
						return true
					}
					switch x := m.(type) {
					case *ast.FuncLit:
						return false
					case *ast.ForStmt, *ast.RangeStmt, *ast.SwitchStmt, *ast.TypeSwitchStmt, *ast.SelectStmt:
						walkExits(x, false) // an unlabelled break in there leaves that statement only
						return false
					case *ast.BranchStmt, *ast.ReturnStmt:
						if b, ok := x.(*ast.BranchStmt); ok && (b.Tok != token.BREAK && b.Tok != token.GOTO || (b.Tok == token.BREAK && b.Label == nil && !breakable)) {
							return true
						}
						okExit := false
						for _, gd := range flattenGuards(GuardsOf(info, loop.Body, x)) {
							if gd.Pos && isRootTest(gd.Cond, true) {
								okExit = true
							}
						}
						if !okExit {
							bad = "it can be left at " + posOf(p, x) + " before the root is reached"
						}
					}
					return true
				})
			}
			walkExits(loop.Body, true)
			if bad == "" {
				r.ok(construct, posOf(p, loop), "runs to the root")
			} else {
				r.bad(c.Prop, construct, posOf(p, loop), "a change (new first-queued priority, executing count, idle workers) is not propagated to every ancestor invocation: "+bad+"; the ancestors' heaps order by stale values")
			}
			return true
		})
	}
	return r
}

func schedMatchArgs(c *Ctx) *RuleResult {
	r := &RuleResult{Rule: "C05.match-args", Floor: 3,
		Doc: "drain patterns are matched the right way round (every key of the PATTERN must agree with the worker's ID, not vice versa): in every call of the matching predicate the pattern argument is a WorkerIdPattern of a drain/request and the worker-ID argument is not; the predicate itself ranges over its pattern parameter"}
	p := c.P
	match := p.LookupFunc(schedPkg, "workerMatchesPattern")
	for _, cs := range CallsTo(p.UnitsIn(schedPkg), match) {
		call := cs.Node.(*ast.CallExpr)
		construct := constructOf(cs.Unit, "workerMatchesPattern("+exprStr(call.Args[0])+", "+exprStr(call.Args[1])+")")
		// a WorkerIdPattern of a request/drain, directly, through a local, or through a parameter
		// that every caller of the enclosing function fills with one
		var isPatternIn func(u *FuncUnit, e ast.Expr, depth int) bool
		isPatternIn = func(u *FuncUnit, e ast.Expr, depth int) bool {
			e = resolveLocalAlias(u, e)
			if strings.HasSuffix(exprStr(e), ".WorkerIdPattern") {
				return true
			}
			id, ok := ast.Unparen(e).(*ast.Ident)
			if !ok || depth > 2 {
				return false
			}
			v, ok := u.Info().Uses[id].(*types.Var)
			if !ok || !isParamOf(u, v) {
				return false
			}
			idx := -1
			sig := u.Fn.Type().(*types.Signature)
			for i := 0; i < sig.Params().Len(); i++ {
				if sig.Params().At(i) == v {
					idx = i
				}
			}
			sites := CallsTo(p.UnitsIn(schedPkg), u.Fn)
			if len(sites) == 0 {
				return false
			}
			for _, s := range sites {
				sc := s.Node.(*ast.CallExpr)
				if idx >= len(sc.Args) || !isPatternIn(s.Unit, sc.Args[idx], depth+1) {
					return false
				}
			}
			return true
		}
		isPattern := func(e ast.Expr) bool { return isPatternIn(cs.Unit, e, 0) }
		if len(call.Args) == 2 && isPattern(call.Args[1]) && !isPattern(call.Args[0]) {
			r.ok(construct, posOf(p, call), "(worker ID, pattern)")
		} else {
			r.bad(c.Prop, construct, posOf(p, call), "worker ID and pattern are passed in the wrong roles: a drain whose pattern is a strict subset of the worker's ID no longer matches, so a drained worker that is parked is not woken and still receives work")
		}
	}
	u := p.Unit(schedPkg, "workerMatchesPattern")
	pat := u.Fn.Type().(*types.Signature).Params().At(1).Name()
	okR := false
	ast.Inspect(u.Decl.Body, func(n ast.Node) bool {
		if rs, ok := n.(*ast.RangeStmt); ok && exprStr(rs.X) == pat {
			okR = true
		}
		return true
	})
	if okR {
		r.ok(u.Name()+"|ranges-over-pattern", posOf(p, u.Decl), "iterates over the pattern's keys")
	} else {
		r.bad(c.Prop, u.Name()+"|ranges-over-pattern", posOf(p, u.Decl), "the predicate does not iterate over the pattern's keys")
	}
	return r
}

func schedParallelSlices(c *Ctx) *RuleResult {
	r := &RuleResult{Rule: "C05.parallel-slices", Floor: 2,
		Doc: "platformQueue.sizeClasses and platformQueue.sizeClassQueues are parallel: every function that changes one changes the other with the same index expressions and the same shape (insert/remove), and neither is handed to a sorting function on its own; otherwise the size class selected for a task and the queue it is placed in disagree"}
	p := c.P
	units := p.UnitsIn(schedPkg)
	a := p.LookupField(schedPkg, "platformQueue", "sizeClasses")
	b := p.LookupField(schedPkg, "platformQueue", "sizeClassQueues")
	shape := func(u *FuncUnit, f *types.Var) []string {
		var out []string
		for _, w := range FieldWrites([]*FuncUnit{u}, f, false) {
			if as, ok := w.Node.(*ast.AssignStmt); ok {
				idx := ""
				if ix, ok := ast.Unparen(w.Expr).(*ast.IndexExpr); ok {
					idx = "[" + exprStr(ix.Index) + "]"
				}
				rhs := ""
				if w.RHS != nil {
					switch x := ast.Unparen(w.RHS).(type) {
					case *ast.CallExpr:
						rhs = exprStr(x.Fun) + "/" + fmt.Sprint(len(x.Args))
						// normalise the field name inside the arguments
						rhs += "(" + strings.ReplaceAll(strings.ReplaceAll(argShape(x), f.Name(), "F"), "nil", "Z") + ")"
					default:
						rhs = "value"
					}
				}
				_ = as
				out = append(out, idx+"="+rhs)
			}
		}
		// copy(x.f[i+1:], x.f[i:]) statements
		ast.Inspect(u.Decl.Body, func(n ast.Node) bool {
			if call, ok := n.(*ast.CallExpr); ok && exprStr(call.Fun) == "copy" && len(call.Args) == 2 {
				if sl, ok := ast.Unparen(call.Args[0]).(*ast.SliceExpr); ok && fieldOf(u.Info(), sl.X) == f {
					out = append(out, "copy("+strings.ReplaceAll(argShape(call), f.Name(), "F")+")")
				}
			}
			return true
		})
		return out
	}
	seen := map[*types.Func]bool{}
	for _, w := range append(FieldWrites(units, a, false), FieldWrites(units, b, false)...) {
		u := w.Unit
		if seen[u.Fn] {
			continue
		}
		seen[u.Fn] = true
		sa, sb := shape(u, a), shape(u, b)
		construct := constructOf(u, "parallel update")
		// normalise element-specific parts: "0" vs "nil" placeholders and the inserted value
		norm := func(xs []string) string {
			s := strings.Join(xs, ";")
			s = strings.ReplaceAll(s, ", 0)", ", Z)")
			return s
		}
		if norm(sa) == norm(sb) && len(sa) > 0 {
			r.ok(construct, posOf(p, u.Decl), fmt.Sprintf("%d matching updates of both slices", len(sa)))
		} else {
			r.bad(c.Prop, construct, posOf(p, u.Decl), fmt.Sprintf("the two parallel slices are not updated in lockstep (sizeClasses: %v; sizeClassQueues: %v): a task for which one size class was selected is queued on another size class's queue", sa, sb))
		}
		// sorting one of them
		ast.Inspect(u.Decl.Body, func(n ast.Node) bool {
			call, ok := n.(*ast.CallExpr)
			if !ok {
				return true
			}
			fn := calleeOf(u.Info(), call)
			if fn == nil || fn.Pkg() == nil || (fn.Pkg().Path() != "sort" && fn.Pkg().Path() != "slices") {
				return true
			}
			for _, arg := range call.Args {
				if f := fieldOf(u.Info(), arg); f == a || f == b {
					r.bad(c.Prop, constructOf(u, "sorts "+f.Name()), posOf(p, call), "one of the two parallel slices is sorted on its own")
				}
			}
			return true
		})
	}
	return r
}

func argShape(call *ast.CallExpr) string {
	var parts []string
	for _, a := range call.Args {
		parts = append(parts, exprStr(a))
	}
	return strings.Join(parts, ", ")
}

// mustCloseFuncs: functions that close the given channel field on every path (directly or through
// a callee that does).
func mustCloseFuncs(p *Program, units []*FuncUnit, field *types.Var) map[*types.Func]bool {
	must := map[*types.Func]bool{}
	for changed := true; changed; {
		changed = false
		for _, u := range units {
			if must[u.Fn] {
				continue
			}
			info := u.Info()
			g := NewFuncCFG(info, u.Decl.Body)
			if len(g.G.Blocks) == 0 {
				continue
			}
			if g.EveryPathPasses(func(n ast.Node) bool {
				call, ok := n.(*ast.CallExpr)
				if !ok {
					return false
				}
				if id, ok := ast.Unparen(call.Fun).(*ast.Ident); ok && id.Name == "close" && len(call.Args) == 1 && fieldOf(info, call.Args[0]) == field {
					return true
				}
				if fn := calleeOf(info, call); fn != nil && must[fn] {
					return true
				}
				return false
			}) {
				must[u.Fn] = true
				changed = true
			}
		}
	}
	return must
}

func schedStageWake(c *Ctx) *RuleResult {
	r := &RuleResult{Rule: c.Prop + ".stage-wake", Floor: 2,
		Doc: "every change of a task's stage wakes whoever waits on it (clients, TerminateWorkers): after a task is linked to a worker for a queued task (EXECUTING) and after a failed task is re-scheduled on the largest size class (back to QUEUED or straight to EXECUTING), the stage-change channel is closed on EVERY path before the function returns, not only on the path that queues the task"}
	p := c.P
	units := p.UnitsIn(schedPkg)
	wake := p.LookupField(schedPkg, "task", "stageChangeWakeup")
	must := mustCloseFuncs(p, units, wake)
	schedule := p.LookupFunc(schedPkg, "task.schedule")
	complete := p.Unit(schedPkg, "task.complete")
	info := complete.Info()
	g := NewFuncCFG(info, complete.Decl.Body)
	closes := func(n ast.Node) bool {
		call, ok := n.(*ast.CallExpr)
		if !ok {
			return false
		}
		if id, ok := ast.Unparen(call.Fun).(*ast.Ident); ok && id.Name == "close" && len(call.Args) == 1 && fieldOf(info, call.Args[0]) == wake {
			return true
		}
		fn := calleeOf(info, call)
		return fn != nil && must[fn]
	}
	n := 0
	for _, cs := range CallsTo([]*FuncUnit{complete}, schedule) {
		// only the re-scheduling of the completing task itself (receiver = the method's receiver)
		recv := complete.Decl.Recv.List[0].Names[0].Name
		if exprStr(ast.Unparen(cs.Node.(*ast.CallExpr).Fun).(*ast.SelectorExpr).X) != recv {
			continue
		}
		n++
		construct := constructOf(complete, "wake after re-schedule")
		if closes(cs.Node) {
			r.ok(construct, posOf(p, cs.Node), "schedule() itself always wakes the waiters")
			continue
		}
		if reach, _ := g.ReachableWithout(cs.Node, nil, closes); reach {
			r.bad(c.Prop, construct, posOf(p, cs.Node), "after a failed task is re-scheduled on the largest size class, some path returns without closing the stage-change channel (e.g. when the task is handed straight to an idle worker): TerminateWorkers and clients waiting for the stage change are never woken")
		} else {
			r.ok(construct, posOf(p, cs.Node), "the stage-change channel is closed on every path after re-scheduling")
		}
	}
	if n == 0 {
		panic(anchorError("task.complete: re-scheduling call"))
	}
	// assigning a queued task reports the stage change
	aq := p.Unit(schedPkg, "worker.assignQueuedTask")
	if must[aq.Fn] {
		r.ok(aq.Name()+"|wakes", posOf(p, aq.Decl), "closes the stage-change channel on every path")
	} else {
		r.bad(c.Prop, aq.Name()+"|wakes", posOf(p, aq.Decl), "a queued task that starts executing does not wake its waiters on every path")
	}
	return r
}

func schedRemoveIfEmptyWalk(c *Ctx) *RuleResult {
	r := &RuleResult{Rule: "C06.remove-empty-walk", Floor: 3,
		Doc: "an invocation that becomes empty is removed together with every ancestor that thereby becomes empty: each call of invocation.removeIfEmpty is made from a loop that steps to the parent invocation (as loop condition with X = X.parent in the body, or inside a walk-to-root loop)"}
	p := c.P
	rie := p.LookupFunc(schedPkg, "invocation.removeIfEmpty")
	parent := p.LookupField(schedPkg, "invocation", "parent")
	for _, cs := range CallsTo(p.UnitsIn(schedPkg), rie) {
		u := cs.Unit
		info := u.Info()
		inWalk := false
		for _, anc := range pathTo(u.Decl.Body, cs.Node) {
			loop, ok := anc.(*ast.ForStmt)
			if !ok {
				continue
			}
			ast.Inspect(loop, func(m ast.Node) bool {
				if as, ok := m.(*ast.AssignStmt); ok && len(as.Rhs) == 1 && fieldOf(info, as.Rhs[0]) == parent {
					inWalk = true
				}
				return true
			})
		}
		construct := constructOf(u, "removeIfEmpty")
		if inWalk {
			r.ok(construct, posOf(p, cs.Node), "inside a walk towards the root")
		} else {
			r.bad(c.Prop, construct, posOf(p, cs.Node), "only the innermost invocation is removed when it becomes empty; its now-empty ancestors stay registered for ever (the scheduler retains invocations of clients that are gone)")
		}
	}
	return r
}
