package main

import (
	"fmt"
	"go/ast"
	"go/importer"
	"go/parser"
	"go/token"
	"go/types"
)

// orphanReceives finds receives on channels that no sender can ever reach: a channel created by
// make() and bound to a local variable, received from in the function, whose only other uses are
// non-escaping (len/cap) — it is never sent on, closed, passed to a call, stored, appended,
// captured by a go/defer'd or stored closure, or returned.
func orphanReceives(info *types.Info, body *ast.BlockStmt) []*ast.UnaryExpr {
	made := map[*types.Var]bool{}
	ast.Inspect(body, func(n ast.Node) bool {
		as, ok := n.(*ast.AssignStmt)
		if !ok || len(as.Lhs) != len(as.Rhs) {
			return true
		}
		for i, r := range as.Rhs {
			call, ok := ast.Unparen(r).(*ast.CallExpr)
			if !ok {
				continue
			}
			if id, ok := ast.Unparen(call.Fun).(*ast.Ident); !ok || id.Name != "make" {
				continue
			}
			if tv, ok := info.Types[call]; !ok || !isChan(tv.Type) {
				continue
			}
			if lid, ok := as.Lhs[i].(*ast.Ident); ok {
				if v, ok := info.Defs[lid].(*types.Var); ok {
					made[v] = true
				}
			}
		}
		return true
	})
	if len(made) == 0 {
		return nil
	}
	recvs := map[*types.Var][]*ast.UnaryExpr{}
	reachable := map[*types.Var]bool{}
	var visit func(n ast.Node, parent ast.Node)
	// classify every use of the variable by its parent node
	parents := map[ast.Node]ast.Node{}
	var stack []ast.Node
	ast.Inspect(body, func(n ast.Node) bool {
		if n == nil {
			stack = stack[:len(stack)-1]
			return true
		}
		if len(stack) > 0 {
			parents[n] = stack[len(stack)-1]
		}
		stack = append(stack, n)
		return true
	})
	_ = visit
	ast.Inspect(body, func(n ast.Node) bool {
		id, ok := n.(*ast.Ident)
		if !ok {
			return true
		}
		v, ok := info.Uses[id].(*types.Var)
		if !ok || !made[v] {
			return true
		}
		par := parents[id]
		for {
			if pe, ok := par.(*ast.ParenExpr); ok {
				par = parents[pe]
				continue
			}
			break
		}
		switch p := par.(type) {
		case *ast.UnaryExpr:
			if p.Op == token.ARROW {
				recvs[v] = append(recvs[v], p)
				return true
			}
			reachable[v] = true // &ch
		case *ast.CallExpr:
			if fid, ok := ast.Unparen(p.Fun).(*ast.Ident); ok {
				if _, isB := info.Uses[fid].(*types.Builtin); isB && (fid.Name == "len" || fid.Name == "cap") {
					return true
				}
			}
			reachable[v] = true // close(ch), f(ch), append(x, ch)
		case *ast.RangeStmt:
			if p.X == ast.Expr(id) {
				recvs[v] = append(recvs[v], &ast.UnaryExpr{OpPos: id.Pos(), Op: token.ARROW, X: id})
				return true
			}
			reachable[v] = true
		default:
			// send statement, assignment, composite literal, return, selector ... : someone else can reach it
			reachable[v] = true
		}
		return true
	})
	var out []*ast.UnaryExpr
	for v, rs := range recvs {
		if !reachable[v] {
			out = append(out, rs...)
		}
	}
	return out
}

func isChan(t types.Type) bool {
	_, ok := t.Underlying().(*types.Chan)
	return ok
}

const orphanFixture = `package fixture
func waiter(registry *[]chan int) int {
	ch := make(chan int, 1)
	*registry = append(*registry) // forgot to add ch
	return <-ch
}
func fine(registry *[]chan int) int {
	ch := make(chan int, 1)
	*registry = append(*registry, ch)
	return <-ch
}
`

func c14Channels(c *Ctx) *RuleResult {
	r := &RuleResult{Rule: "C14.orphan-receive", Floor: 10,
		Doc: "no function of the scoped packages blocks on a channel nobody else can reach: every channel created with make() and received from in the same function is also sent on, closed, or made reachable (passed, stored, appended, captured, returned) in that function; an embedded positive example must be flagged on every run"}
	p := c.P
	// embedded fixture
	fset := token.NewFileSet()
	f, err := parser.ParseFile(fset, "fixture.go", orphanFixture, 0)
	if err != nil {
		r.SelfTestErr = err.Error()
		return r
	}
	finfo := &types.Info{Types: map[ast.Expr]types.TypeAndValue{}, Defs: map[*ast.Ident]types.Object{}, Uses: map[*ast.Ident]types.Object{}}
	if _, err := (&types.Config{Importer: importer.Default()}).Check("fixture", fset, []*ast.File{f}, finfo); err != nil {
		r.SelfTestErr = err.Error()
		return r
	}
	hits := map[string]int{}
	for _, d := range f.Decls {
		if fd, ok := d.(*ast.FuncDecl); ok {
			hits[fd.Name.Name] = len(orphanReceives(finfo, fd.Body))
		}
	}
	if hits["waiter"] != 1 || hits["fine"] != 0 {
		r.SelfTestErr = fmt.Sprintf("embedded fixture: expected waiter=1 fine=0, got %v", hits)
		return r
	}
	r.SelfTest = "embedded fixture: the unregistered-waiter example is flagged, the registered one is not"
	for _, u := range p.Units(c14Scope...) {
		n := 0
		ast.Inspect(u.Decl.Body, func(m ast.Node) bool {
			if call, ok := m.(*ast.CallExpr); ok {
				if id, ok := ast.Unparen(call.Fun).(*ast.Ident); ok && id.Name == "make" {
					if tv, ok := u.Info().Types[call]; ok && isChan(tv.Type) {
						n++
					}
				}
			}
			return true
		})
		if n == 0 {
			continue
		}
		bad := orphanReceives(u.Info(), u.Decl.Body)
		if len(bad) == 0 {
			r.ok(u.Name(), posOf(p, u.Decl), fmt.Sprintf("%d channel(s) created; every received one is reachable by a sender", n))
			continue
		}
		for _, b := range bad {
			r.bad(c.Prop, constructOf(u, "receive on "+exprStr(b.X)), p.Pos(b.Pos()), "this call blocks forever: the channel it receives from was created here and never handed to anyone who could send on or close it")
		}
	}
	return r
}
