package main

import (
	"fmt"
	"go/ast"
	"go/importer"
	"go/parser"
	"go/token"
	"go/types"
)

// orphanReceives finds receives on channels that no sender can ever reach: a channel created by
// make() and bound to a local variable, received from in the function, whose only other uses are
// non-escaping (len/cap) — it is never sent on, closed, passed to a call, stored, appended,
// captured by a go/defer'd or stored closure, or returned.
func orphanReceives(info *types.Info, body *ast.BlockStmt) []*ast.UnaryExpr {
	made := map[*types.Var]bool{}
	ast.Inspect(body, func(n ast.Node) bool {
		as, ok := n.(*ast.AssignStmt)
		if !ok || len(as.Lhs) != len(as.Rhs) {
			return true
		}
		for i, r := range as.Rhs {
			call, ok := ast.Unparen(r).(*ast.CallExpr)
			if !ok {
				continue
			}
			if id, ok := ast.Unparen(call.Fun).(*ast.Ident); !ok || id.Name != "make" {
				continue
			}
			if tv, ok := info.Types[call]; !ok || !isChan(tv.Type) {
				continue
			}
			if lid, ok := as.Lhs[i].(*ast.Ident); ok {
				if v, ok := info.Defs[lid].(*types.Var); ok {
					made[v] = true
				}
			}
		}
		return true
	})
	if len(made) == 0 {
		return nil
	}
	recvs := map[*types.Var][]*ast.UnaryExpr{}
	reachable := map[*types.Var]bool{}
	var visit func(n ast.Node, parent ast.Node)
	// classify every use of the variable by its parent node
	parents := map[ast.Node]ast.Node{}
	var stack []ast.Node
	ast.Inspect(body, func(n ast.Node) bool {
		if n == nil {
			stack = stack[:len(stack)-1]
			return true
		}
		if len(stack) > 0 {
			parents[n] = stack[len(stack)-1]
		}
		stack = append(stack, n)
		return true
	})
	_ = visit
	ast.Inspect(body, func(n ast.Node) bool {
		id, ok := n.(*ast.Ident)
		if !ok {
			return true
		}
		v, ok := info.Uses[id].(*types.Var)
		if !ok || !made[v] {
			return true
		}
		par := parents[id]
		for {
			if pe, ok := par.(*ast.ParenExpr); ok {
				par = parents[pe]
				continue
			}
			break
		}
		switch p := par.(type) {
		case *ast.UnaryExpr:
			if p.Op == token.ARROW {
				recvs[v] = append(recvs[v], p)
				return true
			}
			reachable[v] = true // &ch
		case *ast.CallExpr:
			if fid, ok := ast.Unparen(p.Fun).(*ast.Ident); ok {
				if _, isB := info.Uses[fid].(*types.Builtin); isB && (fid.Name == "len" || fid.Name == "cap") {
					return true
				}
			}
			reachable[v] = true // close(ch), f(ch), append(x, ch)
		case *ast.RangeStmt:
			if p.X == ast.Expr(id) {
				recvs[v] = append(recvs[v], &ast.UnaryExpr{OpPos: id.Pos(), Op: token.ARROW, X: id})
				return true
			}
			reachable[v] = true
		default:
			// send statement, assignment, composite literal, return, selector ... : someone else can reach it
			reachable[v] = true
		}
		return true
	})
	var out []*ast.UnaryExpr
	for v, rs := range recvs {
		if !reachable[v] {
			out = append(out, rs...)
		}
	}
	return out
}

func isChan(t types.Type) bool {
	_, ok := t.Underlying().(*types.Chan)
	return ok
}

const orphanFixture = `package fixture
func waiter(registry *[]chan int) int {
	ch := make(chan int, 1)
	*registry = append(*registry) // forgot to add ch
	return <-ch
}
func fine(registry *[]chan int) int {
	ch := make(chan int, 1)
	*registry = append(*registry, ch)
	return <-ch
}
`

func c14Channels(c *Ctx) *RuleResult {
	r := &RuleResult{Rule: "C14.orphan-receive", Floor: 10,
		Doc: "no function of the scoped packages blocks on a channel nobody else can reach: every channel created with make() and received from in the same function is also sent on, closed, or made reachable (passed, stored, appended, captured, returned) in that function; an embedded positive example must be flagged on every run"}
	p := c.P
	// embedded fixture
	fset := token.NewFileSet()
	f, err := parser.ParseFile(fset, "fixture.go", orphanFixture, 0)
	if err != nil {
		r.SelfTestErr = err.Error()
		return r
	}
	finfo := &types.Info{Types: map[ast.Expr]types.TypeAndValue{}, Defs: map[*ast.Ident]types.Object{}, Uses: map[*ast.Ident]types.Object{}}
	if _, err := (&types.Config{Importer: importer.Default()}).Check("fixture", fset, []*ast.File{f}, finfo); err != nil {
		r.SelfTestErr = err.Error()
		return r
	}
	hits := map[string]int{}
	for _, d := range f.Decls {
		if fd, ok := d.(*ast.FuncDecl); ok {
			hits[fd.Name.Name] = len(orphanReceives(finfo, fd.Body))
		}
	}
	if hits["waiter"] != 1 || hits["fine"] != 0 {
		r.SelfTestErr = fmt.Sprintf("embedded fixture: expected waiter=1 fine=0, got %v", hits)
		return r
	}
	r.SelfTest = "embedded fixture: the unregistered-waiter example is flagged, the registered one is not"
	for _, u := range p.Units(c14Scope...) {
		n := 0
		ast.Inspect(u.Decl.Body, func(m ast.Node) bool {
			if call, ok := m.(*ast.CallExpr); ok {
				if id, ok := ast.Unparen(call.Fun).(*ast.Ident); ok && id.Name == "make" {
					if tv, ok := u.Info().Types[call]; ok && isChan(tv.Type) {
						n++
					}
				}
			}
			return true
		})
		if n == 0 {
			continue
		}
		bad := orphanReceives(u.Info(), u.Decl.Body)
		if len(bad) == 0 {
			r.ok(u.Name(), posOf(p, u.Decl), fmt.Sprintf("%d channel(s) created; every received one is reachable by a sender", n))
			continue
		}
		for _, b := range bad {
			r.bad(c.Prop, constructOf(u, "receive on "+exprStr(b.X)), p.Pos(b.Pos()), "this call blocks forever: the channel it receives from was created here and never handed to anyone who could send on or close it")
		}
	}
	return r
}

// c14PileImpl: the deadlock-avoidance primitive itself blocks only while holding nothing.
func c14PileImpl(c *Ctx) *RuleResult {
	r := &RuleResult{Rule: "C14.pile-impl", Floor: 1,
		Doc: "LockPile's contract, which C14.pile and C14.order rely on (acquisitions through a pile are try-locks with back-off): inside pkg/sync a blocking Lock() on a pile member happens only while no other member is held — the call is not under a guard saying that the count of acquired locks is positive; every path from inside such a guard's branch to the call first passes the loop that unlocks the acquired members; and the call is followed on all paths by setting that count to 1"}
	p := c.P
	for _, u := range p.UnitsIn("pkg/sync") {
		info := u.Info()
		g := NewFuncCFG(info, u.Decl.Body)
		ast.Inspect(u.Decl.Body, func(n ast.Node) bool {
			call, ok := n.(*ast.CallExpr)
			if !ok {
				return true
			}
			sel, ok := ast.Unparen(call.Fun).(*ast.SelectorExpr)
			if !ok || sel.Sel.Name != "Lock" || len(call.Args) != 0 {
				return true
			}
			tv, ok := info.Types[sel.X]
			if !ok || !types.IsInterface(tv.Type) {
				return true // not an acquisition of a pile member (TryLocker)
			}
			construct := constructOf(u, "blocking "+exprStr(call.Fun))
			positive := func(gd Guard) (string, bool) {
				be, ok := ast.Unparen(gd.Cond).(*ast.BinaryExpr)
				if !ok || !gd.Pos {
					return "", false
				}
				id, ok := ast.Unparen(be.X).(*ast.Ident)
				if !ok {
					return "", false
				}
				if v, ok := info.Uses[id].(*types.Var); !ok || !isIntType(v.Type()) {
					return "", false
				}
				y := exprStr(be.Y)
				if (be.Op == token.GTR && y == "0") || (be.Op == token.NEQ && y == "0") || (be.Op == token.GEQ && y == "1") {
					return id.Name, true
				}
				return "", false
			}
			bad := ""
			for _, gd := range flattenGuards(GuardsOf(info, u.Decl.Body, call)) {
				if name, ok := positive(gd); ok {
					bad = "the blocking acquisition is made under the condition " + gd.String() + ", i.e. while " + name + " other locks of the pile are held"
				}
			}
			isUnlock := func(m ast.Node) bool {
				uc, ok := m.(*ast.CallExpr)
				if !ok {
					return false
				}
				us, ok := ast.Unparen(uc.Fun).(*ast.SelectorExpr)
				return ok && us.Sel.Name == "Unlock" && len(uc.Args) == 0
			}
			// a loop `for i := 0; i < count; i++ { ...Unlock() }` releases every acquired member: its
			// condition node stands for the whole loop (it runs at least once when count > 0)
			unlockLoops := map[ast.Node]bool{}
			ast.Inspect(u.Decl.Body, func(m ast.Node) bool {
				if rs, ok := m.(*ast.RangeStmt); ok {
					has := false
					ast.Inspect(rs.Body, func(k ast.Node) bool {
						if isUnlock(k) {
							has = true
						}
						return !has
					})
					if has {
						unlockLoops[rs.X] = true
					}
				}
				if fs, ok := m.(*ast.ForStmt); ok && fs.Cond != nil {
					has := false
					ast.Inspect(fs.Body, func(k ast.Node) bool {
						if isUnlock(k) {
							has = true
						}
						return !has
					})
					if has {
						unlockLoops[fs.Cond] = true
					}
				}
				return true
			})
			ast.Inspect(u.Decl.Body, func(m ast.Node) bool {
				ifs, ok := m.(*ast.IfStmt)
				if !ok || len(ifs.Body.List) == 0 || bad != "" {
					return true
				}
				isPos := false
				for _, gd := range flattenGuards([]Guard{{ifs.Cond, true}}) {
					if _, ok := positive(gd); ok {
						isPos = true
					}
				}
				if !isPos {
					return true
				}
				first := g.Anchor(ifs.Body.List[0])
				if first == nil {
					return true
				}
				if _, in := g.Locate(first); !in {
					return true
				}
				// the first node itself may be the call / contain an unlock
				// (re-testing the condition establishes the count afresh: only paths since the last test count)
				if reach, _ := g.ReachableWithout(first, call, func(k ast.Node) bool { return isUnlock(k) || k == ast.Node(ifs.Cond) || unlockLoops[k] }); reach {
					bad = "a path on which other locks of the pile are held (" + exprStr(ifs.Cond) + ") reaches the blocking acquisition without releasing them first"
				}
				return true
			})
			if bad == "" {
				// followed by <count> = 1
				okSet := false
				ast.Inspect(u.Decl.Body, func(m ast.Node) bool {
					as, ok := m.(*ast.AssignStmt)
					if ok && len(as.Lhs) == 1 && len(as.Rhs) == 1 && exprStr(as.Rhs[0]) == "1" && as.Tok == token.ASSIGN && g.PostDominates(as, call) {
						okSet = true
					}
					return true
				})
				if !okSet {
					bad = "after the blocking acquisition the number of acquired locks is not reset to one on every path"
				}
			}
			if bad == "" {
				r.ok(construct, posOf(p, call), "blocks only while holding nothing")
			} else {
				r.bad(c.Prop, construct, posOf(p, call), bad+": two threads that each hold one lock and block on the other's deadlock (renames in opposite directions, lookup versus rename)")
			}
			return true
		})
	}
	return r
}

func isIntType(t types.Type) bool {
	b, ok := t.Underlying().(*types.Basic)
	return ok && b.Info()&types.IsInteger != 0
}
