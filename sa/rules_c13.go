package main

import (
	"fmt"
	"go/ast"
	"go/token"
	"go/types"
	"strings"
)

const dirLockClass = "virtual.inMemoryPrepopulatedDirectory.lock"

var dirGuardEngineCache = map[*Program]*LockEngine{}

func dirGuardEngine(c *Ctx) *LockEngine {
	if e, ok := dirGuardEngineCache[c.P]; ok {
		return e
	}
	p := c.P
	e := NewLockEngine(p)
	e.Guarded[p.LookupField(virtualPkg, "inMemoryPrepopulatedDirectory", "initialContentsFetcher")] = dirLockClass
	e.Guarded[p.LookupField(virtualPkg, "inMemoryPrepopulatedDirectory", "contents")] = dirLockClass
	st := p.LookupType(virtualPkg, "inMemoryDirectoryContents").Underlying().(*types.Struct)
	for i := 0; i < st.NumFields(); i++ {
		e.Guarded[st.Field(i)] = dirLockClass
	}
	e.Run()
	dirGuardEngineCache[c.P] = e
	return e
}

func c13Guarded(c *Ctx) *RuleResult {
	r := &RuleResult{Rule: "C13.guarded", Floor: 20,
		Doc: "a directory's contents (entries map and list, deletion flag, change counter, pending initial-contents fetcher) are only read or written with a directory lock held: every exported method of the in-memory directory that reaches such an access holds the lock (directly or through a LockPile) on that path, and nothing is touched after the lock was released"}
	e := dirGuardEngine(c)
	p := c.P
	dirT := p.LookupType(virtualPkg, "inMemoryPrepopulatedDirectory")
	n := 0
	for _, s := range e.Order {
		if relPkg(s.Pkg.Types) != virtualPkg {
			continue
		}
		for _, d := range s.Diags {
			if d.Kind == "guarded" {
				r.bad(c.Prop, s.Name+"|after-release", p.Pos(d.Pos), d.Msg, d.Path...)
			}
		}
		if s.Fn == nil || !s.Fn.Exported() {
			continue
		}
		sig := s.Fn.Type().(*types.Signature)
		if sig.Recv() == nil || !namedIs(sig.Recv().Type(), modPath+"/"+virtualPkg, dirT.Obj().Name()) {
			continue
		}
		n++
		if ga, ok := s.Needs[dirLockClass]; ok {
			r.bad(c.Prop, s.Name+"|unlocked-access", p.Pos(ga.Pos), "directory contents ("+ga.Field+") are reached without holding a directory lock", ga.Chain...)
		} else {
			r.ok(s.Name, p.Pos(s.Body.Pos()), "all reachable accesses to the contents are under a directory lock")
		}
	}
	r.count("exported_directory_methods", n)
	r.count("guarded_accesses_seen", e.Stats["guarded-accesses"])
	return r
}

func c13ChangeID(c *Ctx) *RuleResult {
	r := &RuleResult{Rule: "C13.change-counter", Floor: 6,
		Doc: "the change counter strictly increases with every modification and not otherwise: it is written at exactly one site, by ++; every function that inserts into or deletes from the entries map bumps it (calls that site) on every path after the change; the readdir cookie given to a new entry is the counter value before the bump; every ChangeInfo reports a value captured before the first modification and one read after the last"}
	p := c.P
	units := p.UnitsIn(virtualPkg)
	cid := p.LookupField(virtualPkg, "inMemoryDirectoryContents", "changeID")
	em := p.LookupField(virtualPkg, "inMemoryDirectoryContents", "entriesMap")
	ws := FieldWrites(units, cid, false)
	var touch *types.Func
	for _, w := range ws {
		construct := constructOf(w.Unit, "changeID write")
		if inc, ok := w.Node.(*ast.IncDecStmt); ok && inc.Tok == token.INC {
			r.ok(construct, posOf(p, w.Node), "increment")
			touch = w.Unit.Fn
		} else {
			r.bad(c.Prop, construct, posOf(p, w.Node), "the change counter is written other than by an increment: it can stay equal or go backwards across a modification")
		}
	}
	if len(ws) != 1 || touch == nil {
		r.bad(c.Prop, "changeID|single-writer", "-", fmt.Sprintf("%d write sites of the change counter (expected exactly one increment)", len(ws)))
		return r
	}
	for _, w := range FieldWrites(units, em, false) {
		u := w.Unit
		if as, ok := w.Node.(*ast.AssignStmt); ok {
			if _, isIx := ast.Unparen(w.Expr).(*ast.IndexExpr); !isIx {
				_ = as
				continue // (re)initialisation of the whole map
			}
		}
		g := NewFuncCFG(u.Info(), u.Decl.Body)
		construct := constructOf(u, "entriesMap change")
		bumped := false
		for _, cs := range CallsTo([]*FuncUnit{u}, touch) {
			if g.PostDominates(cs.Node, w.Node) {
				bumped = true
			}
		}
		if bumped {
			r.ok(construct, posOf(p, w.Node), "followed on every path by the counter bump")
		} else {
			r.bad(c.Prop, construct, posOf(p, w.Node), "an entry is added to / removed from the directory without bumping the change counter on every path: clients revalidating by change ID keep stale listings, and readdir cookies repeat")
		}
	}
	// cookie
	cookie := p.LookupField(virtualPkg, "inMemoryDirectoryEntry", "cookie")
	for _, w := range FieldWrites(units, cookie, true) {
		kv, ok := w.Node.(*ast.KeyValueExpr)
		if !ok {
			continue
		}
		u := w.Unit
		construct := constructOf(u, "entry cookie")
		g := NewFuncCFG(u.Info(), u.Decl.Body)
		okC := fieldOf(u.Info(), kv.Value) == cid
		for _, cs := range CallsTo([]*FuncUnit{u}, touch) {
			if !g.Dominates(kv, cs.Node) && !(kv.Pos() < cs.Node.Pos()) {
				okC = false
			}
		}
		if okC {
			r.ok(construct, posOf(p, kv), "cookie = counter before the bump")
		} else {
			r.bad(c.Prop, construct, posOf(p, kv), "a new entry's readdir cookie is not the pre-increment change counter: resumed listings skip or repeat entries")
		}
	}
	// ChangeInfo
	attach := map[*types.Func]bool{}
	for _, n := range []string{"attach", "detach", "attachNewDirectory", "createChildren"} {
		attach[p.LookupFunc(virtualPkg, "inMemoryDirectoryContents."+n)] = true
	}
	for _, u := range units {
		info := u.Info()
		var muts []ast.Node
		ast.Inspect(u.Decl.Body, func(n ast.Node) bool {
			if call, ok := n.(*ast.CallExpr); ok {
				if fn := calleeOf(info, call); fn != nil && attach[fn] {
					muts = append(muts, call)
				}
			}
			return true
		})
		var g *FuncCFG
		// judge one ChangeInfo value: `before` as written at the site, the contents object whose
		// counter is reported as After
		judge := func(site ast.Node, before ast.Expr, afterIsCounter bool, afterRecv, label string) {
			if g == nil {
				g = NewFuncCFG(info, u.Decl.Body)
			}
			construct := constructOf(u, label)
			okI := afterIsCounter
			src := resolveLocalAlias(u, before)
			var defStmt ast.Node
			if id, ok := ast.Unparen(before).(*ast.Ident); ok {
				ast.Inspect(u.Decl.Body, func(m ast.Node) bool {
					if as, ok := m.(*ast.AssignStmt); ok && len(as.Lhs) == 1 && exprStr(as.Lhs[0]) == id.Name {
						defStmt = as
					}
					return true
				})
			}
			if fieldOf(info, src) != cid {
				okI = false
			}
			for _, m := range muts {
				mrecv := exprStr(ast.Unparen(m.(*ast.CallExpr).Fun).(*ast.SelectorExpr).X)
				if mrecv != afterRecv {
					continue
				}
				reaches, _ := g.ReachableWithout(m, site, func(ast.Node) bool { return false })
				if !reaches {
					continue
				}
				// Before must have been captured before this mutation
				if defStmt == nil || !g.Dominates(defStmt, m) {
					okI = false
				}
			}
			if okI {
				r.ok(construct, posOf(p, site), "Before captured ahead of every modification that reaches this result, After read at the end")
			} else {
				r.bad(c.Prop, construct, posOf(p, site), "the reported change info does not bracket the modification (Before captured after a change, or After not the current counter)")
			}
		}
		// a constructor helper: func (c *contents) f(before uint64) ChangeInfo { return ChangeInfo{Before: before, After: c.changeID} }
		ctorParam := func(hu *FuncUnit) int {
			if hu == nil || hu.Decl.Recv == nil || len(hu.Decl.Recv.List[0].Names) == 0 || len(hu.Decl.Body.List) != 1 {
				return -1
			}
			ret, ok := hu.Decl.Body.List[0].(*ast.ReturnStmt)
			if !ok || len(ret.Results) != 1 {
				return -1
			}
			cl, ok := ast.Unparen(ret.Results[0]).(*ast.CompositeLit)
			if !ok {
				return -1
			}
			if tv, ok := hu.Info().Types[cl]; !ok || !namedIs(tv.Type, modPath+"/"+virtualPkg, "ChangeInfo") {
				return -1
			}
			before, after := litFieldExpr(cl, "Before"), litFieldExpr(cl, "After")
			if before == nil || after == nil || fieldOf(hu.Info(), after) != cid {
				return -1
			}
			if sel, ok := ast.Unparen(after).(*ast.SelectorExpr); !ok || exprStr(sel.X) != hu.Decl.Recv.List[0].Names[0].Name {
				return -1
			}
			id, ok := ast.Unparen(before).(*ast.Ident)
			if !ok {
				return -1
			}
			sig := hu.Fn.Type().(*types.Signature)
			for i := 0; i < sig.Params().Len(); i++ {
				if hu.Info().ObjectOf(id) == sig.Params().At(i) {
					return i
				}
			}
			return -1
		}
		if ctorParam(u) >= 0 {
			r.ok(constructOf(u, "ChangeInfo constructor"), posOf(p, u.Decl), "reports its argument and the current counter; judged at the call sites")
			continue
		}
		ast.Inspect(u.Decl.Body, func(n ast.Node) bool {
			if call, ok := n.(*ast.CallExpr); ok {
				if hu := p.UnitOf(calleeOf(info, call)); hu != nil {
					if pi := ctorParam(hu); pi >= 0 && pi < len(call.Args) {
						if sel, ok := ast.Unparen(call.Fun).(*ast.SelectorExpr); ok {
							judge(call, call.Args[pi], true, exprStr(sel.X), "ChangeInfo{"+exprStr(call.Args[pi])+", "+exprStr(sel.X)+".changeID}")
						}
					}
				}
				return true
			}
			cl, ok := n.(*ast.CompositeLit)
			if !ok || len(cl.Elts) != 2 {
				return true
			}
			tv, ok := info.Types[cl]
			if !ok || !namedIs(tv.Type, modPath+"/"+virtualPkg, "ChangeInfo") {
				return true
			}
			before, after := litFieldExpr(cl, "Before"), litFieldExpr(cl, "After")
			if before == nil || after == nil {
				return true
			}
			afterSel, isSel := ast.Unparen(after).(*ast.SelectorExpr)
			if !isSel {
				return true
			}
			judge(cl, before, fieldOf(info, after) == cid, exprStr(afterSel.X), "ChangeInfo{"+exprStr(before)+", "+exprStr(after)+"}")
			return true
		})
	}
	return r
}

func c13NoAttachDeleted(c *Ctx) *RuleResult {
	r := &RuleResult{Rule: "C13.no-attach-to-deleted", Floor: 8,
		Doc: "a removed directory accepts no new entries: every call that attaches a child to existing directory contents is guarded by a deleted-check on those contents (the isDeleted flag, virtualMayAttach == OK) or by having found an existing entry in the same contents (a directory with an entry is not deleted); only freshly initialised contents are populated unchecked"}
	p := c.P
	units := p.UnitsIn(virtualPkg)
	fns := []*types.Func{p.LookupFunc(virtualPkg, "inMemoryDirectoryContents.attach"), p.LookupFunc(virtualPkg, "inMemoryDirectoryContents.attachNewDirectory"), p.LookupFunc(virtualPkg, "inMemoryDirectoryContents.createChildren")}
	contentsT := p.LookupType(virtualPkg, "inMemoryDirectoryContents")
	for _, cs := range CallsTo(units, fns...) {
		u := cs.Unit
		// methods of the contents type itself delegate to their callers
		if u.Decl.Recv != nil && namedIs(u.Fn.Type().(*types.Signature).Recv().Type(), modPath+"/"+virtualPkg, contentsT.Obj().Name()) {
			continue
		}
		info := u.Info()
		call := cs.Node.(*ast.CallExpr)
		recv := exprStr(ast.Unparen(call.Fun).(*ast.SelectorExpr).X)
		construct := constructOf(u, calleeOf(info, call).Name()+" on "+recv)
		okG, why := false, ""
		for _, g := range flattenGuards(GuardsOf(info, u.Decl.Body, call)) {
			s := exprStr(g.Cond)
			switch {
			case !g.Pos && s == recv+"."+p.LookupField(virtualPkg, "inMemoryDirectoryContents", "isDeleted").Name():
				okG, why = true, "!isDeleted"
			case g.Pos && guardIdentSource(u, g) != nil:
				// ok from a lookup in the same contents
				if okFromLookupIn(u, g.Cond, recv) {
					okG, why = true, "an existing entry was found in the same contents"
				}
			case g.Pos && strings.HasSuffix(s, "== StatusOK"):
				src := resolveLocalAliasNearest(u, ast.Unparen(g.Cond).(*ast.BinaryExpr).X, call.Pos())
				if strings.HasPrefix(exprStr(src), recv+".virtualMayAttach(") {
					okG, why = true, "virtualMayAttach == StatusOK"
				}
			}
		}
		// freshly initialised contents: initialize() dominates in the same function
		if !okG {
			g := NewFuncCFG(info, u.Decl.Body)
			ast.Inspect(u.Decl.Body, func(n ast.Node) bool {
				if ic, ok := n.(*ast.CallExpr); ok {
					if sel, ok := ast.Unparen(ic.Fun).(*ast.SelectorExpr); ok && sel.Sel.Name == "initialize" && exprStr(sel.X) == recv && g.Dominates(ic, call) {
						okG, why = true, "contents were just initialised"
					}
				}
				return true
			})
		}
		if okG {
			r.ok(construct, posOf(p, call), why)
		} else {
			r.bad(c.Prop, construct, posOf(p, call), "a child is attached without checking that the directory has not been removed: a removed directory gains entries (or the attach helper panics)")
		}
	}
	return r
}

// okFromLookupIn: the identifier `ok` tested in cond comes from `..., ok := recv.entriesMap[...]` or
// `..., ok := recv.getAndLockIfDirectory(...)`.
func okFromLookupIn(u *FuncUnit, cond ast.Expr, recv string) bool {
	id, ok := ast.Unparen(cond).(*ast.Ident)
	if !ok {
		return false
	}
	info := u.Info()
	v, _ := info.Uses[id].(*types.Var)
	res := false
	ast.Inspect(u.Decl.Body, func(n ast.Node) bool {
		as, ok := n.(*ast.AssignStmt)
		if !ok || len(as.Lhs) != 2 || len(as.Rhs) != 1 {
			return true
		}
		okID, isID := as.Lhs[1].(*ast.Ident)
		if !isID || info.Defs[okID] != v {
			return true
		}
		s := exprStr(as.Rhs[0])
		if strings.HasPrefix(s, recv+".entriesMap[") || strings.HasPrefix(s, recv+".getAndLockIfDirectory(") {
			res = true
		}
		return true
	})
	return res
}

func c13Reseek(c *Ctx) *RuleResult {
	r := &RuleResult{Rule: "C13.reseek", Floor: 1,
		Doc: "a paginated listing that has to re-seek after its current entry was detached resumes from that entry's own cookie: inside the listing loop, every call that looks up an entry by cookie takes an argument derived from the loop's current entry; only the initial positioning uses the caller-supplied first cookie"}
	p := c.P
	seek := p.LookupFunc(virtualPkg, "inMemoryDirectoryContents.getEntryAtCookie")
	for _, u := range p.UnitsIn(virtualPkg) {
		info := u.Info()
		for _, cs := range CallsTo([]*FuncUnit{u}, seek) {
			call := cs.Node.(*ast.CallExpr)
			var loop *ast.ForStmt
			for _, anc := range pathTo(u.Decl.Body, call) {
				if f, ok := anc.(*ast.ForStmt); ok {
					if f.Body.Pos() <= call.Pos() && call.End() <= f.Body.End() {
						loop = f
					}
				}
			}
			if loop == nil {
				continue
			}
			// loop cursor: variable defined in the for init
			cursor := ""
			if as, ok := loop.Init.(*ast.AssignStmt); ok && len(as.Lhs) == 1 {
				cursor = exprStr(as.Lhs[0])
			}
			construct := constructOf(u, "re-seek")
			arg := call.Args[0]
			uses := false
			ast.Inspect(arg, func(n ast.Node) bool {
				if id, ok := n.(*ast.Ident); ok && id.Name == cursor {
					if _, isVar := info.Uses[id].(*types.Var); isVar {
						uses = true
					}
				}
				return true
			})
			if uses && cursor != "" {
				r.ok(construct, posOf(p, call), "resumes from "+exprStr(arg))
			} else {
				r.bad(c.Prop, construct, posOf(p, call), "after losing its position the listing re-seeks to "+exprStr(arg)+" instead of the current entry's cookie: entries already reported in this call are reported again")
			}
		}
	}
	return r
}

func init() {
	register(&PropertySpec{
		ID:          "C13",
		Level:       "other",
		Explanation: "Only structural clauses are decided: directory contents are accessed only under a directory lock (lock-flow engine with a guarded-by table); the change counter has a single incrementing writer, every map change bumps it on all paths, cookies are pre-increment values and ChangeInfo brackets the modification; nothing is attached to a removed directory; a listing re-seeks from its current entry. Equivalence with a POSIX reference model (rename/remove rules, hard links) and readdir completeness under concurrent mutation are NOT decided.",
		Assumptions: []string{"class-level lock identity: a lock of some directory counts for the directory being accessed (parent/child relations are not tracked)"},
		Rules:       []RuleFunc{c13Guarded, c13ChangeID, c13NoAttachDeleted, c13Reseek, c13DeleteSelf, c13LinkBalance, c13Revalidate, c13UnlinkDetached, c13RemovalRules, c13HiddenOnlyLeaves},
	})
}
