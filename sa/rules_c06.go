package main

import (
	"fmt"
	"go/ast"
	"go/token"
	"go/types"
	"strings"
)

// cleanupAddCalls returns the calls cleanupQueue.add(&X.cleanupKey, time, callback) with the key's field.
type cleanupAdd struct {
	u     *FuncUnit
	call  *ast.CallExpr
	owner string // struct owning the cleanupKey field: worker, operation, sizeClassQueue
	key   *types.Var
}

func cleanupAdds(p *Program) []cleanupAdd {
	add := p.LookupFunc(schedPkg, "cleanupQueue.add")
	var out []cleanupAdd
	for _, cs := range CallsTo(p.UnitsIn(schedPkg), add) {
		call := cs.Node.(*ast.CallExpr)
		if len(call.Args) != 3 {
			continue
		}
		ue, ok := ast.Unparen(call.Args[0]).(*ast.UnaryExpr)
		if !ok || ue.Op != token.AND {
			continue
		}
		f := fieldOf(cs.Unit.Info(), ue.X)
		if f == nil {
			continue
		}
		owner := ""
		if sel, ok := cs.Unit.Info().Selections[ast.Unparen(ue.X).(*ast.SelectorExpr)]; ok {
			owner = strings.TrimPrefix(typeShort(sel.Recv()), "scheduler.")
		}
		out = append(out, cleanupAdd{cs.Unit, call, owner, f})
	}
	return out
}

// staticReach computes the functions statically reachable from the given roots within pkg/scheduler.
func staticReach(p *Program, roots []ast.Node, info *types.Info) map[*types.Func]bool {
	seen := map[*types.Func]bool{}
	var visit func(n ast.Node, info *types.Info)
	visit = func(n ast.Node, info *types.Info) {
		ast.Inspect(n, func(m ast.Node) bool {
			call, ok := m.(*ast.CallExpr)
			if !ok {
				return true
			}
			fn := calleeOf(info, call)
			if fn == nil || seen[fn] {
				return true
			}
			fd := p.Decl(fn)
			if fd == nil || fd.Body == nil {
				return true
			}
			seen[fn] = true
			visit(fd.Body, p.InfoFor(fd))
			return true
		})
	}
	for _, r := range roots {
		visit(r, info)
	}
	return seen
}

func mentionsSelector(n ast.Node, name string) bool {
	found := false
	ast.Inspect(n, func(m ast.Node) bool {
		if sel, ok := m.(*ast.SelectorExpr); ok && sel.Sel.Name == name {
			found = true
		}
		return !found
	})
	return found
}

func c06Cfg(c *Ctx) *RuleResult {
	r := &RuleResult{Rule: "C06.cfg", Floor: 4,
		Doc: "each reaper is armed with its own timeout and fails work with the documented code: worker -> WorkerWithNoSynchronizationsTimeout / UNAVAILABLE; operation -> OperationWithNoWaitersTimeout / CANCELED; worker-created queue -> PlatformQueueWithNoWorkersTimeout / UNAVAILABLE, armed only when the queue has no workers and may be removed; re-issuing a task is bounded by WorkerTaskRetryCount and then fails with INTERNAL"}
	p := c.P
	want := map[string][2]string{
		"worker":         {"WorkerWithNoSynchronizationsTimeout", "Unavailable"},
		"operation":      {"OperationWithNoWaitersTimeout", "Canceled"},
		"sizeClassQueue": {"PlatformQueueWithNoWorkersTimeout", "Unavailable"},
	}
	seenOwner := map[string]bool{}
	for _, a := range cleanupAdds(p) {
		w, ok := want[a.owner]
		construct := constructOf(a.u, "arm "+a.owner+".cleanupKey")
		if !ok {
			r.bad(c.Prop, construct, posOf(p, a.call), "cleanup registered for an unknown kind of object")
			continue
		}
		seenOwner[a.owner] = true
		info := a.u.Info()
		timeArg := resolveLocalAlias(a.u, a.call.Args[1])
		var problems []string
		if !mentionsSelector(timeArg, w[0]) {
			problems = append(problems, fmt.Sprintf("deadline %s does not use configuration.%s", exprStr(timeArg), w[0]))
		}
		for _, other := range want {
			if other[0] != w[0] && mentionsSelector(timeArg, other[0]) && a.owner != "sizeClassQueue" {
				problems = append(problems, "deadline uses "+other[0])
			}
		}
		// status codes used by the callback itself and by the functions it calls directly
		codes := map[string]bool{}
		collect := func(n ast.Node) {
			ast.Inspect(n, func(m ast.Node) bool {
				if sel, ok := m.(*ast.SelectorExpr); ok {
					if id, ok := sel.X.(*ast.Ident); ok && id.Name == "codes" {
						codes[sel.Sel.Name] = true
					}
				}
				return true
			})
		}
		collect(a.call.Args[2])
		ast.Inspect(a.call.Args[2], func(m ast.Node) bool {
			if call, ok := m.(*ast.CallExpr); ok {
				if fn := calleeOf(info, call); fn != nil {
					if fd := p.Decl(fn); fd != nil && fd.Body != nil {
						collect(fd.Body)
					}
				}
			}
			return true
		})
		if !codes[w[1]] || len(codes) != 1 {
			problems = append(problems, fmt.Sprintf("the reaper fails work with %v, documented: %s", sortedKeys(codes), w[1]))
		}
		if a.owner == "sizeClassQueue" {
			gs := guardsWithCallers(p.UnitsIn(schedPkg), a.u, a.call)
			empty, removable := false, false
			for _, g := range gs {
				s := exprStr(g.Cond)
				if g.Pos && strings.HasPrefix(s, "len(") && strings.HasSuffix(s, ".workers) == 0") {
					empty = true
				}
				if g.Pos && strings.HasSuffix(s, ".mayBeRemoved") {
					removable = true
				}
			}
			if !empty || !removable {
				problems = append(problems, fmt.Sprintf("queue removal is armed without the guards len(workers) == 0 && mayBeRemoved (guards: %v)", guardStrings(gs)))
			}
		}
		if len(problems) == 0 {
			r.ok(construct, posOf(p, a.call), w[0]+" / "+w[1])
		} else {
			r.bad(c.Prop, construct, posOf(p, a.call), strings.Join(problems, "; "))
		}
	}
	for o := range want {
		if !seenOwner[o] {
			r.bad(c.Prop, "no-reaper|"+o, "-", "no cleanup is ever armed for "+o+" objects: they are never reclaimed")
		}
	}
	// retry limit
	rc := p.LookupField(schedPkg, "task", "retryCount")
	complete := p.LookupFunc(schedPkg, "task.complete")
	for _, w := range FieldWrites(p.UnitsIn(schedPkg), rc, false) {
		inc, ok := w.Node.(*ast.IncDecStmt)
		if !ok || inc.Tok != token.INC {
			continue
		}
		u := w.Unit
		info := u.Info()
		gs := flattenGuards(GuardsOf(info, u.Decl.Body, inc))
		bounded := false
		for _, g := range gs {
			if be, ok := ast.Unparen(g.Cond).(*ast.BinaryExpr); ok && g.Pos && be.Op == token.LSS && fieldOf(info, be.X) == rc && mentionsSelector(be.Y, "WorkerTaskRetryCount") {
				bounded = true
			}
		}
		internal := false
		failing := CallsTo([]*FuncUnit{u}, complete)
		// ... or through a helper of this package that completes the task with INTERNAL
		ast.Inspect(u.Decl.Body, func(n ast.Node) bool {
			if hc, ok := n.(*ast.CallExpr); ok {
				if h := calleeOf(info, hc); h != nil && h != complete && p.Decl(h) != nil && h.Pkg() != nil && relPkg(h.Pkg()) == schedPkg {
					if hu := p.UnitOf(h); hu != nil {
						for _, cs := range CallsTo([]*FuncUnit{hu}, complete) {
							if mentionsSelector(hu.Decl.Body, "Internal") && cs.Node != nil {
								failing = append(failing, Site{Unit: u, Node: hc})
							}
						}
					}
				}
			}
			return true
		})
		for _, cs := range failing {
			if mentionsSelector(cs.Node, "Internal") || calleeOf(info, cs.Node.(*ast.CallExpr)) != complete {
				for _, g := range flattenGuards(GuardsOf(info, u.Decl.Body, cs.Node)) {
					if be, ok := ast.Unparen(g.Cond).(*ast.BinaryExpr); ok && g.Pos && be.Op == token.GEQ && fieldOf(info, be.X) == rc {
						internal = true
					}
				}
			}
		}
		construct := constructOf(u, "retry-limit")
		if bounded && internal {
			r.ok(construct, posOf(p, inc), "re-issue bounded by WorkerTaskRetryCount, then INTERNAL")
		} else {
			r.bad(c.Prop, construct, posOf(p, inc), fmt.Sprintf("re-issuing a task to a worker is not bounded by WorkerTaskRetryCount (%v) or does not fail with INTERNAL once exhausted (%v)", bounded, internal))
		}
	}
	return r
}

func c06Retry(c *Ctx) *RuleResult {
	r := &RuleResult{Rule: "C06.retry", Floor: 2,
		Doc: "the per-task retry counter only starts over when the task is (re)assigned to a worker: every store task.retryCount = 0 is in a function that also links the task to a worker (task.currentWorker = w) on the same paths; the only other writes are increments"}
	p := c.P
	units := p.UnitsIn(schedPkg)
	rc := p.LookupField(schedPkg, "task", "retryCount")
	cw := p.LookupField(schedPkg, "task", "currentWorker")
	for _, w := range FieldWrites(units, rc, false) {
		u := w.Unit
		construct := constructOf(u, "retryCount write "+exprStr(w.Expr))
		switch n := w.Node.(type) {
		case *ast.IncDecStmt:
			if n.Tok == token.INC {
				r.ok(construct, posOf(p, n), "increment")
			} else {
				r.bad(c.Prop, construct, posOf(p, n), "the retry counter is decremented")
			}
		case *ast.AssignStmt:
			linked := false
			g := NewFuncCFG(u.Info(), u.Decl.Body)
			for _, l := range FieldWrites([]*FuncUnit{u}, cw, false) {
				if l.RHS != nil && exprStr(l.RHS) != "nil" && exprStr(ast.Unparen(l.Expr).(*ast.SelectorExpr).X) == exprStr(ast.Unparen(w.Expr).(*ast.SelectorExpr).X) {
					if (g.Dominates(l.Node, n) && g.PostDominates(n, l.Node)) || (g.Dominates(n, l.Node) && g.PostDominates(l.Node, n)) {
						linked = true
					}
				}
			}
			if linked && w.RHS != nil && exprStr(w.RHS) == "0" {
				r.ok(construct, posOf(p, n), "reset together with assigning the task to a worker")
			} else {
				r.bad(c.Prop, construct, posOf(p, n), "the retry counter is reset outside task assignment: a worker that keeps re-requesting (or crashing on) the task is handed it forever and the task never fails with INTERNAL")
			}
		}
	}
	return r
}

func c06Rearm(c *Ctx) *RuleResult {
	r := &RuleResult{Rule: "C06.rearm", Floor: 2,
		Doc: "in Synchronize, once the worker's cleanup entry has been cancelled, a worker has been created, or a removable size-class queue has been created or had its removal cancelled, EVERY exit re-arms the worker cleanup (the deferred cleanupQueue.add(&w.cleanupKey, ...)); the only tolerated early exit after creating a queue or cancelling its removal is the one taken when the worker already exists (a new queue, or one with a pending removal, has no workers; its arming is guarded by len(workers) == 0, rule C06.cfg)"}
	p := c.P
	rem := p.LookupFunc(schedPkg, "cleanupQueue.remove")
	add := p.LookupFunc(schedPkg, "cleanupQueue.add")
	addSCQ := p.LookupFunc(schedPkg, "platformQueue.addSizeClassQueue")
	wKey := p.LookupField(schedPkg, "worker", "cleanupKey")
	qKey := p.LookupField(schedPkg, "sizeClassQueue", "cleanupKey")
	workers := p.LookupField(schedPkg, "sizeClassQueue", "workers")
	for _, u := range p.UnitsIn(schedPkg) {
		if !hasParamOfType(u, modPath+"/pkg/proto/remoteworker", "SynchronizeRequest") {
			continue
		}
		info := u.Info()
		g := NewFuncCFG(info, u.Decl.Body)
		isRearm := func(n ast.Node) bool {
			d, ok := n.(*ast.DeferStmt)
			if !ok {
				return false
			}
			found := false
			check := func(root ast.Node, rinfo *types.Info) {
				ast.Inspect(root, func(m ast.Node) bool {
					if call, ok := m.(*ast.CallExpr); ok && calleeOf(rinfo, call) == add && len(call.Args) == 3 {
						if ue, ok := ast.Unparen(call.Args[0]).(*ast.UnaryExpr); ok && fieldOf(rinfo, ue.X) == wKey {
							found = true
						}
					}
					return true
				})
			}
			check(d.Call, info)
			// or a helper (possibly nested) that arms it
			for fn := range staticReach(p, []ast.Node{d.Call}, info) {
				if fd := p.Decl(fn); fd != nil {
					check(fd.Body, p.InfoFor(fd))
				}
			}
			return found
		}
		type origin struct {
			n                ast.Node
			what             string
			tolerateExisting bool
		}
		var origins []origin
		for _, cs := range CallsTo([]*FuncUnit{u}, rem) {
			call := cs.Node.(*ast.CallExpr)
			switch fieldOf(info, call.Args[0]) {
			case wKey:
				origins = append(origins, origin{call, "cancel worker cleanup", false})
			case qKey:
				origins = append(origins, origin{call, "cancel queue removal", true})
			}
		}
		for _, cs := range CallsTo([]*FuncUnit{u}, addSCQ) {
			origins = append(origins, origin{cs.Node, "create removable size-class queue", true})
		}
		for _, w := range FieldWrites([]*FuncUnit{u}, workers, false) {
			if _, ok := w.Node.(*ast.AssignStmt); ok {
				origins = append(origins, origin{w.Node, "register worker", false})
			}
		}
		// the same events inside a helper that Synchronize calls: the call is the origin; the
		// helper's failure return counts as "before the event" when no event of the helper can reach
		// a return with a non-nil error
		helperErrOK := map[ast.Node]bool{}     // call -> its error return happens before the events
		existingOnlyErr := map[ast.Node]bool{} // call -> the helper only fails for a worker that already exists
		ast.Inspect(u.Decl.Body, func(n ast.Node) bool {
			hc, ok := n.(*ast.CallExpr)
			if !ok {
				return true
			}
			h := calleeOf(info, hc)
			if h == nil || h.Pkg() == nil || relPkg(h.Pkg()) != schedPkg || h == rem || h == add || h == addSCQ {
				return true
			}
			hu := p.UnitOf(h)
			if hu == nil {
				return true
			}
			hinfo := hu.Info()
			var evs []ast.Node
			what := ""
			for _, cs := range CallsTo([]*FuncUnit{hu}, rem) {
				if fieldOf(hinfo, cs.Node.(*ast.CallExpr).Args[0]) == wKey {
					evs = append(evs, cs.Node)
					what = "cancel worker cleanup"
				}
			}
			for _, w := range FieldWrites([]*FuncUnit{hu}, workers, false) {
				if _, ok := w.Node.(*ast.AssignStmt); ok {
					evs = append(evs, w.Node)
					if what == "" {
						what = "register worker"
					} else {
						what += " / register worker"
					}
				}
			}
			// queue events (removal cancelled / removable queue created): tolerated like in Synchronize
			tolerant := false
			if len(evs) == 0 {
				for _, cs := range CallsTo([]*FuncUnit{hu}, rem) {
					if fieldOf(hinfo, cs.Node.(*ast.CallExpr).Args[0]) == qKey {
						evs = append(evs, cs.Node)
						what = "cancel queue removal"
						tolerant = true
					}
				}
				for _, cs := range CallsTo([]*FuncUnit{hu}, addSCQ) {
					evs = append(evs, cs.Node)
					if what == "" {
						what = "create removable size-class queue"
					} else {
						what += " / create removable size-class queue"
					}
					tolerant = true
				}
			}
			if len(evs) == 0 {
				return true
			}
			hg := NewFuncCFG(hinfo, hu.Decl.Body)
			clean := true
			for _, ev := range evs {
				if reach, _ := hg.ReachableWithout(ev, nil, func(m ast.Node) bool {
					ret, ok := m.(*ast.ReturnStmt)
					return ok && lastResultIsNil(ret)
				}); reach {
					clean = false
				}
			}
			helperErrOK[hc] = clean
			onlyExisting := true
			ast.Inspect(hu.Decl.Body, func(m ast.Node) bool {
				ret, ok := m.(*ast.ReturnStmt)
				if !ok || lastResultIsNil(ret) {
					return true
				}
				okG := false
				for _, gd := range flattenGuards(GuardsOf(hinfo, hu.Decl.Body, ret)) {
					if id, ok := ast.Unparen(gd.Cond).(*ast.Ident); ok && gd.Pos && okSourceIsLookup(hu, id, workers) {
						okG = true
					}
				}
				if !okG {
					onlyExisting = false
				}
				return true
			})
			existingOnlyErr[hc] = onlyExisting
			origins = append(origins, origin{hc, what + " (in " + h.Name() + ")", tolerant})
			return true
		})
		// a return under `err != nil` where err is the result of such a helper call
		errReturnOf := func(ret *ast.ReturnStmt, m map[ast.Node]bool) bool {
			for _, gd := range flattenGuards(GuardsOf(info, u.Decl.Body, ret)) {
				x, nonNil, ok := nilTestOf(gd)
				if !ok || !nonNil {
					continue
				}
				if id, ok := ast.Unparen(x).(*ast.Ident); ok {
					for _, dc := range definingCalls(u, id) {
						if m[dc] {
							return true
						}
					}
				}
			}
			return false
		}
		for _, o := range origins {
			construct := constructOf(u, o.what)
			barrier := isRearm
			hcOrigin, isHelperOrigin := o.n.(*ast.CallExpr)
			if isHelperOrigin && helperErrOK[hcOrigin] {
				barrier = func(n ast.Node) bool {
					if isRearm(n) {
						return true
					}
					ret, ok := n.(*ast.ReturnStmt)
					return ok && errReturnOf(ret, map[ast.Node]bool{hcOrigin: true})
				}
			}
			if o.tolerateExisting {
				inner := barrier
				barrier = func(n ast.Node) bool {
					if isRearm(n) || inner(n) {
						return true
					}
					// a return taken when the worker already exists
					if ret, ok := n.(*ast.ReturnStmt); ok {
						if errReturnOf(ret, existingOnlyErr) {
							return true
						}
						for _, gd := range flattenGuards(GuardsOf(info, u.Decl.Body, ret)) {
							if id, ok := ast.Unparen(gd.Cond).(*ast.Ident); ok && gd.Pos {
								if src := okSourceIsLookup(u, id, workers); src {
									return true
								}
							}
						}
					}
					return false
				}
			}
			if reach, at := g.ReachableWithout(o.n, nil, barrier); reach {
				r.bad(c.Prop, construct, posOf(p, o.n), fmt.Sprintf("after '%s' the call can return (at %s) without re-arming the worker cleanup: the worker, and through it the queue and everything queued on it, is never reclaimed and blocked clients are never failed", o.what, posOf(p, at)))
			} else {
				r.ok(construct, posOf(p, o.n), "every exit passes the deferred re-arm")
			}
		}
	}
	return r
}

// okSourceIsLookup: `v, ok := X.field[k]` defines this ok identifier.
func okSourceIsLookup(u *FuncUnit, id *ast.Ident, field *types.Var) bool {
	info := u.Info()
	v, _ := info.Uses[id].(*types.Var)
	if v == nil {
		return false
	}
	res := false
	last := token.NoPos
	ast.Inspect(u.Decl.Body, func(n ast.Node) bool {
		as, ok := n.(*ast.AssignStmt)
		if !ok || len(as.Lhs) != 2 || len(as.Rhs) != 1 || as.Pos() > id.Pos() {
			return true
		}
		okID, isID := as.Lhs[1].(*ast.Ident)
		if !isID || !(info.Defs[okID] == v || info.Uses[okID] == v) {
			return true
		}
		if as.Pos() > last {
			last = as.Pos()
			ix, isIx := ast.Unparen(as.Rhs[0]).(*ast.IndexExpr)
			res = isIx && fieldOf(info, ix.X) == field
		}
		return true
	})
	return res
}

func c06Select(c *Ctx) *RuleResult {
	r := &RuleResult{Rule: "C06.select", Floor: 4,
		Doc: "every blocking select of the scheduler has an arm on the caller's context (ctx.Done()) or on a timer channel, so every blocked call returns once its wake-up condition or timeout occurs; all of them run with the scheduler lock released (lock-flow engine)"}
	p := c.P
	e := sharedLockEngine(c)
	for _, u := range p.UnitsIn(schedPkg) {
		info := u.Info()
		ast.Inspect(u.Decl.Body, func(n ast.Node) bool {
			sel, ok := n.(*ast.SelectStmt)
			if !ok {
				return true
			}
			hasEscape := false
			for _, cl := range sel.Body.List {
				cc := cl.(*ast.CommClause)
				if cc.Comm == nil {
					hasEscape = true
					continue
				}
				var ch ast.Expr
				switch cm := cc.Comm.(type) {
				case *ast.ExprStmt:
					if ue, ok := ast.Unparen(cm.X).(*ast.UnaryExpr); ok {
						ch = ue.X
					}
				case *ast.AssignStmt:
					if ue, ok := ast.Unparen(cm.Rhs[0]).(*ast.UnaryExpr); ok {
						ch = ue.X
					}
				}
				if ch == nil {
					continue
				}
				if call, ok := ast.Unparen(ch).(*ast.CallExpr); ok {
					if fn := calleeOf(info, call); fn != nil && fn.Name() == "Done" {
						hasEscape = true
					}
				}
				// timer channel: a variable assigned from clock.NewTimer(...)
				src := tupleSource(u, ch)
				if src != nil {
					if fn := calleeOf(info, src); fn != nil && fn.Name() == "NewTimer" {
						hasEscape = true
					}
				}
			}
			construct := constructOf(u, "select@"+fmt.Sprint(len(sel.Body.List))+"arms")
			if hasEscape {
				r.ok(construct, posOf(p, sel), "has a context or timer arm")
			} else {
				r.bad(c.Prop, construct, posOf(p, sel), "blocking select without a context-cancellation or timer arm: the call can block forever")
			}
			return true
		})
	}
	for _, s := range e.Order {
		if relPkg(s.Pkg.Types) != schedPkg {
			continue
		}
		for _, d := range s.Diags {
			if d.Kind == "noblock" {
				r.bad(c.Prop, s.Name+"|blocks-under-lock", c.P.Pos(d.Pos), d.Msg, d.Path...)
			}
		}
	}
	return r
}

// tupleSource finds the call whose (multi-value) result defines the identifier e.
func tupleSource(u *FuncUnit, e ast.Expr) *ast.CallExpr {
	id, ok := ast.Unparen(e).(*ast.Ident)
	if !ok {
		return nil
	}
	info := u.Info()
	v, _ := info.Uses[id].(*types.Var)
	var out *ast.CallExpr
	ast.Inspect(u.Decl.Body, func(n ast.Node) bool {
		as, ok := n.(*ast.AssignStmt)
		if !ok || len(as.Rhs) != 1 {
			return true
		}
		if as.Pos() > id.Pos() {
			return true
		}
		for _, l := range as.Lhs {
			if lid, ok := l.(*ast.Ident); ok && (info.Defs[lid] == v || info.Uses[lid] == v) {
				if call, ok := ast.Unparen(as.Rhs[0]).(*ast.CallExpr); ok {
					out = call // the closest preceding definition wins
				}
			}
		}
		return true
	})
	return out
}

func c06Reaper(c *Ctx) *RuleResult {
	r := &RuleResult{Rule: "C06.reaper", Floor: 7,
		Doc: "every container that holds state created on behalf of clients or workers has a removal (delete / slice shrink) in a function statically reachable from one of the cleanup callbacks registered with cleanupQueue.add, so that expiry of all timeouts can empty it; cleanupQueue.run is only invoked from enter(), guarded by the clock comparison, and enter() is the only function that takes the scheduler lock"}
	p := c.P
	units := p.UnitsIn(schedPkg)
	var roots []ast.Node
	var rootInfo *types.Info
	for _, a := range cleanupAdds(p) {
		roots = append(roots, a.call.Args[2])
		rootInfo = a.u.Info()
	}
	if len(roots) == 0 {
		panic(anchorError("no cleanupQueue.add call"))
	}
	reach := staticReach(p, roots, rootInfo)
	containers := [][2]string{
		{"InMemoryBuildQueue", "operationsNameMap"}, {"InMemoryBuildQueue", "sizeClassQueues"}, {"InMemoryBuildQueue", "platformQueues"},
		{"InMemoryBuildQueue", "inFlightDeduplicationMap"}, {"sizeClassQueue", "workers"}, {"invocation", "children"}, {"task", "operations"},
		{"invocation", "executingWorkers"},
	}
	for _, ct := range containers {
		f := p.LookupField(schedPkg, ct[0], ct[1])
		construct := ct[0] + "." + ct[1]
		where := ""
		for _, w := range FieldWrites(units, f, false) {
			shrinks := false
			switch n := w.Node.(type) {
			case *ast.CallExpr:
				shrinks = true // delete
			case *ast.AssignStmt:
				if w.RHS != nil {
					if sl, ok := ast.Unparen(w.RHS).(*ast.SliceExpr); ok && fieldOf(w.Unit.Info(), sl.X) == f {
						shrinks = true
					}
				}
				_ = n
			}
			if shrinks && reach[w.Unit.Fn] {
				where = w.Unit.Name() + " at " + posOf(p, w.Node)
			}
		}
		if where != "" {
			r.ok(construct, "-", "emptied in "+where+", reachable from a cleanup callback")
		} else {
			r.bad(c.Prop, construct, "-", "no removal from this container is reachable from any cleanup callback: entries created for clients/workers that vanish are retained forever")
		}
	}
	// enter
	run := p.LookupFunc(schedPkg, "cleanupQueue.run")
	enter := p.LookupFunc(schedPkg, "InMemoryBuildQueue.enter")
	for _, cs := range CallsTo(units, run) {
		construct := constructOf(cs.Unit, "cleanupQueue.run")
		if cs.Unit.Fn != enter {
			r.bad(c.Prop, construct, posOf(p, cs.Node), "cleanup callbacks are run outside enter(): they would run without the guarantees enter() establishes")
			continue
		}
		gs := flattenGuards(GuardsOf(cs.Unit.Info(), cs.Unit.Decl.Body, cs.Node))
		okG := false
		for _, g := range gs {
			if call, ok := ast.Unparen(g.Cond).(*ast.CallExpr); ok && g.Pos {
				if name, _, b, ok := isTimeCmp(cs.Unit.Info(), call); ok && name == "After" && strings.HasSuffix(exprStr(b), ".now") {
					okG = true
				}
			}
		}
		if okG {
			r.ok(construct, posOf(p, cs.Node), "run from enter() when the clock advanced")
		} else {
			r.bad(c.Prop, construct, posOf(p, cs.Node), "cleanupQueue.run is not guarded by the clock comparison in enter()")
		}
	}
	return r
}

func init() {
	register(&PropertySpec{
		ID:          "C06",
		Level:       "other",
		Explanation: "Structural necessary conditions of 'failures time out, wake everyone and leak nothing': each reaper is armed with its own configured timeout and documented status code; the retry counter only restarts on (re)assignment and re-issue is bounded; Synchronize re-arms the worker cleanup on every exit after touching cleanup state; every blocking select has a context/timer arm and runs unlocked; every container of client/worker state is emptied by code reachable from a cleanup callback; callbacks only run from enter(). That timers fire and quiescence over all crash points are not decided.",
		Assumptions: []string{"the clock delivers timer events", "cleanup callbacks are only registered through cleanupQueue.add"},
		Rules:       []RuleFunc{c06Cfg, c06Retry, c06Rearm, c06Select, c06Reaper, schedWaiters, schedWorkerRemoval, schedDrainLoops, schedStageWake, schedRemoveIfEmptyWalk, c01Guarded, schedQueueRemovalCancel, schedPropagationLoops, schedRearmTime, schedRevalidateAfterRelock, schedStaleWorkerRemoval},
	})
}
