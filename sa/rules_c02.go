package main

import (
	"fmt"
	"go/ast"
	"go/token"
	"go/types"
	"strings"
)

// schedWaiters is shared by C02, C03 and C06: arrival of a waiter cancels the pending abandonment
// cleanup, departure re-arms it.
func schedWaiters(c *Ctx) *RuleResult {
	r := &RuleResult{Rule: c.Prop + ".waiters", Floor: 2,
		Doc: "an operation's waiter count and its abandonment timer move together: every increment of operation.waiters is dominated by `if o.cleanupKey.isActive() { cleanupQueue.remove(o.cleanupKey) }`, in the same function or at every one of its call sites (whatever path attached the client); every decrement is followed on all paths by maybeStartCleanup, which arms the timer only when waiters == 0"}
	p := c.P
	units := p.UnitsIn(schedPkg)
	waiters := p.LookupField(schedPkg, "operation", "waiters")
	key := p.LookupField(schedPkg, "operation", "cleanupKey")
	rem := p.LookupFunc(schedPkg, "cleanupQueue.remove")
	maybe := p.LookupFunc(schedPkg, "operation.maybeStartCleanup")
	for _, w := range FieldWrites(units, waiters, false) {
		inc, ok := w.Node.(*ast.IncDecStmt)
		if !ok {
			continue
		}
		u := w.Unit
		info := u.Info()
		body := u.Decl.Body
		if fl := enclosingFuncLit(body, inc); fl != nil {
			body = fl.Body
		}
		g := NewFuncCFG(info, body)
		recv := exprStr(ast.Unparen(w.Expr).(*ast.SelectorExpr).X)
		if inc.Tok == token.INC {
			construct := constructOf(u, "waiters++")
			// cancelBefore: an `if X.cleanupKey.isActive() { cleanupQueue.remove(X.cleanupKey) }` dominating target
			cancelBefore := func(fu *FuncUnit, fbody *ast.BlockStmt, target ast.Node, opExpr string) bool {
				finfo := fu.Info()
				fg := NewFuncCFG(finfo, fbody)
				ok := false
				ast.Inspect(fbody, func(n ast.Node) bool {
					ifs, isIf := n.(*ast.IfStmt)
					if !isIf {
						return true
					}
					call, isCall := ast.Unparen(ifs.Cond).(*ast.CallExpr)
					if !isCall {
						return true
					}
					sel, isSel := ast.Unparen(call.Fun).(*ast.SelectorExpr)
					if !isSel || sel.Sel.Name != "isActive" || fieldOf(finfo, sel.X) != key || !strings.HasPrefix(exprStr(sel.X), opExpr+".") {
						return true
					}
					for _, cs := range CallsTo([]*FuncUnit{fu}, rem) {
						if ifs.Body.Pos() <= cs.Node.Pos() && cs.Node.End() <= ifs.Body.End() && fieldOf(finfo, cs.Node.(*ast.CallExpr).Args[0]) == key && fg.Dominates(ifs.Cond, target) {
							ok = true
						}
					}
					return true
				})
				return ok
			}
			found := cancelBefore(u, body, inc, recv)
			if !found && u.Decl.Recv != nil && len(u.Decl.Recv.List[0].Names) > 0 && u.Decl.Recv.List[0].Names[0].Name == recv {
				// alternatively every caller cancels before calling
				sites := CallsTo(units, u.Fn)
				all := len(sites) > 0
				for _, cs := range sites {
					csel, isSel := ast.Unparen(cs.Node.(*ast.CallExpr).Fun).(*ast.SelectorExpr)
					if !isSel || !cancelBefore(cs.Unit, cs.Unit.Decl.Body, cs.Node, exprStr(csel.X)) {
						all = false
					}
				}
				found = all
			}
			if found {
				r.ok(construct, posOf(p, inc), "pending abandonment cleanup is cancelled before the waiter is counted")
			} else {
				r.bad(c.Prop, construct, posOf(p, inc), "a waiter is attached to the operation without cancelling a pending no-waiters cleanup in the same function: a client that re-attaches (by whatever route reaches this function) is cancelled by the stale timer while it is waiting")
			}
		} else {
			construct := constructOf(u, "waiters--")
			found := false
			for _, cs := range CallsTo([]*FuncUnit{u}, maybe) {
				if g.PostDominates(cs.Node, inc) {
					found = true
				}
			}
			if found {
				r.ok(construct, posOf(p, inc), "followed on all paths by maybeStartCleanup")
			} else {
				r.bad(c.Prop, construct, posOf(p, inc), "a waiter leaves without (re)arming the no-waiters cleanup on every path: an abandoned operation is never reclaimed")
			}
		}
	}
	// maybeStartCleanup arms only when waiters == 0
	u := p.Unit(schedPkg, "operation.maybeStartCleanup")
	for _, a := range cleanupAdds(p) {
		if a.u.Fn != u.Fn {
			continue
		}
		okG := false
		gs := flattenGuards(GuardsOf(u.Info(), u.Decl.Body, a.call))
		for _, g := range gs {
			if be, ok := ast.Unparen(g.Cond).(*ast.BinaryExpr); ok && g.Pos && be.Op == token.EQL && fieldOf(u.Info(), be.X) == waiters && exprStr(be.Y) == "0" {
				okG = true
			}
		}
		construct := constructOf(u, "arm-when-no-waiters")
		if okG {
			r.ok(construct, posOf(p, a.call), "guards: "+strings.Join(guardStrings(gs), " && "))
		} else {
			r.bad(c.Prop, construct, posOf(p, a.call), "the abandonment timer is armed although clients may be waiting")
		}
	}
	return r
}

func c02Done(c *Ctx) *RuleResult {
	r := &RuleResult{Rule: "C02.done", Floor: 3,
		Doc: "in the streaming loop, a message is marked done exactly when the task has its final response (operation.Done = true is guarded by task.executeResponse != nil and the response is attached there), the message is sent with the scheduler lock released, and after sending a done message or a send error the function returns: nothing is sent after the final message"}
	p := c.P
	u := p.Unit(schedPkg, "operation.waitExecution")
	info := u.Info()
	resp := p.LookupField(schedPkg, "task", "executeResponse")
	// Done = true
	nDone := 0
	// the message may be built by a helper of the streaming loop
	doneUnits := []*FuncUnit{u}
	for fn := range staticReach(p, []ast.Node{u.Decl.Body}, info) {
		if hu := p.UnitOf(fn); hu != nil && fn.Pkg() == u.Fn.Pkg() {
			doneUnits = append(doneUnits, hu)
		}
	}
	for _, du := range doneUnits {
		info := du.Info()
		ast.Inspect(du.Decl.Body, func(n ast.Node) bool {
			as, ok := n.(*ast.AssignStmt)
			if !ok || len(as.Lhs) != 1 {
				return true
			}
			sel, ok := ast.Unparen(as.Lhs[0]).(*ast.SelectorExpr)
			if !ok || sel.Sel.Name != "Done" {
				return true
			}
			if tv, ok := info.Types[sel.X]; !ok || !strings.Contains(tv.Type.String(), "longrunningpb.Operation") {
				return true
			}
			nDone++
			gs := flattenGuards(GuardsOf(info, du.Decl.Body, as))
			okG := false
			for _, g := range gs {
				if be, ok := ast.Unparen(g.Cond).(*ast.BinaryExpr); ok && g.Pos && be.Op == token.NEQ && fieldOf(info, be.X) == resp && isNilIdent(be.Y) {
					okG = true
				}
			}
			construct := constructOf(u, "Done=true")
			if okG && exprStr(as.Rhs[0]) == "true" {
				r.ok(construct, posOf(p, as), "guarded by executeResponse != nil")
			} else {
				r.bad(c.Prop, construct, posOf(p, as), "a message is marked done without the task having its final response")
			}
			return true
		})
	}
	if nDone == 0 {
		r.bad(c.Prop, constructOf(u, "Done=true"), posOf(p, u.Decl), "no message is ever marked done")
	}
	// Send followed by return when done or error
	var send *ast.CallExpr
	ast.Inspect(u.Decl.Body, func(n ast.Node) bool {
		if call, ok := n.(*ast.CallExpr); ok {
			if sel, ok := ast.Unparen(call.Fun).(*ast.SelectorExpr); ok && sel.Sel.Name == "Send" {
				send = call
			}
		}
		return true
	})
	if send == nil {
		panic(anchorError("waitExecution: no Send call"))
	}
	var ifs *ast.IfStmt
	for _, n := range pathTo(u.Decl.Body, send) {
		if x, ok := n.(*ast.IfStmt); ok {
			ifs = x
		}
	}
	construct := constructOf(u, "return-after-final")
	okShape := false
	if ifs != nil && terminates(info, ifs.Body.List) {
		if be, ok := ast.Unparen(ifs.Cond).(*ast.BinaryExpr); ok && be.Op == token.LOR {
			l, rr := exprStr(be.X), exprStr(be.Y)
			if (strings.HasSuffix(l, ".Done") && isErrNotNil(info, be.Y)) || (strings.HasSuffix(rr, ".Done") && isErrNotNil(info, be.X)) {
				if _, isRet := ifs.Body.List[len(ifs.Body.List)-1].(*ast.ReturnStmt); isRet {
					okShape = true
				}
			}
		}
	}
	if okShape {
		r.ok(construct, posOf(p, send), "if err := Send(op); op.Done || err != nil { return }")
	} else {
		r.bad(c.Prop, construct, posOf(p, send), "after sending a message the loop does not return when that message was final (or the send failed): further messages can follow the done message")
	}
	// Send unlocked
	e := sharedLockEngine(c)
	for _, s := range e.Order {
		if s.Fn == u.Fn {
			bad := false
			for _, d := range s.Diags {
				if d.Kind == "noblock" || d.Kind == "balance" {
					bad = true
					r.bad(c.Prop, constructOf(u, "lock:"+d.Kind), p.Pos(d.Pos), d.Msg)
				}
			}
			if !bad {
				ef := s.Effects["bq.lock"]
				if ef != nil && ef.Pre == kHeld && ef.Delta == 0 {
					r.ok(constructOf(u, "lock"), posOf(p, u.Decl), "requires the lock, releases it around Send/select, holds it again on every return")
				} else {
					r.bad(c.Prop, constructOf(u, "lock"), posOf(p, u.Decl), "waitExecution does not return with the scheduler lock held on every path (callers defer leave())")
				}
			}
		}
	}
	return r
}

func c02Single(c *Ctx) *RuleResult {
	r := &RuleResult{Rule: "C02.single-writer", Floor: 5,
		Doc: "the final response has one store site whose value is the parameter of the completing function, followed on all paths by closing the stage-change channel; callers that complete on behalf of a worker pass the worker's Completed response unchanged; every other caller passes a fresh ExecuteResponse whose status is one of the documented causes (UNAVAILABLE worker/queue disappeared, CANCELED no waiting clients, INTERNAL retry limit, operator-supplied status)"}
	p := c.P
	units := p.UnitsIn(schedPkg)
	resp := p.LookupField(schedPkg, "task", "executeResponse")
	wake := p.LookupField(schedPkg, "task", "stageChangeWakeup")
	ws := FieldWrites(units, resp, false)
	if len(ws) != 1 {
		r.bad(c.Prop, "task.executeResponse|stores", "-", fmt.Sprintf("%d store sites of the final response (expected exactly one)", len(ws)))
	}
	for _, w := range ws {
		u := w.Unit
		info := u.Info()
		construct := constructOf(u, "store")
		isParam := false
		if id, ok := ast.Unparen(w.RHS).(*ast.Ident); ok {
			if v, ok := info.Uses[id].(*types.Var); ok {
				sig := u.Fn.Type().(*types.Signature)
				for i := 0; i < sig.Params().Len(); i++ {
					if sig.Params().At(i) == v {
						isParam = true
					}
				}
				// never reassigned
				ast.Inspect(u.Decl.Body, func(n ast.Node) bool {
					if as, ok := n.(*ast.AssignStmt); ok {
						for _, l := range as.Lhs {
							if lid, ok := l.(*ast.Ident); ok && info.Uses[lid] == v {
								isParam = false
							}
						}
					}
					return true
				})
			}
		}
		g := NewFuncCFG(info, u.Decl.Body)
		closed := false
		ast.Inspect(u.Decl.Body, func(n ast.Node) bool {
			if call, ok := n.(*ast.CallExpr); ok {
				if id, ok := ast.Unparen(call.Fun).(*ast.Ident); ok && id.Name == "close" && len(call.Args) == 1 && fieldOf(info, call.Args[0]) == wake && g.PostDominates(call, w.Node) {
					closed = true
				}
			}
			return true
		})
		if isParam && closed {
			r.ok(construct, posOf(p, w.Node), "stores the caller-supplied response and wakes all waiters")
		} else {
			r.bad(c.Prop, construct, posOf(p, w.Node), fmt.Sprintf("the stored final response is not exactly the value handed to the completing function (%v) or waiters are not woken on every path (%v)", isParam, closed))
		}
		// callers
		for _, cs := range CallsTo(units, u.Fn) {
			call := cs.Node.(*ast.CallExpr)
			if len(call.Args) != 3 {
				continue
			}
			cu := cs.Unit
			byWorker := exprStr(call.Args[2]) == "true"
			cconstruct := constructOf(cu, "complete("+exprStr(call.Args[2])+")@"+shortCauseIn(cu, call.Args[1]))
			if byWorker {
				// the response must be a parameter of the caller passed through unchanged
				id, ok := ast.Unparen(call.Args[1]).(*ast.Ident)
				okP := false
				if ok {
					if v, ok := cu.Info().Uses[id].(*types.Var); ok {
						sig := cu.Fn.Type().(*types.Signature)
						for i := 0; i < sig.Params().Len(); i++ {
							if sig.Params().At(i) == v {
								okP = true
							}
						}
					}
				}
				if okP {
					r.ok(cconstruct, posOf(p, call), "worker's response passed through unchanged")
				} else {
					r.bad(c.Prop, cconstruct, posOf(p, call), "a completion attributed to the worker does not carry the worker's own response")
				}
				continue
			}
			cause := shortCauseIn(cu, call.Args[1])
			switch cause {
			case "Unavailable", "Canceled", "Internal", "operator-status":
				r.ok(cconstruct, posOf(p, call), "scheduler-produced error: "+cause)
			default:
				r.bad(c.Prop, cconstruct, posOf(p, call), "the scheduler completes a task with a response that is neither a worker's response nor one of the documented scheduler errors: "+exprStr(call.Args[1]))
			}
		}
	}
	return r
}

// shortCauseIn: shortCause, looking through local variables the expression is built from
// (`failure := status.Newf(codes.Internal, ...); complete(&Response{Status: failure.Proto()})`).
func shortCauseIn(u *FuncUnit, e ast.Expr) string {
	if c := shortCause(e); c != "other" && c != "passed-through" {
		return c
	}
	first := shortCause(e)
	info := u.Info()
	seen := map[types.Object]bool{}
	var visit func(e ast.Expr, depth int) string
	visit = func(e ast.Expr, depth int) string {
		res := ""
		ast.Inspect(e, func(n ast.Node) bool {
			id, ok := n.(*ast.Ident)
			if !ok || res != "" {
				return true
			}
			v, ok := info.Uses[id].(*types.Var)
			if !ok || v.IsField() || seen[v] || depth > 3 {
				return true
			}
			seen[v] = true
			ast.Inspect(u.Decl.Body, func(m ast.Node) bool {
				as, ok := m.(*ast.AssignStmt)
				if !ok || len(as.Lhs) != len(as.Rhs) {
					return true
				}
				for i, l := range as.Lhs {
					if lid, ok := l.(*ast.Ident); ok && info.ObjectOf(lid) == v {
						if c := shortCause(as.Rhs[i]); c != "other" && c != "passed-through" {
							res = c
						} else if c := visit(as.Rhs[i], depth+1); c != "" {
							res = c
						}
					}
				}
				return true
			})
			return true
		})
		return res
	}
	if c := visit(e, 0); c != "" {
		return c
	}
	// &ExecuteResponse{Status: <a parameter of this function>}: the operator-supplied status,
	// whatever the parameter is called
	if ue, ok := ast.Unparen(e).(*ast.UnaryExpr); ok {
		if lit, ok := ue.X.(*ast.CompositeLit); ok && len(lit.Elts) == 1 {
			if kv, ok := lit.Elts[0].(*ast.KeyValueExpr); ok && exprStr(kv.Key) == "Status" {
				if id, ok := ast.Unparen(kv.Value).(*ast.Ident); ok {
					if v, ok := info.Uses[id].(*types.Var); ok && isParamOf(u, v) {
						return "operator-status"
					}
				}
			}
		}
	}
	return first
}

func shortCause(e ast.Expr) string {
	for _, c := range []string{"Unavailable", "Canceled", "Internal"} {
		found := false
		ast.Inspect(e, func(n ast.Node) bool {
			if sel, ok := n.(*ast.SelectorExpr); ok && sel.Sel.Name == c {
				if id, ok := sel.X.(*ast.Ident); ok && id.Name == "codes" {
					found = true
				}
			}
			return !found
		})
		if found {
			return c
		}
	}
	if cl, ok := ast.Unparen(e).(*ast.UnaryExpr); ok {
		if lit, ok := cl.X.(*ast.CompositeLit); ok && len(lit.Elts) == 1 {
			if kv, ok := lit.Elts[0].(*ast.KeyValueExpr); ok && exprStr(kv.Key) == "Status" {
				v := exprStr(kv.Value)
				if v == "status" || strings.HasSuffix(v, ".Status") {
					return "operator-status"
				}
			}
		}
	}
	if _, ok := ast.Unparen(e).(*ast.Ident); ok {
		return "passed-through"
	}
	return "other"
}

func c02Wake(c *Ctx) *RuleResult {
	r := &RuleResult{Rule: "C02.wake", Floor: 3,
		Doc: "a wake-up channel is never replaced or dropped without being closed first: every store to task.stageChangeWakeup / sizeClassQueue.undrainWakeup (other than the constructor literal) is dominated by close() of the same field in the same function, so no blocked waiter is left on an orphaned channel"}
	p := c.P
	units := p.UnitsIn(schedPkg)
	for _, fld := range [][2]string{{"task", "stageChangeWakeup"}, {"sizeClassQueue", "undrainWakeup"}} {
		f := p.LookupField(schedPkg, fld[0], fld[1])
		for _, w := range FieldWrites(units, f, false) {
			as, ok := w.Node.(*ast.AssignStmt)
			if !ok {
				continue
			}
			u := w.Unit
			info := u.Info()
			body := u.Decl.Body
			if fl := enclosingFuncLit(body, as); fl != nil {
				body = fl.Body
			}
			g := NewFuncCFG(info, body)
			closed := false
			ast.Inspect(body, func(n ast.Node) bool {
				if call, ok := n.(*ast.CallExpr); ok {
					if id, ok := ast.Unparen(call.Fun).(*ast.Ident); ok && id.Name == "close" && len(call.Args) == 1 && fieldOf(info, call.Args[0]) == f && exprStr(call.Args[0]) == exprStr(w.Expr) && g.Dominates(call, as) {
						closed = true
					}
				}
				return true
			})
			construct := constructOf(u, fld[1]+" = "+exprStr(w.RHS))
			if closed {
				r.ok(construct, posOf(p, as), "closed before being replaced")
			} else {
				r.bad(c.Prop, construct, posOf(p, as), "the wake-up channel is replaced/cleared without being closed: waiters blocked on the old channel are never woken")
			}
		}
	}
	return r
}

func c02Stage(c *Ctx) *RuleResult {
	r := &RuleResult{Rule: "C02.stage", Floor: 4,
		Doc: "the reported stage is the documented function of the task state: COMPLETED iff the final response is present, else EXECUTING iff a worker is assigned, else QUEUED (decision table of task.getStage over both nil tests)"}
	p := c.P
	u := p.Unit(schedPkg, "task.getStage")
	d := BuildDTable(u, u.Decl.Body)
	if d.Err != "" {
		r.undecided(u.Name(), d.Err)
		return r
	}
	ra := d.FindBool(func(k string) bool { return strings.Contains(k, "executeResponse") })
	wa := d.FindBool(func(k string) bool { return strings.Contains(k, "currentWorker") })
	if ra == nil || wa == nil {
		panic(anchorError("getStage: nil tests on executeResponse / currentWorker not found (atoms: " + strings.Join(d.describe(), "; ") + ")"))
	}
	for _, row := range d.Rows {
		respNil := row.Assign[ra.Key] == 1
		workerNil := row.Assign[wa.Key] == 1
		want := "QUEUED"
		if !respNil {
			want = "COMPLETED"
		} else if !workerNil {
			want = "EXECUTING"
		}
		construct := fmt.Sprintf("%s|response-nil=%v,worker-nil=%v", u.Name(), respNil, workerNil)
		if strings.HasSuffix(row.Result, "ExecutionStage_"+want) {
			r.ok(construct, posOf(p, u.Decl), want)
		} else {
			r.bad(c.Prop, construct, posOf(p, u.Decl), fmt.Sprintf("getStage reports %s where the documented stage is %s", row.Result, want))
		}
	}
	return r
}

func init() {
	register(&PropertySpec{
		ID:          "C02",
		Level:       "other",
		Explanation: "Structural necessary conditions of 'each waiter gets exactly one faithful final result': a message is done iff the final response exists and the loop returns after it; sends and waits happen with the lock released and every return re-holds it; one store site of the final response, storing the caller's value and waking all waiters; callers pass the worker's own response or a documented scheduler error; wake-up channels are closed before being replaced; waiter counting and the abandonment timer move together; worker reports are only applied under digest equality; the stage function's decision table. Exactly-once under all races is not decided.",
		Assumptions: []string{"gRPC delivers what Send accepted"},
		Rules:       []RuleFunc{c02Done, c02Single, c02Wake, schedWaiters, c02Stage, c01Identity, schedDrainLoops, schedParkedRecheck, schedStageWake, schedFailedByWorker, schedRearmTime, schedRevalidateAfterRelock, schedStaleWorkerRemoval},
	})
}
