package main

import (
	"fmt"
	"go/ast"
	"go/token"
	"strings"
)

const builderPkg = "pkg/builder"

func c08StopStart(c *Ctx) *RuleResult {
	r := &RuleResult{Rule: "C08.stop-before-start", Floor: 4,
		Doc: "a worker thread never runs two actions: the function that spawns the executor goroutine calls stopExecution before the go statement and before installing the new cancel function / update channel; stopExecution cancels, then receives from the update channel until it is CLOSED (comma-ok receive, the only loop exit is !ok), then clears both fields, and reports Idle on every path; the executor goroutine sends a Completed update carrying its own Execute result and request digest and then closes the channel"}
	p := c.P
	stop := p.LookupFunc(builderPkg, "BuildClient.stopExecution")
	upd := p.LookupField(builderPkg, "BuildClient", "executionUpdates")
	canc := p.LookupField(builderPkg, "BuildClient", "executionCancellation")
	for _, u := range p.UnitsIn(builderPkg) {
		info := u.Info()
		var goStmt *ast.GoStmt
		ast.Inspect(u.Decl.Body, func(n ast.Node) bool {
			if g, ok := n.(*ast.GoStmt); ok {
				// the executor goroutine calls buildExecutor.Execute
				ast.Inspect(g.Call, func(m ast.Node) bool {
					if call, ok := m.(*ast.CallExpr); ok {
						if sel, ok := ast.Unparen(call.Fun).(*ast.SelectorExpr); ok && sel.Sel.Name == "Execute" && strings.HasSuffix(exprStr(sel.X), ".buildExecutor") {
							goStmt = g
						}
					}
					return true
				})
			}
			return true
		})
		if goStmt == nil {
			continue
		}
		g := NewFuncCFG(info, u.Decl.Body)
		construct := constructOf(u, "spawn-executor")
		okS := false
		for _, cs := range CallsTo([]*FuncUnit{u}, stop) {
			ok := g.Dominates(cs.Node, goStmt)
			for _, w := range append(FieldWrites([]*FuncUnit{u}, upd, false), FieldWrites([]*FuncUnit{u}, canc, false)...) {
				if !g.Dominates(cs.Node, w.Node) {
					ok = false
				}
			}
			if ok {
				okS = true
			}
		}
		if okS {
			r.ok(construct, posOf(p, goStmt), "stopExecution dominates the go statement and the installation of the new channel/cancel function")
		} else {
			r.bad(c.Prop, construct, posOf(p, goStmt), "a new action is started without first stopping (and waiting for) the current one: two actions can run at once on one worker thread")
		}
		// goroutine body
		fl, _ := ast.Unparen(goStmt.Call.Fun).(*ast.FuncLit)
		if fl != nil {
			var execVar, chName string
			var send *ast.SendStmt
			var closeCall *ast.CallExpr
			ast.Inspect(fl.Body, func(n ast.Node) bool {
				switch x := n.(type) {
				case *ast.AssignStmt:
					if len(x.Rhs) == 1 && strings.Contains(exprStr(x.Rhs[0]), ".buildExecutor.Execute(") {
						execVar = exprStr(x.Lhs[0])
					}
				case *ast.SendStmt:
					send = x
					chName = exprStr(x.Chan)
				case *ast.CallExpr:
					if exprStr(x.Fun) == "close" {
						closeCall = x
					}
				}
				return true
			})
			construct := constructOf(u, "executor-goroutine")
			okG := send != nil && closeCall != nil && execVar != "" && exprStr(closeCall.Args[0]) == chName && send.Pos() < closeCall.Pos()
			if okG {
				completed, digestOK := false, false
				ast.Inspect(send.Value, func(n ast.Node) bool {
					if kv, ok := n.(*ast.KeyValueExpr); ok {
						if exprStr(kv.Key) == "Completed" && exprStr(kv.Value) == execVar {
							completed = true
						}
						if exprStr(kv.Key) == "ActionDigest" && strings.HasSuffix(exprStr(kv.Value), ".ActionDigest") {
							digestOK = true
						}
					}
					return true
				})
				okG = completed && digestOK
			}
			if okG {
				r.ok(construct, posOf(p, fl), "sends Completed{own Execute result, request digest}, then closes the channel")
			} else {
				r.bad(c.Prop, construct, posOf(p, fl), "the executor goroutine does not report completion with its own Execute result and request digest before closing the update channel")
			}
		}
	}
	// stopExecution shape
	su := p.Unit(builderPkg, "BuildClient.stopExecution")
	// the drain is checked in the function that invokes the cancellation function, wherever that
	// is (stopExecution itself or a helper it calls)
	du := su
	reachFromStop := staticReach(p, []ast.Node{su.Decl.Body}, su.Info())
	for _, x := range p.UnitsIn(builderPkg) {
		if x.Fn != su.Fn && !reachFromStop[x.Fn] {
			continue
		}
		ast.Inspect(x.Decl.Body, func(n ast.Node) bool {
			if call, ok := n.(*ast.CallExpr); ok && fieldOf(x.Info(), call.Fun) == canc {
				du = x
			}
			return true
		})
	}
	info := du.Info()
	g := NewFuncCFG(info, du.Decl.Body)
	var cancelCall *ast.CallExpr
	var loop *ast.ForStmt
	var rangeLoop *ast.RangeStmt
	ast.Inspect(du.Decl.Body, func(n ast.Node) bool {
		switch x := n.(type) {
		case *ast.CallExpr:
			if fieldOf(info, x.Fun) == canc {
				cancelCall = x
			}
		case *ast.ForStmt:
			loop = x
		case *ast.RangeStmt:
			if fieldOf(info, x.X) == upd {
				rangeLoop = x
			}
		}
		return true
	})
	construct := su.Name() + "|cancel-and-drain"
	if loop == nil && rangeLoop != nil && cancelCall != nil {
		// `for range ch { }` receives until the channel is closed; its body must not leave early
		early := false
		ast.Inspect(rangeLoop.Body, func(n ast.Node) bool {
			switch n.(type) {
			case *ast.BranchStmt, *ast.ReturnStmt:
				early = true
			}
			return true
		})
		cleared := true
		for _, f := range []string{"executionUpdates", "executionCancellation"} {
			okc := false
			ast.Inspect(du.Decl.Body, func(n ast.Node) bool {
				if as, ok := n.(*ast.AssignStmt); ok && len(as.Lhs) == 1 && strings.HasSuffix(exprStr(as.Lhs[0]), "."+f) && isNilIdent(as.Rhs[0]) && as.Pos() > rangeLoop.End() {
					okc = true
				}
				return true
			})
			cleared = cleared && okc
		}
		if !early && cleared && g.Dominates(cancelCall, g.Anchor(rangeLoop.X)) {
			r.ok(construct, posOf(p, du.Decl), "cancel, range over the channel until closed, clear both fields")
		} else {
			r.bad(c.Prop, construct, posOf(p, du.Decl), "stopExecution does not wait until the running action has fully stopped (range loop left early, or fields not cleared, or not cancelled first)")
		}
		loop = nil
		cancelCall = nil
	}
	skipForLoopCheck := rangeLoop != nil && loop == nil
	okD := cancelCall != nil && loop != nil && loop.Cond == nil && g.Dominates(cancelCall, g.Anchor(loop.Body.List[0]))
	why := "no cancel call followed by an unconditional receive loop"
	if okD {
		why = ""
		// comma-ok receive on the channel field, break only under !ok
		var okName string
		ast.Inspect(loop.Body, func(n ast.Node) bool {
			if as, ok := n.(*ast.AssignStmt); ok && len(as.Lhs) == 2 && len(as.Rhs) == 1 {
				if ue, ok := ast.Unparen(as.Rhs[0]).(*ast.UnaryExpr); ok && ue.Op == token.ARROW && fieldOf(info, ue.X) == upd {
					okName = exprStr(as.Lhs[1])
				}
			}
			return true
		})
		if okName == "" {
			okD, why = false, "the loop does not receive from the update channel with the 'closed' indication"
		}
		ast.Inspect(loop.Body, func(n ast.Node) bool {
			switch x := n.(type) {
			case *ast.BranchStmt, *ast.ReturnStmt:
				exitOK := false
				for _, gd := range flattenGuards(GuardsOf(info, loop.Body, x)) {
					if !gd.Pos && exprStr(gd.Cond) == okName {
						exitOK = true
					}
				}
				if !exitOK {
					okD, why = false, "the drain loop can be left before the channel is closed"
				}
			case *ast.SelectStmt:
				okD, why = false, "the drain uses a select (non-blocking or multi-way) instead of waiting for the channel to be closed"
			}
			return true
		})
		// fields cleared after the loop
		for _, f := range []string{"executionUpdates", "executionCancellation"} {
			cleared := false
			ast.Inspect(du.Decl.Body, func(n ast.Node) bool {
				if as, ok := n.(*ast.AssignStmt); ok && len(as.Lhs) == 1 && strings.HasSuffix(exprStr(as.Lhs[0]), "."+f) && isNilIdent(as.Rhs[0]) && as.Pos() > loop.End() {
					cleared = true
				}
				return true
			})
			if !cleared {
				okD, why = false, f+" is not cleared after the executor stopped"
			}
		}
	}
	if skipForLoopCheck {
		// already decided above
	} else if okD {
		r.ok(construct, posOf(p, du.Decl), "cancel, receive until closed, clear both fields")
	} else {
		r.bad(c.Prop, construct, posOf(p, du.Decl), "stopExecution does not wait until the running action has fully stopped: "+why)
	}
	info = su.Info()
	g = NewFuncCFG(info, su.Decl.Body)
	// Idle on every path
	construct = su.Name() + "|reports-idle"
	if g.EveryPathPasses(func(n ast.Node) bool {
		as, ok := n.(*ast.AssignStmt)
		return ok && len(as.Lhs) == 1 && strings.HasSuffix(exprStr(as.Lhs[0]), ".WorkerState") && strings.Contains(exprStr(as.Rhs[0]), "CurrentState_Idle")
	}) {
		r.ok(construct, posOf(p, su.Decl), "state set to Idle on every path")
	} else {
		r.bad(c.Prop, construct, posOf(p, su.Decl), "after stopping, the worker does not report Idle on every path")
	}
	return r
}

func c08Shutdown(c *Ctx) *RuleResult {
	r := &RuleResult{Rule: "C08.shutdown", Floor: 5,
		Doc: "from the moment shutdown began every Synchronize asks to stay idle: an `if ctx.Err() != nil { PreferBeingIdle = true }` override dominates the Synchronize call and no other store to PreferBeingIdle lies between it and the call; after a Completed update PreferBeingIdle is 'status is not OK'; an Idle desired state stops execution and clears schedulerMayThinkExecutingUntil; Run may terminate only when shut down and the scheduler cannot think it is executing (until == nil or now after until); the thread loop exits only on mayTerminate && ctx.Err() != nil"}
	p := c.P
	u := p.Unit(builderPkg, "BuildClient.Run")
	info := u.Info()
	g := NewFuncCFG(info, u.Decl.Body)
	var sync *ast.CallExpr
	ast.Inspect(u.Decl.Body, func(n ast.Node) bool {
		if call, ok := n.(*ast.CallExpr); ok {
			if sel, ok := ast.Unparen(call.Fun).(*ast.SelectorExpr); ok && sel.Sel.Name == "Synchronize" {
				sync = call
			}
		}
		return true
	})
	if sync == nil {
		panic(anchorError("BuildClient.Run: Synchronize call"))
	}
	ctxName := paramNameOfType(u, isContextType)
	if ctxName == "" {
		panic(anchorError("BuildClient.Run: context parameter"))
	}
	isPBIStore := func(n ast.Node) (*ast.AssignStmt, bool) {
		as, ok := n.(*ast.AssignStmt)
		if ok && len(as.Lhs) == 1 && strings.HasSuffix(exprStr(as.Lhs[0]), ".PreferBeingIdle") {
			return as, true
		}
		return nil, false
	}
	var override *ast.IfStmt
	ast.Inspect(u.Decl.Body, func(n ast.Node) bool {
		ifs, ok := n.(*ast.IfStmt)
		if !ok || exprStr(resolveLocalAlias(u, ifs.Cond)) != ctxName+".Err() != nil" {
			return true
		}
		for _, s := range ifs.Body.List {
			if as, ok := isPBIStore(s); ok && exprStr(as.Rhs[0]) == "true" {
				override = ifs
			}
		}
		return true
	})
	construct := constructOf(u, "shutdown-override")
	okO := override != nil && g.Dominates(override.Cond, sync)
	why := "no `if ctx.Err() != nil { PreferBeingIdle = true }` dominating the Synchronize call"
	if okO {
		why = ""
		ast.Inspect(u.Decl.Body, func(n ast.Node) bool {
			as, ok := isPBIStore(n)
			if !ok || (override.Body.Pos() <= as.Pos() && as.End() <= override.Body.End()) {
				return true
			}
			// a store reachable after the override and before Synchronize would undo it
			if a, _ := g.ReachableWithout(override.Cond, as, func(ast.Node) bool { return false }); a {
				if b, _ := g.ReachableWithout(as, sync, func(ast.Node) bool { return false }); b {
					okO, why = false, "PreferBeingIdle is assigned again at "+posOf(p, as)+" after the shutdown override"
				}
			}
			return true
		})
	}
	if okO {
		r.ok(construct, posOf(p, override), "the override is the last word on PreferBeingIdle before Synchronize")
	} else {
		r.bad(c.Prop, construct, posOf(p, sync), "during shutdown a request can go out without prefer_being_idle: the scheduler hands the terminating worker new work ("+why+")")
	}
	// completed -> status != OK
	construct = constructOf(u, "idle-after-failure")
	okC := false
	ast.Inspect(u.Decl.Body, func(n ast.Node) bool {
		if as, ok := isPBIStore(n); ok {
			s := exprStr(as.Rhs[0])
			if strings.Contains(s, "Completed.Status") && strings.HasSuffix(s, "!= nil") {
				for _, gd := range flattenGuards(GuardsOf(info, u.Decl.Body, as)) {
					// inside the branch taken when the current state is a Completed update (comma-ok type assertion)
					if src := guardIdentSource(u, gd); src != nil && gd.Pos {
						if ta, isTA := ast.Unparen(src).(*ast.TypeAssertExpr); isTA && strings.HasSuffix(exprStr(ta.Type), "CurrentState_Executing_Completed") {
							okC = true
						}
					}
				}
			}
		}
		return true
	})
	if okC {
		r.ok(construct, posOf(p, u.Decl), "after a Completed update PreferBeingIdle = (status != OK)")
	} else {
		r.bad(c.Prop, construct, posOf(p, u.Decl), "after an action completed with a non-OK status the worker does not ask to stay idle until readiness is re-checked")
	}
	// Idle desired state
	until := p.LookupField(builderPkg, "BuildClient", "schedulerMayThinkExecutingUntil")
	stop := p.LookupFunc(builderPkg, "BuildClient.stopExecution")
	construct = constructOf(u, "desired-idle")
	okI := false
	for _, branch := range typeBranches(u.Decl.Body, "DesiredState_Idle") {
		hasStop, hasClear := false, false
		for _, s := range branch {
			ast.Inspect(s, func(m ast.Node) bool {
				if call, ok := m.(*ast.CallExpr); ok && calleeOf(info, call) == stop {
					hasStop = true
				}
				if as, ok := m.(*ast.AssignStmt); ok && len(as.Lhs) == 1 && fieldOf(info, as.Lhs[0]) == until && isNilIdent(as.Rhs[0]) {
					hasClear = true
				}
				return true
			})
		}
		okI = hasStop && hasClear
	}
	if okI {
		r.ok(construct, posOf(p, u.Decl), "stopExecution and schedulerMayThinkExecutingUntil = nil")
	} else {
		r.bad(c.Prop, construct, posOf(p, u.Decl), "when told to go idle the worker does not stop the running action and forget that the scheduler may think it is executing")
	}
	// termination test
	construct = constructOf(u, "may-terminate-test")
	first, ok := u.Decl.Body.List[0].(*ast.IfStmt)
	okT := false
	if ok {
		d := BuildDTable(u, &ast.BlockStmt{List: []ast.Stmt{first, &ast.ReturnStmt{Results: []ast.Expr{ast.NewIdent("false"), ast.NewIdent("nil")}}}})
		if d.Err == "" {
			ctxA := d.FindBool(func(k string) bool { return strings.Contains(k, ctxName+".Err()") })
			nilA := d.FindBool(func(k string) bool {
				return strings.Contains(k, "schedulerMayThinkExecutingUntil") && strings.Contains(k, "nil")
			})
			var afterA *dtAtom
			for _, a := range d.Atoms {
				if a.Order && strings.Contains(a.Key, "schedulerMayThinkExecutingUntil") {
					afterA = a
				}
			}
			if ctxA != nil && nilA != nil && afterA != nil && len(d.Atoms) == 3 {
				okT = true
				for _, row := range d.Rows {
					shut := row.Assign[ctxA.Key] == 0 // "ctx.Err() == nil" false => shutting down
					isNil := row.Assign[nilA.Key] == 1
					s := row.Assign[afterA.Key]
					nowAfter := s > 0
					if strings.HasPrefix(afterA.A, "*") || strings.Contains(afterA.A, "Until") {
						nowAfter = s < 0 // atom is (until ? now)
					}
					want := shut && (isNil || nowAfter)
					got := strings.HasPrefix(row.Result, "true")
					if got != want {
						okT = false
					}
				}
			}
		}
	}
	if okT {
		r.ok(construct, posOf(p, u.Decl), "terminate iff shutting down and (until == nil or now after until)")
	} else {
		r.bad(c.Prop, construct, posOf(p, u.Decl), "Run's termination test is not 'shutting down and the scheduler cannot believe we are executing'")
	}
	// thread loop
	for _, lu := range p.UnitsIn(builderPkg) {
		if lu.Fn.Name() != "LaunchWorkerThread" {
			continue
		}
		construct := constructOf(lu, "loop-exit")
		okL := true
		n := 0
		ast.Inspect(lu.Decl.Body, func(m ast.Node) bool {
			ret, ok := m.(*ast.ReturnStmt)
			if !ok {
				return true
			}
			fl := enclosingFuncLit(lu.Decl.Body, ret)
			if fl == nil {
				return true
			}
			n++
			a, b := false, false
			lctx := ""
			if fl.Type.Params != nil {
				for _, f := range fl.Type.Params.List {
					if tv, ok := lu.Info().Types[f.Type]; ok && isContextType(tv.Type) && len(f.Names) > 0 {
						lctx = f.Names[0].Name
					}
				}
			}
			for _, gd := range flattenGuards(GuardsOf(lu.Info(), fl.Body, ret)) {
				// the first result of BuildClient.Run
				if id, ok := ast.Unparen(gd.Cond).(*ast.Ident); ok && gd.Pos {
					if src := resolveLocalAlias(lu, id); src != nil {
						if call, ok := ast.Unparen(src).(*ast.CallExpr); ok {
							if fn := calleeOf(lu.Info(), call); fn != nil && fn.Name() == "Run" {
								a = true
							}
						}
					}
				}
				if gd.Pos && lctx != "" && exprStr(gd.Cond) == lctx+".Err() != nil" {
					b = true
				}
			}
			if !a || !b {
				okL = false
			}
			return true
		})
		if okL && n > 0 {
			r.ok(construct, posOf(p, lu.Decl), "returns only when mayTerminate && ctx.Err() != nil")
		} else {
			r.bad(c.Prop, construct, posOf(p, lu.Decl), "the worker thread can stop synchronizing although Run did not allow termination (or shutdown has not begun)")
		}
	}
	return r
}

func init() {
	register(&PropertySpec{
		ID:          "C08",
		Level:       "other",
		Explanation: "Structural necessary conditions: stop-before-start (dominance), stopExecution's cancel / drain-until-closed / clear / Idle shape, the executor goroutine's completion report, the shutdown override being the last store to PreferBeingIdle before Synchronize, idle-after-failure, the Idle desired state handling, the termination test's decision table and the thread loop's only exit. Interleavings of the executor goroutine with the bounded channel and timing are not decided.",
		Assumptions: []string{"the scheduler client returns what the scheduler sent"},
		Rules:       []RuleFunc{c08StopStart, c08Shutdown, c08Deadline, c08CompletedSend, c08DeadlineInit, c08EveryUpdateApplied, c08UpdatesFromCallingGoroutine, c08MayThinkExecuting},
	})
	_ = fmt.Sprint
}
