package main

import (
	"fmt"
	"go/ast"
	"go/token"
	"go/types"
	"strings"
)

const isccPkg = "pkg/scheduler/initialsizeclass"

func c07Selector(c *Ctx) *RuleResult {
	r := &RuleResult{Rule: "C07.selector", Floor: 1,
		Doc: "in every function that obtains a size-class Selector from ActionRouter.RouteAction, on every path from the successful call to every exit the selector receives exactly one of Select / Abandoned"}
	p := c.P
	for _, u := range p.UnitsIn(schedPkg) {
		info := u.Info()
		spec := &OblSpec{Name: "selector", Min: 1, Max: 1,
			Create: func(n ast.Node) []Born {
				as, ok := n.(*ast.AssignStmt)
				if !ok || len(as.Rhs) != 1 {
					return nil
				}
				call, ok := ast.Unparen(as.Rhs[0]).(*ast.CallExpr)
				if !ok {
					return nil
				}
				fn := calleeOf(info, call)
				if fn == nil || fn.Name() != "RouteAction" || len(as.Lhs) != 5 {
					return nil
				}
				return []Born{{Key: exprStr(as.Lhs[3]), FailTest: errNotNilTest(exprStr(as.Lhs[4])), Pos: as.Pos()}}
			},
			Discharge: func(n ast.Node, key string) int {
				if _, ok := methodCallOn(n, key, "Select", "Abandoned"); ok {
					return 1
				}
				return 0
			},
		}
		res := RunObligation(info, u.Decl.Body, spec)
		if res.Created == 0 {
			continue
		}
		if res.Undecided != "" {
			r.undecided(u.Name(), res.Undecided)
		}
		construct := constructOf(u, "selector")
		if len(res.Violations) == 0 {
			r.ok(construct, posOf(p, u.Decl), fmt.Sprintf("exactly one of Select/Abandoned on all %d exits", res.Exits))
		}
		for _, v := range res.Violations {
			r.bad(c.Prop, construct, p.Pos(v.Born.Pos), fmt.Sprintf("the selector obtained here receives %d terminal calls (Select/Abandoned) on the path to the %s: the analyzer's handle is leaked or used twice", v.Count, oblExitDesc(p, v)))
		}
	}
	return r
}

func c07Learner(c *Ctx) *RuleResult {
	r := &RuleResult{Rule: "C07.learner", Floor: 2,
		Doc: "in the function that completes a task, once the worker link has been cleared every path gives the task's learner exactly one terminal call (Succeeded, Failed or Abandoned) and re-assigns the field (nil or the successor learner) together with it; a background learner returned by Succeeded is, when non-nil, either Abandoned or handed to exactly one new task"}
	p := c.P
	units := p.UnitsIn(schedPkg)
	lf := p.LookupField(schedPkg, "task", "initialSizeClassLearner")
	cw := p.LookupField(schedPkg, "task", "currentWorker")
	for _, u := range units {
		info := u.Info()
		// does this function make terminal learner calls on the field?
		has := false
		ast.Inspect(u.Decl.Body, func(n ast.Node) bool {
			if call, ok := n.(*ast.CallExpr); ok {
				if sel, ok := ast.Unparen(call.Fun).(*ast.SelectorExpr); ok && fieldOf(info, sel.X) == lf {
					has = true
				}
			}
			return true
		})
		if !has {
			continue
		}
		var bgKey string
		spec := &OblSpec{Name: "learner", Min: 1, Max: 1,
			Create: func(n ast.Node) []Born {
				as, ok := n.(*ast.AssignStmt)
				if !ok {
					return nil
				}
				var out []Born
				// completion proceeds: task.currentWorker = nil
				if len(as.Lhs) == 1 && fieldOf(info, as.Lhs[0]) == cw && isNilIdent(as.Rhs[0]) {
					root := exprStr(ast.Unparen(as.Lhs[0]).(*ast.SelectorExpr).X)
					out = append(out, Born{Key: root + "." + lf.Name(), Pos: as.Pos(), Tag: "task learner"})
				}
				// background learner: 4th result of Succeeded
				if len(as.Rhs) == 1 && len(as.Lhs) == 4 {
					if call, ok := ast.Unparen(as.Rhs[0]).(*ast.CallExpr); ok {
						if sel, ok := ast.Unparen(call.Fun).(*ast.SelectorExpr); ok && sel.Sel.Name == "Succeeded" && fieldOf(info, sel.X) == lf {
							key := exprStr(as.Lhs[3])
							bgKey = key
							out = append(out, Born{Key: key, Pos: as.Pos(), Tag: "background learner", FailTest: func(cond ast.Expr) (bool, bool) {
								be, ok := ast.Unparen(cond).(*ast.BinaryExpr)
								if !ok || exprStr(be.X) != key || !isNilIdent(be.Y) {
									return false, false
								}
								if be.Op == token.NEQ {
									return true, false
								}
								if be.Op == token.EQL {
									return true, true
								}
								return false, false
							}})
						}
					}
				}
				return out
			},
			Discharge: func(n ast.Node, key string) int {
				if _, ok := methodCallOn(n, key, "Succeeded", "Failed", "Abandoned"); ok {
					return 1
				}
				return 0
			},
			Transfer: func(n ast.Node, key string) bool {
				// handed to a new task: composite literal field initialSizeClassLearner: key
				if kv, ok := n.(*ast.KeyValueExpr); ok && key == bgKey {
					if id, ok := kv.Key.(*ast.Ident); ok && info.Uses[id] == lf && exprStr(kv.Value) == key {
						return true
					}
				}
				return false
			},
		}
		res := RunObligation(info, u.Decl.Body, spec)
		if res.Undecided != "" {
			r.undecided(u.Name(), res.Undecided)
		}
		byKey := map[string][]OblViolation{}
		for _, v := range res.Violations {
			byKey[v.Born.Tag] = append(byKey[v.Born.Tag], v)
		}
		for _, tag := range []string{"task learner", "background learner"} {
			construct := constructOf(u, tag)
			if len(byKey[tag]) == 0 {
				r.ok(construct, posOf(p, u.Decl), "exactly one terminal call / hand-over on every path")
				continue
			}
			for _, v := range byKey[tag] {
				msg := v.Msg
				if msg == "" {
					msg = fmt.Sprintf("%d terminal calls on the path to the %s", v.Count, oblExitDesc(p, v))
				}
				r.bad(c.Prop, construct, p.Pos(v.Born.Pos), "the "+tag+" does not receive exactly one terminal call: "+msg)
			}
		}
		// every terminal call re-assigns the field
		g := NewFuncCFG(info, u.Decl.Body)
		ast.Inspect(u.Decl.Body, func(n ast.Node) bool {
			call, ok := n.(*ast.CallExpr)
			if !ok {
				return true
			}
			sel, ok := ast.Unparen(call.Fun).(*ast.SelectorExpr)
			if !ok || fieldOf(info, sel.X) != lf {
				return true
			}
			construct := constructOf(u, "reassign-after-"+sel.Sel.Name)
			okR := false
			for _, w := range FieldWrites([]*FuncUnit{u}, lf, false) {
				if as, ok := w.Node.(*ast.AssignStmt); ok {
					if (as.Pos() <= call.Pos() && call.End() <= as.End()) || g.PostDominates(as, call) {
						okR = true
					}
				}
			}
			if okR {
				r.ok(construct, posOf(p, call), "the learner field is replaced after the terminal call")
			} else {
				r.bad(c.Prop, construct, posOf(p, call), "after the terminal call "+sel.Sel.Name+"() the task keeps pointing at the finished learner: it would receive a second terminal call")
			}
			return true
		})
	}
	return r
}

func c07Handle(c *Ctx) *RuleResult {
	r := &RuleResult{Rule: "C07.handle", Floor: 14,
		Doc: "every terminal method of the feedback-driven selector and learners (Select, Succeeded, Failed, Abandoned) either releases its statistics handle exactly once or hands it to exactly one returned successor learner, on every path; after the statistics message was mutated on a path (addPreviousExecution / updateLastSeenFailure) the handle is never released clean (Release(false))"}
	p := c.P
	for _, u := range p.UnitsIn(isccPkg) {
		if u.Decl.Recv == nil || len(u.Decl.Recv.List[0].Names) == 0 {
			continue
		}
		switch u.Fn.Name() {
		case "Select", "Succeeded", "Failed", "Abandoned":
		default:
			continue
		}
		// receiver must have a (possibly promoted) field `handle`
		recvName := u.Decl.Recv.List[0].Names[0].Name
		recvT := u.Fn.Type().(*types.Signature).Recv().Type()
		obj, _, _ := types.LookupFieldOrMethod(recvT, true, u.Pkg.Types, "handle")
		if _, ok := obj.(*types.Var); !ok {
			continue
		}
		info := u.Info()
		key := recvName + ".handle"
		// a helper method of the receiver that releases the handle: returns the Release argument
		helperRelease := func(n ast.Node) (string, bool) {
			call, ok := n.(*ast.CallExpr)
			if !ok {
				return "", false
			}
			sel, ok := ast.Unparen(call.Fun).(*ast.SelectorExpr)
			if !ok || exprStr(sel.X) != recvName {
				return "", false
			}
			fn := calleeOf(info, call)
			if fn == nil {
				return "", false
			}
			fd := p.Decl(fn)
			if fd == nil || fd.Recv == nil || len(fd.Recv.List[0].Names) == 0 || len(fd.Body.List) > 4 {
				return "", false
			}
			hrecv := fd.Recv.List[0].Names[0].Name
			arg, cnt := "", 0
			ast.Inspect(fd.Body, func(m ast.Node) bool {
				if rc, ok := methodCallOn(m, hrecv+".handle", "Release"); ok {
					cnt++
					if len(rc.Args) == 1 {
						arg = exprStr(rc.Args[0])
					}
				}
				return true
			})
			if cnt == 1 {
				// the helper forwards one of its own parameters: what counts is the caller's argument
				for i := 0; i < len(call.Args); i++ {
					if paramNameAt(fd, i) == arg && arg != "" {
						return exprStr(call.Args[i]), true
					}
				}
				return arg, true
			}
			return "", false
		}
		spec := &OblSpec{Name: "handle", Min: 1, Max: 1,
			AtEntry: []Born{{Key: key, Pos: u.Decl.Body.Pos()}},
			Discharge: func(n ast.Node, k string) int {
				if _, ok := methodCallOn(n, k, "Release"); ok {
					return 1
				}
				if _, ok := helperRelease(n); ok {
					return 1
				}
				return 0
			},
			Transfer: func(n ast.Node, k string) bool {
				kv, ok := n.(*ast.KeyValueExpr)
				return ok && exprStr(kv.Key) == "handle" && exprStr(kv.Value) == k
			},
			Mark: func(n ast.Node, k string) string {
				if call, ok := n.(*ast.CallExpr); ok {
					if sel, ok := ast.Unparen(call.Fun).(*ast.SelectorExpr); ok && exprStr(sel.X) == recvName && (sel.Sel.Name == "addPreviousExecution" || sel.Sel.Name == "updateLastSeenFailure") {
						return "mutated"
					}
				}
				return ""
			},
			CheckNode: func(n ast.Node, k string, marks map[string]bool) string {
				bad := ""
				ast.Inspect(n, func(m ast.Node) bool {
					if call, ok := methodCallOn(m, k, "Release"); ok && marks["mutated"] && len(call.Args) == 1 && exprStr(call.Args[0]) != "true" {
						bad = "the statistics were modified on this path but the handle is released as clean: the update is dropped"
					}
					if arg, ok := helperRelease(m); ok && marks["mutated"] && arg != "true" {
						bad = "the statistics were modified on this path but the handle is released as clean (through a helper): the update is dropped"
					}
					return true
				})
				return bad
			},
		}
		_ = info
		res := RunObligation(info, u.Decl.Body, spec)
		if res.Undecided != "" {
			r.undecided(u.Name(), res.Undecided)
		}
		construct := constructOf(u, "handle")
		if len(res.Violations) == 0 {
			r.ok(construct, posOf(p, u.Decl), fmt.Sprintf("released once or handed to the successor on all %d exits", res.Exits))
		}
		for _, v := range res.Violations {
			msg := v.Msg
			if msg == "" {
				msg = fmt.Sprintf("%d releases on the path to the %s (and not handed to a successor)", v.Count, oblExitDesc(p, v))
			}
			pos := v.Born.Pos
			if v.NodePos.IsValid() {
				pos = v.NodePos
			}
			r.bad(c.Prop, construct, p.Pos(pos), "statistics handle protocol broken: "+msg)
		}
	}
	return r
}

func c07Version(c *Ctx) *RuleResult {
	r := &RuleResult{Rule: "C07.version", Floor: 2,
		Doc: "the write-back handle's currentVersion is a monotone counter (every store is an increment of itself by a positive constant), and writtenVersion is only ever assigned the version captured when that write started; so a later update can never obtain the version number of a write in flight and be discarded as 'already written'"}
	p := c.P
	units := p.UnitsIn("pkg/blobstore")
	cur := p.LookupField("pkg/blobstore", "blobAccessMutableProtoHandle", "currentVersion")
	wr := p.LookupField("pkg/blobstore", "blobAccessMutableProtoHandle", "writtenVersion")
	for _, w := range FieldWrites(units, cur.Origin(), false) {
		construct := constructOf(w.Unit, "currentVersion write")
		okW := false
		switch n := w.Node.(type) {
		case *ast.IncDecStmt:
			okW = n.Tok == token.INC
		case *ast.AssignStmt:
			if n.Tok == token.ADD_ASSIGN {
				okW = true
			} else if w.RHS != nil {
				if be, ok := ast.Unparen(w.RHS).(*ast.BinaryExpr); ok && be.Op == token.ADD && exprStr(be.X) == exprStr(w.Expr) {
					okW = true
				}
			}
		}
		if okW {
			r.ok(construct, posOf(p, w.Node), "self-increment")
		} else {
			r.bad(c.Prop, construct, posOf(p, w.Node), fmt.Sprintf("currentVersion is assigned %s, which is not an increment of itself: while a write of version v is in flight a new update gets version v again and is dropped as already written when that write completes", exprStr(w.RHS)))
		}
	}
	for _, w := range FieldWrites(units, wr.Origin(), false) {
		construct := constructOf(w.Unit, "writtenVersion write")
		if w.RHS != nil && strings.HasSuffix(exprStr(w.RHS), ".writingVersion") {
			r.ok(construct, posOf(p, w.Node), "assigned the version captured at the start of the write")
		} else {
			r.bad(c.Prop, construct, posOf(p, w.Node), "writtenVersion is not assigned the version captured when the write started: updates made during the write are considered written")
		}
	}
	return r
}

func c07Requeue(c *Ctx) *RuleResult {
	r := &RuleResult{Rule: "C07.requeue", Floor: 1,
		Doc: "every handle taken off the write queue is put back through removeOrQueueForWriteLocked exactly once on every path of the goroutine that writes it (success and Put failure alike), under the store lock; so recorded statistics are not silently forgotten after a failed write"}
	p := c.P
	for _, u := range p.UnitsIn("pkg/blobstore") {
		info := u.Info()
		// the function body (closure or helper method) that writes a dequeued handle: the innermost
		// one containing X.Put(..., Y.handle.digest, ...)
		var bodies []ast.Node
		bodies = append(bodies, u.Decl)
		ast.Inspect(u.Decl.Body, func(n ast.Node) bool {
			if fl, ok := n.(*ast.FuncLit); ok {
				bodies = append(bodies, fl)
			}
			return true
		})
		for _, n := range bodies {
			type fnBody struct {
				Body *ast.BlockStmt
				ast.Node
			}
			var fl fnBody
			switch x := n.(type) {
			case *ast.FuncLit:
				fl = fnBody{x.Body, x}
			case *ast.FuncDecl:
				fl = fnBody{x.Body, x}
			}
			// closure that writes a dequeued handle: calls X.Put with Y.handle.digest
			var handleExpr string
			ast.Inspect(fl.Body, func(m ast.Node) bool {
				if inner, ok := m.(*ast.FuncLit); ok && ast.Node(inner) != fl.Node {
					return false
				}
				if call, ok := m.(*ast.CallExpr); ok {
					if sel, ok := ast.Unparen(call.Fun).(*ast.SelectorExpr); ok && sel.Sel.Name == "Put" && len(call.Args) >= 2 {
						if s := exprStr(call.Args[1]); strings.HasSuffix(s, ".handle.digest") {
							handleExpr = strings.TrimSuffix(s, ".digest")
						}
					}
				}
				return true
			})
			if handleExpr == "" {
				continue
			}
			spec := &OblSpec{Name: "requeue", Min: 1, Max: 1,
				AtEntry: []Born{{Key: handleExpr, Pos: fl.Body.Pos()}},
				Discharge: func(m ast.Node, k string) int {
					if _, ok := methodCallOn(m, k, "removeOrQueueForWriteLocked"); ok {
						return 1
					}
					return 0
				},
			}
			res := RunObligation(info, fl.Body, spec)
			construct := constructOf(u, "write-back goroutine")
			if len(res.Violations) == 0 {
				r.ok(construct, posOf(p, fl), fmt.Sprintf("re-queued/removed exactly once on all %d exits", res.Exits))
			}
			for _, v := range res.Violations {
				r.bad(c.Prop, construct, posOf(p, fl), fmt.Sprintf("a dequeued handle is put back %d times on the path to the %s: after a failed write its statistics are never written (or it is queued twice)", v.Count, oblExitDesc(p, v)))
			}
		}
	}
	return r
}

func c07Background(c *Ctx) *RuleResult {
	r := &RuleResult{Rule: "C07.background", Floor: 4,
		Doc: "background learning runs are uncacheable, bounded and never block the client: the copied action gets DoNotCache = true before the background task is given an operation; creation is guarded by the configured maximum of queued background operations; the operation is created with mayExistWithoutWaiters = true; and a failed smaller-class run is retried on the LAST (largest) size-class queue"}
	p := c.P
	u := p.Unit(schedPkg, "task.complete")
	info := u.Info()
	newOp := p.LookupFunc(schedPkg, "task.newOperation")
	g := NewFuncCFG(info, u.Decl.Body)
	for _, cs := range CallsTo([]*FuncUnit{u}, newOp) {
		call := cs.Node.(*ast.CallExpr)
		// DoNotCache = true dominates
		dnc := false
		ast.Inspect(u.Decl.Body, func(n ast.Node) bool {
			if as, ok := n.(*ast.AssignStmt); ok && len(as.Lhs) == 1 {
				if sel, ok := ast.Unparen(as.Lhs[0]).(*ast.SelectorExpr); ok && sel.Sel.Name == "DoNotCache" && exprStr(as.Rhs[0]) == "true" && g.Dominates(as, call) {
					dnc = true
				}
			}
			return true
		})
		construct := constructOf(u, "background-task")
		if dnc {
			r.ok(construct+"|do-not-cache", posOf(p, call), "DoNotCache = true dominates the creation of the background operation")
		} else {
			r.bad(c.Prop, construct+"|do-not-cache", posOf(p, call), "a background learning task is scheduled without forcing do_not_cache: it can overwrite the foreground result and be merged with client requests")
		}
		if len(call.Args) == 4 && exprStr(call.Args[3]) == "true" {
			r.ok(construct+"|no-waiters", posOf(p, call), "mayExistWithoutWaiters = true")
		} else {
			r.bad(c.Prop, construct+"|no-waiters", posOf(p, call), "the background operation is created as if a client were waiting on it")
		}
		bounded := false
		for _, gd := range flattenGuards(GuardsOf(info, u.Decl.Body, call)) {
			if be, ok := ast.Unparen(gd.Cond).(*ast.BinaryExpr); ok && gd.Pos && be.Op == token.LSS && mentionsSelector(be.Y, "maximumQueuedBackgroundLearningOperations") {
				bounded = true
			}
		}
		if bounded {
			r.ok(construct+"|bounded", posOf(p, call), "guarded by the configured maximum number of queued background operations")
		} else {
			r.bad(c.Prop, construct+"|bounded", posOf(p, call), "background learning tasks are created without the bound on queued background operations")
		}
	}
	// retry on the last size class queue
	scqs := p.LookupField(schedPkg, "platformQueue", "sizeClassQueues")
	lf := p.LookupField(schedPkg, "task", "initialSizeClassLearner")
	found := false
	ast.Inspect(u.Decl.Body, func(n ast.Node) bool {
		ifs, ok := n.(*ast.IfStmt)
		if !ok {
			return true
		}
		be, ok := ast.Unparen(ifs.Cond).(*ast.BinaryExpr)
		if !ok || be.Op != token.NEQ || fieldOf(info, be.X) != lf || !isNilIdent(be.Y) {
			return true
		}
		ast.Inspect(ifs.Body, func(m ast.Node) bool {
			ix, ok := m.(*ast.IndexExpr)
			if !ok || fieldOf(info, ix.X) != scqs {
				return true
			}
			found = true
			construct := constructOf(u, "retry-queue")
			idx := exprStr(ix.Index)
			if strings.HasPrefix(idx, "len(") && strings.HasSuffix(idx, ".sizeClassQueues) - 1") {
				r.ok(construct, posOf(p, ix), "retry on sizeClassQueues[len-1]")
			} else {
				r.bad(c.Prop, construct, posOf(p, ix), "a failure on a smaller size class is retried on sizeClassQueues["+idx+"], not on the largest size class")
			}
			return true
		})
		return true
	})
	if !found {
		r.bad(c.Prop, constructOf(u, "retry-queue"), posOf(p, u.Decl), "no retry on the largest size class when the learner asks for one")
	}
	return r
}

// isCapBy reports whether e is syntactically bounded above by the variable named capName:
// capName itself, or min(..., capName, ...).
func isCapBy(info *types.Info, e ast.Expr, capName string) bool {
	e = ast.Unparen(e)
	if id, ok := e.(*ast.Ident); ok && id.Name == capName {
		return true
	}
	if call, ok := e.(*ast.CallExpr); ok {
		if id, ok := ast.Unparen(call.Fun).(*ast.Ident); ok && id.Name == "min" {
			if _, isB := info.Uses[id].(*types.Builtin); isB {
				for _, a := range call.Args {
					if isCapBy(info, a, capName) {
						return true
					}
				}
			}
		}
	}
	return false
}

func c07TimeoutCap(c *Ctx) *RuleResult {
	r := &RuleResult{Rule: "C07.timeout-cap", Floor: 4,
		Doc: "every timeout the strategy calculators hand out is bounded above by the action's own timeout: each Strategy.ForegroundExecutionTimeout is the original timeout, a min() with it, or the computed executionTimeout; and in the function computing executionTimeout the LAST write on every path is the upper clamp by the original timeout (`if t > original { t = original }` or `t = min(.., original)`), so no later lower clamp can lift it above the action's timeout"}
	p := c.P
	units := p.UnitsIn(isccPkg)
	et := p.LookupField(isccPkg, "smallerSizeClassExecutionParameters", "executionTimeout")
	fet := p.LookupField(isccPkg, "Strategy", "ForegroundExecutionTimeout")
	for _, w := range FieldWrites(units, fet, true) {
		kv, ok := w.Node.(*ast.KeyValueExpr)
		if !ok {
			continue
		}
		u := w.Unit
		info := u.Info()
		capName := timeoutParamName(u)
		construct := constructOf(u, "ForegroundExecutionTimeout: "+exprStr(kv.Value))
		if capName != "" && (isCapBy(info, kv.Value, capName) || fieldOf(info, kv.Value) == et) {
			r.ok(construct, posOf(p, kv), "bounded by "+capName)
		} else {
			r.bad(c.Prop, construct, posOf(p, kv), "a strategy's timeout is not syntactically bounded by the action's own timeout")
		}
	}
	// last write of executionTimeout
	byFn := map[*types.Func][]Site{}
	var order []*FuncUnit
	for _, w := range FieldWrites(units, et, false) {
		if _, ok := byFn[w.Unit.Fn]; !ok {
			order = append(order, w.Unit)
		}
		byFn[w.Unit.Fn] = append(byFn[w.Unit.Fn], w)
	}
	for _, u := range order {
		info := u.Info()
		capName := timeoutParamName(u)
		g := NewFuncCFG(info, u.Decl.Body)
		ws := byFn[u.Fn]
		isWrite := func(n ast.Node) bool {
			for _, w := range ws {
				if w.Node == n {
					return true
				}
			}
			return false
		}
		for _, w := range ws {
			// is w a last write on some path? (exit reachable without another write)
			last, _ := g.ReachableWithout(w.Node, nil, isWrite)
			if !last {
				continue
			}
			construct := constructOf(u, "last write of executionTimeout")
			okCap := false
			if w.RHS != nil && capName != "" {
				if isCapBy(info, w.RHS, capName) {
					if id, ok := ast.Unparen(w.RHS).(*ast.Ident); ok && id.Name == capName {
						// plain assignment of the cap: must be the clamp idiom or unconditional
						okCap = true
					} else {
						okCap = true
					}
				}
			}
			// a write that is NOT the cap may still be last on paths where the cap's guard was false:
			// `if t > cap { t = cap }` placed after it. Accept when a clamp statement post-dominates it.
			if !okCap && capName != "" {
				ast.Inspect(u.Decl.Body, func(n ast.Node) bool {
					ifs, ok := n.(*ast.IfStmt)
					if !ok || ifs.Else != nil || len(ifs.Body.List) != 1 {
						return true
					}
					be, ok := ast.Unparen(ifs.Cond).(*ast.BinaryExpr)
					if !ok || be.Op != token.GTR || fieldOf(info, be.X) != et || exprStr(be.Y) != capName {
						return true
					}
					as, ok := ifs.Body.List[0].(*ast.AssignStmt)
					if !ok || len(as.Lhs) != 1 || fieldOf(info, as.Lhs[0]) != et || exprStr(as.Rhs[0]) != capName {
						return true
					}
					// no write other than the clamp's own is reachable after the clamp
					if g.PostDominates(ifs.Cond, w.Node) {
						laterWrite, _ := g.ReachableWithout(as, nil, func(m ast.Node) bool { return false })
						_ = laterWrite
						clean := true
						for _, o := range ws {
							if o.Node != ast.Node(as) {
								if reach, _ := g.ReachableWithout(ifs.Cond, o.Node, func(ast.Node) bool { return false }); reach {
									clean = false
								}
							}
						}
						if clean {
							okCap = true
						}
					}
					return true
				})
			}
			if okCap {
				r.ok(construct+"@"+exprStr(w.RHS), posOf(p, w.Node), "followed by / is the upper clamp by "+capName)
			} else {
				r.bad(c.Prop, construct+"@"+exprStr(w.RHS), posOf(p, w.Node), fmt.Sprintf("on some path the final value of executionTimeout is %s, which is not capped by the action's own timeout afterwards: an action whose timeout is below the configured minimum gets a longer timeout than its own", exprStr(w.RHS)))
			}
		}
	}
	return r
}

func timeoutParamName(u *FuncUnit) string {
	sig := u.Fn.Type().(*types.Signature)
	for i := 0; i < sig.Params().Len(); i++ {
		if sig.Params().At(i).Name() == "originalTimeout" {
			return "originalTimeout"
		}
	}
	// fall back: the last time.Duration parameter
	name := ""
	for i := 0; i < sig.Params().Len(); i++ {
		if namedIs(sig.Params().At(i).Type(), "time", "Duration") {
			name = sig.Params().At(i).Name()
		}
	}
	return name
}

func init() {
	register(&PropertySpec{
		ID:          "C07",
		Level:       "other",
		Explanation: "Structural necessary conditions of the size-class selection protocol, decided on all paths: Selector gets exactly one of Select/Abandoned; the task's learner gets exactly one terminal call and the field is replaced; a background learner is abandoned or handed to exactly one task; every learner method releases its statistics handle exactly once or hands it to its successor, never clean after a mutation; background runs are uncacheable, bounded, waiter-less; retry goes to the largest size class; the write-back version counter is monotone, writtenVersion only takes the captured version, and dequeued handles are always put back. Numeric validity of choices (probabilities, timeouts) and eventual write are not decided.",
		Assumptions: []string{"floating-point strategy computation is opaque", "handles are only released through PreviousExecutionStatsHandle.Release"},
		Rules:       []RuleFunc{c07Selector, c07Learner, c07Handle, c07Background, c07Version, c07Requeue, c07TimeoutCap, schedFailedByWorker, c07SwapRemove, c07RemoveAtZero, c07TimeoutNonNegative, c07QueueOnce, c07FreshHandleAccounted},
	})
}
