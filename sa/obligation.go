package main

// E2 "obligation": must-discharge / exactly-once typestate over go/cfg paths.
// A rule instance says which CFG nodes create an obligation (keyed by a canonical handle
// expression), which edge of which following test means "creation failed" (no obligation),
// which nodes discharge it and which transfer it out of the function. The engine explores all
// paths (set of small abstract states per block) and reports every exit at which a live
// obligation has the wrong discharge count.

import (
	"fmt"
	"go/ast"
	"go/token"
	"go/types"
	"sort"
	"strings"

	"golang.org/x/tools/go/cfg"
)

type Born struct {
	Key string
	// FailTest decides whether cond (a two-way branch condition evaluated after creation) tests the
	// creation's status, and on which edge the creation is known to have FAILED.
	FailTest func(cond ast.Expr) (isTest bool, failedWhenTrue bool)
	Pos      token.Pos
	Tag      string // free-form (e.g. which creator)
}

type OblSpec struct {
	Name      string
	Create    func(n ast.Node) []Born
	Discharge func(n ast.Node, key string) int
	Transfer  func(n ast.Node, key string) bool
	// Min/Max number of discharges required at every exit for a live (non-transferred) obligation.
	Min, Max int
	// Mark: optional per-path boolean facts set by nodes (e.g. "mutated"); CheckNode may inspect them.
	Mark      func(n ast.Node, key string) string
	CheckNode func(n ast.Node, key string, marks map[string]bool) string // returns a violation message or ""
	// AtEntry: obligations alive from function entry
	AtEntry []Born
	// ExitOK: optional: exits at which the obligation does not apply (e.g. error returns)
	ExitOK func(ret *ast.ReturnStmt, key string) bool
	// KnownFailureOnly: only exits that are known failures carry the obligation (C15 style)
	info *types.Info
}

type oblKey struct {
	count    int
	xfer     bool
	pending  bool // creation status not yet tested
	born     Born
	marks    string // sorted, comma separated
	deferred int
}

type oblState struct {
	keys map[string]oblKey
	ret  token.Pos
}

func (s *oblState) clone() *oblState {
	n := &oblState{keys: make(map[string]oblKey, len(s.keys)), ret: s.ret}
	for k, v := range s.keys {
		n.keys[k] = v
	}
	return n
}

func (s *oblState) sig() string {
	ks := make([]string, 0, len(s.keys))
	for k := range s.keys {
		ks = append(ks, k)
	}
	sort.Strings(ks)
	var b strings.Builder
	for _, k := range ks {
		v := s.keys[k]
		fmt.Fprintf(&b, "%s:%d:%v:%v:%s:%d:%d;", k, v.count, v.xfer, v.pending, v.marks, v.deferred, v.born.Pos)
	}
	fmt.Fprintf(&b, "|%d", s.ret)
	return b.String()
}

type OblViolation struct {
	Key     string
	Born    Born
	Exit    token.Pos // 0 = end of function
	Count   int
	Msg     string
	NodePos token.Pos
}

type OblResult struct {
	Violations []OblViolation
	Created    int // number of creation sites seen
	Exits      int
	Undecided  string
}

// RunObligation explores body.
func RunObligation(info *types.Info, body *ast.BlockStmt, spec *OblSpec) *OblResult {
	spec.info = info
	res := &OblResult{}
	g := cfg.New(body, func(c *ast.CallExpr) bool { return !isNoReturnCall(info, c) })
	if len(g.Blocks) == 0 {
		return res
	}
	idx := map[*cfg.Block]int{}
	for i, b := range g.Blocks {
		idx[b] = i
	}
	in := make([]map[string]*oblState, len(g.Blocks))
	for i := range in {
		in[i] = map[string]*oblState{}
	}
	init := &oblState{keys: map[string]oblKey{}}
	for _, b := range spec.AtEntry {
		init.keys[b.Key] = oblKey{born: b}
		res.Created++
	}
	type item struct {
		b  int
		st *oblState
	}
	work := []item{{0, init}}
	in[0][init.sig()] = init
	seenViol := map[string]bool{}
	createdAt := map[token.Pos]bool{}
	addViol := func(v OblViolation) {
		id := fmt.Sprintf("%s|%d|%d|%s", v.Key, v.Born.Pos, v.Exit, v.Msg)
		if !seenViol[id] {
			seenViol[id] = true
			res.Violations = append(res.Violations, v)
		}
	}
	steps := 0
	for len(work) > 0 {
		it := work[len(work)-1]
		work = work[:len(work)-1]
		steps++
		if steps > 100000 {
			res.Undecided = "state space too large"
			break
		}
		blk := g.Blocks[it.b]
		if blk.Kind == cfg.KindSelectAfterCase && len(blk.Succs) == 0 {
			continue
		}
		st := it.st.clone()
		var last ast.Node
		var retStmt *ast.ReturnStmt
		for _, n := range blk.Nodes {
			last = n
			// deferred calls: their discharges count at exit
			if d, ok := n.(*ast.DeferStmt); ok {
				for k, v := range st.keys {
					if c := countIn(spec, d.Call, k, true); c > 0 {
						v.deferred += c
						st.keys[k] = v
					}
				}
				continue
			}
			if r, ok := n.(*ast.ReturnStmt); ok {
				retStmt = r
				st.ret = r.Pos()
			}
			// discharges / transfers / marks on existing keys
			for k, v := range st.keys {
				if spec.CheckNode != nil {
					if msg := spec.CheckNode(n, k, marksOf(v.marks)); msg != "" {
						addViol(OblViolation{Key: k, Born: v.born, Msg: msg, NodePos: n.Pos()})
					}
				}
				if c := countIn(spec, n, k, false); c > 0 {
					v.count += c
					if v.count > 3 {
						v.count = 3
					}
					v.pending = false
				}
				if spec.Transfer != nil && transferIn(spec, n, k) {
					v.xfer = true
				}
				if spec.Mark != nil {
					if m := markIn(spec, n, k); m != "" {
						ms := marksOf(v.marks)
						ms[m] = true
						v.marks = marksStr(ms)
					}
				}
				st.keys[k] = v
			}
			// creations
			if spec.Create != nil {
				for _, b := range spec.Create(n) {
					if old, ok := st.keys[b.Key]; ok && !old.xfer && old.count+old.deferred < spec.Min && !old.pending {
						addViol(OblViolation{Key: b.Key, Born: old.born, Exit: b.Pos, Count: old.count, Msg: "obligation is overwritten by a new creation before being discharged"})
					}
					if !createdAt[b.Pos] {
						createdAt[b.Pos] = true
						res.Created++
					}
					st.keys[b.Key] = oblKey{born: b, pending: b.FailTest != nil}
				}
			}
		}
		isExit := len(blk.Succs) == 0
		if isExit {
			if last != nil {
				if es, ok := last.(*ast.ExprStmt); ok {
					if c, ok := es.X.(*ast.CallExpr); ok && isNoReturnCall(info, c) {
						continue
					}
				}
			}
			res.Exits++
			for k, v := range st.keys {
				if v.xfer {
					continue
				}
				if retStmt != nil && spec.ExitOK != nil && spec.ExitOK(retStmt, k) {
					continue
				}
				total := v.count + v.deferred
				if total < spec.Min || total > spec.Max {
					exit := token.NoPos
					if retStmt != nil {
						exit = retStmt.Pos()
					}
					addViol(OblViolation{Key: k, Born: v.born, Exit: exit, Count: total})
				}
			}
			continue
		}
		for si, succ := range blk.Succs {
			ns := st
			if len(blk.Succs) == 2 {
				if cond, ok := last.(ast.Expr); ok {
					ns = st.clone()
					for k, v := range ns.keys {
						if v.born.FailTest == nil || !v.pending {
							continue // only the first test after the creation decides whether it succeeded
						}
						isTest, failedWhenTrue := v.born.FailTest(cond)
						if !isTest {
							continue
						}
						if (si == 0) == failedWhenTrue {
							delete(ns.keys, k) // creation failed: no obligation
						} else {
							v.pending = false
							ns.keys[k] = v
						}
					}
				}
			}
			j := idx[succ]
			sg := ns.sig()
			if _, ok := in[j][sg]; ok {
				continue
			}
			if len(in[j]) > 200 {
				res.Undecided = "too many abstract states at one program point"
				continue
			}
			in[j][sg] = ns
			work = append(work, item{j, ns})
		}
	}
	return res
}

func marksOf(s string) map[string]bool {
	m := map[string]bool{}
	for _, x := range strings.Split(s, ",") {
		if x != "" {
			m[x] = true
		}
	}
	return m
}

func marksStr(m map[string]bool) string {
	ks := make([]string, 0, len(m))
	for k := range m {
		ks = append(ks, k)
	}
	sort.Strings(ks)
	return strings.Join(ks, ",")
}

// countIn sums Discharge over the node and its sub-nodes (calls nested in expressions), not
// descending into function literals unless inLits (deferred closures).
func countIn(spec *OblSpec, n ast.Node, key string, inLits bool) int {
	total := 0
	ast.Inspect(n, func(m ast.Node) bool {
		if m == nil {
			return true
		}
		if _, ok := m.(*ast.FuncLit); ok && !inLits {
			return false
		}
		if _, ok := m.(*ast.CallExpr); ok {
			total += spec.Discharge(m, key)
		}
		return true
	})
	return total
}

func transferIn(spec *OblSpec, n ast.Node, key string) bool {
	found := false
	ast.Inspect(n, func(m ast.Node) bool {
		if m == nil || found {
			return !found
		}
		if spec.Transfer(m, key) {
			found = true
		}
		return !found
	})
	return found
}

func markIn(spec *OblSpec, n ast.Node, key string) string {
	out := ""
	ast.Inspect(n, func(m ast.Node) bool {
		if m == nil {
			return true
		}
		if _, ok := m.(*ast.FuncLit); ok {
			return false
		}
		if s := spec.Mark(m, key); s != "" {
			out = s
		}
		return true
	})
	return out
}

// ---- common building blocks

// errNotNilTest returns a FailTest for `errVar != nil` / `errVar == nil`.
func errNotNilTest(errName string) func(ast.Expr) (bool, bool) {
	return func(cond ast.Expr) (bool, bool) {
		be, ok := ast.Unparen(cond).(*ast.BinaryExpr)
		if !ok {
			return false, false
		}
		var other ast.Expr
		if id, ok := ast.Unparen(be.X).(*ast.Ident); ok && id.Name == errName {
			other = be.Y
		} else if id, ok := ast.Unparen(be.Y).(*ast.Ident); ok && id.Name == errName {
			other = be.X
		} else {
			return false, false
		}
		if !isNilIdent(other) {
			return false, false
		}
		switch be.Op {
		case token.NEQ:
			return true, true
		case token.EQL:
			return true, false
		}
		return false, false
	}
}

// statusNotOKTest: `st != <OK constant>` / `st == <OK>` where the OK constant's name ends in okSuffix.
func statusNotOKTest(stName string, okNames ...string) func(ast.Expr) (bool, bool) {
	isOK := func(e ast.Expr) bool {
		s := exprStr(e)
		for _, n := range okNames {
			if s == n || strings.HasSuffix(s, "."+n) {
				return true
			}
		}
		return false
	}
	return func(cond ast.Expr) (bool, bool) {
		be, ok := ast.Unparen(cond).(*ast.BinaryExpr)
		if !ok {
			return false, false
		}
		var other ast.Expr
		if id, ok := ast.Unparen(be.X).(*ast.Ident); ok && id.Name == stName {
			other = be.Y
		} else if id, ok := ast.Unparen(be.Y).(*ast.Ident); ok && id.Name == stName {
			other = be.X
		} else {
			return false, false
		}
		if !isOK(other) {
			return false, false
		}
		switch be.Op {
		case token.NEQ:
			return true, true
		case token.EQL:
			return true, false
		}
		return false, false
	}
}

// boolFalseTest: `!ok` / `ok`
func boolOKTest(okName string) func(ast.Expr) (bool, bool) {
	return func(cond ast.Expr) (bool, bool) {
		e := ast.Unparen(cond)
		if ue, ok := e.(*ast.UnaryExpr); ok && ue.Op == token.NOT {
			if id, ok := ast.Unparen(ue.X).(*ast.Ident); ok && id.Name == okName {
				return true, true
			}
		}
		if id, ok := e.(*ast.Ident); ok && id.Name == okName {
			return true, false
		}
		return false, false
	}
}

// methodCallOn reports whether n is a call key.<one of methods>(...).
func methodCallOn(n ast.Node, key string, methods ...string) (*ast.CallExpr, bool) {
	call, ok := n.(*ast.CallExpr)
	if !ok {
		return nil, false
	}
	sel, ok := ast.Unparen(call.Fun).(*ast.SelectorExpr)
	if !ok || exprStr(sel.X) != key {
		return nil, false
	}
	for _, m := range methods {
		if sel.Sel.Name == m {
			return call, true
		}
	}
	return nil, false
}

func oblExitDesc(p *Program, v OblViolation) string {
	if v.Msg != "" && !v.Exit.IsValid() {
		return v.Msg
	}
	if v.Exit.IsValid() {
		return "exit at " + p.Pos(v.Exit)
	}
	return "end of function"
}
