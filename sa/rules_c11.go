package main

import (
	"fmt"
	"go/ast"
	"go/token"
	"go/types"
	"strings"
)

const clockPkg = "pkg/clock"

func c11Cap(c *Ctx) *RuleResult {
	r := &RuleResult{Rule: "C11.cap", Floor: 3,
		Doc: "stall compensation is bounded: the suspendable clock creates the underlying context / timer that ends a timeout with `d + maximumSuspension` (the requested duration plus the configured maximum compensation), so wall-clock time never exceeds timeout + maximum compensation; elapsed time measured against a caller-supplied timestamp is only credited when that timestamp is after the start of the unsuspended period (never a negative credit)"}
	p := c.P
	ms := p.LookupField(clockPkg, "SuspendableClock", "maximumSuspension")
	for _, name := range []string{"SuspendableClock.NewContextWithTimeout", "SuspendableClock.NewTimer"} {
		u := p.Unit(clockPkg, name)
		info := u.Info()
		// the first call on c.base outside any function literal
		var capCall *ast.CallExpr
		ast.Inspect(u.Decl.Body, func(n ast.Node) bool {
			if _, ok := n.(*ast.FuncLit); ok {
				return false
			}
			if call, ok := n.(*ast.CallExpr); ok && capCall == nil {
				if sel, ok := ast.Unparen(call.Fun).(*ast.SelectorExpr); ok && strings.HasSuffix(exprStr(sel.X), ".base") && (sel.Sel.Name == "NewContextWithTimeout" || sel.Sel.Name == "NewTimer") {
					capCall = call
				}
			}
			return true
		})
		construct := constructOf(u, "upper bound")
		okC := false
		if capCall != nil {
			arg := capCall.Args[len(capCall.Args)-1]
			if be, ok := ast.Unparen(arg).(*ast.BinaryExpr); ok && be.Op == token.ADD {
				dParam := u.Fn.Type().(*types.Signature).Params().At(u.Fn.Type().(*types.Signature).Params().Len() - 1).Name()
				l, rr := be.X, be.Y
				if (exprStr(l) == dParam && fieldOf(info, rr) == ms) || (exprStr(rr) == dParam && fieldOf(info, l) == ms) {
					okC = true
				}
			}
		}
		if okC {
			r.ok(construct, posOf(p, capCall), "base deadline = d + maximumSuspension")
		} else {
			r.bad(c.Prop, construct, posOf(p, u.Decl), "the hard upper bound on a compensated timeout is not `requested duration + maximum compensation`: stalls can postpone the timeout without limit (or compensation is cut short)")
		}
	}
	// non-negative credit
	for _, u := range p.UnitsIn(clockPkg) {
		info := u.Info()
		sig := u.Fn.Type().(*types.Signature)
		timeParams := map[string]bool{}
		for i := 0; i < sig.Params().Len(); i++ {
			if namedIs(sig.Params().At(i).Type(), "time", "Time") {
				timeParams[sig.Params().At(i).Name()] = true
			}
		}
		if len(timeParams) == 0 {
			continue
		}
		ast.Inspect(u.Decl.Body, func(n ast.Node) bool {
			as, ok := n.(*ast.AssignStmt)
			if !ok || as.Tok != token.ADD_ASSIGN || len(as.Rhs) != 1 {
				return true
			}
			call, ok := ast.Unparen(as.Rhs[0]).(*ast.CallExpr)
			if !ok {
				return true
			}
			sel, ok := ast.Unparen(call.Fun).(*ast.SelectorExpr)
			if !ok || sel.Sel.Name != "Sub" || !timeParams[exprStr(sel.X)] || len(call.Args) != 1 {
				return true
			}
			construct := constructOf(u, exprStr(as.Lhs[0])+" += "+exprStr(call))
			okG := false
			for _, g := range flattenGuards(GuardsOf(info, u.Decl.Body, as)) {
				if gc, ok := ast.Unparen(g.Cond).(*ast.CallExpr); ok && g.Pos {
					if name, a, b, ok := isTimeCmp(info, gc); ok && name == "After" && exprStr(a) == exprStr(sel.X) && exprStr(b) == exprStr(call.Args[0]) {
						okG = true
					}
				}
			}
			if okG {
				r.ok(construct, posOf(p, as), "credited only when the supplied time is after the reference point")
			} else {
				r.bad(c.Prop, construct, posOf(p, as), "time elapsed up to a caller-supplied timestamp is credited without checking that the timestamp is after the start of the unsuspended period: a timer expiry stamped before the last Resume yields a negative credit, the remaining budget is overstated and the command runs past its timeout")
			}
			return true
		})
	}
	return r
}

func c11Bracket(c *Ctx) *RuleResult {
	r := &RuleResult{Rule: "C11.bracket", Floor: 8,
		Doc: "every storage call made on behalf of a running action is bracketed by Suspend/Resume on all paths: in each method of the suspending decorators a Suspend() is matched by exactly one Resume() before returning, except for methods returning a (lazily read) buffer, which must NOT resume themselves but hand the Resume to the buffer's completion handler (Done)"}
	p := c.P
	// methods that hand their object's Suspendable to a completion handler (composite literal field)
	handlerBuilders := mayDo(p.Units("pkg/blobstore", "pkg/cas"), func(x *FuncUnit, n ast.Node) bool {
		kv, ok := n.(*ast.KeyValueExpr)
		if !ok {
			return false
		}
		tv, ok := x.Info().Types[kv.Value]
		if !ok || !namedIs(tv.Type, modPath+"/"+clockPkg, "Suspendable") {
			return false
		}
		// the value is a field of the method's receiver
		if x.Decl.Recv == nil || len(x.Decl.Recv.List[0].Names) == 0 {
			return false
		}
		sel, ok := ast.Unparen(kv.Value).(*ast.SelectorExpr)
		return ok && exprStr(sel.X) == x.Decl.Recv.List[0].Names[0].Name
	})
	// helpers that suspend and hand the matching Resume back as a function value:
	//   func (x *T) suspend() func() { x.s.Suspend(); return x.s.Resume }
	resumeReturners := map[*types.Func]bool{}
	for _, u := range p.Units("pkg/blobstore", "pkg/cas") {
		info := u.Info()
		susp, ret := false, false
		ast.Inspect(u.Decl.Body, func(n ast.Node) bool {
			switch x := n.(type) {
			case *ast.CallExpr:
				if sel, ok := ast.Unparen(x.Fun).(*ast.SelectorExpr); ok && sel.Sel.Name == "Suspend" {
					if tv, ok := info.Types[sel.X]; ok && namedIs(tv.Type, modPath+"/"+clockPkg, "Suspendable") {
						susp = true
					}
				}
			case *ast.ReturnStmt:
				if len(x.Results) == 1 {
					if sel, ok := ast.Unparen(x.Results[0]).(*ast.SelectorExpr); ok && sel.Sel.Name == "Resume" {
						if tv, ok := info.Types[sel.X]; ok && namedIs(tv.Type, modPath+"/"+clockPkg, "Suspendable") {
							ret = true
						}
					}
				}
			}
			return true
		})
		if susp && ret {
			resumeReturners[u.Fn] = true
		}
	}
	for _, u := range p.Units("pkg/blobstore", "pkg/cas") {
		if u.Decl.Recv == nil || len(u.Decl.Recv.List[0].Names) == 0 {
			continue
		}
		info := u.Info()
		returnsBuffer := false
		sig := u.Fn.Type().(*types.Signature)
		for i := 0; i < sig.Results().Len(); i++ {
			if namedIs(sig.Results().At(i).Type(), "github.com/buildbarn/bb-storage/pkg/blobstore/buffer", "Buffer") {
				returnsBuffer = true
			}
		}
		isSusp := func(call *ast.CallExpr, m string) (string, bool) {
			sel, ok := ast.Unparen(call.Fun).(*ast.SelectorExpr)
			if !ok || sel.Sel.Name != m {
				return "", false
			}
			tv, ok := info.Types[sel.X]
			if !ok || !namedIs(tv.Type, modPath+"/"+clockPkg, "Suspendable") {
				return "", false
			}
			return exprStr(sel.X), true
		}
		spec := &OblSpec{Name: "suspend", Min: 1, Max: 1,
			Create: func(n ast.Node) []Born {
				if es, ok := n.(*ast.ExprStmt); ok {
					if call, ok := es.X.(*ast.CallExpr); ok {
						if key, ok := isSusp(call, "Suspend"); ok {
							return []Born{{Key: key, Pos: call.Pos()}}
						}
					}
				}
				// resume := x.suspend()
				if as, ok := n.(*ast.AssignStmt); ok && len(as.Lhs) == 1 && len(as.Rhs) == 1 {
					if call, ok := ast.Unparen(as.Rhs[0]).(*ast.CallExpr); ok {
						if fn := calleeOf(info, call); fn != nil && resumeReturners[fn] {
							return []Born{{Key: "func:" + exprStr(as.Lhs[0]), Pos: call.Pos()}}
						}
					}
				}
				return nil
			},
			Discharge: func(n ast.Node, key string) int {
				if call, ok := n.(*ast.CallExpr); ok {
					if k, ok := isSusp(call, "Resume"); ok && k == key {
						return 1
					}
					if id, ok := ast.Unparen(call.Fun).(*ast.Ident); ok && "func:"+id.Name == key {
						return 1
					}
				}
				return 0
			},
			Transfer: func(n ast.Node, key string) bool {
				if kv, ok := n.(*ast.KeyValueExpr); ok && exprStr(kv.Value) == key {
					return true
				}
				// the matching Resume is handed to the caller as a function value
				if ret, ok := n.(*ast.ReturnStmt); ok && len(ret.Results) == 1 && resumeReturners[u.Fn] {
					if sel, ok := ast.Unparen(ret.Results[0]).(*ast.SelectorExpr); ok && sel.Sel.Name == "Resume" && exprStr(sel.X) == key {
						return true
					}
				}
				// a helper method of the same object that builds the completion handler from the
				// object's own Suspendable
				if call, ok := n.(*ast.CallExpr); ok {
					if fn := calleeOf(info, call); fn != nil && handlerBuilders[fn] {
						if sel, ok := ast.Unparen(call.Fun).(*ast.SelectorExpr); ok && strings.HasPrefix(key, exprStr(sel.X)+".") {
							return true
						}
					}
				}
				return false
			},
		}
		if returnsBuffer {
			// must transfer: a local Resume (even deferred) ends the suspension before the data is read
			spec.Min, spec.Max = 99, 99
		}
		res := RunObligation(info, u.Decl.Body, spec)
		if res.Created == 0 {
			continue
		}
		construct := constructOf(u, "Suspend")
		if len(res.Violations) == 0 {
			d := "resumed exactly once on every path"
			if returnsBuffer {
				d = "resume handed to the returned buffer's completion handler"
			}
			r.ok(construct, posOf(p, u.Decl), d)
			continue
		}
		v := res.Violations[0]
		if returnsBuffer {
			r.bad(c.Prop, construct, p.Pos(v.Born.Pos), "a method that returns a lazily read buffer resumes the clock itself instead of handing the Resume to the buffer's Done handler: stalls while the data is streamed are not excluded from the action's timeout and the virtual duration includes them")
		} else {
			r.bad(c.Prop, construct, p.Pos(v.Born.Pos), fmt.Sprintf("the clock is resumed %d times on the path to the %s after being suspended: the execution timeout is permanently suspended (never fires) or resumed while another read is still stalled", v.Count, oblExitDesc(p, v)))
		}
	}
	// the handler resumes in Done
	du := p.Unit("pkg/blobstore", "resumingErrorHandler.Done")
	okD := false
	ast.Inspect(du.Decl.Body, func(n ast.Node) bool {
		if call, ok := n.(*ast.CallExpr); ok {
			if sel, ok := ast.Unparen(call.Fun).(*ast.SelectorExpr); ok && sel.Sel.Name == "Resume" {
				okD = true
			}
		}
		return true
	})
	if okD {
		r.ok(du.Name(), posOf(p, du.Decl), "Done() resumes")
	} else {
		r.bad(c.Prop, du.Name(), posOf(p, du.Decl), "the buffer completion handler does not resume the clock")
	}
	return r
}

func c11RunContext(c *Ctx) *RuleResult {
	r := &RuleResult{Rule: "C11.run-context", Floor: 3,
		Doc: "the command runs under a context derived from the executor's clock with the action's own timeout; the unsuspended-duration value is read only after the context is done; and in bb_worker the clock given to the local executor is the very SuspendableClock given to the suspending storage decorators"}
	p := c.P
	u := p.Unit(builderPkg, "localBuildExecutor.Execute")
	info := u.Info()
	g := NewFuncCFG(info, u.Decl.Body)
	var mk *ast.AssignStmt
	var run *ast.CallExpr
	ast.Inspect(u.Decl.Body, func(n ast.Node) bool {
		switch x := n.(type) {
		case *ast.CallExpr:
			if sel, ok := ast.Unparen(x.Fun).(*ast.SelectorExpr); ok && sel.Sel.Name == "Run" && strings.HasSuffix(exprStr(sel.X), ".runner") {
				run = x
			}
		}
		return true
	})
	// the run phase may live in a helper method that creates the context, runs the command and
	// hands the context back as its first result
	var helper *FuncUnit
	var helperCall *ast.CallExpr
	if run == nil {
		ast.Inspect(u.Decl.Body, func(n ast.Node) bool {
			hc, ok := n.(*ast.CallExpr)
			if !ok || helper != nil {
				return true
			}
			hu := p.UnitOf(calleeOf(info, hc))
			if hu == nil || hu.Fn.Pkg() != u.Fn.Pkg() {
				return true
			}
			ast.Inspect(hu.Decl.Body, func(m ast.Node) bool {
				if x, ok := m.(*ast.CallExpr); ok {
					if sel, ok := ast.Unparen(x.Fun).(*ast.SelectorExpr); ok && sel.Sel.Name == "Run" && strings.HasSuffix(exprStr(sel.X), ".runner") {
						run = x
						helper, helperCall = hu, hc
					}
				}
				return true
			})
			return true
		})
	}
	if run == nil {
		panic(anchorError("localBuildExecutor.Execute: runner.Run"))
	}
	mkUnit := u
	if helper != nil {
		mkUnit = helper
	}
	ctxName := exprStr(run.Args[0])
	ast.Inspect(mkUnit.Decl.Body, func(n ast.Node) bool {
		if as, ok := n.(*ast.AssignStmt); ok && len(as.Lhs) == 2 && exprStr(as.Lhs[0]) == ctxName && len(as.Rhs) == 1 {
			mk = as
		}
		return true
	})
	construct := constructOf(u, "timeout context")
	okM := false
	if mk != nil {
		if call, ok := ast.Unparen(mk.Rhs[0]).(*ast.CallExpr); ok {
			if sel, ok := ast.Unparen(call.Fun).(*ast.SelectorExpr); ok && sel.Sel.Name == "NewContextWithTimeout" && strings.HasSuffix(exprStr(sel.X), ".clock") && len(call.Args) == 2 {
				d := resolveLocalAlias(mkUnit, call.Args[1])
				if helper != nil {
					// the duration is a parameter of the helper: what Execute passes for it
					if id, ok := ast.Unparen(d).(*ast.Ident); ok {
						sig := helper.Fn.Type().(*types.Signature)
						for i := 0; i < sig.Params().Len() && i < len(helperCall.Args); i++ {
							if helper.Info().ObjectOf(id) == sig.Params().At(i) {
								d = resolveLocalAlias(u, helperCall.Args[i])
							}
						}
					}
				}
				if strings.Contains(exprStr(d), ".Timeout.AsDuration()") {
					okM = true
				}
			}
		}
	}
	helperWaits := false
	if helper != nil {
		// the helper waits for the context to finish on every path after running the command
		hg := NewFuncCFG(helper.Info(), helper.Decl.Body)
		var hDone ast.Node
		ast.Inspect(helper.Decl.Body, func(n ast.Node) bool {
			if ue, ok := n.(*ast.UnaryExpr); ok && ue.Op == token.ARROW && exprStr(ue.X) == ctxName+".Done()" {
				hDone = ue
			}
			return true
		})
		if hDone != nil && hg.Dominates(run, hDone) && hg.EveryPathPasses(func(n ast.Node) bool { return n == hDone }) {
			helperWaits = true
		}
		// in Execute the context is the helper's first result
		run = helperCall
		ctxName = ""
		for _, anc := range pathTo(u.Decl.Body, helperCall) {
			if as, ok := anc.(*ast.AssignStmt); ok && len(as.Rhs) == 1 && len(as.Lhs) >= 1 {
				ctxName = exprStr(as.Lhs[0])
			}
		}
	}
	if okM {
		r.ok(construct, posOf(p, mk), "Run's context = be.clock.NewContextWithTimeout(..., action.Timeout)")
	} else {
		r.bad(c.Prop, construct, posOf(p, run), "the command does not run under a context created by the executor's (suspendable) clock with the action's timeout")
	}
	// duration read after Done
	var doneRecv ast.Node
	ast.Inspect(u.Decl.Body, func(n ast.Node) bool {
		if ue, ok := n.(*ast.UnaryExpr); ok && ue.Op == token.ARROW && exprStr(ue.X) == ctxName+".Done()" {
			doneRecv = ue
		}
		return true
	})
	ast.Inspect(u.Decl.Body, func(n ast.Node) bool {
		call, ok := n.(*ast.CallExpr)
		if !ok {
			return true
		}
		if sel, ok := ast.Unparen(call.Fun).(*ast.SelectorExpr); ok && sel.Sel.Name == "Value" && exprStr(sel.X) == ctxName && strings.Contains(exprStr(call), "UnsuspendedDurationKey") {
			construct := constructOf(u, "virtual duration read")
			if (doneRecv != nil && g.Dominates(doneRecv, call) && g.Dominates(run, doneRecv)) || (helperWaits && g.Dominates(run, call)) {
				r.ok(construct, posOf(p, call), "read after <-ctx.Done()")
			} else {
				r.bad(c.Prop, construct, posOf(p, call), "the unsuspended duration is read before the timeout context has finished: the reported virtual execution duration is not final")
			}
		}
		return true
	})
	// wiring
	var mu *FuncUnit
	for _, x := range p.UnitsIn("cmd/bb_worker") {
		if x.Fn.Name() == "main" {
			mu = x
		}
	}
	if mu == nil {
		panic(anchorError("cmd/bb_worker main"))
	}
	minfo := mu.Info()
	clockArg, suspArgs := "", []string{}
	ast.Inspect(mu.Decl.Body, func(n ast.Node) bool {
		call, ok := n.(*ast.CallExpr)
		if !ok {
			return true
		}
		fn := calleeOf(minfo, call)
		if fn == nil {
			return true
		}
		switch fn.Name() {
		case "NewLocalBuildExecutor":
			// the clock parameter
			sig := fn.Type().(*types.Signature)
			for i := 0; i < sig.Params().Len() && i < len(call.Args); i++ {
				if namedIs(sig.Params().At(i).Type(), "github.com/buildbarn/bb-storage/pkg/clock", "Clock") {
					clockArg = exprStr(call.Args[i])
				}
			}
		case "NewSuspendingBlobAccess", "NewSuspendingDirectoryFetcher":
			suspArgs = append(suspArgs, exprStr(call.Args[1]))
		}
		return true
	})
	construct = constructOf(mu, "clock wiring")
	okW := clockArg != "" && len(suspArgs) >= 2
	if okW {
		// clockArg is assigned the same variable that is passed to the decorators
		assigned := false
		ast.Inspect(mu.Decl.Body, func(n ast.Node) bool {
			if as, ok := n.(*ast.AssignStmt); ok && len(as.Lhs) == 1 && exprStr(as.Lhs[0]) == clockArg && as.Tok == token.ASSIGN && exprStr(as.Rhs[0]) == suspArgs[0] {
				assigned = true
			}
			return true
		})
		for _, s := range suspArgs {
			if s != suspArgs[0] {
				okW = false
			}
		}
		okW = okW && assigned
	}
	if okW {
		r.ok(construct, posOf(p, mu.Decl), clockArg+" = "+suspArgs[0]+", also given to the suspending decorators")
	} else {
		r.bad(c.Prop, construct, posOf(p, mu.Decl), "the clock that times the command is not the clock the storage decorators suspend: stalls are not compensated (or compensate a different timer)")
	}
	return r
}

func init() {
	register(&PropertySpec{
		ID:          "C11",
		Level:       "other",
		Explanation: "Structural clauses only: the hard cap d + maximumSuspension on the underlying context/timer; no negative time credit for caller-supplied timestamps; Suspend/Resume bracketing of every decorated storage call on all paths, with buffer-returning methods handing Resume to the buffer's Done handler; the run context is derived from the executor's clock with the action's timeout and the duration is read after Done; bb_worker wires one SuspendableClock into executor and decorators. The re-arm arithmetic, threshold handling and accounting of overlapping suspensions over timelines are NOT decided.",
		Assumptions: []string{"bb-storage buffers call Done exactly once when fully consumed or discarded"},
		Rules:       []RuleFunc{c11Cap, c11Bracket, c11RunContext, c11Transitions, c11ContextErr, c11Init, c11ResumeOnce, c11NoDeadlineOverride},
	})
}
