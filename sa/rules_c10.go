package main

import (
	"fmt"
	"go/ast"
	"go/token"
	"go/types"
	"strings"
)

func c10Escape(c *Ctx) *RuleResult {
	r := &RuleResult{Rule: "C10.escape", Floor: 4,
		Doc: "working directories and output paths that leave the input root are rejected, not touched: the path walker's OnUp fails when no component is left; every path.Resolve on that walker has its error returned; and the walker each output path is resolved with owns a private copy of the working directory's components (freshly allocated slice), so resolving one output path cannot rewrite the working directory the next ones start from"}
	p := c.P
	u := p.Unit(builderPkg, "outputNodePath.OnUp")
	okU := false
	ast.Inspect(u.Decl.Body, func(n ast.Node) bool {
		ifs, ok := n.(*ast.IfStmt)
		if !ok {
			return true
		}
		s := exprStr(ifs.Cond)
		if strings.HasPrefix(s, "len(") && strings.HasSuffix(s, ".components) == 0") && terminates(u.Info(), ifs.Body.List) {
			if ret, ok := ifs.Body.List[len(ifs.Body.List)-1].(*ast.ReturnStmt); ok && len(ret.Results) == 2 && !isNilIdent(ret.Results[1]) {
				okU = true
			}
		}
		return true
	})
	g := NewFuncCFG(u.Info(), u.Decl.Body)
	// the shrink is dominated by the test
	for _, w := range FieldWrites([]*FuncUnit{u}, p.LookupField(builderPkg, "outputNodePath", "components"), false) {
		_ = w
	}
	_ = g
	if okU {
		r.ok(u.Name()+"|reject-at-root", posOf(p, u.Decl), "error when no component is left")
	} else {
		r.bad(c.Prop, u.Name()+"|reject-at-root", posOf(p, u.Decl), "going up from the root of the input root is not rejected: a path can escape the input root")
	}
	for _, fu := range p.UnitsIn(builderPkg) {
		info := fu.Info()
		ast.Inspect(fu.Decl.Body, func(n ast.Node) bool {
			call, ok := n.(*ast.CallExpr)
			if !ok {
				return true
			}
			fn := calleeOf(info, call)
			if fn == nil || fn.Name() != "Resolve" || fn.Pkg() == nil || !strings.HasSuffix(fn.Pkg().Path(), "/filesystem/path") {
				return true
			}
			// only resolves that use an outputNodePath walker
			walkerVar := ""
			ast.Inspect(call, func(m ast.Node) bool {
				if ue, ok := m.(*ast.UnaryExpr); ok && ue.Op == token.AND {
					if tv, ok := info.Types[ue.X]; ok && namedIs(tv.Type, modPath+"/"+builderPkg, "outputNodePath") {
						walkerVar = exprStr(ue.X)
					}
				}
				return true
			})
			if walkerVar == "" {
				return true
			}
			construct := constructOf(fu, "Resolve("+walkerVar+")")
			propagated := false
			for _, anc := range pathTo(fu.Decl.Body, call) {
				if ifs, ok := anc.(*ast.IfStmt); ok && ifs.Init != nil {
					if as, ok := ifs.Init.(*ast.AssignStmt); ok && len(as.Rhs) == 1 && ast.Unparen(as.Rhs[0]) == ast.Expr(call) {
						if isT, whenTrue := errNotNilTest(exprStr(as.Lhs[0]))(ifs.Cond); isT && whenTrue && terminates(info, ifs.Body.List) {
							if ret, ok := ifs.Body.List[len(ifs.Body.List)-1].(*ast.ReturnStmt); ok && !isNilIdent(ret.Results[len(ret.Results)-1]) {
								propagated = true
							}
						}
					}
				}
			}
			if propagated {
				r.ok(construct, posOf(p, call), "a resolution error is returned")
			} else {
				r.bad(c.Prop, construct, posOf(p, call), "the error of resolving a client-supplied path is not returned: an escaping path is accepted")
			}
			// private copy
			if fu.Fn.Name() == "lookup" {
				def := resolveLocalAlias(fu, &ast.Ident{Name: walkerVar})
				var defExpr ast.Expr
				ast.Inspect(fu.Decl.Body, func(m ast.Node) bool {
					if as, ok := m.(*ast.AssignStmt); ok && len(as.Lhs) == 1 && exprStr(as.Lhs[0]) == walkerVar && as.Tok == token.DEFINE {
						defExpr = as.Rhs[0]
					}
					return true
				})
				_ = def
				cconstruct := constructOf(fu, "private copy of working directory")
				fresh := false
				if cl, ok := ast.Unparen(defExpr).(*ast.CompositeLit); ok {
					if e := litFieldExpr(cl, "components"); e != nil {
						if ac, ok := ast.Unparen(e).(*ast.CallExpr); ok && exprStr(ac.Fun) == "append" && len(ac.Args) >= 1 {
							if conv, ok := ast.Unparen(ac.Args[0]).(*ast.CallExpr); ok && len(conv.Args) == 1 && isNilIdent(conv.Args[0]) {
								fresh = true
							}
						}
						if mc, ok := ast.Unparen(e).(*ast.CallExpr); ok && exprStr(mc.Fun) == "slices.Clone" {
							fresh = true
						}
					}
				}
				if fresh {
					r.ok(cconstruct, posOf(p, call), "components copied into a freshly allocated slice")
				} else {
					r.bad(c.Prop, cconstruct, posOf(p, call), "the walker used for one output path shares its component slice with the working directory (struct copy, same backing array): an output path that goes up and down again overwrites a working-directory component, and later output paths are resolved against the wrong directory")
				}
			}
			return true
		})
	}
	return r
}

func c10Order(c *Ctx) *RuleResult {
	r := &RuleResult{Rule: "C10.order", Floor: 3,
		Doc: "parent directories of declared outputs exist before the command runs and outputs are collected after it: in the local executor CreateParentDirectories (with its failure returning) dominates runner.Run, and Run dominates UploadOutputs; the Tree of an output directory is serialised root first, then the remaining directories in DESCENDING index of the post-order list (parents before children)"}
	p := c.P
	u := p.Unit(builderPkg, "localBuildExecutor.Execute")
	info := u.Info()
	g := NewFuncCFG(info, u.Decl.Body)
	var create, run, upload *ast.CallExpr
	ast.Inspect(u.Decl.Body, func(n ast.Node) bool {
		if call, ok := n.(*ast.CallExpr); ok {
			if sel, ok := ast.Unparen(call.Fun).(*ast.SelectorExpr); ok {
				switch {
				case sel.Sel.Name == "CreateParentDirectories":
					create = call
				case sel.Sel.Name == "Run" && strings.HasSuffix(exprStr(sel.X), ".runner"):
					run = call
				case runnerRunCallers(p)[calleeOf(info, call)]:
					run = call
				case sel.Sel.Name == "UploadOutputs":
					upload = call
				case uploadOutputsCallers(p)[calleeOf(info, call)]:
					upload = call
				}
			}
		}
		return true
	})
	if create == nil || run == nil || upload == nil {
		panic(anchorError("localBuildExecutor.Execute: CreateParentDirectories / runner.Run / UploadOutputs"))
	}
	if g.Dominates(create, run) {
		// failure returns
		okF := false
		for _, anc := range pathTo(u.Decl.Body, create) {
			if ifs, ok := anc.(*ast.IfStmt); ok && terminates(info, ifs.Body.List) {
				okF = true
			}
		}
		if okF {
			r.ok(constructOf(u, "parents-before-run"), posOf(p, create), "CreateParentDirectories dominates Run and its failure returns")
		} else {
			r.bad(c.Prop, constructOf(u, "parents-before-run"), posOf(p, create), "the command runs even when creating the output parent directories failed")
		}
	} else {
		r.bad(c.Prop, constructOf(u, "parents-before-run"), posOf(p, run), "the command can run before the parent directories of its outputs were created")
	}
	if g.Dominates(run, upload) {
		r.ok(constructOf(u, "upload-after-run"), posOf(p, upload), "Run dominates UploadOutputs")
	} else {
		r.bad(c.Prop, constructOf(u, "upload-after-run"), posOf(p, upload), "outputs can be collected without the command having run")
	}
	// Tree order
	tu0 := p.Unit(builderPkg, "uploadOutputsState.uploadOutputDirectoryEntered")
	construct := constructOf(tu0, "tree order")
	dirsField := p.LookupField(builderPkg, "uploadOutputDirectoryState", "directories")
	// the serialisation may live in the function itself or in a helper it calls: take the unit that
	// contains a loop over the directory list
	tu := tu0
	reachTU := staticReach(p, []ast.Node{tu0.Decl.Body}, tu0.Info())
	for _, x := range p.UnitsIn(builderPkg) {
		if x.Fn == tu0.Fn || !reachTU[x.Fn] {
			continue
		}
		loops := false
		ast.Inspect(x.Decl.Body, func(n ast.Node) bool {
			switch n.(type) {
			case *ast.ForStmt, *ast.RangeStmt:
				ast.Inspect(n, func(m ast.Node) bool {
					if e, ok := m.(ast.Expr); ok && (fieldOf(x.Info(), e) == dirsField || fieldOf(x.Info(), resolveLocalAlias(x, e)) == dirsField) {
						loops = true
					}
					return true
				})
			}
			return true
		})
		hasOwn := false
		ast.Inspect(tu0.Decl.Body, func(n ast.Node) bool {
			if fs, ok := n.(*ast.ForStmt); ok && fs.Post != nil {
				hasOwn = true
			}
			return true
		})
		if loops && !hasOwn && x.Fn.Name() != "uploadDirectory" {
			tu = x
		}
	}
	// ... or a helper that is handed the directory list as an argument
	var listParam types.Object
	if tu == tu0 {
		ast.Inspect(tu0.Decl.Body, func(n ast.Node) bool {
			call, ok := n.(*ast.CallExpr)
			if !ok {
				return true
			}
			h := calleeOf(tu0.Info(), call)
			if h == nil || p.UnitOf(h) == nil || h.Pkg() == nil || relPkg(h.Pkg()) != builderPkg {
				return true
			}
			for ai, a := range call.Args {
				if fieldOf(tu0.Info(), a) == dirsField || fieldOf(tu0.Info(), resolveLocalAlias(tu0, a)) == dirsField {
					sig := h.Type().(*types.Signature)
					if ai < sig.Params().Len() {
						tu = p.UnitOf(h)
						listParam = sig.Params().At(ai)
					}
				}
			}
			return true
		})
	}
	tinfo := tu.Info()
	isList := func(e ast.Expr) bool {
		e = ast.Unparen(e)
		if sl, ok := e.(*ast.SliceExpr); ok {
			e = ast.Unparen(sl.X)
		}
		if id, ok := e.(*ast.Ident); ok && listParam != nil && tinfo.ObjectOf(id) == listParam {
			return true
		}
		if id, ok := ast.Unparen(resolveLocalAlias(tu, e)).(*ast.Ident); ok && listParam != nil && tinfo.ObjectOf(id) == listParam {
			return true
		}
		return fieldOf(tinfo, resolveLocalAlias(tu, e)) == dirsField || fieldOf(tinfo, e) == dirsField
	}
	emits := func(body *ast.BlockStmt, elem func(ast.Expr) bool) bool {
		found := false
		ast.Inspect(body, func(m ast.Node) bool {
			as, ok := m.(*ast.AssignStmt)
			if !ok || len(as.Lhs) != 1 || len(as.Rhs) != 1 {
				return true
			}
			tv, ok := tinfo.Types[as.Lhs[0]]
			if !ok {
				return true
			}
			if sl, ok := tv.Type.Underlying().(*types.Slice); !ok || !types.Identical(sl.Elem(), types.Typ[types.Byte]) {
				return true
			}
			if call, ok := ast.Unparen(as.Rhs[0]).(*ast.CallExpr); ok {
				for _, a := range call.Args {
					if elem(a) {
						found = true
					}
				}
			}
			return true
		})
		return found
	}
	var emitting []ast.Node
	allDescending := true
	ast.Inspect(tu.Decl.Body, func(n ast.Node) bool {
		switch x := n.(type) {
		case *ast.RangeStmt:
			if isList(x.X) && x.Value != nil {
				v := exprStr(x.Value)
				if emits(x.Body, func(a ast.Expr) bool { return exprStr(a) == v }) {
					emitting = append(emitting, x)
					allDescending = false // a range statement walks the list upwards
				}
			}
		case *ast.ForStmt:
			// elements read as list[i-1] / list[i], possibly through a local
			elemVars := map[string]bool{}
			ast.Inspect(x.Body, func(m ast.Node) bool {
				if as, ok := m.(*ast.AssignStmt); ok && as.Tok == token.DEFINE && len(as.Rhs) == 1 {
					if ix, ok := ast.Unparen(as.Rhs[0]).(*ast.IndexExpr); ok && isList(ix.X) {
						elemVars[exprStr(as.Lhs[0])] = true
					}
				}
				return true
			})
			if emits(x.Body, func(a ast.Expr) bool {
				if elemVars[exprStr(a)] {
					return true
				}
				if ix, ok := ast.Unparen(a).(*ast.IndexExpr); ok && isList(ix.X) {
					return true
				}
				return false
			}) {
				emitting = append(emitting, x)
				inc, ok := x.Post.(*ast.IncDecStmt)
				if !ok || inc.Tok != token.DEC {
					allDescending = false
				}
			}
		}
		return true
	})
	if len(emitting) > 0 && allDescending {
		r.ok(construct, posOf(p, emitting[0]), "the post-order list is emitted by descending index only: the root (completed last) first, parents before children")
	} else {
		r.bad(c.Prop, construct, posOf(p, tu.Decl), fmt.Sprintf("directories of the post-order list are emitted into the Tree by an ascending loop (%d emitting loops, all descending: %v): children precede their parents while the tree claims to be topologically sorted", len(emitting), allDescending))
	}
	return r
}

func c10Paths(c *Ctx) *RuleResult {
	r := &RuleResult{Rule: "C10.paths", Floor: 3,
		Doc: "outputs are reported under the path strings the client declared: the Path of every OutputFile / OutputDirectory / OutputSymlink is the loop variable of a range over the list of declared path strings handed down from the output hierarchy (no transformation); those lists are filled with the client's original strings"}
	p := c.P
	for _, u := range p.UnitsIn(builderPkg) {
		info := u.Info()
		ast.Inspect(u.Decl.Body, func(n ast.Node) bool {
			cl, ok := n.(*ast.CompositeLit)
			if !ok {
				return true
			}
			tv, ok := info.Types[cl]
			if !ok {
				return true
			}
			t := ""
			for _, name := range []string{"OutputFile", "OutputDirectory", "OutputSymlink"} {
				if namedIs(tv.Type, "github.com/bazelbuild/remote-apis/build/bazel/remote/execution/v2", name) {
					t = name
				}
			}
			if t == "" {
				return true
			}
			pv := litFieldExpr(cl, "Path")
			construct := constructOf(u, t+".Path")
			okP := false
			if id, ok := ast.Unparen(pv).(*ast.Ident); ok {
				for _, anc := range pathTo(u.Decl.Body, cl) {
					if rs, ok := anc.(*ast.RangeStmt); ok && rs.Value != nil && exprStr(rs.Value) == id.Name {
						// ranged collection: a []string parameter
						if rid, ok := ast.Unparen(rs.X).(*ast.Ident); ok {
							if v, ok := info.Uses[rid].(*types.Var); ok {
								if sl, ok := v.Type().Underlying().(*types.Slice); ok && types.Identical(sl.Elem(), types.Typ[types.String]) {
									okP = true
								}
							}
						}
					}
				}
			}
			if okP {
				r.ok(construct, posOf(p, cl), "Path is a declared path string, unmodified")
			} else {
				r.bad(c.Prop, construct, posOf(p, cl), "the reported Path is not one of the client's declared path strings verbatim: "+exprStr(pv))
			}
			return true
		})
	}
	// the lists are filled with original strings
	nu := p.Unit(builderPkg, "NewOutputHierarchy")
	okL := 0
	ast.Inspect(nu.Decl.Body, func(n ast.Node) bool {
		as, ok := n.(*ast.AssignStmt)
		if !ok || len(as.Rhs) != 1 {
			return true
		}
		call, ok := ast.Unparen(as.Rhs[0]).(*ast.CallExpr)
		if !ok || exprStr(call.Fun) != "append" || len(call.Args) != 2 {
			return true
		}
		lhs := exprStr(as.Lhs[0])
		if strings.Contains(lhs, "rootsToUpload") || strings.Contains(lhs, "pathsToUpload") {
			if id, ok := ast.Unparen(call.Args[1]).(*ast.Ident); ok {
				for _, anc := range pathTo(nu.Decl.Body, as) {
					if rs, ok := anc.(*ast.RangeStmt); ok && rs.Value != nil && exprStr(rs.Value) == id.Name && strings.HasSuffix(exprStr(rs.X), ".OutputPaths") {
						okL++
					}
				}
			}
		}
		return true
	})
	if okL == 2 {
		r.ok(constructOf(nu, "declared strings recorded"), posOf(p, nu.Decl), "rootsToUpload and pathsToUpload receive command.OutputPaths elements verbatim")
	} else {
		r.bad(c.Prop, constructOf(nu, "declared strings recorded"), posOf(p, nu.Decl), "the lists of paths to report are not filled with the client's original output path strings")
	}
	return r
}

func init() {
	register(&PropertySpec{
		ID:          "C10",
		Level:       "other",
		Explanation: "Thin structural part only: escaping paths are rejected and their errors propagated, each output path is resolved on a private copy of the working directory; parent directories are created (successfully) before Run and outputs uploaded after; the Tree is emitted root first in descending post-order index; reported Path strings are the client's declared strings. Correctness of kinds, digests, Tree topology for arbitrary hierarchies and duplicate handling is NOT decided (needs generated inputs with an oracle).",
		Assumptions: []string{"bb-storage's path.Resolve drives the walker correctly"},
		Rules:       []RuleFunc{c10Escape, c10Order, c10Paths, c10Parents, c10Recursions, c10UploadAlways, c10TreeDedup, c10RootAlwaysTraversed, c10UploadBounded},
	})
}
