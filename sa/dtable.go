package main

// E4 "dtable": decision tables of small pure predicates / comparators. The function body is
// interpreted abstractly over a finite domain: every comparison between two operands is an
// order atom with value <, = or >; every other boolean leaf is a boolean atom. All assignments
// are enumerated and the returned value recorded. Nothing is executed; unknown statement forms
// make the table "undecided" (which fails the check).

import (
	"fmt"
	"go/ast"
	"go/token"
	"go/types"
	"sort"
	"strings"
)

type dtAtom struct {
	Key   string // canonical: "A ? B" for orders (A<B lexicographically as strings), expr string for bools
	Order bool
	A, B  string
}

type DTable struct {
	u       *FuncUnit
	info    *types.Info
	aliases map[*types.Var]ast.Expr
	commaOk map[*types.Var]ast.Expr // ok variable of `x, ok := E` -> E
	atoms   map[string]*dtAtom
	Atoms   []*dtAtom
	Rows    []DTRow
	Err     string
	pure    map[string]bool
	// FallResult, when non-empty, is the result recorded when the interpreted statements fall
	// through (used for loop bodies: "continue").
	FallResult string
	// BreakStmts: what runs when the interpreted loop body executes `break` (the statements that
	// follow the loop)
	BreakStmts []ast.Stmt
}

type DTRow struct {
	Assign map[string]int // order atoms: -1,0,+1 (sign of A ? B); bool atoms: 0/1
	Result string
}

// BuildDTable interprets the function. extraPure lists method names that are pure accessors
// (treated as part of operand paths).
func BuildDTable(u *FuncUnit, body *ast.BlockStmt) *DTable {
	return BuildDTableFall(u, body, "")
}

// BuildDTableLoop interprets ONE iteration of a for loop in whichever way it is written: a loop
// condition becomes `if !cond { break }` in front of the body, `break` runs the statements after
// the loop, falling through the body (or `continue`) yields "continue".
func BuildDTableLoop(u *FuncUnit, loop *ast.ForStmt, after []ast.Stmt) *DTable {
	var list []ast.Stmt
	if loop.Cond != nil {
		list = append(list, &ast.IfStmt{Cond: &ast.UnaryExpr{Op: token.NOT, X: &ast.ParenExpr{X: loop.Cond}}, Body: &ast.BlockStmt{List: []ast.Stmt{&ast.BranchStmt{Tok: token.BREAK}}}})
	}
	list = append(list, loop.Body.List...)
	if after == nil {
		after = []ast.Stmt{}
	}
	return buildDTable(u, &ast.BlockStmt{List: list}, "continue", after)
}

// BuildDTableFall is BuildDTable for a statement list that may fall through (a loop body).
func BuildDTableFall(u *FuncUnit, body *ast.BlockStmt, fall string) *DTable {
	return buildDTable(u, body, fall, nil)
}

func buildDTable(u *FuncUnit, body *ast.BlockStmt, fall string, breakStmts []ast.Stmt) *DTable {
	d := &DTable{u: u, info: u.Info(), aliases: map[*types.Var]ast.Expr{}, atoms: map[string]*dtAtom{}, FallResult: fall, BreakStmts: breakStmts}
	d.collectAliases(body)
	d.collectAtoms(body)
	sort.Slice(d.Atoms, func(i, j int) bool { return d.Atoms[i].Key < d.Atoms[j].Key })
	if len(d.Atoms) > 12 {
		d.Err = fmt.Sprintf("%d atoms: table too large", len(d.Atoms))
		return d
	}
	assign := map[string]int{}
	var rec func(i int)
	rec = func(i int) {
		if d.Err != "" {
			return
		}
		if i == len(d.Atoms) {
			res, ok := d.exec(body.List, assign)
			if !ok && d.Err == "" && d.FallResult != "" {
				res, ok = d.FallResult, true
			}
			if !ok {
				if d.Err == "" {
					d.Err = "function may fall off its end or uses an unsupported statement"
				}
				return
			}
			cp := map[string]int{}
			for k, v := range assign {
				cp[k] = v
			}
			d.Rows = append(d.Rows, DTRow{Assign: cp, Result: res})
			return
		}
		a := d.Atoms[i]
		if a.Order {
			for _, v := range []int{-1, 0, 1} {
				assign[a.Key] = v
				rec(i + 1)
			}
		} else {
			for _, v := range []int{0, 1} {
				assign[a.Key] = v
				rec(i + 1)
			}
		}
	}
	rec(0)
	return d
}

func (d *DTable) collectAliases(body *ast.BlockStmt) {
	count := map[*types.Var]int{}
	rhs := map[*types.Var]ast.Expr{}
	ast.Inspect(body, func(n ast.Node) bool {
		if as, ok := n.(*ast.AssignStmt); ok {
			for i, l := range as.Lhs {
				id, ok := l.(*ast.Ident)
				if !ok {
					continue
				}
				v, _ := d.info.Defs[id].(*types.Var)
				if v == nil {
					v, _ = d.info.Uses[id].(*types.Var)
				}
				if v == nil {
					continue
				}
				count[v]++
				if len(as.Lhs) == 2 && len(as.Rhs) == 1 && as.Tok == token.DEFINE {
					// x, ok := E  (type assertion, map lookup, receive)
					if d.commaOk == nil {
						d.commaOk = map[*types.Var]ast.Expr{}
					}
					if i == 1 {
						d.commaOk[v] = as.Rhs[0]
					} else {
						rhs[v] = as.Rhs[0]
					}
				} else if len(as.Lhs) == len(as.Rhs) && as.Tok == token.DEFINE {
					rhs[v] = as.Rhs[i]
				} else {
					count[v] += 10
				}
			}
		}
		if id, ok := n.(*ast.IncDecStmt); ok {
			if x, ok := id.X.(*ast.Ident); ok {
				if v, _ := d.info.Uses[x].(*types.Var); v != nil {
					count[v] += 10
				}
			}
		}
		return true
	})
	for v, c := range count {
		if c == 1 && rhs[v] != nil {
			d.aliases[v] = rhs[v]
		}
	}
}

// canon renders an operand with local aliases substituted.
func (d *DTable) canon(e ast.Expr) string {
	switch x := ast.Unparen(e).(type) {
	case *ast.Ident:
		if v, ok := d.info.Uses[x].(*types.Var); ok {
			if a, ok := d.aliases[v]; ok {
				return d.canon(a)
			}
			if src, ok := d.commaOk[v]; ok {
				return "ok(" + d.canon(src) + ")"
			}
		}
		return x.Name
	case *ast.SelectorExpr:
		return d.canon(x.X) + "." + x.Sel.Name
	case *ast.IndexExpr:
		return d.canon(x.X) + "[" + d.canon(x.Index) + "]"
	case *ast.CallExpr:
		var args []string
		for _, a := range x.Args {
			args = append(args, d.canon(a))
		}
		return d.canon(x.Fun) + "(" + strings.Join(args, ", ") + ")"
	case *ast.StarExpr:
		return "*" + d.canon(x.X)
	case *ast.UnaryExpr:
		return x.Op.String() + d.canon(x.X)
	case *ast.BinaryExpr:
		return "(" + d.canon(x.X) + " " + x.Op.String() + " " + d.canon(x.Y) + ")"
	case *ast.BasicLit:
		return x.Value
	}
	return types.ExprString(e)
}

func (d *DTable) orderAtom(a, b ast.Expr) (*dtAtom, bool) {
	sa, sb := d.canon(a), d.canon(b)
	flip := false
	if sa > sb {
		sa, sb = sb, sa
		flip = true
	}
	key := sa + " ? " + sb
	at, ok := d.atoms[key]
	if !ok {
		at = &dtAtom{Key: key, Order: true, A: sa, B: sb}
		d.atoms[key] = at
		d.Atoms = append(d.Atoms, at)
	}
	return at, flip
}

func (d *DTable) boolAtom(e ast.Expr) *dtAtom {
	key := d.canon(e)
	at, ok := d.atoms[key]
	if !ok {
		at = &dtAtom{Key: key}
		d.atoms[key] = at
		d.Atoms = append(d.Atoms, at)
	}
	return at
}

func isTimeCmp(info *types.Info, call *ast.CallExpr) (string, ast.Expr, ast.Expr, bool) {
	sel, ok := ast.Unparen(call.Fun).(*ast.SelectorExpr)
	if !ok || len(call.Args) != 1 {
		return "", nil, nil, false
	}
	fn := calleeOf(info, call)
	if fn == nil || fn.Pkg() == nil || fn.Pkg().Path() != "time" {
		return "", nil, nil, false
	}
	switch fn.Name() {
	case "Before", "After", "Equal":
		return fn.Name(), sel.X, call.Args[0], true
	}
	return "", nil, nil, false
}

// collectAtoms registers atoms in source order by walking conditions and boolean results.
func (d *DTable) collectAtoms(body *ast.BlockStmt) {
	var walkBool func(e ast.Expr)
	walkBool = func(e ast.Expr) {
		e = ast.Unparen(e)
		if id, ok := e.(*ast.Ident); ok {
			if id.Name == "true" || id.Name == "false" {
				return
			}
			if v, ok := d.info.Uses[id].(*types.Var); ok {
				if a, ok := d.aliases[v]; ok {
					walkBool(a)
					return
				}
			}
		}
		switch x := e.(type) {
		case *ast.UnaryExpr:
			if x.Op == token.NOT {
				walkBool(x.X)
				return
			}
		case *ast.BinaryExpr:
			switch x.Op {
			case token.LAND, token.LOR:
				walkBool(x.X)
				walkBool(x.Y)
				return
			case token.LSS, token.GTR, token.LEQ, token.GEQ, token.EQL, token.NEQ:
				if isNilIdent(x.X) || isNilIdent(x.Y) || isBoolTyped(d.info, x.X) {
					d.boolAtom(&ast.BinaryExpr{X: x.X, Op: token.EQL, Y: x.Y})
					return
				}
				d.orderAtom(x.X, x.Y)
				return
			}
		case *ast.CallExpr:
			if _, a, b, ok := isTimeCmp(d.info, x); ok {
				d.orderAtom(a, b)
				return
			}
			if in := d.inlinePredicate(x); in != nil {
				walkBool(in)
				return
			}
		}
		d.boolAtom(e)
	}
	ast.Inspect(body, func(n ast.Node) bool {
		switch x := n.(type) {
		case *ast.FuncLit:
			return false
		case *ast.IfStmt:
			walkBool(x.Cond)
		case *ast.ReturnStmt:
			for _, r := range x.Results {
				if isBoolTyped(d.info, r) {
					walkBool(r)
				}
			}
		case *ast.SwitchStmt:
			if x.Tag == nil {
				for _, c := range x.Body.List {
					for _, e := range c.(*ast.CaseClause).List {
						walkBool(e)
					}
				}
			}
		}
		return true
	})
}

// theProgram gives the table builder access to declarations for inlining small predicates.
var theProgram *Program

// inlinePredicate: if call invokes a function/method of the repository whose body is a single
// `return <expr>`, returns that expression with receiver and parameters replaced by the call's
// operands; otherwise nil. Lets a condition that was moved into a predicate helper be analysed as
// if it were still written in place.
func (d *DTable) inlinePredicate(call *ast.CallExpr) ast.Expr {
	return inlinePredicateCall(d.info, call)
}

// inlinePredicateCall is the engine-independent form (also used to expand guards).
func inlinePredicateCall(callerInfo *types.Info, call *ast.CallExpr) ast.Expr {
	if theProgram == nil {
		return nil
	}
	fn := calleeOf(callerInfo, call)
	if fn == nil {
		return nil
	}
	fd := theProgram.Decl(fn)
	if fd == nil || fd.Body == nil || len(fd.Body.List) == 0 || len(fd.Body.List) > 6 {
		return nil
	}
	// leading `x := e` definitions of locals are substituted into the rest
	finfo0 := theProgram.InfoFor(fd)
	localDefs := map[types.Object]ast.Expr{}
	stmts := fd.Body.List
	for len(stmts) > 0 {
		as, ok := stmts[0].(*ast.AssignStmt)
		if !ok || as.Tok != token.DEFINE || len(as.Lhs) != 1 || len(as.Rhs) != 1 {
			break
		}
		id, ok := as.Lhs[0].(*ast.Ident)
		if !ok || finfo0.Defs[id] == nil {
			break
		}
		// the local must not be assigned again
		reassigned := false
		ast.Inspect(fd.Body, func(m ast.Node) bool {
			if o, ok := m.(*ast.AssignStmt); ok && o != as {
				for _, l := range o.Lhs {
					if lid, ok := l.(*ast.Ident); ok && finfo0.Uses[lid] == finfo0.Defs[id] {
						reassigned = true
					}
				}
			}
			if o, ok := m.(*ast.IncDecStmt); ok {
				if lid, ok := o.X.(*ast.Ident); ok && finfo0.Uses[lid] == finfo0.Defs[id] {
					reassigned = true
				}
			}
			return true
		})
		if reassigned {
			return nil
		}
		localDefs[finfo0.Defs[id]] = substExpr(finfo0, as.Rhs[0], localDefs)
		stmts = stmts[1:]
	}
	if len(stmts) == 0 {
		return nil
	}
	// body: zero or more `if c { return e }` followed by `return e` -> one boolean expression
	n := len(stmts)
	last, ok := stmts[n-1].(*ast.ReturnStmt)
	if !ok || len(last.Results) != 1 {
		return nil
	}
	var folded ast.Expr = last.Results[0]
	for i := n - 2; i >= 0; i-- {
		ifs, ok := stmts[i].(*ast.IfStmt)
		if !ok || ifs.Init != nil || ifs.Else != nil || len(ifs.Body.List) != 1 {
			return nil
		}
		r, ok := ifs.Body.List[0].(*ast.ReturnStmt)
		if !ok || len(r.Results) != 1 {
			return nil
		}
		// (c && e) || (!c && rest)
		folded = &ast.BinaryExpr{
			X:  &ast.BinaryExpr{X: &ast.ParenExpr{X: ifs.Cond}, Op: token.LAND, Y: &ast.ParenExpr{X: r.Results[0]}},
			Op: token.LOR,
			Y:  &ast.BinaryExpr{X: &ast.UnaryExpr{Op: token.NOT, X: &ast.ParenExpr{X: ifs.Cond}}, Op: token.LAND, Y: &ast.ParenExpr{X: folded}},
		}
	}
	ret := &ast.ReturnStmt{Results: []ast.Expr{folded}}
	finfo := theProgram.InfoFor(fd)
	subst := map[types.Object]ast.Expr{}
	for k, v := range localDefs {
		subst[k] = v
	}
	if fd.Recv != nil && len(fd.Recv.List) > 0 && len(fd.Recv.List[0].Names) > 0 {
		sel, ok := ast.Unparen(call.Fun).(*ast.SelectorExpr)
		if !ok {
			return nil
		}
		if obj := finfo.Defs[fd.Recv.List[0].Names[0]]; obj != nil {
			subst[obj] = sel.X
		}
	}
	i := 0
	for _, f := range fd.Type.Params.List {
		for _, n := range f.Names {
			if i < len(call.Args) {
				if obj := finfo.Defs[n]; obj != nil {
					subst[obj] = call.Args[i]
				}
			}
			i++
		}
	}
	if noInlinePredicates[fn.Name()] || anchoredFuncs[fn] {
		return nil
	}
	// only boolean predicates
	if sig, ok := fn.Type().(*types.Signature); !ok || sig.Results().Len() != 1 || !isBoolType(sig.Results().At(0).Type()) {
		return nil
	}
	substExtraInfo = callerInfo
	defer func() { substExtraInfo = nil }()
	for k, v := range localDefs {
		subst[k] = substExpr(finfo, v, subst)
	}
	return substExpr(finfo, ret.Results[0], subst)
}

func isBoolType(t types.Type) bool {
	b, ok := t.Underlying().(*types.Basic)
	return ok && b.Info()&types.IsBoolean != 0
}

// substExtraInfo: a second types.Info in which rebuilt selector expressions are registered (the
// caller's, when a predicate of another package is inlined).
var substExtraInfo *types.Info

func registerSynth(info *types.Info, orig, synth ast.Expr) {
	for _, in := range []*types.Info{info, substExtraInfo} {
		if in == nil {
			continue
		}
		if tv, ok := info.Types[orig]; ok {
			in.Types[synth] = tv
		}
		if os, ok := orig.(*ast.SelectorExpr); ok {
			if sel, ok := info.Selections[os]; ok {
				in.Selections[synth.(*ast.SelectorExpr)] = sel
			}
		}
	}
}

// substExpr rebuilds e with identifiers bound in subst replaced; nodes without replaced
// descendants are shared with the original tree (so type information keeps working for them).
func substExpr(info *types.Info, e ast.Expr, subst map[types.Object]ast.Expr) ast.Expr {
	switch x := e.(type) {
	case *ast.Ident:
		if obj := info.Uses[x]; obj != nil {
			if r, ok := subst[obj]; ok {
				return r
			}
		}
		return x
	case *ast.ParenExpr:
		return &ast.ParenExpr{X: substExpr(info, x.X, subst)}
	case *ast.SelectorExpr:
		nx := substExpr(info, x.X, subst)
		if nx == x.X {
			return x
		}
		ns := &ast.SelectorExpr{X: nx, Sel: x.Sel}
		registerSynth(info, x, ns)
		return ns
	case *ast.StarExpr:
		nx := substExpr(info, x.X, subst)
		if nx == x.X {
			return x
		}
		return &ast.StarExpr{X: nx}
	case *ast.UnaryExpr:
		nx := substExpr(info, x.X, subst)
		if nx == x.X {
			return x
		}
		return &ast.UnaryExpr{Op: x.Op, X: nx, OpPos: x.OpPos}
	case *ast.BinaryExpr:
		a, b := substExpr(info, x.X, subst), substExpr(info, x.Y, subst)
		if a == x.X && b == x.Y {
			return x
		}
		return &ast.BinaryExpr{X: a, Op: x.Op, Y: b, OpPos: x.OpPos}
	case *ast.IndexExpr:
		a, b := substExpr(info, x.X, subst), substExpr(info, x.Index, subst)
		if a == x.X && b == x.Index {
			return x
		}
		return &ast.IndexExpr{X: a, Index: b}
	case *ast.CallExpr:
		changed := false
		nf := substExpr(info, x.Fun, subst)
		if nf != x.Fun {
			changed = true
		}
		args := make([]ast.Expr, len(x.Args))
		for i, a := range x.Args {
			args[i] = substExpr(info, a, subst)
			if args[i] != a {
				changed = true
			}
		}
		if !changed {
			return x
		}
		nc := &ast.CallExpr{Fun: nf, Args: args, Lparen: x.Lparen, Rparen: x.Rparen}
		registerSynth(info, x, nc)
		return nc
	}
	return e
}

func isNilIdent(e ast.Expr) bool {
	id, ok := ast.Unparen(e).(*ast.Ident)
	return ok && id.Name == "nil"
}

func isBoolTyped(info *types.Info, e ast.Expr) bool {
	tv, ok := info.Types[e]
	if !ok {
		return false
	}
	b, ok := tv.Type.Underlying().(*types.Basic)
	return ok && b.Info()&types.IsBoolean != 0
}

// evalBool evaluates a boolean expression under an assignment.
func (d *DTable) evalBool(e ast.Expr, as map[string]int) (bool, bool) {
	e = ast.Unparen(e)
	if id, ok := e.(*ast.Ident); ok {
		if id.Name == "true" {
			return true, true
		}
		if id.Name == "false" {
			return false, true
		}
		if v, ok := d.info.Uses[id].(*types.Var); ok {
			if a, ok := d.aliases[v]; ok {
				return d.evalBool(a, as)
			}
		}
	}
	switch x := e.(type) {
	case *ast.UnaryExpr:
		if x.Op == token.NOT {
			v, ok := d.evalBool(x.X, as)
			return !v, ok
		}
	case *ast.BinaryExpr:
		switch x.Op {
		case token.LAND:
			a, ok1 := d.evalBool(x.X, as)
			if ok1 && !a {
				return false, true
			}
			b, ok2 := d.evalBool(x.Y, as)
			return a && b, ok1 && ok2
		case token.LOR:
			a, ok1 := d.evalBool(x.X, as)
			if ok1 && a {
				return true, true
			}
			b, ok2 := d.evalBool(x.Y, as)
			return a || b, ok1 && ok2
		case token.LSS, token.GTR, token.LEQ, token.GEQ, token.EQL, token.NEQ:
			if isNilIdent(x.X) || isNilIdent(x.Y) || isBoolTyped(d.info, x.X) {
				at := d.boolAtom(&ast.BinaryExpr{X: x.X, Op: token.EQL, Y: x.Y})
				v, ok := as[at.Key]
				if !ok {
					return false, false
				}
				eq := v == 1
				if x.Op == token.EQL {
					return eq, true
				}
				if x.Op == token.NEQ {
					return !eq, true
				}
				return false, false
			}
			at, flip := d.orderAtom(x.X, x.Y)
			s, ok := as[at.Key]
			if !ok {
				return false, false
			}
			if flip {
				s = -s
			}
			switch x.Op {
			case token.LSS:
				return s < 0, true
			case token.GTR:
				return s > 0, true
			case token.LEQ:
				return s <= 0, true
			case token.GEQ:
				return s >= 0, true
			case token.EQL:
				return s == 0, true
			case token.NEQ:
				return s != 0, true
			}
		}
	case *ast.CallExpr:
		if in := d.inlinePredicate(x); in != nil {
			if _, _, _, isT := isTimeCmp(d.info, x); !isT {
				return d.evalBool(in, as)
			}
		}
		if name, a, b, ok := isTimeCmp(d.info, x); ok {
			at, flip := d.orderAtom(a, b)
			s, ok := as[at.Key]
			if !ok {
				return false, false
			}
			if flip {
				s = -s
			}
			switch name {
			case "Before":
				return s < 0, true
			case "After":
				return s > 0, true
			case "Equal":
				return s == 0, true
			}
		}
	}
	at := d.boolAtom(e)
	v, ok := as[at.Key]
	return v == 1, ok
}

// exec interprets a statement list; ok=false when the list falls through or is unsupported.
func (d *DTable) exec(stmts []ast.Stmt, as map[string]int) (string, bool) {
	for _, s := range stmts {
		switch x := s.(type) {
		case *ast.ReturnStmt:
			var parts []string
			for _, r := range x.Results {
				if isBoolTyped(d.info, r) {
					v, ok := d.evalBool(r, as)
					if !ok {
						d.Err = "cannot evaluate returned boolean " + types.ExprString(r)
						return "", false
					}
					parts = append(parts, fmt.Sprint(v))
				} else {
					parts = append(parts, d.canon(r))
				}
			}
			return strings.Join(parts, ", "), true
		case *ast.IfStmt:
			if x.Init != nil {
				if _, ok := x.Init.(*ast.AssignStmt); !ok {
					d.Err = "unsupported if-init"
					return "", false
				}
			}
			v, ok := d.evalBool(x.Cond, as)
			if !ok {
				d.Err = "cannot evaluate condition " + types.ExprString(x.Cond)
				return "", false
			}
			if v {
				if res, done := d.exec(x.Body.List, as); done {
					return res, true
				} else if d.Err != "" {
					return "", false
				}
			} else if x.Else != nil {
				var list []ast.Stmt
				switch e := x.Else.(type) {
				case *ast.BlockStmt:
					list = e.List
				case *ast.IfStmt:
					list = []ast.Stmt{e}
				}
				if res, done := d.exec(list, as); done {
					return res, true
				} else if d.Err != "" {
					return "", false
				}
			}
		case *ast.SwitchStmt:
			if x.Tag != nil || x.Init != nil {
				d.Err = "unsupported switch with tag"
				return "", false
			}
			matched := false
			var def *ast.CaseClause
			for _, c := range x.Body.List {
				cc := c.(*ast.CaseClause)
				if cc.List == nil {
					def = cc
					continue
				}
				for _, ce := range cc.List {
					v, ok := d.evalBool(ce, as)
					if !ok {
						d.Err = "cannot evaluate case " + types.ExprString(ce)
						return "", false
					}
					if v {
						matched = true
					}
				}
				if matched {
					if res, done := d.exec(cc.Body, as); done {
						return res, true
					} else if d.Err != "" {
						return "", false
					}
					break
				}
			}
			if !matched && def != nil {
				if res, done := d.exec(def.Body, as); done {
					return res, true
				} else if d.Err != "" {
					return "", false
				}
			}
		case *ast.BranchStmt:
			if x.Label != nil {
				d.Err = "labelled branch"
				return "", false
			}
			switch x.Tok {
			case token.BREAK:
				if d.BreakStmts == nil {
					d.Err = "break outside an interpreted loop"
					return "", false
				}
				return d.exec(d.BreakStmts, as)
			case token.CONTINUE:
				if d.FallResult != "" {
					return d.FallResult, true
				}
			}
			d.Err = "unsupported branch statement"
			return "", false
		case *ast.AssignStmt, *ast.DeclStmt, *ast.EmptyStmt:
			// aliases were collected up front; other assignments do not affect control flow here
		case *ast.BlockStmt:
			if res, done := d.exec(x.List, as); done {
				return res, true
			} else if d.Err != "" {
				return "", false
			}
		case *ast.ExprStmt:
			if c, ok := x.X.(*ast.CallExpr); ok {
				if isNoReturnCall(d.info, c) {
					return "panic", true
				}
				continue // a call made for its outputs; does not influence which value is returned
			}
			d.Err = "unsupported expression statement " + types.ExprString(x.X)
			return "", false
		default:
			d.Err = fmt.Sprintf("unsupported statement %T", s)
			return "", false
		}
	}
	return "", false
}

// FindOrder returns the order atom whose operands end with the given suffixes (in either order),
// together with the orientation: sign as stored is sign(first ? second) when flip == false.
func (d *DTable) FindOrder(match func(a, b string) (ok, flip bool)) (*dtAtom, bool, bool) {
	for _, at := range d.Atoms {
		if !at.Order {
			continue
		}
		if ok, flip := match(at.A, at.B); ok {
			return at, flip, true
		}
	}
	return nil, false, false
}

func (d *DTable) FindBool(match func(k string) bool) *dtAtom {
	for _, at := range d.Atoms {
		if !at.Order && match(at.Key) {
			return at
		}
	}
	return nil
}

func (d *DTable) describe() []string {
	var out []string
	for _, a := range d.Atoms {
		out = append(out, a.Key)
	}
	return out
}

// noInlinePredicates: predicates that rules recognise by identity in guards; they stay calls.
var noInlinePredicates = map[string]bool{"transactionShouldComplete": true, "isNextStateID": true, "empty": true, "executeResponseIsSuccessful": true}
