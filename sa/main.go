package main

import (
	"encoding/json"
	"flag"
	"fmt"
	"os"
)

func main() {
	if len(os.Args) < 2 {
		fmt.Println("usage: bbverif check|explain|list ...")
		os.Exit(2)
	}
	switch os.Args[1] {
	case "check":
		fs := flag.NewFlagSet("check", flag.ExitOnError)
		prop := fs.String("property", "", "property id")
		tier := fs.String("tier", "quick", "quick|thorough")
		repo := fs.String("repo", "/repo", "repository root")
		out := fs.String("out", "/verif", "output root (evidence/, replay/, known_findings.json)")
		fs.Parse(os.Args[2:])
		if *tier != "quick" && *tier != "thorough" {
			*tier = "quick"
		}
		os.Exit(runCheck(*prop, *tier, *repo, *out, nil, false))
	case "explain":
		fs := flag.NewFlagSet("explain", flag.ExitOnError)
		repo := fs.String("repo", "/repo", "repository root")
		out := fs.String("out", "/verif", "output root")
		fs.Parse(os.Args[2:])
		if fs.NArg() != 1 {
			fmt.Println("usage: bbverif explain <replay.json>")
			os.Exit(2)
		}
		b, err := os.ReadFile(fs.Arg(0))
		if err != nil {
			fmt.Println(err)
			os.Exit(2)
		}
		var f Finding
		if err := json.Unmarshal(b, &f); err != nil {
			fmt.Println(err)
			os.Exit(2)
		}
		os.Exit(runExplain(f, *repo, *out))
	case "anchors":
		// regenerate the frozen anchor table from the tree the rules are confirmed on
		fs := flag.NewFlagSet("anchors", flag.ExitOnError)
		repo := fs.String("repo", "/repo", "repository root")
		outFile := fs.String("o", "anchors.json", "output file")
		fs.Parse(os.Args[2:])
		prog, err := LoadProgram(*repo, nil)
		if err != nil {
			fmt.Println(err)
			os.Exit(2)
		}
		theProgram = prog
		for id, spec := range registry {
			c := &Ctx{P: prog, Tier: "quick", Prop: id}
			for _, rf := range spec.Rules {
				runRule(c, rf)
			}
		}
		if err := writeAnchors(*outFile); err != nil {
			fmt.Println(err)
			os.Exit(2)
		}
		fmt.Printf("%d anchors written to %s\n", len(anchorRecorded), *outFile)
	case "list":
		for id, s := range registry {
			fmt.Println(id, len(s.Rules), len(s.ThoroughRules))
		}
	default:
		fmt.Println("unknown command")
		os.Exit(2)
	}
}

// runExplain re-runs the property's rules on the current tree and prints the finding with
// the same key, if it is still present (exit 1), or says it is gone (exit 0).
func runExplain(f Finding, repoDir, outDir string) int {
	spec := registry[f.Property]
	if spec == nil {
		fmt.Println("unknown property", f.Property)
		return 2
	}
	prog, err := LoadProgram(repoDir, nil)
	if err != nil {
		fmt.Println("ERROR:", err)
		return 2
	}
	theProgram = prog
	c := &Ctx{P: prog, Tier: "thorough", Prop: f.Property}
	for _, rf := range append(append([]RuleFunc{}, spec.Rules...), spec.ThoroughRules...) {
		res, fail := runRule(c, rf)
		if fail != "" {
			fmt.Println("rule failure:", fail)
			continue
		}
		for _, g := range res.Findings {
			if g.Key() == f.Key() {
				fmt.Printf("still present: %s: [%s] %s\n  %s\n", g.Pos, g.Rule, g.Construct, g.Message)
				for _, s := range g.Path {
					fmt.Println("    " + s)
				}
				fmt.Printf("VIOLATION property=%s replay=-\n", f.Property)
				return 1
			}
		}
	}
	fmt.Printf("finding %s is not reproduced on the current tree\n", f.Key())
	return 0
}
