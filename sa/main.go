package main

import (
	"fmt"
	"golang.org/x/tools/go/packages"
	"golang.org/x/tools/go/ssa"
	"golang.org/x/tools/go/ssa/ssautil"
	"golang.org/x/tools/go/cfg"
	"golang.org/x/tools/go/callgraph/vta"
	"golang.org/x/tools/go/callgraph/cha"
	"golang.org/x/tools/go/types/typeutil"
)
var _ = cfg.New
var _ = vta.CallGraph
var _ = cha.CallGraph
var _ = typeutil.Callee
var _ ssa.Value
var _ = ssautil.AllFunctions
func main() {
	pkgs, err := packages.Load(&packages.Config{Dir: "/repo", Mode: packages.LoadSyntax}, "./pkg/scheduler")
	fmt.Println(len(pkgs), err)
}
