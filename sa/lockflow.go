package main

// E1 "lockflow": path-sensitive lock typestate on go/cfg with inferred function summaries.
// See DESIGN.md section 3. Nothing here is specific to one property; rules_*.go select
// scopes and turn the engine's diagnostics into findings.

import (
	"fmt"
	"go/ast"
	"go/token"
	"go/types"
	"sort"
	"strings"

	"golang.org/x/tools/go/cfg"
	"golang.org/x/tools/go/packages"
)

// ---------------------------------------------------------------------------
// data model

type keyMode uint8

const (
	kUnknown keyMode = iota // untouched on this path: whatever the caller had
	kNotHeld
	kHeld
)

type keyState struct {
	mode  keyMode
	r     int // read-lock count acquired locally (RWMutex.RLock)
	class string
	pile  string // name of the LockPile variable through which it is held ("" = direct)
}

type lfState struct {
	keys   map[string]keyState
	pre    map[string]keyMode // what this path learned about the state on entry
	defers []ast.Node         // *ast.CallExpr (deferred call), innermost last
	memo   map[string]bool    // known truth of pure conditions
	piles  map[string]bool    // LockPile variable -> may contain locks
	broken map[string]bool    // keys that were released at some point (for region queries)
	ret    token.Pos          // position of the return statement this path left through (0 = fell off the end)
	// retClass: "ok" when the path returns a nil error (last result), "fail" when it returns a non-nil
	// one, "" when the function has no error result / fell off the end
	retClass string
	// callOutcome: set (until the end of the statement) on the two states a call of a function with
	// result-correlated lock effects forks into; the enclosing assignment binds it to the error variable
	callOutcome string
}

func newState() *lfState {
	return &lfState{keys: map[string]keyState{}, pre: map[string]keyMode{}, memo: map[string]bool{}, piles: map[string]bool{}, broken: map[string]bool{}}
}

func (s *lfState) clone() *lfState {
	n := &lfState{keys: make(map[string]keyState, len(s.keys)), pre: make(map[string]keyMode, len(s.pre)), memo: make(map[string]bool, len(s.memo)), piles: make(map[string]bool, len(s.piles)), broken: make(map[string]bool, len(s.broken))}
	for k, v := range s.keys {
		n.keys[k] = v
	}
	for k, v := range s.pre {
		n.pre[k] = v
	}
	for k, v := range s.memo {
		n.memo[k] = v
	}
	for k, v := range s.piles {
		n.piles[k] = v
	}
	for k, v := range s.broken {
		n.broken[k] = v
	}
	n.defers = append([]ast.Node{}, s.defers...)
	n.ret = s.ret
	n.retClass = s.retClass
	n.callOutcome = s.callOutcome
	return n
}

func (s *lfState) sig() string {
	var b strings.Builder
	b.WriteString(s.retClass + "/" + s.callOutcome + "|")
	ks := make([]string, 0, len(s.keys))
	for k := range s.keys {
		ks = append(ks, k)
	}
	sort.Strings(ks)
	for _, k := range ks {
		v := s.keys[k]
		fmt.Fprintf(&b, "%s=%d/%d/%s;", k, v.mode, v.r, v.pile)
	}
	b.WriteString("|")
	ks = ks[:0]
	for k := range s.pre {
		ks = append(ks, k)
	}
	sort.Strings(ks)
	for _, k := range ks {
		fmt.Fprintf(&b, "%s=%d;", k, s.pre[k])
	}
	b.WriteString("|")
	for _, d := range s.defers {
		fmt.Fprintf(&b, "%d,", d.Pos())
	}
	b.WriteString("|")
	ks = ks[:0]
	for k := range s.memo {
		ks = append(ks, k)
	}
	sort.Strings(ks)
	for _, k := range ks {
		fmt.Fprintf(&b, "%s=%v;", k, s.memo[k])
	}
	b.WriteString("|")
	ks = ks[:0]
	for k, v := range s.piles {
		if v {
			ks = append(ks, k)
		}
	}
	sort.Strings(ks)
	b.WriteString(strings.Join(ks, ","))
	b.WriteString("|")
	ks = ks[:0]
	for k := range s.broken {
		ks = append(ks, k)
	}
	sort.Strings(ks)
	b.WriteString(strings.Join(ks, ","))
	fmt.Fprintf(&b, "|%d", s.ret)
	return b.String()
}

// heldKeys returns the keys known to be held (write or read) in deterministic order.
func (s *lfState) heldKeys() []string {
	var out []string
	for k, v := range s.keys {
		if v.mode == kHeld || v.r > 0 {
			out = append(out, k)
		}
	}
	sort.Strings(out)
	return out
}

func (s *lfState) holdsClass(class string) bool {
	for _, v := range s.keys {
		if v.class == class && (v.mode == kHeld || v.r > 0) {
			return true
		}
	}
	return false
}

// Event is something a function may do that matters to a caller holding locks.
type Event struct {
	Kind     string // "block" | "acquire"
	Class    string // for acquire: the lock class; for block: kind of blocking operation
	Desc     string
	Pos      token.Pos
	Chain    []string        // call chain from the summarised function down to the operation
	Released map[string]bool // keys (in the summarised function's naming) known released at that point
	ViaPile  bool            // acquisition goes through a LockPile (try-lock with back-off)
	Chans    []*types.Var    // for waits: the struct fields holding the awaited channels (condition waits)
	Iface    bool            // some call on the chain was an interface call resolved by class hierarchy
	OtherArm bool            // the wait also has arms that are not field channels (ctx.Done(), timers, parameters)
}

func (e *Event) id() string {
	rs := make([]string, 0, len(e.Released))
	for k := range e.Released {
		rs = append(rs, k)
	}
	sort.Strings(rs)
	return fmt.Sprintf("%s|%s|%d|%v|%v|%s", e.Kind, e.Class, e.Pos, e.ViaPile, e.Iface, strings.Join(rs, ","))
}

// KeyEffect is the summarised effect of a function on one lock key (in its own naming).
type KeyEffect struct {
	Key      string
	Class    string
	Pre      keyMode // kHeld: requires held; kNotHeld: acquires from unheld; kUnknown: none
	Delta    int     // +1 returns with the lock held in addition, -1 released, 0 balanced
	DeltaR   int
	Touched  bool // the function released the key at some point although it is held again on return
	Conflict string
}

// GuardAccess is an access to a guarded field at a point where its lock class is not known held.
type GuardAccess struct {
	Class string
	Field string
	Pos   token.Pos
	Chain []string
}

type FuncSummary struct {
	Name    string
	Fn      *types.Func
	Lit     *ast.FuncLit
	Decl    *ast.FuncDecl
	Pkg     *packages.Package
	Recv    string   // receiver identifier name
	Params  []string // parameter identifier names (flattened)
	Body    *ast.BlockStmt
	Effects map[string]*KeyEffect
	// EffectsFail: when non-nil, the function's effect on its locks depends on its error result:
	// Effects applies when it returns nil, EffectsFail when it returns an error (e.g. a wait helper
	// that "returns with the lock held on success and dropped on failure")
	EffectsFail map[string]*KeyEffect
	Events      map[string]*Event
	Needs       map[string]*GuardAccess // class -> first unguarded access (transitive)
	Diags       []lfDiag
	Exits       int
	Paths       int
	// IsGoroutine / IsCallback: function literals that are not inlined
	LitRole string
	// ParamCallHeld: for function-typed parameters that the function invokes: the lock classes held at
	// every such invocation (param name -> set). Absent = the parameter is never invoked directly.
	ParamCallHeld map[string]map[string]bool
	// Called: some function of the repository calls this one directly (static call)
	Called bool
	// lock operations seen (for instance counting)
	LockOps    int
	EvOverflow bool
}

type lfDiag struct {
	Kind string // balance | double-lock | unlock-unheld | requires | pile | noblock | order-edge | guarded | undecided
	Key  string
	Pos  token.Pos
	Msg  string
	Path []string
}

// OrderEdge is one observed "B acquired while A held".
type OrderEdge struct {
	From, To string
	Pos      token.Pos
	Func     string
	Chain    []string
	ViaPile  bool
}

type LockEngine struct {
	P       *Program
	Sums    map[any]*FuncSummary // key: *types.Func or *ast.FuncLit
	Order   []*FuncSummary
	Edges   map[string]*OrderEdge
	Guarded map[*types.Var]string // field -> lock class that must be held
	GuardOK func(fn *FuncSummary, field *types.Var, pos token.Pos) bool
	// extra blocking callees (frozen per lock class): callee -> classes under which it must not be called
	BlockingCallees map[*types.Func]string
	IfaceImpls      map[*types.Func][]*types.Func // interface method -> repo implementations (thorough)
	iter            int
	final           bool
	Stats           map[string]int
	// Singleton: lock classes with one instance per component, so that class-level reasoning through
	// class-hierarchy-resolved interface calls is instance-level reasoning (value = reason)
	Singleton map[string]string
	Wakers    map[*types.Var][]*FuncSummary // channel field -> functions that close or send on it
	// GuardedTypes: named container types (heaps, sortable lists) whose manipulation through
	// container/heap or sort counts as an access to state guarded by the given lock class
	GuardedTypes map[*types.TypeName]string
	// CallbackPolicy: callee -> how function literals passed to it run: "async" (later, nothing held)
	// or "held:<class>" (later, under that lock by construction); default = synchronously, now
	CallbackPolicy map[*types.Func]string
	// TreatAsHeld: functions documented to be called with a given class held (callbacks run under a lock)
	AssumeHeld map[any][]string
}

// ---------------------------------------------------------------------------
// expression canonicalisation

type fctx struct {
	eng       *LockEngine
	sum       *FuncSummary
	info      *types.Info
	aliases   map[*types.Var]ast.Expr
	selects   map[ast.Stmt]*ast.SelectStmt // comm stmt -> its select
	selFirst  map[*ast.SelectStmt]ast.Stmt
	boolConds map[ast.Expr]bool
	litVars   map[*types.Var]*ast.FuncLit // local variables bound once to a function literal
	condUse   map[string]int              // how many branch conditions mention each memo key
	localPile map[string]bool             // LockPile variables declared in this function (by value)
	depth     int
	exits     []*lfState
	diagSeen  map[string]bool
	// errorResult: the analysed function's last result is an error (exits are classified ok/fail)
	errorResult bool
}

func (fc *fctx) canon(e ast.Expr) string {
	switch x := e.(type) {
	case *ast.ParenExpr:
		return fc.canon(x.X)
	case *ast.UnaryExpr:
		if x.Op == token.AND {
			return fc.canon(x.X)
		}
	case *ast.StarExpr:
		return fc.canon(x.X)
	case *ast.Ident:
		if v, ok := fc.info.Uses[x].(*types.Var); ok {
			if a, ok := fc.aliases[v]; ok {
				return fc.canon(a)
			}
		}
		return x.Name
	case *ast.SelectorExpr:
		return fc.canon(x.X) + "." + x.Sel.Name
	case *ast.IndexExpr:
		return fc.canon(x.X) + "[" + types.ExprString(x.Index) + "]"
	case *ast.CallExpr:
		return types.ExprString(x)
	}
	return types.ExprString(e)
}

// lockClass computes "pkg.Type.field" for a mutex-typed expression.
func (fc *fctx) lockClass(e ast.Expr) string {
	switch x := e.(type) {
	case *ast.ParenExpr:
		return fc.lockClass(x.X)
	case *ast.UnaryExpr:
		if x.Op == token.AND {
			return fc.lockClass(x.X)
		}
	case *ast.StarExpr:
		return fc.lockClass(x.X)
	case *ast.Ident:
		if v, ok := fc.info.Uses[x].(*types.Var); ok {
			if a, ok := fc.aliases[v]; ok {
				return fc.lockClass(a)
			}
			if v.IsField() {
				return "field." + v.Name()
			}
			if v.Pkg() != nil && v.Parent() == v.Pkg().Scope() {
				return v.Pkg().Name() + "." + v.Name()
			}
			return "var:" + typeShort(v.Type())
		}
	case *ast.SelectorExpr:
		if sel, ok := fc.info.Selections[x]; ok {
			return typeShort(sel.Recv()) + "." + x.Sel.Name
		}
		return fc.canon(x)
	}
	return "expr:" + fc.canon(e)
}

func typeShort(t types.Type) string {
	for {
		if p, ok := t.(*types.Pointer); ok {
			t = p.Elem()
			continue
		}
		break
	}
	switch n := t.(type) {
	case *types.Named:
		pkg := ""
		if n.Obj().Pkg() != nil {
			pkg = n.Obj().Pkg().Name() + "."
		}
		return pkg + n.Obj().Name()
	case *types.Alias:
		return n.Obj().Name()
	}
	return t.String()
}

// ---------------------------------------------------------------------------
// primitive recognition

type primOp int

const (
	opNone primOp = iota
	opLock
	opUnlock
	opRLock
	opRUnlock
	opTryLock
	opPileLock
	opPileUnlock
	opPileUnlockAll
	opWaitGroupWait
	opSleep
	opCondWait
)

func namedIs(t types.Type, pkgPath, name string) bool {
	for {
		if p, ok := t.(*types.Pointer); ok {
			t = p.Elem()
			continue
		}
		break
	}
	n, ok := t.(*types.Named)
	if !ok || n.Obj().Pkg() == nil {
		return false
	}
	return n.Obj().Pkg().Path() == pkgPath && n.Obj().Name() == name
}

func calleeOf(info *types.Info, call *ast.CallExpr) *types.Func {
	var id *ast.Ident
	switch f := ast.Unparen(call.Fun).(type) {
	case *ast.Ident:
		id = f
	case *ast.SelectorExpr:
		id = f.Sel
	case *ast.IndexExpr: // generic instantiation
		switch g := f.X.(type) {
		case *ast.Ident:
			id = g
		case *ast.SelectorExpr:
			id = g.Sel
		}
	}
	if id == nil {
		return nil
	}
	fn, _ := info.Uses[id].(*types.Func)
	if fn != nil {
		fn = fn.Origin()
	}
	return fn
}

// classify recognises the primitives; recvExpr is the expression denoting the lock/pile.
func (fc *fctx) classify(call *ast.CallExpr) (primOp, ast.Expr) {
	fn := calleeOf(fc.info, call)
	if fn == nil {
		return opNone, nil
	}
	sig := fn.Type().(*types.Signature)
	if sig.Recv() == nil {
		if fn.Pkg() != nil && fn.Pkg().Path() == "time" && fn.Name() == "Sleep" {
			return opSleep, nil
		}
		return opNone, nil
	}
	sel, _ := ast.Unparen(call.Fun).(*ast.SelectorExpr)
	if sel == nil {
		return opNone, nil
	}
	rt := sig.Recv().Type()
	switch {
	case namedIs(rt, "sync", "Mutex") || namedIs(rt, "sync", "RWMutex"):
		var op primOp
		switch fn.Name() {
		case "Lock":
			op = opLock
		case "Unlock":
			op = opUnlock
		case "RLock":
			op = opRLock
		case "RUnlock":
			op = opRUnlock
		case "TryLock", "TryRLock":
			op = opTryLock
		default:
			return opNone, nil
		}
		return op, fc.lockOperand(sel)
	case namedIs(rt, modPath+"/pkg/sync", "LockPile"):
		switch fn.Name() {
		case "Lock":
			return opPileLock, sel.X
		case "Unlock":
			return opPileUnlock, sel.X
		case "UnlockAll":
			return opPileUnlockAll, sel.X
		}
	case namedIs(rt, "sync", "WaitGroup") && fn.Name() == "Wait":
		return opWaitGroupWait, sel.X
	case namedIs(rt, "golang.org/x/sync/errgroup", "Group") && fn.Name() == "Wait":
		return opWaitGroupWait, sel.X
	case namedIs(rt, "sync", "Cond") && fn.Name() == "Wait":
		return opCondWait, sel.X
	}
	// interface sync.Locker
	if types.IsInterface(rt) && fn.Pkg() != nil && fn.Pkg().Path() == "sync" {
		switch fn.Name() {
		case "Lock":
			return opLock, sel.X
		case "Unlock":
			return opUnlock, sel.X
		}
	}
	return opNone, nil
}

// lockOperand handles promoted methods of embedded mutexes: x.Lock() with x embedding sync.Mutex.
type syntheticSel struct {
	ast.Expr
	base ast.Expr
	path string
}

func (fc *fctx) lockOperand(sel *ast.SelectorExpr) ast.Expr {
	return sel.X
}

// ---------------------------------------------------------------------------
// engine construction

func NewLockEngine(p *Program) *LockEngine {
	return &LockEngine{P: p, Sums: map[any]*FuncSummary{}, Edges: map[string]*OrderEdge{}, Guarded: map[*types.Var]string{}, BlockingCallees: map[*types.Func]string{}, Stats: map[string]int{}, AssumeHeld: map[any][]string{}, GuardedTypes: map[*types.TypeName]string{}, CallbackPolicy: map[*types.Func]string{}}
}

func isNoReturnCall(info *types.Info, call *ast.CallExpr) bool {
	if id, ok := ast.Unparen(call.Fun).(*ast.Ident); ok {
		if b, ok := info.Uses[id].(*types.Builtin); ok && b.Name() == "panic" {
			return true
		}
	}
	fn := calleeOf(info, call)
	if fn == nil || fn.Pkg() == nil {
		return false
	}
	switch fn.Pkg().Path() {
	case "os":
		return fn.Name() == "Exit"
	case "log":
		return strings.HasPrefix(fn.Name(), "Fatal") || strings.HasPrefix(fn.Name(), "Panic")
	}
	return false
}

// Run computes summaries for every function with a body in the loaded repository packages,
// iterating until the summaries stop changing.
func (e *LockEngine) Run() {
	// collect functions
	for _, pkg := range e.P.Pkgs {
		for _, f := range pkg.Syntax {
			for _, d := range f.Decls {
				fd, ok := d.(*ast.FuncDecl)
				if !ok || fd.Body == nil {
					continue
				}
				fn, _ := pkg.TypesInfo.Defs[fd.Name].(*types.Func)
				if fn == nil {
					continue
				}
				s := &FuncSummary{Name: FuncName(fn), Fn: fn, Decl: fd, Pkg: pkg, Body: fd.Body}
				if fd.Recv != nil && len(fd.Recv.List) > 0 && len(fd.Recv.List[0].Names) > 0 {
					s.Recv = fd.Recv.List[0].Names[0].Name
				}
				s.Params = paramNames(fd.Type)
				e.Sums[fn] = s
				e.Order = append(e.Order, s)
				// function literals that are not inlined become their own units
				e.collectLits(s, pkg, fd.Body)
			}
		}
	}
	e.indexWakers()
	for e.iter = 0; e.iter < 8; e.iter++ {
		changed := false
		for _, s := range e.Order {
			if e.analyse(s) {
				changed = true
			}
		}
		if !changed {
			break
		}
	}
	// final pass: diagnostics are only recorded against stable callee summaries
	e.final = true
	e.Edges = map[string]*OrderEdge{}
	for _, s := range e.Order {
		e.analyse(s)
	}
}

func paramNames(ft *ast.FuncType) []string {
	var out []string
	if ft.Params == nil {
		return out
	}
	for _, f := range ft.Params.List {
		if len(f.Names) == 0 {
			out = append(out, "_")
		}
		for _, n := range f.Names {
			out = append(out, n.Name)
		}
	}
	return out
}

// collectLits registers function literals as separate units unless they are invoked
// in place (immediately called or deferred), in which case they are analysed inline.
func (e *LockEngine) collectLits(parent *FuncSummary, pkg *packages.Package, body *ast.BlockStmt) {
	inline := map[*ast.FuncLit]bool{}
	goLits := map[*ast.FuncLit]bool{}
	ast.Inspect(body, func(n ast.Node) bool {
		switch x := n.(type) {
		case *ast.CallExpr:
			if fl, ok := ast.Unparen(x.Fun).(*ast.FuncLit); ok {
				inline[fl] = true
			}
		case *ast.GoStmt:
			if fl, ok := ast.Unparen(x.Call.Fun).(*ast.FuncLit); ok {
				goLits[fl] = true
			}
		}
		return true
	})
	// literals bound once to a local variable are inlined at their call sites too, but they are
	// ALSO analysed as units (they may escape).
	n := 0
	ast.Inspect(body, func(nd ast.Node) bool {
		fl, ok := nd.(*ast.FuncLit)
		if !ok {
			return true
		}
		n++
		if inline[fl] && !goLits[fl] {
			return true // analysed inline only
		}
		s := &FuncSummary{Name: fmt.Sprintf("%s$lit@%s", parent.Name, e.P.Pos(fl.Pos())), Lit: fl, Pkg: pkg, Body: fl.Body, Recv: parent.Recv}
		s.Params = paramNames(fl.Type)
		s.LitRole = "value"
		if goLits[fl] {
			s.LitRole = "goroutine"
		}
		e.Sums[fl] = s
		e.Order = append(e.Order, s)
		return true
	})
}

// ---------------------------------------------------------------------------
// per-function analysis

func (e *LockEngine) analyse(s *FuncSummary) (changed bool) {
	info := s.Pkg.TypesInfo
	fc := &fctx{eng: e, sum: s, info: info, aliases: map[*types.Var]ast.Expr{}, selects: map[ast.Stmt]*ast.SelectStmt{}, selFirst: map[*ast.SelectStmt]ast.Stmt{}, boolConds: map[ast.Expr]bool{}, litVars: map[*types.Var]*ast.FuncLit{}, diagSeen: map[string]bool{}, condUse: map[string]int{}, localPile: map[string]bool{}}
	oldSig := summarySig(s)
	var ftype *types.Signature
	if s.Fn != nil {
		ftype, _ = s.Fn.Type().(*types.Signature)
	} else if s.Lit != nil {
		if tv, ok := info.Types[s.Lit]; ok {
			ftype, _ = tv.Type.(*types.Signature)
		}
	}
	if ftype != nil && ftype.Results().Len() > 0 && isErrorType(ftype.Results().At(ftype.Results().Len()-1).Type()) {
		fc.errorResult = true
	}
	s.Diags = nil
	s.Events = map[string]*Event{}
	s.Needs = map[string]*GuardAccess{}
	s.LockOps = 0
	s.EvOverflow = false
	s.ParamCallHeld = nil
	fc.prepass(s.Body)
	init := newState()
	for _, c := range e.AssumeHeld[s.key()] {
		_ = c
	}
	exits := fc.runBody(s.Body, init)
	s.Exits = len(exits)
	fc.finish(exits)
	return summarySig(s) != oldSig
}

func (s *FuncSummary) key() any {
	if s.Fn != nil {
		return s.Fn
	}
	return s.Lit
}

func summarySig(s *FuncSummary) string {
	var b strings.Builder
	ks := make([]string, 0, len(s.Effects))
	for k := range s.Effects {
		ks = append(ks, k)
	}
	sort.Strings(ks)
	for _, k := range ks {
		ef := s.Effects[k]
		fmt.Fprintf(&b, "%s:%d:%d:%d:%v;", k, ef.Pre, ef.Delta, ef.DeltaR, ef.Touched)
	}
	b.WriteString("#F")
	ks = ks[:0]
	for k := range s.EffectsFail {
		ks = append(ks, k)
	}
	sort.Strings(ks)
	for _, k := range ks {
		ef := s.EffectsFail[k]
		fmt.Fprintf(&b, "%s:%d:%d:%d:%v;", k, ef.Pre, ef.Delta, ef.DeltaR, ef.Touched)
	}
	b.WriteString("#")
	ks = ks[:0]
	for k := range s.Events {
		ks = append(ks, k)
	}
	sort.Strings(ks)
	b.WriteString(strings.Join(ks, ";"))
	b.WriteString("#")
	ks = ks[:0]
	for k := range s.Needs {
		ks = append(ks, k)
	}
	sort.Strings(ks)
	b.WriteString(strings.Join(ks, ";"))
	return b.String()
}

func (fc *fctx) prepass(body *ast.BlockStmt) {
	info := fc.info
	assignCount := map[*types.Var]int{}
	firstRHS := map[*types.Var]ast.Expr{}
	addrTaken := map[*types.Var]bool{}
	var markCond func(e ast.Expr)
	markCond = func(e ast.Expr) {
		if e == nil {
			return
		}
		fc.boolConds[e] = true
	}
	ast.Inspect(body, func(n ast.Node) bool {
		switch x := n.(type) {
		case *ast.FuncLit:
			// aliases inside nested literals are still function-local facts; keep walking
			return true
		case *ast.AssignStmt:
			for i, lhs := range x.Lhs {
				id, ok := lhs.(*ast.Ident)
				if !ok {
					continue
				}
				var v *types.Var
				if x.Tok == token.DEFINE {
					v, _ = info.Defs[id].(*types.Var)
					if v == nil {
						v, _ = info.Uses[id].(*types.Var)
					}
				} else {
					v, _ = info.Uses[id].(*types.Var)
				}
				if v == nil {
					continue
				}
				assignCount[v]++
				if len(x.Lhs) == len(x.Rhs) && assignCount[v] == 1 {
					firstRHS[v] = x.Rhs[i]
				} else {
					delete(firstRHS, v)
				}
			}
		case *ast.IncDecStmt:
			if id, ok := x.X.(*ast.Ident); ok {
				if v, _ := info.Uses[id].(*types.Var); v != nil {
					assignCount[v] += 2
				}
			}
		case *ast.RangeStmt:
			for _, kv := range []ast.Expr{x.Key, x.Value} {
				if id, ok := kv.(*ast.Ident); ok {
					if v, _ := info.Defs[id].(*types.Var); v != nil {
						assignCount[v] += 2
					}
				}
			}
		case *ast.UnaryExpr:
			if x.Op == token.AND {
				if id, ok := ast.Unparen(x.X).(*ast.Ident); ok {
					if v, _ := info.Uses[id].(*types.Var); v != nil {
						addrTaken[v] = true
					}
				}
			}
		case *ast.SelectStmt:
			var first ast.Stmt
			for _, c := range x.Body.List {
				cc := c.(*ast.CommClause)
				if cc.Comm != nil {
					fc.selects[cc.Comm] = x
					if first == nil {
						first = cc.Comm
					}
				}
			}
			fc.selFirst[x] = first
		case *ast.IfStmt:
			markCond(x.Cond)
		case *ast.ForStmt:
			markCond(x.Cond)
		case *ast.SwitchStmt:
			if x.Tag == nil {
				for _, c := range x.Body.List {
					for _, ce := range c.(*ast.CaseClause).List {
						markCond(ce)
					}
				}
			}
		}
		return true
	})
	for ce := range fc.boolConds {
		fc.countCondKeys(ce)
	}
	for v, rhs := range firstRHS {
		if assignCount[v] != 1 {
			continue
		}
		if fl, ok := ast.Unparen(rhs).(*ast.FuncLit); ok {
			fc.litVars[v] = fl
			continue
		}
		if addrTaken[v] {
			continue
		}
		if isPurePath(rhs) {
			fc.aliases[v] = rhs
		}
	}
}

func isPurePath(e ast.Expr) bool {
	switch x := e.(type) {
	case *ast.Ident:
		return x.Name != "nil" && x.Name != "true" && x.Name != "false"
	case *ast.SelectorExpr:
		return isPurePath(x.X)
	case *ast.ParenExpr:
		return isPurePath(x.X)
	case *ast.StarExpr:
		return isPurePath(x.X)
	case *ast.UnaryExpr:
		return x.Op == token.AND && isPurePath(x.X)
	}
	return false
}

const maxStatesPerBlock = 96

// runBody runs the dataflow over one function body starting from init and returns the states
// at its (returning) exits, after running deferred calls.
func (fc *fctx) runBody(body *ast.BlockStmt, init *lfState) []*lfState {
	fc.depth++
	defer func() { fc.depth-- }()
	if fc.depth > 6 {
		fc.diag("undecided", "", body.Pos(), "function literal nesting too deep to inline", nil)
		return []*lfState{init}
	}
	g := cfg.New(body, func(c *ast.CallExpr) bool { return !isNoReturnCall(fc.info, c) })
	if len(g.Blocks) == 0 {
		return []*lfState{init}
	}
	in := make([]map[string]*lfState, len(g.Blocks))
	for i := range in {
		in[i] = map[string]*lfState{}
	}
	idx := map[*cfg.Block]int{}
	for i, b := range g.Blocks {
		idx[b] = i
	}
	type item struct {
		b  int
		st *lfState
	}
	var exits []*lfState
	exitSeen := map[string]bool{}
	work := []item{{0, init}}
	in[0][init.sig()] = init
	steps := 0
	for len(work) > 0 {
		it := work[len(work)-1]
		work = work[:len(work)-1]
		steps++
		if steps > 200000 {
			fc.diag("undecided", "", body.Pos(), "state space too large", nil)
			break
		}
		blk := g.Blocks[it.b]
		if blk.Kind == cfg.KindSelectAfterCase && len(blk.Succs) == 0 {
			continue // "no case ready" continuation of a select without default: not a path
		}
		outs := fc.transferBlock(blk, it.st)
		for _, o := range outs {
			if o.term {
				continue
			}
			if len(blk.Succs) == 0 || o.returned {
				// function exit: run defers
				for _, ex := range fc.runDefers(o.st) {
					sg := ex.sig()
					if !exitSeen[sg] {
						exitSeen[sg] = true
						exits = append(exits, ex)
					}
				}
				continue
			}
			for si, succ := range blk.Succs {
				st := o.st
				if len(blk.Succs) == 2 && o.cond != nil {
					val, known := fc.evalCond(o.cond, st)
					if known && val != (si == 0) {
						continue
					}
					st = st.clone()
					fc.assume(o.cond, si == 0, st)
				} else if len(blk.Succs) == 2 && o.tryKey != "" {
					st = st.clone()
					if si == 0 {
						ks := st.keys[o.tryKey]
						ks.mode = kHeld
						ks.class = o.tryClass
						st.keys[o.tryKey] = ks
					}
				}
				j := idx[succ]
				sg := st.sig()
				if _, ok := in[j][sg]; ok {
					continue
				}
				if len(in[j]) >= maxStatesPerBlock {
					fc.diag("undecided", "", body.Pos(), fmt.Sprintf("more than %d abstract states at one program point", maxStatesPerBlock), nil)
					continue
				}
				in[j][sg] = st
				work = append(work, item{j, st})
			}
		}
	}
	fc.sum.Paths += len(exits)
	return exits
}

type blockOut struct {
	st       *lfState
	cond     ast.Expr // branch condition when the block ends in a two-way branch on a boolean
	tryKey   string
	tryClass string
	returned bool
	term     bool // path ends without returning (panic)
}

// transferBlock interprets the nodes of one block. Inlined function literals may fork the state.
func (fc *fctx) transferBlock(blk *cfg.Block, st0 *lfState) []blockOut {
	cur := []*lfState{st0.clone()}
	var last ast.Node
	for _, n := range blk.Nodes {
		last = n
		var next []*lfState
		for _, st := range cur {
			next = append(next, fc.transferNode(n, st)...)
		}
		cur = dedupStates(next)
		if len(cur) == 0 {
			return nil
		}
	}
	var outs []blockOut
	for _, st := range cur {
		o := blockOut{st: st}
		if last != nil {
			if _, ok := last.(*ast.ReturnStmt); ok {
				o.returned = true
			}
			if es, ok := last.(*ast.ExprStmt); ok {
				if c, ok := es.X.(*ast.CallExpr); ok && isNoReturnCall(fc.info, c) {
					o.term = true
				}
			}
			if len(blk.Succs) == 2 {
				if e, ok := last.(ast.Expr); ok {
					if fc.boolConds[e] {
						o.cond = e
					}
					// if x.TryLock() { ... }
					if c, ok := ast.Unparen(e).(*ast.CallExpr); ok {
						if op, operand := fc.classify(c); op == opTryLock {
							o.tryKey = fc.canon(operand)
							o.tryClass = fc.lockClass(operand)
							o.cond = nil
						}
					}
				}
			}
		}
		outs = append(outs, o)
	}
	return outs
}

func dedupStates(in []*lfState) []*lfState {
	if len(in) <= 1 {
		return in
	}
	seen := map[string]bool{}
	var out []*lfState
	for _, s := range in {
		sg := s.sig()
		if !seen[sg] {
			seen[sg] = true
			out = append(out, s)
		}
	}
	return out
}

// runDefers executes the deferred calls of a state in LIFO order.
func (fc *fctx) runDefers(st *lfState) []*lfState {
	cur := []*lfState{st.clone()}
	for {
		progressed := false
		var next []*lfState
		for _, s := range cur {
			if len(s.defers) == 0 {
				next = append(next, s)
				continue
			}
			progressed = true
			d := s.defers[len(s.defers)-1]
			s.defers = s.defers[:len(s.defers)-1]
			call := d.(*ast.CallExpr)
			// arguments of a deferred call were evaluated at the defer statement; only the call itself runs now
			next = append(next, fc.doCall(call, s, true)...)
		}
		cur = dedupStates(next)
		if !progressed {
			return cur
		}
	}
}

// transferNode interprets one CFG node.
func (fc *fctx) transferNode(n ast.Node, st *lfState) []*lfState {
	st.callOutcome = "" // only meaningful within the statement that made the call
	switch x := n.(type) {
	case *ast.DeferStmt:
		// evaluate arguments now (they may contain calls), run the call at exit
		cur := []*lfState{st}
		for _, a := range x.Call.Args {
			cur = fc.evalExprs(a, cur)
		}
		if sel, ok := ast.Unparen(x.Call.Fun).(*ast.SelectorExpr); ok {
			cur = fc.evalExprs(sel.X, cur)
		}
		for _, s := range cur {
			s.defers = append(s.defers, x.Call)
		}
		return cur
	case *ast.GoStmt:
		cur := []*lfState{st}
		for _, a := range x.Call.Args {
			cur = fc.evalExprs(a, cur)
		}
		// the goroutine body is its own unit; a call to a declared function is a root elsewhere
		return cur
	case *ast.ReturnStmt:
		cur := []*lfState{st}
		for _, r := range x.Results {
			cur = fc.evalExprs(r, cur)
		}
		for _, s := range cur {
			s.ret = x.Pos()
			s.retClass = ""
			outcome := s.callOutcome
			s.callOutcome = ""
			if fc.errorResult && len(x.Results) == 1 && outcome != "" {
				if _, isCall := ast.Unparen(x.Results[0]).(*ast.CallExpr); isCall {
					s.retClass = outcome
					continue
				}
			}
			if fc.errorResult && len(x.Results) > 0 {
				if isNilIdent(x.Results[len(x.Results)-1]) {
					s.retClass = "ok"
				} else {
					s.retClass = "fail"
				}
			}
		}
		return cur
	case *ast.SendStmt:
		cur := fc.evalExprs(x.Chan, []*lfState{st})
		cur = fc.evalExprs(x.Value, cur)
		if sel := fc.selects[x]; sel != nil {
			fc.selectOp(sel, x, cur)
		} else {
			for _, s := range cur {
				fc.blockingOp(s, "chan-send", "send on channel "+fc.canon(x.Chan), x.Pos())
			}
		}
		return cur
	case *ast.AssignStmt:
		cur := []*lfState{st}
		if sel := fc.selects[x]; sel != nil {
			fc.selectOp(sel, x, cur)
			// do not treat the receive as a separate blocking operation
			for _, s := range cur {
				fc.invalidate(s, x.Lhs)
			}
			return cur
		}
		for _, r := range x.Rhs {
			cur = fc.evalExprs(r, cur)
		}
		for _, l := range x.Lhs {
			if _, ok := l.(*ast.Ident); !ok {
				cur = fc.evalExprs(l, cur)
			}
		}
		for _, s := range cur {
			fc.invalidate(s, x.Lhs)
			// result-correlated callee: the error variable now tells which way the callee went
			if s.callOutcome != "" && len(x.Rhs) == 1 {
				if id, ok := x.Lhs[len(x.Lhs)-1].(*ast.Ident); ok && id.Name != "_" {
					if _, isCall := ast.Unparen(x.Rhs[0]).(*ast.CallExpr); isCall {
						s.memo[fc.cmpKey(id, ast.NewIdent("nil"))] = s.callOutcome == "ok"
					}
				}
			}
			s.callOutcome = ""
			// boolean flag tracking
			if len(x.Lhs) == len(x.Rhs) {
				for i, l := range x.Lhs {
					if id, ok := l.(*ast.Ident); ok {
						if rid, ok := ast.Unparen(x.Rhs[i]).(*ast.Ident); ok && (rid.Name == "true" || rid.Name == "false") {
							if _, isConst := fc.info.Uses[rid].(*types.Const); isConst && fc.condUse[id.Name] >= 1 {
								s.memo[id.Name] = rid.Name == "true"
							}
						}
					}
				}
			}
			fc.guardWrites(s, x.Lhs)
		}
		return cur
	case *ast.IncDecStmt:
		cur := fc.evalExprs(x.X, []*lfState{st})
		for _, s := range cur {
			fc.invalidate(s, []ast.Expr{x.X})
		}
		return cur
	case *ast.ExprStmt:
		if sel := fc.selects[x]; sel != nil {
			cur := []*lfState{st}
			fc.selectOp(sel, x, cur)
			return cur
		}
		return fc.evalExprs(x.X, []*lfState{st})
	case *ast.DeclStmt:
		cur := []*lfState{st}
		if gd, ok := x.Decl.(*ast.GenDecl); ok {
			for _, sp := range gd.Specs {
				if vs, ok := sp.(*ast.ValueSpec); ok {
					for _, v := range vs.Values {
						cur = fc.evalExprs(v, cur)
					}
					for i, nm := range vs.Names {
						if i < len(vs.Values) {
							if rid, ok := ast.Unparen(vs.Values[i]).(*ast.Ident); ok && (rid.Name == "true" || rid.Name == "false") {
								for _, s := range cur {
									if fc.condUse[nm.Name] >= 1 {
										s.memo[nm.Name] = rid.Name == "true"
									}
								}
							}
						}
					}
				}
			}
		}
		return cur
	case ast.Expr:
		return fc.evalExprs(x, []*lfState{st})
	case *ast.EmptyStmt, *ast.LabeledStmt, *ast.BranchStmt:
		return []*lfState{st}
	}
	// other statements never appear as CFG nodes; be conservative
	return []*lfState{st}
}

// selectOp records a select statement as one blocking operation (once, at its first comm clause).
func (fc *fctx) selectOp(sel *ast.SelectStmt, comm ast.Stmt, sts []*lfState) {
	if fc.selFirst[sel] != comm {
		return
	}
	for _, c := range sel.Body.List {
		if c.(*ast.CommClause).Comm == nil {
			return // has default: never blocks
		}
	}
	var chans []ast.Expr
	for _, c := range sel.Body.List {
		switch cm := c.(*ast.CommClause).Comm.(type) {
		case *ast.ExprStmt:
			if u, ok := ast.Unparen(cm.X).(*ast.UnaryExpr); ok && u.Op == token.ARROW {
				chans = append(chans, u.X)
			}
		case *ast.AssignStmt:
			if len(cm.Rhs) == 1 {
				if u, ok := ast.Unparen(cm.Rhs[0]).(*ast.UnaryExpr); ok && u.Op == token.ARROW {
					chans = append(chans, u.X)
				}
			}
		case *ast.SendStmt:
			chans = append(chans, cm.Chan)
		}
	}
	// the channel operands of all cases are evaluated on entry to the select: reads of guarded fields
	for _, ch := range chans {
		fc.evalExprs(ch, sts)
	}
	for _, s := range sts {
		fc.blockingOp(s, "select", "select without default", sel.Pos(), chans...)
	}
}

// evalExprs walks an expression in evaluation order, applying calls and channel receives.
func (fc *fctx) evalExprs(e ast.Expr, sts []*lfState) []*lfState {
	if e == nil {
		return sts
	}
	switch x := e.(type) {
	case *ast.FuncLit:
		return sts // not invoked here
	case *ast.CallExpr:
		// receiver / function expression
		switch f := ast.Unparen(x.Fun).(type) {
		case *ast.SelectorExpr:
			sts = fc.evalExprs(f.X, sts)
		case *ast.FuncLit:
		case *ast.Ident:
		default:
			sts = fc.evalExprs(x.Fun, sts)
		}
		for _, a := range x.Args {
			sts = fc.evalExprs(a, sts)
		}
		var out []*lfState
		for _, s := range sts {
			out = append(out, fc.doCall(x, s, false)...)
		}
		return dedupStates(out)
	case *ast.UnaryExpr:
		sts = fc.evalExprs(x.X, sts)
		if x.Op == token.ARROW {
			for _, s := range sts {
				fc.blockingOp(s, "chan-recv", "receive from channel "+fc.canon(x.X), x.Pos(), x.X)
			}
		}
		return sts
	case *ast.BinaryExpr:
		sts = fc.evalExprs(x.X, sts)
		return fc.evalExprs(x.Y, sts)
	case *ast.ParenExpr:
		return fc.evalExprs(x.X, sts)
	case *ast.SelectorExpr:
		sts = fc.evalExprs(x.X, sts)
		for _, s := range sts {
			fc.guardAccess(s, x)
		}
		return sts
	case *ast.IndexExpr:
		sts = fc.evalExprs(x.X, sts)
		return fc.evalExprs(x.Index, sts)
	case *ast.SliceExpr:
		sts = fc.evalExprs(x.X, sts)
		sts = fc.evalExprs(x.Low, sts)
		sts = fc.evalExprs(x.High, sts)
		return fc.evalExprs(x.Max, sts)
	case *ast.StarExpr:
		return fc.evalExprs(x.X, sts)
	case *ast.TypeAssertExpr:
		return fc.evalExprs(x.X, sts)
	case *ast.KeyValueExpr:
		if _, isIdent := x.Key.(*ast.Ident); !isIdent {
			sts = fc.evalExprs(x.Key, sts)
		}
		return fc.evalExprs(x.Value, sts)
	case *ast.CompositeLit:
		for _, el := range x.Elts {
			sts = fc.evalExprs(el, sts)
		}
		return sts
	}
	return sts
}

// ---------------------------------------------------------------------------
// conditions

func (fc *fctx) condKey(e ast.Expr) (key string, neg bool, ok bool) {
	e = ast.Unparen(e)
	switch x := e.(type) {
	case *ast.Ident:
		if x.Name == "true" || x.Name == "false" {
			return "", false, false
		}
		return x.Name, false, true
	case *ast.SelectorExpr:
		if isPurePath(x) {
			return fc.canonNoAlias(x), false, true
		}
	case *ast.UnaryExpr:
		if x.Op == token.NOT {
			k, n, ok := fc.condKey(x.X)
			return k, !n, ok
		}
	case *ast.BinaryExpr:
		if hasCall(x) {
			return "", false, false
		}
		switch x.Op {
		case token.EQL:
			return fc.cmpKey(x.X, x.Y), false, true
		case token.NEQ:
			return fc.cmpKey(x.X, x.Y), true, true
		case token.LSS, token.GTR, token.LEQ, token.GEQ:
			return types.ExprString(x), false, true
		}
	}
	return "", false, false
}

func (fc *fctx) canonNoAlias(e ast.Expr) string { return types.ExprString(e) }

func (fc *fctx) cmpKey(a, b ast.Expr) string {
	sa, sb := types.ExprString(a), types.ExprString(b)
	if sa > sb {
		sa, sb = sb, sa
	}
	return sa + " == " + sb
}

func hasCall(e ast.Expr) bool {
	found := false
	ast.Inspect(e, func(n ast.Node) bool {
		switch x := n.(type) {
		case *ast.CallExpr:
			// conversions and len/cap are pure
			if id, ok := x.Fun.(*ast.Ident); ok && (id.Name == "len" || id.Name == "cap") {
				return true
			}
			found = true
		case *ast.UnaryExpr:
			if x.Op == token.ARROW {
				found = true
			}
		}
		return !found
	})
	return found
}

func (fc *fctx) evalCond(e ast.Expr, st *lfState) (val, known bool) {
	e = ast.Unparen(e)
	switch x := e.(type) {
	case *ast.Ident:
		if c, ok := fc.info.Uses[x].(*types.Const); ok && (x.Name == "true" || x.Name == "false") {
			_ = c
			return x.Name == "true", true
		}
	case *ast.UnaryExpr:
		if x.Op == token.NOT {
			v, k := fc.evalCond(x.X, st)
			return !v, k
		}
	case *ast.BinaryExpr:
		switch x.Op {
		case token.LAND:
			va, ka := fc.evalCond(x.X, st)
			vb, kb := fc.evalCond(x.Y, st)
			if (ka && !va) || (kb && !vb && !hasCall(x.X)) {
				return false, true
			}
			if ka && kb {
				return va && vb, true
			}
			return false, false
		case token.LOR:
			va, ka := fc.evalCond(x.X, st)
			vb, kb := fc.evalCond(x.Y, st)
			if (ka && va) || (kb && vb && !hasCall(x.X)) {
				return true, true
			}
			if ka && kb {
				return va || vb, true
			}
			return false, false
		}
	}
	if k, neg, ok := fc.condKey(e); ok {
		if v, ok := st.memo[k]; ok {
			return v != neg, true
		}
	}
	return false, false
}

// countCondKeys counts, per memo key, the branch conditions it occurs in; only keys that are
// tested more than once can correlate two branches, so only those are memoised.
func (fc *fctx) countCondKeys(e ast.Expr) {
	e = ast.Unparen(e)
	switch x := e.(type) {
	case *ast.UnaryExpr:
		if x.Op == token.NOT {
			fc.countCondKeys(x.X)
			return
		}
	case *ast.BinaryExpr:
		if x.Op == token.LAND || x.Op == token.LOR {
			fc.countCondKeys(x.X)
			fc.countCondKeys(x.Y)
			return
		}
	}
	if k, _, ok := fc.condKey(e); ok {
		fc.condUse[k]++
	}
}

func (fc *fctx) assume(e ast.Expr, val bool, st *lfState) {
	e = ast.Unparen(e)
	switch x := e.(type) {
	case *ast.UnaryExpr:
		if x.Op == token.NOT {
			fc.assume(x.X, !val, st)
			return
		}
	case *ast.BinaryExpr:
		if x.Op == token.LAND && val {
			fc.assume(x.X, true, st)
			fc.assume(x.Y, true, st)
			return
		}
		if x.Op == token.LOR && !val {
			fc.assume(x.X, false, st)
			fc.assume(x.Y, false, st)
			return
		}
		if x.Op == token.LAND || x.Op == token.LOR {
			return
		}
	}
	if k, neg, ok := fc.condKey(e); ok && fc.condUse[k] >= 2 {
		st.memo[k] = val != neg
	}
}

// invalidate forgets memoised conditions that mention an assigned variable.
func (fc *fctx) invalidate(st *lfState, lhs []ast.Expr) {
	for _, l := range lhs {
		root := rootIdent(l)
		if root == "" || root == "_" {
			continue
		}
		full := types.ExprString(ast.Unparen(l))
		for k := range st.memo {
			if mentions(k, root, full) {
				delete(st.memo, k)
			}
		}
	}
}

func rootIdent(e ast.Expr) string {
	for {
		switch x := e.(type) {
		case *ast.Ident:
			return x.Name
		case *ast.SelectorExpr:
			e = x.X
		case *ast.IndexExpr:
			e = x.X
		case *ast.StarExpr:
			e = x.X
		case *ast.ParenExpr:
			e = x.X
		default:
			return ""
		}
	}
}

// mentions reports whether memo key k refers to the assigned location: the whole variable
// (root assigned directly) or the exact path / a prefix of it.
func mentions(k, root, full string) bool {
	toks := splitIdents(k)
	if full == root {
		for _, t := range toks {
			if t == root || strings.HasPrefix(t, root+".") {
				return true
			}
		}
		return false
	}
	for _, t := range toks {
		if t == full || strings.HasPrefix(t, full+".") || strings.HasPrefix(full, t+".") {
			return true
		}
	}
	return false
}

func splitIdents(k string) []string {
	var out []string
	cur := strings.Builder{}
	flush := func() {
		if cur.Len() > 0 {
			out = append(out, cur.String())
			cur.Reset()
		}
	}
	for _, r := range k {
		if r == '.' || r == '_' || (r >= 'a' && r <= 'z') || (r >= 'A' && r <= 'Z') || (r >= '0' && r <= '9') {
			cur.WriteRune(r)
		} else {
			flush()
		}
	}
	flush()
	return out
}

// ---------------------------------------------------------------------------
// diagnostics and events

func (fc *fctx) diag(kind, key string, pos token.Pos, msg string, path []string) {
	id := fmt.Sprintf("%s|%s|%d|%s", kind, key, pos, msg)
	if fc.diagSeen[id] {
		return
	}
	fc.diagSeen[id] = true
	fc.sum.Diags = append(fc.sum.Diags, lfDiag{Kind: kind, Key: key, Pos: pos, Msg: msg, Path: path})
}

func (fc *fctx) released(st *lfState) map[string]bool {
	r := map[string]bool{}
	for k, v := range st.keys {
		if v.mode == kNotHeld && v.r == 0 {
			r[k] = true
		}
	}
	return r
}

func (fc *fctx) addEvent(ev *Event) {
	if len(fc.sum.Events) >= 600 {
		if _, ok := fc.sum.Events[ev.id()]; !ok {
			fc.sum.EvOverflow = true
			return
		}
	}
	if _, ok := fc.sum.Events[ev.id()]; !ok {
		fc.sum.Events[ev.id()] = ev
	}
}

// blockingOp handles a primitive blocking operation at pos.
func (fc *fctx) blockingOp(st *lfState, kind, desc string, pos token.Pos, chans ...ast.Expr) {
	var fields []*types.Var
	other := false
	for _, ce := range chans {
		if f := fc.chanField(ce); f != nil {
			fields = append(fields, f)
		} else {
			other = true
		}
	}
	held := st.heldKeys()
	if len(held) > 0 {
		fc.diag("noblock", strings.Join(held, ","), pos, fmt.Sprintf("%s while holding %s", desc, strings.Join(held, ", ")), nil)
	}
	fc.addEvent(&Event{Kind: "block", Class: kind, Desc: desc, Pos: pos, Chain: []string{fmt.Sprintf("%s: %s", fc.eng.P.Pos(pos), desc)}, Released: fc.released(st), Chans: fields, OtherArm: other})
}

// chanField resolves a channel expression to the struct field it was loaded from, following
// single-assignment local snapshots (c := f.wakeup).
func (fc *fctx) chanField(e ast.Expr) *types.Var {
	e = ast.Unparen(e)
	switch x := e.(type) {
	case *ast.Ident:
		if v, ok := fc.info.Uses[x].(*types.Var); ok {
			if a, ok := fc.aliases[v]; ok {
				return fc.chanField(a)
			}
		}
	case *ast.SelectorExpr:
		if sel, ok := fc.info.Selections[x]; ok && sel.Kind() == types.FieldVal {
			if v, ok := sel.Obj().(*types.Var); ok {
				return v
			}
		}
	}
	return nil
}

// acquireOp records a blocking acquisition for lock-order purposes.
func (fc *fctx) acquireOp(st *lfState, key, class string, pos token.Pos, viaPile bool, pileName string) {
	for _, hk := range st.heldKeys() {
		hv := st.keys[hk]
		if hk == key {
			continue
		}
		if viaPile && hv.pile == pileName && pileName != "" {
			continue // both in the same pile: try-lock with back-off
		}
		fc.eng.addEdge(&OrderEdge{From: hv.class, To: class, Pos: pos, Func: fc.sum.Name, Chain: []string{fmt.Sprintf("%s: acquires %s (%s) while holding %s (%s)", fc.eng.P.Pos(pos), key, class, hk, hv.class)}, ViaPile: viaPile})
	}
	fc.addEvent(&Event{Kind: "acquire", Class: class, Desc: "acquires " + class, Pos: pos, Chain: []string{fmt.Sprintf("%s: acquires %s", fc.eng.P.Pos(pos), key)}, Released: fc.released(st), ViaPile: viaPile})
}

func (e *LockEngine) addEdge(ed *OrderEdge) {
	if !e.final {
		return
	}
	id := ed.From + "->" + ed.To + "@" + ed.Func
	if _, ok := e.Edges[id]; !ok {
		e.Edges[id] = ed
	}
}

// ---------------------------------------------------------------------------
// guarded fields

func (fc *fctx) guardAccess(st *lfState, sel *ast.SelectorExpr) {
	if len(fc.eng.Guarded) == 0 {
		return
	}
	s, ok := fc.info.Selections[sel]
	if !ok || s.Kind() != types.FieldVal {
		return
	}
	v, _ := s.Obj().(*types.Var)
	class, ok := fc.eng.Guarded[v]
	if !ok {
		return
	}
	fc.sum.LockOps += 0
	fc.eng.Stats["guarded-accesses"]++
	if st.holdsClass(class) {
		return
	}
	if fc.eng.GuardOK != nil && fc.eng.GuardOK(fc.sum, v, sel.Pos()) {
		return
	}
	// a lock of this class that was held on entry has been released on this path: nothing the caller
	// holds protects the access any more. (A lock taken and released locally leaves the function where
	// it started: then the caller must hold one, which is recorded as a need below.)
	for k, ks := range st.keys {
		if ks.class == class && ks.mode == kNotHeld && st.pre[k] == kHeld {
			fc.diag("guarded", class, sel.Pos(), fmt.Sprintf("field %s is accessed after %s was released", v.Name(), k), nil)
			return
		}
	}
	if _, ok := fc.sum.Needs[class]; !ok {
		fc.sum.Needs[class] = &GuardAccess{Class: class, Field: v.Name(), Pos: sel.Pos(), Chain: []string{fmt.Sprintf("%s: %s accesses field %s", fc.eng.P.Pos(sel.Pos()), fc.sum.Name, v.Name())}}
	}
}

func (fc *fctx) guardWrites(st *lfState, lhs []ast.Expr) {}

// guardNeed records that guarded state of class is touched at pos (through something other than a field selector).
func (fc *fctx) guardNeed(st *lfState, class, what string, pos token.Pos) {
	fc.eng.Stats["guarded-accesses"]++
	if st.holdsClass(class) {
		return
	}
	for k, ks := range st.keys {
		if ks.class == class && ks.mode == kNotHeld && st.pre[k] == kHeld {
			fc.diag("guarded", class, pos, fmt.Sprintf("%s is touched after %s was released", what, k), nil)
			return
		}
	}
	if _, ok := fc.sum.Needs[class]; !ok {
		fc.sum.Needs[class] = &GuardAccess{Class: class, Field: what, Pos: pos, Chain: []string{fmt.Sprintf("%s: %s touches %s", fc.eng.P.Pos(pos), fc.sum.Name, what)}}
	}
}

// ---------------------------------------------------------------------------
// calls

func (fc *fctx) doCall(call *ast.CallExpr, st *lfState, deferred bool) []*lfState {
	// immediately invoked / deferred function literal: inline
	if fl, ok := ast.Unparen(call.Fun).(*ast.FuncLit); ok {
		return fc.inlineLit(fl, st)
	}
	// local variable bound once to a literal
	if id, ok := ast.Unparen(call.Fun).(*ast.Ident); ok {
		if v, ok := fc.info.Uses[id].(*types.Var); ok {
			if fl, ok := fc.litVars[v]; ok {
				return fc.inlineLit(fl, st)
			}
		}
		if b, ok := fc.info.Uses[id].(*types.Builtin); ok {
			_ = b
			return []*lfState{st}
		}
		if v, ok := fc.info.Uses[id].(*types.Var); ok {
			if _, isSig := v.Type().Underlying().(*types.Signature); isSig {
				for _, pn := range fc.sum.Params {
					if pn == id.Name {
						held := map[string]bool{}
						for _, hk := range st.heldKeys() {
							held[st.keys[hk].class] = true
						}
						if fc.sum.ParamCallHeld == nil {
							fc.sum.ParamCallHeld = map[string]map[string]bool{}
						}
						if prev, ok := fc.sum.ParamCallHeld[pn]; ok {
							for c := range prev {
								if !held[c] {
									delete(prev, c)
								}
							}
						} else {
							fc.sum.ParamCallHeld[pn] = held
						}
					}
				}
			}
		}
	}
	op, operand := fc.classify(call)
	switch op {
	case opLock, opRLock:
		fc.sum.LockOps++
		key, class := fc.canon(operand), fc.lockClass(operand)
		ks := st.keys[key]
		ks.class = class
		if op == opLock {
			switch ks.mode {
			case kHeld:
				fc.diag("double-lock", key, call.Pos(), fmt.Sprintf("%s is locked while this path already holds it (self-deadlock)", key), nil)
			case kUnknown:
				if _, ok := st.pre[key]; !ok {
					st.pre[key] = kNotHeld
				}
			}
			fc.acquireOp(st, key, class, call.Pos(), false, "")
			ks.mode = kHeld
			ks.pile = ""
		} else {
			if ks.mode == kHeld {
				fc.diag("double-lock", key, call.Pos(), fmt.Sprintf("%s is read-locked while this path holds its write lock (self-deadlock)", key), nil)
			}
			fc.acquireOp(st, key, class, call.Pos(), false, "")
			ks.r++
			if ks.r > 4 {
				ks.r = 4
			}
		}
		st.keys[key] = ks
		return []*lfState{st}
	case opUnlock, opRUnlock:
		fc.sum.LockOps++
		key, class := fc.canon(operand), fc.lockClass(operand)
		ks := st.keys[key]
		ks.class = class
		if op == opUnlock {
			switch ks.mode {
			case kNotHeld:
				fc.diag("unlock-unheld", key, call.Pos(), fmt.Sprintf("%s is unlocked on a path on which it is not held", key), nil)
			case kUnknown:
				if ks.r > 0 {
					fc.diag("unlock-unheld", key, call.Pos(), fmt.Sprintf("%s is write-unlocked while only read-locked", key), nil)
				}
				if _, ok := st.pre[key]; !ok {
					st.pre[key] = kHeld
				}
			}
			ks.mode = kNotHeld
			ks.pile = ""
			st.broken[key] = true
		} else {
			if ks.r > 0 {
				ks.r--
			} else if ks.mode == kNotHeld {
				fc.diag("unlock-unheld", key, call.Pos(), fmt.Sprintf("%s is read-unlocked on a path on which it is not read-locked", key), nil)
			} else {
				// read lock held by the caller
				if _, ok := st.pre[key+"/R"]; !ok {
					st.pre[key+"/R"] = kHeld
				}
				ks.r = 0
				st.keys[key] = ks
				// model: caller's read lock released
				ek := st.keys[key+"/R"]
				ek.class = class
				ek.mode = kNotHeld
				st.keys[key+"/R"] = ek
				return []*lfState{st}
			}
		}
		st.keys[key] = ks
		return []*lfState{st}
	case opTryLock:
		// handled at the branch; a bare TryLock() whose result is discarded is not modelled
		return []*lfState{st}
	case opPileLock:
		fc.sum.LockOps++
		pile := fc.canon(operand)
		first := true
		if fc.pileIsLocal(operand) {
			fc.localPile[pile] = true
		} else {
			first = false // a pile owned by the caller may already hold locks
		}
		for _, ks := range st.keys {
			if ks.pile == pile && ks.mode == kHeld {
				first = false
			}
		}
		if st.piles[pile] {
			first = false
		}
		for _, a := range call.Args {
			key, class := fc.canon(a), fc.lockClass(a)
			ks := st.keys[key]
			ks.class = class
			if ks.mode == kHeld && ks.pile == "" {
				fc.diag("double-lock", key, call.Pos(), fmt.Sprintf("%s is added to LockPile %s while this path already holds it directly (self-deadlock)", key, pile), nil)
			}
			// the first lock of an empty pile is a blocking acquisition; later ones are try-locks
			// that back off, but they still block while NON-pile locks are held.
			fc.acquireOp(st, key, class, call.Pos(), !first, pile)
			first = false
			ks.mode = kHeld
			ks.pile = pile
			st.keys[key] = ks
		}
		st.piles[pile] = true
		return []*lfState{st}
	case opPileUnlock:
		fc.sum.LockOps++
		pile := fc.canon(operand)
		if len(call.Args) == 1 {
			key := fc.canon(call.Args[0])
			ks := st.keys[key]
			if ks.mode == kHeld && ks.pile == pile {
				ks.mode = kNotHeld
				ks.pile = ""
				st.keys[key] = ks
				st.broken[key] = true
			} else if fc.pileIsLocal(operand) && !fc.pileEscaped(st, pile) {
				fc.diag("pile", key, call.Pos(), fmt.Sprintf("LockPile %s.Unlock(%s): the lock is not in the pile on this path (would panic)", pile, key), nil)
			}
		}
		return []*lfState{st}
	case opPileUnlockAll:
		fc.sum.LockOps++
		pile := fc.canon(operand)
		for k, ks := range st.keys {
			if ks.pile == pile && ks.mode == kHeld {
				ks.mode = kNotHeld
				ks.pile = ""
				st.keys[k] = ks
				st.broken[k] = true
			}
		}
		st.piles[pile] = false
		delete(st.piles, pile+"#escaped")
		return []*lfState{st}
	case opWaitGroupWait:
		fc.blockingOp(st, "wait", "Wait() on "+fc.canon(operand), call.Pos())
		return []*lfState{st}
	case opSleep:
		fc.blockingOp(st, "sleep", "time.Sleep", call.Pos())
		return []*lfState{st}
	case opCondWait:
		return []*lfState{st}
	}

	// calls to declared functions / methods
	fn := calleeOf(fc.info, call)
	// guarded container manipulated through container/heap or sort
	if fn != nil && fn.Pkg() != nil && (fn.Pkg().Path() == "container/heap" || fn.Pkg().Path() == "sort") && len(call.Args) > 0 && len(fc.eng.GuardedTypes) > 0 {
		if tv, ok := fc.info.Types[call.Args[0]]; ok {
			t := tv.Type
			if p, ok := t.(*types.Pointer); ok {
				t = p.Elem()
			}
			if n, ok := t.(*types.Named); ok {
				if class, ok := fc.eng.GuardedTypes[n.Obj()]; ok {
					fc.guardNeed(st, class, "container "+n.Obj().Name()+" via "+fn.Pkg().Name()+"."+fn.Name(), call.Pos())
				}
			}
		}
	}
	// function literals passed as arguments run synchronously inside the callee unless the callee is
	// known to defer them
	if fn != nil || true {
		policy := ""
		if fn != nil {
			policy = fc.eng.CallbackPolicy[fn]
		}
		if policy == "" {
			for ai, a := range call.Args {
				var fl *ast.FuncLit
				switch x := ast.Unparen(a).(type) {
				case *ast.FuncLit:
					fl = x
				case *ast.Ident:
					if v, ok := fc.info.Uses[x].(*types.Var); ok {
						fl = fc.litVars[v]
					}
				}
				if fl == nil {
					continue
				}
				if ls, ok := fc.eng.Sums[fl]; ok {
					// classes the callee is known to hold whenever it invokes this parameter
					var calleeHeld map[string]bool
					if fn != nil {
						if cs, ok := fc.eng.Sums[fn]; ok && ai < len(cs.Params) {
							calleeHeld = cs.ParamCallHeld[cs.Params[ai]]
						}
					}
					fc.applySummaryHeld(call, st, ls, calleeHeld)
					ls.LitRole = "sync-callback"
				}
			}
		}
	}
	// LockPile handed to a callee: it may add locks to it
	for _, a := range call.Args {
		if u, ok := ast.Unparen(a).(*ast.UnaryExpr); ok && u.Op == token.AND {
			if tv, ok := fc.info.Types[u.X]; ok && namedIs(tv.Type, modPath+"/pkg/sync", "LockPile") {
				pile := fc.canon(u.X)
				st.piles[pile] = true
				st.piles[pile+"#escaped"] = true
			}
		} else if tv, ok := fc.info.Types[a]; ok {
			if p, ok := tv.Type.(*types.Pointer); ok && namedIs(p.Elem(), modPath+"/pkg/sync", "LockPile") {
				pile := fc.canon(a)
				st.piles[pile] = true
				st.piles[pile+"#escaped"] = true
			}
		}
	}
	if fn == nil {
		// a call through a function VALUE that is neither a literal bound in this function nor one of
		// its parameters (those are followed): code the analysis cannot see runs here
		if tv, ok := fc.info.Types[call.Fun]; ok && !tv.IsType() && !tv.IsBuiltin() {
			if _, isSig := tv.Type.Underlying().(*types.Signature); isSig {
				known := false
				switch x := ast.Unparen(call.Fun).(type) {
				case *ast.FuncLit:
					known = true
				case *ast.Ident:
					if v, ok := fc.info.Uses[x].(*types.Var); ok {
						if fc.litVars[v] != nil {
							known = true
						}
						for _, pn := range fc.sum.Params {
							if pn == x.Name {
								known = true
							}
						}
					}
				}
				// frozen exemption: virtual.StringMatcher values are pure string predicates by contract
				// (regexp.MatchString-shaped); they cannot call back into the file system
				if named, ok := tv.Type.(*types.Named); ok && named.Obj().Name() == "StringMatcher" {
					known = true
				}
				if !known {
					for _, hk := range st.heldKeys() {
						fc.diag("callback", hk, call.Pos(), fmt.Sprintf("call through the function value %s while holding %s: the callee is unknown code that may re-enter and take the same lock", types.ExprString(call.Fun), hk), nil)
					}
				}
			}
		}
		return []*lfState{st}
	}
	// frozen extra blocking callees
	if classes, ok := fc.eng.BlockingCallees[fn]; ok {
		for _, hk := range st.heldKeys() {
			if classes == "*" || strings.Contains(classes, st.keys[hk].class) {
				fc.diag("noblock", hk, call.Pos(), fmt.Sprintf("call to %s, which may block, while holding %s", FuncName(fn), hk), nil)
			}
		}
		fc.addEvent(&Event{Kind: "block", Class: "call:" + FuncName(fn), Desc: "call to " + FuncName(fn) + " (may block)", Pos: call.Pos(), Chain: []string{fmt.Sprintf("%s: calls %s", fc.eng.P.Pos(call.Pos()), FuncName(fn))}, Released: fc.released(st)})
	}
	var sums []*FuncSummary
	direct := true
	if s, ok := fc.eng.Sums[fn]; ok {
		sums = append(sums, s)
	} else if impls, ok := fc.eng.IfaceImpls[fn]; ok {
		direct = false
		for _, im := range impls {
			if s, ok := fc.eng.Sums[im]; ok {
				sums = append(sums, s)
			}
		}
	}
	if direct && len(sums) == 1 && sums[0].EffectsFail != nil {
		// the callee's effect on its locks depends on whether it returns an error: follow both
		failSt := st.clone()
		fc.applySummaryEff(call, st, sums[0], true, sums[0].Effects)
		st.callOutcome = "ok"
		fc.applySummaryEff(call, failSt, sums[0], true, sums[0].EffectsFail)
		failSt.callOutcome = "fail"
		return []*lfState{st, failSt}
	}
	for _, cs := range sums {
		fc.applySummary(call, st, cs, direct)
	}
	return []*lfState{st}
}

func (fc *fctx) pileIsLocal(operand ast.Expr) bool {
	id, ok := ast.Unparen(operand).(*ast.Ident)
	if !ok {
		return false
	}
	v, ok := fc.info.Uses[id].(*types.Var)
	if !ok {
		return false
	}
	_, isPtr := v.Type().(*types.Pointer)
	return !isPtr
}

func (fc *fctx) pileEscaped(st *lfState, pile string) bool { return st.piles[pile+"#escaped"] }

func (fc *fctx) inlineLit(fl *ast.FuncLit, st *lfState) []*lfState {
	saved := st.defers
	inner := st.clone()
	inner.defers = nil
	// nested prepass for selects/conditions inside the literal is already covered: prepass walks into literals
	outs := fc.runBody(fl.Body, inner)
	for _, o := range outs {
		o.defers = append([]ast.Node{}, saved...)
		o.ret = st.ret
	}
	if len(outs) == 0 {
		// the literal never returns (panics on all paths)
		return nil
	}
	return outs
}

// translate maps a key in the callee's naming to the caller's naming; ok=false if the key is
// rooted at a callee local.
func (fc *fctx) translate(call *ast.CallExpr, cs *FuncSummary, key string) (string, bool) {
	suffix := ""
	base := key
	if strings.HasSuffix(base, "/R") {
		base = strings.TrimSuffix(base, "/R")
		suffix = "/R"
	}
	root := base
	rest := ""
	if i := strings.IndexAny(base, ".["); i >= 0 {
		root = base[:i]
		rest = base[i:]
	}
	if cs.Lit != nil {
		// literal analysed as a unit shares the enclosing function's names
		return key, true
	}
	if cs.Recv != "" && root == cs.Recv {
		if sel, ok := ast.Unparen(call.Fun).(*ast.SelectorExpr); ok {
			return fc.canon(sel.X) + rest + suffix, true
		}
		return "", false
	}
	for i, p := range cs.Params {
		if p == root && p != "_" {
			if i < len(call.Args) {
				return fc.canon(call.Args[i]) + rest + suffix, true
			}
			return "", false
		}
	}
	// package-level variable?
	if cs.Pkg != nil && cs.Pkg.Types.Scope().Lookup(root) != nil {
		if cs.Pkg.Types == fc.sum.Pkg.Types {
			return key, true
		}
		return cs.Pkg.Types.Name() + "." + key, true
	}
	return "", false
}

// applySummaryHeld applies a callback's summary as if it ran inside the callee with extra lock
// classes held there.
func (fc *fctx) applySummaryHeld(call *ast.CallExpr, st *lfState, cs *FuncSummary, extra map[string]bool) {
	if len(extra) == 0 {
		fc.applySummary(call, st, cs, true)
		return
	}
	var added []string
	for c := range extra {
		if !st.holdsClass(c) {
			k := "(callee-held " + c + ")"
			st.keys[k] = keyState{mode: kHeld, class: c}
			added = append(added, k)
		}
	}
	fc.applySummary(call, st, cs, true)
	for _, k := range added {
		delete(st.keys, k)
	}
}

func (fc *fctx) applySummary(call *ast.CallExpr, st *lfState, cs *FuncSummary, direct bool) {
	fc.applySummaryEff(call, st, cs, direct, cs.Effects)
}

func (fc *fctx) applySummaryEff(call *ast.CallExpr, st *lfState, cs *FuncSummary, direct bool, effs map[string]*KeyEffect) {
	pos := call.Pos()
	if direct {
		cs.Called = true
	}
	relTrans := func(rel map[string]bool) map[string]bool {
		out := map[string]bool{}
		for k := range rel {
			if direct {
				if t, ok := fc.translate(call, cs, k); ok {
					out[t] = true
				}
			}
		}
		return out
	}
	// events first (they happen inside the callee, before its net effect is visible)
	evKeys := make([]string, 0, len(cs.Events))
	for k := range cs.Events {
		evKeys = append(evKeys, k)
	}
	sort.Strings(evKeys)
	for _, k := range evKeys {
		ev := cs.Events[k]
		rel := relTrans(ev.Released)
		direct := direct && !ev.Iface
		var stillHeld []string
		for _, hk := range st.heldKeys() {
			if !direct {
				// interface call resolved by class hierarchy: only sound for single-instance lock classes
				if _, ok := fc.eng.Singleton[st.keys[hk].class]; !ok {
					continue
				}
			}
			if !rel[hk] {
				stillHeld = append(stillHeld, hk)
			}
		}
		chain := append([]string{fmt.Sprintf("%s: %s calls %s", fc.eng.P.Pos(pos), fc.sum.Name, cs.Name)}, ev.Chain...)
		if len(chain) > 12 {
			chain = chain[:12]
		}
		if ev.Kind == "block" && len(stillHeld) > 0 && !direct {
			// reached through an interface call resolved by class hierarchy: the released set cannot be
			// translated. A condition wait (receive on channels stored in struct fields) is only unsafe
			// under a held lock if one of its wakers needs that lock.
			var unsafeHeld []string
			for _, hk := range stillHeld {
				if fc.eng.wakersNeed(ev, st.keys[hk].class) {
					unsafeHeld = append(unsafeHeld, hk)
				}
			}
			stillHeld = unsafeHeld
		}
		if ev.Kind == "block" && len(stillHeld) > 0 {
			fc.diag("noblock", strings.Join(stillHeld, ","), pos, fmt.Sprintf("call to %s may block (%s) while holding %s", cs.Name, ev.Desc, strings.Join(stillHeld, ", ")), chain)
		}
		if ev.Kind == "acquire" {
			for _, hk := range stillHeld {
				hv := st.keys[hk]
				if ev.ViaPile && hv.pile != "" {
					// a pile handed down to the callee: same try-lock discipline
					if fc.callPassesPile(call, hv.pile) {
						continue
					}
				}
				if !direct {
					if _, ok := fc.eng.Singleton[ev.Class]; !ok {
						continue
					}
				}
				fc.eng.addEdge(&OrderEdge{From: hv.class, To: ev.Class, Pos: pos, Func: fc.sum.Name, Chain: chain, ViaPile: ev.ViaPile})
			}
		}
		// propagate upwards with this function's released set
		nrel := fc.released(st)
		for r := range rel {
			nrel[r] = true
		}
		fc.addEvent(&Event{Kind: ev.Kind, Class: ev.Class, Desc: ev.Desc, Pos: ev.Pos, Chain: chain, Released: nrel, ViaPile: ev.ViaPile, Chans: ev.Chans, OtherArm: ev.OtherArm, Iface: !direct})
	}
	if cs.EvOverflow {
		fc.sum.EvOverflow = true
	}
	// guarded-field needs
	for class, ga := range cs.Needs {
		if st.holdsClass(class) {
			continue
		}
		released := false
		for k, ks := range st.keys {
			if ks.class == class && ks.mode == kNotHeld && st.pre[k] == kHeld {
				fc.diag("guarded", class, pos, fmt.Sprintf("call to %s, which accesses %s-guarded state (field %s), after %s was released", cs.Name, class, ga.Field, k), ga.Chain)
				released = true
				break
			}
		}
		if released {
			continue
		}
		if _, ok := fc.sum.Needs[class]; !ok {
			chain := append([]string{fmt.Sprintf("%s: %s calls %s", fc.eng.P.Pos(pos), fc.sum.Name, cs.Name)}, ga.Chain...)
			if len(chain) > 12 {
				chain = chain[:12]
			}
			fc.sum.Needs[class] = &GuardAccess{Class: class, Field: ga.Field, Pos: pos, Chain: chain}
		}
	}
	if !direct {
		return
	}
	// key effects
	efKeys := make([]string, 0, len(effs))
	for k := range effs {
		efKeys = append(efKeys, k)
	}
	sort.Strings(efKeys)
	for _, k := range efKeys {
		ef := effs[k]
		tk, ok := fc.translate(call, cs, k)
		if !ok {
			continue
		}
		ks := st.keys[tk]
		if ks.class == "" {
			ks.class = ef.Class
		}
		switch ef.Pre {
		case kHeld:
			switch ks.mode {
			case kNotHeld:
				fc.diag("requires", tk, pos, fmt.Sprintf("%s requires %s to be held, but this path released it", cs.Name, tk), nil)
			case kUnknown:
				if _, ok := st.pre[tk]; !ok {
					st.pre[tk] = kHeld
				}
				ks.mode = kHeld
			}
		case kNotHeld:
			if ks.mode == kHeld && ef.Delta >= 0 {
				fc.diag("double-lock", tk, pos, fmt.Sprintf("%s locks %s, which this path already holds (self-deadlock)", cs.Name, tk), nil)
			} else if ks.mode == kUnknown {
				if _, ok := st.pre[tk]; !ok {
					st.pre[tk] = kNotHeld
				}
			}
		}
		switch {
		case ef.Delta > 0:
			ks.mode = kHeld
			ks.pile = ""
		case ef.Delta < 0:
			if ks.mode == kNotHeld && ef.Pre != kHeld {
				fc.diag("unlock-unheld", tk, pos, fmt.Sprintf("%s releases %s, which is not held on this path", cs.Name, tk), nil)
			}
			if ks.mode == kUnknown {
				if _, ok := st.pre[tk]; !ok {
					st.pre[tk] = kHeld
				}
			}
			ks.mode = kNotHeld
			ks.pile = ""
			st.broken[tk] = true
		default:
			if ef.Touched {
				st.broken[tk] = true
			}
			if ef.Pre == kNotHeld && ks.mode == kUnknown {
				ks.mode = kNotHeld
			}
		}
		st.keys[tk] = ks
	}
}

func (fc *fctx) callPassesPile(call *ast.CallExpr, pile string) bool {
	for _, a := range call.Args {
		if fc.canon(a) == pile {
			return true
		}
	}
	return false
}

// ---------------------------------------------------------------------------
// summarisation of exits

func (fc *fctx) finish(exits []*lfState) {
	s := fc.sum
	type outcome struct {
		pre     keyMode
		delta   int
		deltaR  int
		touched bool
	}
	// LockPile discipline: a local pile must be empty at every exit
	for _, ex := range exits {
		for p, dirty := range ex.piles {
			if dirty && !strings.HasSuffix(p, "#escaped") && fc.isLocalPileName(p) {
				fc.diag("pile", p, s.Body.End(), fmt.Sprintf("LockPile %s may still hold locks when the function returns (no UnlockAll on this path)", p), nil)
			}
		}
	}
	type pendingDiag struct {
		key, msg string
		path     []string
	}
	compute := func(exits []*lfState) (map[string]*KeyEffect, []pendingDiag) {
		var pending []pendingDiag
		per := map[string]map[outcome]int{}
		classes := map[string]string{}
		allKeys := map[string]bool{}
		for _, ex := range exits {
			for k := range ex.keys {
				allKeys[k] = true
			}
		}
		for _, ex := range exits {
			for k := range allKeys {
				ks, touched := ex.keys[k]
				o := outcome{}
				if touched {
					classes[k] = ks.class
					pre := ex.pre[k]
					o.pre = pre
					preHeld := 0
					if pre == kHeld {
						preHeld = 1
					}
					fin := 0
					if ks.mode == kHeld && ks.pile != "" && !fc.localPile[ks.pile] {
						// held through a LockPile owned by the caller: the pile's owner releases it
						fin = preHeld
					} else if ks.mode == kHeld {
						fin = 1
					} else if ks.mode == kUnknown {
						fin = preHeld
					}
					o.delta = fin - preHeld
					o.deltaR = ks.r
					o.touched = ex.broken[k]
				}
				if per[k] == nil {
					per[k] = map[outcome]int{}
				}
				per[k][o]++
			}
		}
		effects := map[string]*KeyEffect{}
		keys := make([]string, 0, len(per))
		for k := range per {
			keys = append(keys, k)
		}
		sort.Strings(keys)
		for _, k := range keys {
			outs := per[k]
			ef := &KeyEffect{Key: k, Class: classes[k]}
			deltas := map[int]bool{}
			deltaRs := map[int]bool{}
			pres := map[keyMode]bool{}
			for o := range outs {
				deltas[o.delta] = true
				deltaRs[o.deltaR] = true
				if o.pre != kUnknown {
					pres[o.pre] = true
				}
				if o.touched {
					ef.Touched = true
				}
			}
			if len(deltas) > 1 || len(deltaRs) > 1 {
				var ds []string
				for o, n := range outs {
					ds = append(ds, fmt.Sprintf("%d exit state(s) with net %+d", n, o.delta+o.deltaR))
				}
				sort.Strings(ds)
				ef.Conflict = strings.Join(ds, "; ")
				pending = append(pending, pendingDiag{k, fmt.Sprintf("return paths disagree on lock %s: %s", k, ef.Conflict), fc.describeExits(k, exits)})
				// adopt the majority outcome for callers
			}
			if pres[kHeld] && pres[kNotHeld] {
				pending = append(pending, pendingDiag{k, fmt.Sprintf("some paths unlock %s first (require it held) while others lock it first", k), nil})
			}
			best, bestN := outcome{}, -1
			for o, n := range outs {
				if n > bestN || (n == bestN && (o.delta < best.delta)) {
					best, bestN = o, n
				}
			}
			ef.Delta, ef.DeltaR = best.delta, best.deltaR
			if pres[kHeld] {
				ef.Pre = kHeld
			} else if pres[kNotHeld] {
				// only "requires not held" if every exit path locked it first
				all := true
				for o := range outs {
					if o.pre != kNotHeld {
						all = false
					}
				}
				if all {
					ef.Pre = kNotHeld
				}
			}
			if ef.Delta != 0 || ef.DeltaR != 0 || ef.Pre != kUnknown || ef.Touched {
				effects[k] = ef
			}
		}
		return effects, pending
	}
	effects, pending := compute(exits)
	s.EffectsFail = nil
	if len(pending) > 0 && fc.errorResult {
		// do the exits agree once they are separated by the error result? Then the function's effect
		// on its locks is correlated with its result, which callers can follow.
		var okEx, failEx []*lfState
		for _, ex := range exits {
			switch ex.retClass {
			case "ok":
				okEx = append(okEx, ex)
			case "fail":
				failEx = append(failEx, ex)
			}
		}
		if len(okEx) > 0 && len(failEx) > 0 && len(okEx)+len(failEx) == len(exits) {
			okEff, okPend := compute(okEx)
			failEff, failPend := compute(failEx)
			if len(okPend) == 0 && len(failPend) == 0 {
				effects, pending = okEff, nil
				s.EffectsFail = failEff
				// a key known to one class only is neutral in the other
				for k, ef := range okEff {
					if _, ok := failEff[k]; !ok {
						failEff[k] = &KeyEffect{Key: k, Class: ef.Class, Pre: ef.Pre}
					}
				}
				for k, ef := range failEff {
					if _, ok := okEff[k]; !ok {
						okEff[k] = &KeyEffect{Key: k, Class: ef.Class, Pre: ef.Pre}
					}
				}
			}
		}
	}
	for _, pd := range pending {
		fc.diag("balance", pd.key, s.Body.Pos(), pd.msg, pd.path)
	}
	s.Effects = effects
	// blocking operations that happened while a pre-held key was still held (discovered later on the path)
	for _, ev := range s.Events {
		if ev.Kind != "block" || len(ev.Chain) != 1 {
			continue
		}
		for k, ef := range effects {
			if ef.Pre == kHeld && !ev.Released[k] {
				// was it already known held at the time? then it was reported directly
				fc.diag("noblock", k, ev.Pos, fmt.Sprintf("%s while %s (held on entry) has not been released yet", ev.Desc, k), nil)
			}
		}
	}
	if s.EvOverflow {
		fc.diag("undecided", "", s.Body.Pos(), "too many distinct blocking/acquiring operations to summarise", nil)
	}
}

func (fc *fctx) isLocalPileName(p string) bool { return fc.localPile[p] }

func (fc *fctx) describeExits(k string, exits []*lfState) []string {
	var out []string
	for i, ex := range exits {
		ks := ex.keys[k]
		m := "untouched"
		switch ks.mode {
		case kHeld:
			m = "HELD"
		case kNotHeld:
			m = "released"
		}
		var memo []string
		for c, v := range ex.memo {
			memo = append(memo, fmt.Sprintf("%s=%v", c, v))
		}
		sort.Strings(memo)
		if len(memo) > 6 {
			memo = memo[:6]
		}
		where := "end of function"
		if ex.ret.IsValid() {
			where = "return at " + fc.eng.P.Pos(ex.ret)
		}
		line := fmt.Sprintf("%s: %s %s", where, k, m)
		if len(memo) > 0 {
			line += "; path conditions: " + strings.Join(memo, ", ")
		}
		_ = i
		out = append(out, line)
		if len(out) >= 8 {
			break
		}
	}
	return out
}

// wakersNeed reports whether waking up the condition wait ev may require a lock of class `class`:
// true if the wait has no analysable (field) channel, or some function that closes/sends on one of
// the awaited field channels acquires or requires a lock of that class.
func (e *LockEngine) wakersNeed(ev *Event, class string) bool {
	if len(ev.Chans) == 0 {
		return ev.Class != "select" && ev.Class != "chan-recv" || !ev.OtherArm
	}
	for _, f := range ev.Chans {
		ws := e.Wakers[f]
		for _, w := range ws {
			for _, wev := range w.Events {
				if wev.Kind == "acquire" && wev.Class == class {
					return true
				}
			}
			for _, ef := range w.Effects {
				if ef.Class == class {
					return true
				}
			}
		}
	}
	return false
}

// indexWakers records, for every channel-typed struct field, the functions that close it or send on it.
func (e *LockEngine) indexWakers() {
	e.Wakers = map[*types.Var][]*FuncSummary{}
	for _, s := range e.Order {
		info := s.Pkg.TypesInfo
		add := func(x ast.Expr) {
			if sel, ok := ast.Unparen(x).(*ast.SelectorExpr); ok {
				if sl, ok := info.Selections[sel]; ok && sl.Kind() == types.FieldVal {
					if v, ok := sl.Obj().(*types.Var); ok {
						for _, w := range e.Wakers[v] {
							if w == s {
								return
							}
						}
						e.Wakers[v] = append(e.Wakers[v], s)
					}
				}
			}
		}
		ast.Inspect(s.Body, func(n ast.Node) bool {
			switch x := n.(type) {
			case *ast.FuncLit:
				return s.Lit == x || s.Lit == nil // literals that are their own unit are visited there too; harmless duplication
			case *ast.CallExpr:
				if id, ok := ast.Unparen(x.Fun).(*ast.Ident); ok && id.Name == "close" && len(x.Args) == 1 {
					if _, ok := info.Uses[id].(*types.Builtin); ok {
						add(x.Args[0])
					}
				}
			case *ast.SendStmt:
				add(x.Chan)
			}
			return true
		})
	}
}

// CallEffectOnClass reports how a (statically resolved) call affects locks of the given class:
// releases = the callee returns with the lock released or released it temporarily; acquires = net +1.
func (e *LockEngine) CallEffectOnClass(info *types.Info, call *ast.CallExpr, class string) (releases, acquires bool) {
	fn := calleeOf(info, call)
	if fn == nil {
		return false, false
	}
	s, ok := e.Sums[fn]
	if !ok {
		return false, false
	}
	for _, ef := range s.Effects {
		if ef.Class != class {
			continue
		}
		if ef.Delta < 0 || ef.Touched {
			releases = true
		}
		if ef.Delta > 0 {
			acquires = true
		}
	}
	return
}
