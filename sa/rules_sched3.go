package main

// Scheduler rules added after the third round of independently seeded changes (DESIGN.md §8.2).

import (
	"fmt"
	"go/ast"
	"go/token"
	"go/types"
	"strings"
)

// heapIndexFields: for every heap type of the scheduler package (a named slice type with a Swap
// method), the element field its Swap keeps equal to the element's position.
func heapIndexFields(p *Program) map[*types.TypeName]*types.Var {
	out := map[*types.TypeName]*types.Var{}
	for _, u := range p.UnitsIn(schedPkg) {
		if u.Fn.Name() != "Swap" || u.Decl.Recv == nil {
			continue
		}
		rt := u.Fn.Type().(*types.Signature).Recv().Type()
		named, ok := rt.(*types.Named)
		if !ok {
			continue
		}
		info := u.Info()
		ast.Inspect(u.Decl.Body, func(n ast.Node) bool {
			as, ok := n.(*ast.AssignStmt)
			if !ok || len(as.Lhs) != 1 || as.Tok != token.ASSIGN {
				return true
			}
			if f := fieldOf(info, as.Lhs[0]); f != nil {
				if _, isIdx := ast.Unparen(resolveLocalAlias(u, ast.Unparen(as.Lhs[0]).(*ast.SelectorExpr).X)).(*ast.IndexExpr); isIdx {
					out[named.Obj()] = f
				}
			}
			return true
		})
	}
	return out
}

// schedHeapIndex: elements leave and are re-sorted in a heap by their own recorded position.
func schedHeapIndex(c *Ctx) *RuleResult {
	r := &RuleResult{Rule: c.Prop + ".heap-index", Floor: 5,
		Doc: "a queued operation / invocation is taken out of (or re-sorted in) a heap by ITS OWN position: every heap.Remove / heap.Fix / heapRemoveOrFix / heapMaybeFix / heapPushOrFix on a heap whose Swap maintains an index field is given that index field of an element as position (for heapPushOrFix: of the very element that is pushed); heap.Pop, which removes whatever is on top, is never called with its result discarded"}
	p := c.P
	idxField := heapIndexFields(p)
	// the heap helpers of the package: plain functions taking (heap.Interface, position int, ...)
	isHeapHelper := func(fn *types.Func) bool {
		sig, ok := fn.Type().(*types.Signature)
		if !ok || sig.Recv() != nil || sig.Params().Len() < 2 {
			return false
		}
		return namedIs(sig.Params().At(0).Type(), "container/heap", "Interface") && isIntType(sig.Params().At(1).Type())
	}
	for _, u := range p.UnitsIn(schedPkg) {
		if isHeapHelper(u.Fn) {
			continue // the helpers themselves forward their parameters
		}
		info := u.Info()
		ast.Inspect(u.Decl.Body, func(n ast.Node) bool {
			// discarded Pop
			if es, ok := n.(*ast.ExprStmt); ok {
				if call, ok := es.X.(*ast.CallExpr); ok {
					if fn := calleeOf(info, call); fn != nil && fn.Pkg() != nil && fn.Pkg().Path() == "container/heap" && fn.Name() == "Pop" {
						r.bad(c.Prop, constructOf(u, "heap.Pop("+exprStr(call.Args[0])+") discarded"), posOf(p, call), "the element on top of the heap is removed and dropped, whichever it is: an element other than the intended one leaves the queue (a still-queued task is lost, the intended one stays queued and is handed out again)")
					}
				}
				return true
			}
			call, ok := n.(*ast.CallExpr)
			if !ok || len(call.Args) < 2 {
				return true
			}
			fn := calleeOf(info, call)
			if fn == nil {
				return true
			}
			isStd := fn.Pkg() != nil && fn.Pkg().Path() == "container/heap" && (fn.Name() == "Remove" || fn.Name() == "Fix")
			isHelper := fn.Pkg() != nil && relPkg(fn.Pkg()) == schedPkg && isHeapHelper(fn)
			if !isStd && !isHelper {
				return true
			}
			ue, ok := ast.Unparen(call.Args[0]).(*ast.UnaryExpr)
			if !ok || ue.Op != token.AND {
				return true
			}
			tv, ok := info.Types[ue.X]
			if !ok {
				return true
			}
			named, ok := tv.Type.(*types.Named)
			if !ok {
				return true
			}
			want := idxField[named.Obj()]
			if want == nil {
				return true // a heap without an index mirror (e.g. keyed through pointers)
			}
			construct := constructOf(u, fn.Name()+"("+exprStr(ue.X)+", "+exprStr(call.Args[1])+")")
			pos := resolveLocalAlias(u, call.Args[1])
			if fieldOf(info, pos) != want {
				r.bad(c.Prop, construct, posOf(p, call), "the position passed is not the "+want.Name()+" of an element: the wrong element is removed from / re-sorted in the heap")
				return true
			}
			if isHelper && len(call.Args) == 3 && !isIntType(fn.Type().(*types.Signature).Params().At(2).Type()) {
				if exprStr(ast.Unparen(pos).(*ast.SelectorExpr).X) != exprStr(call.Args[2]) {
					r.bad(c.Prop, construct, posOf(p, call), "the position belongs to a different element than the one that is pushed")
					return true
				}
			}
			r.ok(construct, posOf(p, call), "position = the element's own "+want.Name())
			return true
		})
	}
	return r
}

// schedHeapMembership: an invocation is in its parent's heap exactly while it has members.
func schedHeapMembership(c *Ctx) *RuleResult {
	r := &RuleResult{Rule: c.Prop + ".heap-membership", Floor: 2,
		Doc: "an invocation stays in its parent's heap of queued children (of children with idle workers) as long as it has queued operations OR queued children of its own (idle workers OR children with idle workers): the 'remaining members' count given to heapRemoveOrFix for X.parent.<heap> mentions both X.<heap> and X's direct container (queuedOperations / idleSynchronizingWorkers)"}
	p := c.P
	rem := p.LookupFunc(schedPkg, "heapRemoveOrFix")
	// keyed by the fields' current names (the anchors survive a rename of the fields)
	direct := map[string]string{
		p.LookupField(schedPkg, "invocation", "queuedChildren").Name():                   p.LookupField(schedPkg, "invocation", "queuedOperations").Name(),
		p.LookupField(schedPkg, "invocation", "idleSynchronizingWorkersChildren").Name(): p.LookupField(schedPkg, "invocation", "idleSynchronizingWorkers").Name(),
	}
	for _, cs := range CallsTo(p.UnitsIn(schedPkg), rem) {
		call := cs.Node.(*ast.CallExpr)
		info := cs.Unit.Info()
		ue, ok := ast.Unparen(call.Args[0]).(*ast.UnaryExpr)
		if !ok || len(call.Args) != 3 {
			continue
		}
		f := fieldOf(info, ue.X)
		if f == nil || direct[f.Name()] == "" {
			continue
		}
		construct := constructOf(cs.Unit, "members of "+f.Name())
		count := resolveLocalAlias(cs.Unit, call.Args[2])
		has := map[string]bool{}
		ast.Inspect(count, func(m ast.Node) bool {
			if sel, ok := m.(*ast.SelectorExpr); ok {
				if ff := fieldOf(info, sel); ff != nil {
					has[ff.Name()] = true
				}
			}
			return true
		})
		if has[f.Name()] && has[direct[f.Name()]] {
			r.ok(construct, posOf(p, call), "counts "+direct[f.Name()]+" and "+f.Name())
		} else {
			r.bad(c.Prop, construct, posOf(p, call), fmt.Sprintf("the invocation is removed from its parent's %s heap although it may still have members (%s counted: %v, %s counted: %v): tasks queued (workers waiting) below it become unreachable from the root", f.Name(), direct[f.Name()], has[direct[f.Name()]], f.Name(), has[f.Name()]))
		}
	}
	return r
}

// schedExecutingCount: the per-worker executing count of an invocation is a count.
func schedExecutingCount(c *Ctx) *RuleResult {
	r := &RuleResult{Rule: c.Prop + ".executing-count", Floor: 1,
		Doc: "a worker executing a task that several invocations (or one invocation through several operations) wait for is counted once per operation: an entry of invocation.executingWorkers is only deleted when its count, after a decrement in the same function, is zero; increments are ++"}
	p := c.P
	units := p.UnitsIn(schedPkg)
	ew := p.LookupField(schedPkg, "invocation", "executingWorkers")
	for _, w := range FieldWrites(units, ew, false) {
		del, ok := w.Node.(*ast.CallExpr)
		if !ok {
			continue
		}
		u := w.Unit
		info := u.Info()
		construct := constructOf(u, "delete(executingWorkers)")
		key := exprStr(del.Args[1])
		okZero := false
		for _, g := range flattenGuards(GuardsOf(info, u.Decl.Body, del)) {
			be, ok := ast.Unparen(g.Cond).(*ast.BinaryExpr)
			if !ok || !g.Pos || (be.Op != token.EQL && be.Op != token.LEQ) || exprStr(be.Y) != "0" {
				continue
			}
			if ix, ok := ast.Unparen(resolveLocalAlias(u, be.X)).(*ast.IndexExpr); ok && fieldOf(info, ix.X) == ew && exprStr(ix.Index) == key {
				okZero = true
			}
		}
		dec := false
		for _, w2 := range FieldWrites([]*FuncUnit{u}, ew, false) {
			if inc, ok := w2.Node.(*ast.IncDecStmt); ok && inc.Tok == token.DEC && inc.Pos() < del.Pos() {
				dec = true
			}
		}
		// equivalent form: the entry is read, deleted when it is exactly 1, and otherwise stored back
		// minus one
		if !dec && !okZero {
			okOne, storesBack := false, false
			var countVar string
			for _, g := range flattenGuards(GuardsOf(info, u.Decl.Body, del)) {
				be, ok := ast.Unparen(g.Cond).(*ast.BinaryExpr)
				if !ok || !g.Pos || be.Op != token.EQL || exprStr(be.Y) != "1" {
					continue
				}
				if ix, ok := ast.Unparen(resolveLocalAlias(u, be.X)).(*ast.IndexExpr); ok && fieldOf(info, ix.X) == ew && exprStr(ix.Index) == key {
					okOne = true
					countVar = exprStr(be.X)
				}
			}
			for _, w2 := range FieldWrites([]*FuncUnit{u}, ew, false) {
				if as, ok := w2.Node.(*ast.AssignStmt); ok && w2.RHS != nil {
					if be, ok := ast.Unparen(w2.RHS).(*ast.BinaryExpr); ok && be.Op == token.SUB && exprStr(be.X) == countVar && exprStr(be.Y) == "1" {
						_ = as
						storesBack = true
					}
				}
			}
			if okOne && storesBack {
				okZero, dec = true, true
			}
		}
		// third form: remaining := previous - 1; m[k] = remaining; if remaining == 0 { delete }
		if !dec || !okZero {
			for _, g := range flattenGuards(GuardsOf(info, u.Decl.Body, del)) {
				be, ok := ast.Unparen(g.Cond).(*ast.BinaryExpr)
				if !ok || !g.Pos || (be.Op != token.EQL && be.Op != token.LEQ) || exprStr(be.Y) != "0" {
					continue
				}
				rid, ok := ast.Unparen(be.X).(*ast.Ident)
				if !ok {
					continue
				}
				sub, ok := ast.Unparen(resolveLocalAlias(u, rid)).(*ast.BinaryExpr)
				if !ok || sub.Op != token.SUB || exprStr(sub.Y) != "1" {
					continue
				}
				ix, ok := ast.Unparen(resolveLocalAlias(u, sub.X)).(*ast.IndexExpr)
				if !ok || fieldOf(info, ix.X) != ew || exprStr(ix.Index) != key {
					continue
				}
				for _, w2 := range FieldWrites([]*FuncUnit{u}, ew, false) {
					if w2.RHS != nil && exprStr(w2.RHS) == rid.Name && w2.Node.Pos() < del.Pos() {
						okZero, dec = true, true
					}
				}
			}
		}
		if okZero && dec {
			r.ok(construct, posOf(p, del), "deleted only when the decremented count reached zero")
		} else {
			r.bad(c.Prop, construct, posOf(p, del), fmt.Sprintf("the entry is deleted without its count having been decremented to zero (decrement: %v, zero guard: %v): a task shared by several operations is un-counted for all of them when the first one finishes or leaves", dec, okZero))
		}
	}
	return r
}

// schedQueueRemovalCancel: a size class queue that (again) has a worker is not garbage collected.
func schedQueueRemovalCancel(c *Ctx) *RuleResult {
	r := &RuleResult{Rule: c.Prop + ".queue-removal-cancel", Floor: 1,
		Doc: "a size class queue with a worker in it is never scheduled for removal: on every path from looking up an existing sizeClassQueue to registering a worker in it (insertion into sizeClassQueue.workers) the queue's pending removal is cancelled (its cleanupKey is tested/removed) -- or the queue was created on that path"}
	p := c.P
	units := p.UnitsIn(schedPkg)
	workers := p.LookupField(schedPkg, "sizeClassQueue", "workers")
	ck := p.LookupField(schedPkg, "sizeClassQueue", "cleanupKey")
	scqs := p.LookupField(schedPkg, "InMemoryBuildQueue", "sizeClassQueues")
	for _, w := range FieldWrites(units, workers, false) {
		as, ok := w.Node.(*ast.AssignStmt)
		if !ok {
			continue
		}
		if _, isIdx := ast.Unparen(w.Expr).(*ast.IndexExpr); !isIdx {
			continue
		}
		u := w.Unit
		info := u.Info()
		// the queue variable
		qv := rootOfSelector(ast.Unparen(w.Expr).(*ast.IndexExpr).X)
		qid, ok := qv.(*ast.Ident)
		if !ok {
			continue
		}
		// decide(u, queue variable, registration point): "" = ok, "skip" = no lookup here
		var decide func(u *FuncUnit, qobj types.Object, to ast.Node, depth int) string
		decide = func(u *FuncUnit, qobj types.Object, to ast.Node, depth int) string {
			info := u.Info()
			var lookup ast.Node
			ast.Inspect(u.Decl.Body, func(n ast.Node) bool {
				la, ok := n.(*ast.AssignStmt)
				if !ok || len(la.Lhs) != 2 || len(la.Rhs) != 1 {
					return true
				}
				if ix, ok := ast.Unparen(la.Rhs[0]).(*ast.IndexExpr); ok && fieldOf(info, ix.X) == scqs {
					if lid, ok := la.Lhs[0].(*ast.Ident); ok && info.ObjectOf(lid) == qobj {
						lookup = la
					}
				}
				return true
			})
			if lookup == nil {
				// the queue comes from a find-or-create helper: decided inside the helper, for every
				// return of the queue it looked up
				var qident *ast.Ident
				ast.Inspect(u.Decl.Body, func(n ast.Node) bool {
					if as, ok := n.(*ast.AssignStmt); ok {
						for _, l := range as.Lhs {
							if lid, ok := l.(*ast.Ident); ok && info.ObjectOf(lid) == qobj {
								qident = lid
							}
						}
					}
					return true
				})
				if qident != nil {
					for _, dc := range definingCalls(u, qident) {
						hu := p.UnitOf(calleeOf(info, dc))
						if hu == nil {
							continue
						}
						hinfo := hu.Info()
						var hl *ast.AssignStmt
						ast.Inspect(hu.Decl.Body, func(n ast.Node) bool {
							la, ok := n.(*ast.AssignStmt)
							if ok && len(la.Lhs) == 2 && len(la.Rhs) == 1 {
								if ix, ok := ast.Unparen(la.Rhs[0]).(*ast.IndexExpr); ok && fieldOf(hinfo, ix.X) == scqs {
									hl = la
								}
							}
							return true
						})
						if hl == nil {
							continue
						}
						hq, ok := hl.Lhs[0].(*ast.Ident)
						if !ok {
							continue
						}
						hobj := hinfo.ObjectOf(hq)
						hg := NewFuncCFG(hinfo, hu.Decl.Body)
						res := ""
						ast.Inspect(hu.Decl.Body, func(n ast.Node) bool {
							ret, ok := n.(*ast.ReturnStmt)
							if !ok || len(ret.Results) == 0 {
								return true
							}
							rid, ok := ast.Unparen(ret.Results[0]).(*ast.Ident)
							if !ok || hinfo.ObjectOf(rid) != hobj {
								return true
							}
							if reach, _ := hg.ReachableWithout(hl, ret, func(m ast.Node) bool {
								if x, ok := m.(*ast.SelectorExpr); ok && fieldOf(hinfo, x) == ck {
									if id, ok := rootOfSelector(x).(*ast.Ident); ok && hinfo.ObjectOf(id) == hobj {
										return true
									}
								}
								return false
							}); reach {
								res = posOf(p, ret)
							}
							return true
						})
						return res
					}
				}
				// the queue is handed in by the caller: decided at every call site
				if depth > 1 {
					return "skip"
				}
				pi := -2
				sig := u.Fn.Type().(*types.Signature)
				if sig.Recv() != nil && sig.Recv() == qobj {
					pi = -1
				}
				for i := 0; i < sig.Params().Len(); i++ {
					if sig.Params().At(i) == qobj {
						pi = i
					}
				}
				sites := CallsTo(units, u.Fn)
				if pi == -2 || len(sites) == 0 {
					return "skip"
				}
				res := "skip"
				for _, cs := range sites {
					call := cs.Node.(*ast.CallExpr)
					var arg ast.Expr
					if pi == -1 {
						if sel, ok := ast.Unparen(call.Fun).(*ast.SelectorExpr); ok {
							arg = sel.X
						}
					} else if pi < len(call.Args) {
						arg = call.Args[pi]
					}
					aid, ok := rootOfSelector(arg).(*ast.Ident)
					if !ok || ast.Unparen(arg) != ast.Expr(aid) {
						continue
					}
					switch d := decide(cs.Unit, cs.Unit.Info().ObjectOf(aid), call, depth+1); d {
					case "skip":
					case "":
						if res == "skip" {
							res = ""
						}
					default:
						res = d
					}
				}
				return res
			}
			g := NewFuncCFG(info, u.Decl.Body)
			barrier := func(n ast.Node) bool {
				switch x := n.(type) {
				case *ast.SelectorExpr:
					if fieldOf(info, x) == ck {
						if id, ok := rootOfSelector(x).(*ast.Ident); ok && info.ObjectOf(id) == qobj {
							return true
						}
					}
				case *ast.AssignStmt:
					if x != lookup {
						for _, l := range x.Lhs {
							if lid, ok := l.(*ast.Ident); ok && info.ObjectOf(lid) == qobj {
								return true
							}
						}
					}
				}
				return false
			}
			if reach, _ := g.ReachableWithout(lookup, to, barrier); reach {
				return posOf(p, to)
			}
			return ""
		}
		construct := constructOf(u, "register worker in existing queue")
		switch d := decide(u, info.ObjectOf(qid), as, 0); d {
		case "skip":
		case "":
			r.ok(construct, posOf(p, as), "pending removal of the queue is cancelled (or the queue is new) on every path")
		default:
			r.bad(c.Prop, construct, d, "a worker can be registered in a size class queue that was found in the map without the queue's pending removal having been cancelled: the queue (and its platform queue) is removed underneath the live worker, which is then told to idle and handed a second task")
		}
	}
	return r
}

// schedFailedByWorker: only failures reported by a worker are retried on another size class.
func schedFailedByWorker(c *Ctx) *RuleResult {
	r := &RuleResult{Rule: c.Prop + ".failed-by-worker", Floor: 1,
		Doc: "errors that originate from the scheduler itself (operator kill, worker disappeared, no waiters, retry limit) are final: in task.complete the size-class learner's Failed() -- which may ask for a retry on the largest size class -- is only consulted under the 'completed by worker' parameter; otherwise the learner is abandoned"}
	p := c.P
	u := p.Unit(schedPkg, "task.complete")
	info := u.Info()
	var boolParam string
	sig := u.Fn.Type().(*types.Signature)
	for i := 0; i < sig.Params().Len(); i++ {
		if isBoolType(sig.Params().At(i).Type()) {
			boolParam = sig.Params().At(i).Name()
		}
	}
	if boolParam == "" {
		panic(anchorError("task.complete: boolean 'completed by worker' parameter"))
	}
	n := 0
	ast.Inspect(u.Decl.Body, func(m ast.Node) bool {
		call, ok := m.(*ast.CallExpr)
		if !ok {
			return true
		}
		sel, ok := ast.Unparen(call.Fun).(*ast.SelectorExpr)
		if !ok || sel.Sel.Name != "Failed" {
			return true
		}
		if fn := calleeOf(info, call); fn == nil || fn.Pkg() == nil || !strings.HasSuffix(fn.Pkg().Path(), "/initialsizeclass") {
			return true
		}
		n++
		construct := constructOf(u, "learner.Failed")
		okG := false
		for _, g := range flattenGuards(GuardsOf(info, u.Decl.Body, call)) {
			if id, ok := ast.Unparen(g.Cond).(*ast.Ident); ok && g.Pos && id.Name == boolParam {
				okG = true
			}
		}
		if okG {
			r.ok(construct, posOf(p, call), "only for completions reported by the worker")
		} else {
			r.bad(c.Prop, construct, posOf(p, call), "a completion that did not come from the worker (scheduler-originated error) is treated as a worker failure: the scheduler's final error is discarded, the task is re-queued on the largest size class and its clients do not receive their final message")
		}
		return true
	})
	if n == 0 {
		r.bad(c.Prop, constructOf(u, "learner.Failed"), posOf(p, u.Decl), "task.complete no longer reports failures to the size class learner")
	}
	return r
}

// schedSubsliceIndex: indices obtained by ranging over a sub-slice are not indices of the slice.
func schedSubsliceIndex(c *Ctx) *RuleResult {
	r := &RuleResult{Rule: "C04.subslice-index", Floor: 1,
		Doc: "per-level stickiness state is reset from the first level that was not retained onwards: no loop ranges over a sub-slice X[k:] (k != 0) and uses its index variable to index X itself (which addresses the first len-k levels instead of the last ones); the reset loop of worker.stickinessStartingTimes starts at the retained count"}
	p := c.P
	sst := p.LookupField(schedPkg, "worker", "stickinessStartingTimes")
	n := 0
	for _, u := range p.UnitsIn(schedPkg) {
		info := u.Info()
		ast.Inspect(u.Decl.Body, func(m ast.Node) bool {
			switch loop := m.(type) {
			case *ast.RangeStmt:
				se, ok := ast.Unparen(loop.X).(*ast.SliceExpr)
				if !ok || se.Low == nil || exprStr(se.Low) == "0" || loop.Key == nil {
					return true
				}
				base, key := exprStr(se.X), exprStr(loop.Key)
				ast.Inspect(loop.Body, func(k ast.Node) bool {
					if ix, ok := k.(*ast.IndexExpr); ok && exprStr(ix.X) == base && exprStr(ix.Index) == key {
						r.bad(c.Prop, constructOf(u, "range "+exprStr(loop.X)), posOf(p, ix), "the index of a range over "+exprStr(loop.X)+" is used to index "+base+" itself: elements 0.."+"len-"+exprStr(se.Low)+" are addressed instead of the ones from "+exprStr(se.Low)+" on")
					}
					return true
				})
			case *ast.ForStmt:
				// the reset loop: for i := K; i < len(w.stickinessStartingTimes); i++ { w.sst[i] = now }
				writes := false
				ast.Inspect(loop.Body, func(k ast.Node) bool {
					if as, ok := k.(*ast.AssignStmt); ok && len(as.Lhs) == 1 {
						if ix, ok := ast.Unparen(as.Lhs[0]).(*ast.IndexExpr); ok && fieldOf(info, ix.X) == sst {
							writes = true
						}
					}
					return true
				})
				if !writes {
					return true
				}
				n++
				init, ok := loop.Init.(*ast.AssignStmt)
				construct := constructOf(u, "reset stickiness levels")
				if ok && len(init.Rhs) == 1 && exprStr(init.Rhs[0]) != "0" {
					if _, isParam := ast.Unparen(init.Rhs[0]).(*ast.Ident); isParam {
						r.ok(construct, posOf(p, loop), "starts at "+exprStr(init.Rhs[0]))
						return true
					}
				}
				r.bad(c.Prop, construct, posOf(p, loop), "the loop that restarts the stickiness windows does not start at the number of retained levels")
			}
			return true
		})
	}
	if n == 0 {
		// the reset may be written as a range loop over the sub-slice with an offset; then the first
		// part of the rule is what decides. Require at least one write site of the field in a loop.
		found := false
		for _, w := range FieldWrites(p.UnitsIn(schedPkg), sst, false) {
			for _, anc := range pathTo(w.Unit.Decl.Body, w.Node) {
				switch anc.(type) {
				case *ast.ForStmt, *ast.RangeStmt:
					found = true
				}
			}
		}
		if found {
			r.ok("worker.stickinessStartingTimes|reset loop (range form)", "-", "judged by the sub-slice index rule")
		}
	}
	return r
}
