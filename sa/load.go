package main

import (
	"fmt"
	"go/ast"
	"go/token"
	"go/types"
	"os"
	"path/filepath"
	"sort"
	"strings"
	"time"

	"golang.org/x/tools/go/packages"
	"golang.org/x/tools/go/ssa"
	"golang.org/x/tools/go/ssa/ssautil"
)

const modPath = "github.com/buildbarn/bb-remote-execution"

// Program is the type-checked view of /repo's working tree that every rule works on.
type Program struct {
	RepoDir string
	Fset    *token.FileSet
	Pkgs    []*packages.Package // repo packages loaded from source, sorted by path
	ByPath  map[string]*packages.Package
	LoadS   float64

	// lazily built
	ssaProg *ssa.Program
	ssaPkgs map[*types.Package]*ssa.Package

	// indexes
	funcDecls map[*types.Func]*ast.FuncDecl
	declPkg   map[*ast.FuncDecl]*packages.Package
	filePkg   map[*ast.File]*packages.Package
}

// loadPatterns is what the build covers on linux/amd64 and what the properties anchor.
var loadPatterns = []string{"./pkg/...", "./cmd/bb_worker", "./cmd/bb_scheduler", "./cmd/bb_runner"}

func LoadProgram(repoDir string, overlay map[string][]byte) (*Program, error) {
	start := time.Now()
	fset := token.NewFileSet()
	cfg := &packages.Config{
		Dir:     repoDir,
		Mode:    packages.LoadSyntax | packages.NeedModule,
		Fset:    fset,
		Tests:   false,
		Overlay: overlay,
		Env:     append(os.Environ(), "GOFLAGS=-mod=mod", "GOPROXY=off", "GOSUMDB=off", "GOTOOLCHAIN=local", "GOWORK=off", "GOOS=linux", "GOARCH=amd64", "CGO_ENABLED=0"),
	}
	pkgs, err := packages.Load(cfg, loadPatterns...)
	if err != nil {
		return nil, fmt.Errorf("packages.Load: %w", err)
	}
	p := &Program{RepoDir: repoDir, Fset: fset, ByPath: map[string]*packages.Package{},
		funcDecls: map[*types.Func]*ast.FuncDecl{}, declPkg: map[*ast.FuncDecl]*packages.Package{}, filePkg: map[*ast.File]*packages.Package{}}
	var errs []string
	for _, pkg := range pkgs {
		if !strings.HasPrefix(pkg.PkgPath, modPath) {
			continue
		}
		for _, e := range pkg.Errors {
			errs = append(errs, e.Error())
		}
		if pkg.Types == nil || pkg.TypesInfo == nil || len(pkg.Syntax) == 0 {
			errs = append(errs, "package "+pkg.PkgPath+" has no syntax/types")
			continue
		}
		p.Pkgs = append(p.Pkgs, pkg)
		p.ByPath[pkg.PkgPath] = pkg
		for _, f := range pkg.Syntax {
			p.filePkg[f] = pkg
			for _, d := range f.Decls {
				if fd, ok := d.(*ast.FuncDecl); ok {
					if fn, ok := pkg.TypesInfo.Defs[fd.Name].(*types.Func); ok {
						p.funcDecls[fn] = fd
						p.declPkg[fd] = pkg
					}
				}
			}
		}
	}
	sort.Slice(p.Pkgs, func(i, j int) bool { return p.Pkgs[i].PkgPath < p.Pkgs[j].PkgPath })
	if len(errs) > 0 {
		if len(errs) > 12 {
			errs = append(errs[:12], fmt.Sprintf("... and %d more", len(errs)-12))
		}
		return nil, fmt.Errorf("repository does not load/type-check cleanly:\n  %s", strings.Join(errs, "\n  "))
	}
	if len(p.Pkgs) < 40 {
		return nil, fmt.Errorf("only %d repository packages loaded (expected >= 40): refusing to analyse a partial program", len(p.Pkgs))
	}
	p.LoadS = time.Since(start).Seconds()
	return p, nil
}

// Pkg returns the package with the given path relative to the module ("pkg/scheduler").
func (p *Program) Pkg(rel string) *packages.Package {
	pkg := p.ByPath[modPath+"/"+rel]
	if pkg == nil {
		panic(anchorError("package " + rel + " not loaded"))
	}
	return pkg
}

type anchorError string

func (e anchorError) Error() string { return "unresolved anchor: " + string(e) }

// Pos renders a position relative to the repository root.
func (p *Program) Pos(pos token.Pos) string {
	if !pos.IsValid() {
		return "-"
	}
	ps := p.Fset.Position(pos)
	rel, err := filepath.Rel(p.RepoDir, ps.Filename)
	if err != nil {
		rel = ps.Filename
	}
	return fmt.Sprintf("%s:%d", rel, ps.Line)
}

// FuncName renders pkg.(*T).m style names, short package.
func FuncName(fn *types.Func) string {
	if fn == nil {
		return "<nil>"
	}
	sig, _ := fn.Type().(*types.Signature)
	pkg := ""
	if fn.Pkg() != nil {
		pkg = fn.Pkg().Name()
	}
	if sig != nil && sig.Recv() != nil {
		t := sig.Recv().Type()
		ptr := ""
		if pt, ok := t.(*types.Pointer); ok {
			t = pt.Elem()
			ptr = "*"
		}
		name := "?"
		if n, ok := t.(*types.Named); ok {
			name = n.Obj().Name()
		} else if a, ok := t.(*types.Alias); ok {
			name = a.Obj().Name()
		}
		if ptr != "" {
			return fmt.Sprintf("%s.(*%s).%s", pkg, name, fn.Name())
		}
		return fmt.Sprintf("%s.%s.%s", pkg, name, fn.Name())
	}
	return pkg + "." + fn.Name()
}

// LookupFunc finds a package-level function or method by "Type.method" / "func" in a package.
func (p *Program) LookupFunc(pkgRel, name string) *types.Func {
	fn, err := p.lookupFuncByName(pkgRel, name)
	if err == nil {
		p.recordAnchor(pkgRel, name, fn)
		return fn
	}
	if alt := p.resolveRenamedAnchor(pkgRel, name); alt != nil {
		return alt
	}
	panic(err)
}

func (p *Program) lookupFuncByName(pkgRel, name string) (*types.Func, error) {
	pkg := p.Pkg(pkgRel)
	if i := strings.Index(name, "."); i >= 0 {
		tn, mn := name[:i], name[i+1:]
		obj := pkg.Types.Scope().Lookup(tn)
		if obj == nil {
			return nil, anchorError(pkgRel + "." + tn)
		}
		named, ok := obj.Type().(*types.Named)
		if !ok {
			return nil, anchorError(pkgRel + "." + tn + " is not a named type")
		}
		for i := 0; i < named.NumMethods(); i++ {
			if named.Method(i).Name() == mn {
				return named.Method(i), nil
			}
		}
		return nil, anchorError(pkgRel + "." + name)
	}
	obj := pkg.Types.Scope().Lookup(name)
	fn, ok := obj.(*types.Func)
	if !ok {
		return nil, anchorError(pkgRel + "." + name)
	}
	return fn, nil
}

// LookupType finds a named type.
func (p *Program) LookupType(pkgRel, name string) *types.Named {
	obj := p.Pkg(pkgRel).Types.Scope().Lookup(name)
	if obj == nil {
		panic(anchorError(pkgRel + "." + name))
	}
	n, ok := obj.Type().(*types.Named)
	if !ok {
		panic(anchorError(pkgRel + "." + name + " not a named type"))
	}
	return n
}

// LookupField finds a struct field object.
func (p *Program) LookupField(pkgRel, typeName, field string) *types.Var {
	n := p.LookupType(pkgRel, typeName)
	st, ok := n.Underlying().(*types.Struct)
	if !ok {
		panic(anchorError(pkgRel + "." + typeName + " not a struct"))
	}
	for i := 0; i < st.NumFields(); i++ {
		if st.Field(i).Name() == field {
			p.recordFieldAnchor(pkgRel, typeName, field, st, i)
			return st.Field(i)
		}
	}
	if alt := p.resolveRenamedField(pkgRel, typeName, field, st); alt != nil {
		return alt
	}
	panic(anchorError(pkgRel + "." + typeName + "." + field))
}

func (p *Program) Decl(fn *types.Func) *ast.FuncDecl { return p.funcDecls[fn] }

// MustDecl returns the declaration or panics with an anchor error.
func (p *Program) MustDecl(fn *types.Func) *ast.FuncDecl {
	d := p.funcDecls[fn]
	if d == nil || d.Body == nil {
		panic(anchorError("no body for " + FuncName(fn)))
	}
	return d
}

func (p *Program) InfoFor(fd *ast.FuncDecl) *types.Info { return p.declPkg[fd].TypesInfo }

// SSA builds (once) the SSA form of all loaded repo packages.
func (p *Program) SSA() *ssa.Program {
	if p.ssaProg != nil {
		return p.ssaProg
	}
	prog, pkgs := ssautil.Packages(p.Pkgs, ssa.InstantiateGenerics)
	p.ssaPkgs = map[*types.Package]*ssa.Package{}
	for i, sp := range pkgs {
		if sp == nil {
			panic(fmt.Sprintf("no SSA package for %s", p.Pkgs[i].PkgPath))
		}
		p.ssaPkgs[p.Pkgs[i].Types] = sp
	}
	prog.Build()
	p.ssaProg = prog
	return prog
}

// SSAFunc returns the SSA function of a declared function.
func (p *Program) SSAFunc(fn *types.Func) *ssa.Function {
	prog := p.SSA()
	f := prog.FuncValue(fn)
	if f == nil || len(f.Blocks) == 0 {
		panic(anchorError("no SSA body for " + FuncName(fn)))
	}
	return f
}

// AllFuncDecls iterates over all function declarations with bodies in packages whose
// module-relative path has one of the given prefixes, in deterministic order.
func (p *Program) AllFuncDecls(prefixes ...string) []*ast.FuncDecl {
	var out []*ast.FuncDecl
	for _, pkg := range p.Pkgs {
		rel := strings.TrimPrefix(strings.TrimPrefix(pkg.PkgPath, modPath), "/")
		ok := len(prefixes) == 0
		for _, pre := range prefixes {
			if rel == pre || strings.HasPrefix(rel, pre+"/") {
				ok = true
			}
		}
		if !ok {
			continue
		}
		for _, f := range pkg.Syntax {
			for _, d := range f.Decls {
				if fd, ok := d.(*ast.FuncDecl); ok && fd.Body != nil {
					out = append(out, fd)
				}
			}
		}
	}
	return out
}

func (p *Program) FuncOf(fd *ast.FuncDecl) *types.Func {
	fn, _ := p.declPkg[fd].TypesInfo.Defs[fd.Name].(*types.Func)
	return fn
}

func relPkg(pkg *types.Package) string {
	if pkg == nil {
		return ""
	}
	return strings.TrimPrefix(strings.TrimPrefix(pkg.Path(), modPath), "/")
}
