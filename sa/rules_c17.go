package main

import (
	"fmt"
	"go/ast"
	"go/token"
	"go/types"
	"strings"
)

func c17NoWriter(c *Ctx) *RuleResult {
	r := &RuleResult{Rule: "C17.no-writer", Floor: 15,
		Doc: "no method declared on the concrete CAS-backed leaf types (blobAccessCASFile and the types embedding it) can reach, through statically resolved calls, a storage write (BlobAccess.Put, WriteAt, Truncate) or a store to the file's digest: the bytes named by a digest cannot be changed through an input file"}
	p := c.P
	base := p.LookupType(virtualPkg, "blobAccessCASFile")
	digestField := p.LookupField(virtualPkg, "blobAccessCASFile", "digest")
	embeds := func(t *types.Named) bool {
		if t == base {
			return true
		}
		st, ok := t.Underlying().(*types.Struct)
		if !ok {
			return false
		}
		for i := 0; i < st.NumFields(); i++ {
			if st.Field(i).Embedded() && types.Identical(st.Field(i).Type(), base) {
				return true
			}
		}
		return false
	}
	for _, u := range p.UnitsIn(virtualPkg) {
		if u.Decl.Recv == nil {
			continue
		}
		rt := u.Fn.Type().(*types.Signature).Recv().Type()
		if pt, ok := rt.(*types.Pointer); ok {
			rt = pt.Elem()
		}
		named, ok := rt.(*types.Named)
		if !ok || !embeds(named) {
			continue
		}
		reach := staticReach(p, []ast.Node{u.Decl.Body}, u.Info())
		reach[u.Fn] = true
		bad := ""
		for fn := range reach {
			fd := p.Decl(fn)
			if fd == nil {
				continue
			}
			info := p.InfoFor(fd)
			ast.Inspect(fd.Body, func(n ast.Node) bool {
				switch x := n.(type) {
				case *ast.CallExpr:
					if sel, ok := ast.Unparen(x.Fun).(*ast.SelectorExpr); ok {
						switch sel.Sel.Name {
						case "Put", "WriteAt", "Truncate":
							bad = fmt.Sprintf("calls %s at %s", exprStr(x.Fun), p.Pos(x.Pos()))
						}
					}
				case *ast.AssignStmt:
					for _, l := range x.Lhs {
						if fieldOf(info, l) == digestField {
							bad = "assigns the digest field at " + p.Pos(x.Pos())
						}
					}
				}
				return true
			})
		}
		construct := u.Name()
		if bad == "" {
			r.ok(construct, posOf(p, u.Decl), fmt.Sprintf("%d reachable functions, none writes", len(reach)))
		} else {
			r.bad(c.Prop, construct, posOf(p, u.Decl), "a method of a CAS-backed input file "+bad+": the contents behind a digest can be altered")
		}
	}
	return r
}

func c17Refuse(c *Ctx) *RuleResult {
	r := &RuleResult{Rule: "C17.refuse", Floor: 10,
		Doc: "CAS-backed files refuse every mutating request: decision table of each VirtualOpenSelf over (shareAccess &^ ShareMaskRead ? 0, options.Truncate) is OK only for read-only, non-truncating opens, identical for the regular and the executable variant; VirtualWrite and VirtualAllocate have no OK return; a size change is refused by the shared set-attributes helper and both VirtualSetAttributes return its verdict before doing anything else"}
	p := c.P
	var tables []map[string]string
	for _, tn := range []string{"regularBlobAccessCASFile", "executableBlobAccessCASFile"} {
		u := p.Unit(virtualPkg, tn+".VirtualOpenSelf")
		d := BuildDTable(u, u.Decl.Body)
		if d.Err != "" {
			r.undecided(u.Name(), d.Err)
			continue
		}
		maskAtom, _, okM := d.FindOrder(func(a, b string) (bool, bool) {
			s := a + "|" + b
			return strings.Contains(s, "&^") && strings.Contains(s, "ShareMaskRead") && (a == "0" || b == "0"), false
		})
		trunc := d.FindBool(func(k string) bool { return strings.HasSuffix(k, ".Truncate") })
		if !okM || trunc == nil || len(d.Atoms) != 2 {
			r.bad(c.Prop, u.Name()+"|shape", posOf(p, u.Decl), fmt.Sprintf("the open-for-writing test is not `shareAccess &^ ShareMaskRead != 0 || options.Truncate` (conditions found: %v): some share masks that include write access (e.g. read+write) are accepted on an immutable input file", d.describe()))
			continue
		}
		tab := map[string]string{}
		for _, row := range d.Rows {
			nonRead := row.Assign[maskAtom.Key] != 0
			tr := row.Assign[trunc.Key] == 1
			want := "StatusOK"
			if nonRead || tr {
				want = "refused"
			}
			got := row.Result
			if got != "StatusOK" {
				got = "refused"
			}
			construct := fmt.Sprintf("%s|writeBits=%v,truncate=%v", u.Name(), nonRead, tr)
			tab[fmt.Sprintf("%v,%v", nonRead, tr)] = got
			if got == want {
				r.ok(construct, posOf(p, u.Decl), row.Result)
			} else {
				r.bad(c.Prop, construct, posOf(p, u.Decl), fmt.Sprintf("VirtualOpenSelf returns %s for an open with write bits=%v truncate=%v; input files must only be openable read-only without truncation", row.Result, nonRead, tr))
			}
		}
		tables = append(tables, tab)
	}
	if len(tables) == 2 && fmt.Sprint(tables[0]) != fmt.Sprint(tables[1]) {
		r.bad(c.Prop, "VirtualOpenSelf|sibling-agreement", "-", "the regular and executable CAS file variants disagree on which opens are refused")
	}
	// no OK return in VirtualWrite / VirtualAllocate
	for _, m := range []string{"VirtualWrite", "VirtualAllocate"} {
		u := p.Unit(virtualPkg, "blobAccessCASFile."+m)
		okRet := false
		ast.Inspect(u.Decl.Body, func(n ast.Node) bool {
			if ret, ok := n.(*ast.ReturnStmt); ok {
				for _, res := range ret.Results {
					if exprStr(res) == "StatusOK" {
						okRet = true
					}
				}
			}
			return true
		})
		if okRet {
			r.bad(c.Prop, u.Name()+"|never-ok", posOf(p, u.Decl), m+" on a CAS-backed file can report success")
		} else {
			r.ok(u.Name()+"|never-ok", posOf(p, u.Decl), "no successful return")
		}
	}
	// size change refused: the decision function is found from the two VirtualSetAttributes methods
	// (it may be the shared helper itself or something the helper delegates to)
	for _, tn := range []string{"regularBlobAccessCASFile", "executableBlobAccessCASFile"} {
		su := p.Unit(virtualPkg, tn+".VirtualSetAttributes")
		reach := staticReach(p, []ast.Node{su.Decl.Body}, su.Info())
		var deciders []*FuncUnit
		cands := []*FuncUnit{su}
		returnsStatus := func(fn *types.Func) bool {
			res := fn.Type().(*types.Signature).Results()
			for i := 0; i < res.Len(); i++ {
				if namedIs(res.At(i).Type(), modPath+"/"+virtualPkg, "Status") {
					return true
				}
			}
			return false
		}
		for fn := range reach {
			if hu := p.UnitOf(fn); hu != nil && fn.Pkg() == su.Fn.Pkg() && returnsStatus(fn) {
				cands = append(cands, hu)
			}
		}
		for _, hu := range cands {
			has := false
			ast.Inspect(hu.Decl.Body, func(n ast.Node) bool {
				if call, ok := n.(*ast.CallExpr); ok {
					if sel, ok := ast.Unparen(call.Fun).(*ast.SelectorExpr); ok && sel.Sel.Name == "GetSizeBytes" {
						has = true
					}
				}
				return true
			})
			if has {
				deciders = append(deciders, hu)
			}
		}
		refused, dominated := false, len(deciders) > 0
		for _, du := range deciders {
			dinfo := du.Info()
			g := NewFuncCFG(dinfo, du.Decl.Body)
			var sizeCall ast.Node
			var okVar types.Object
			ast.Inspect(du.Decl.Body, func(n ast.Node) bool {
				as, ok := n.(*ast.AssignStmt)
				if !ok || len(as.Rhs) != 1 || len(as.Lhs) != 2 {
					return true
				}
				if call, ok := ast.Unparen(as.Rhs[0]).(*ast.CallExpr); ok {
					if sel, ok := ast.Unparen(call.Fun).(*ast.SelectorExpr); ok && sel.Sel.Name == "GetSizeBytes" {
						sizeCall = call
						if id, ok := as.Lhs[1].(*ast.Ident); ok {
							okVar = dinfo.ObjectOf(id)
						}
					}
				}
				return true
			})
			ast.Inspect(du.Decl.Body, func(n ast.Node) bool {
				ret, ok := n.(*ast.ReturnStmt)
				if !ok || len(ret.Results) != 1 || enclosingFuncLit(du.Decl.Body, ret) != nil {
					return true
				}
				isOK := strings.HasSuffix(exprStr(ret.Results[0]), "StatusOK")
				if isOK && (sizeCall == nil || !g.Dominates(sizeCall, ret)) {
					dominated = false
				}
				if !isOK && okVar != nil {
					for _, gd := range flattenGuards(GuardsOf(dinfo, du.Decl.Body, ret)) {
						if id, ok := ast.Unparen(gd.Cond).(*ast.Ident); ok && gd.Pos && dinfo.ObjectOf(id) == okVar {
							if _, isStatusConst := dinfo.Uses[lastIdentOf(ret.Results[0])].(*types.Const); isStatusConst {
								refused = true
							}
						}
					}
				}
				return true
			})
		}
		if refused {
			r.ok(su.Name()+"|size", posOf(p, su.Decl), "a size change is refused")
		} else {
			r.bad(c.Prop, su.Name()+"|size", posOf(p, su.Decl), "setting the size of a CAS-backed file is not refused")
		}
		if dominated {
			r.ok(su.Name()+"|size-before-accept", posOf(p, su.Decl), "every accepting return of the decision comes after the size test")
		} else {
			r.bad(c.Prop, su.Name()+"|size-before-accept", posOf(p, su.Decl), "the request can be accepted on a path that never looked at the requested size: a set-attributes call combining a mode and a size truncates an immutable file")
		}
		// the verdict is obeyed: a literal success return of the method itself comes after a call
		// that leads to the decision, whose result is not thrown away
		leads := map[*types.Func]bool{}
		for _, du := range deciders {
			leads[du.Fn] = true
		}
		for changed := true; changed; {
			changed = false
			for _, hu := range cands {
				if leads[hu.Fn] {
					continue
				}
				for fn := range staticReach(p, []ast.Node{hu.Decl.Body}, hu.Info()) {
					if leads[fn] {
						leads[hu.Fn] = true
						changed = true
					}
				}
			}
		}
		okS := true
		sinfo := su.Info()
		sg := NewFuncCFG(sinfo, su.Decl.Body)
		var verdictCalls []ast.Node
		ast.Inspect(su.Decl.Body, func(n ast.Node) bool {
			if es, ok := n.(*ast.ExprStmt); ok {
				if call, ok := es.X.(*ast.CallExpr); ok && leads[calleeOf(sinfo, call)] {
					okS = false // verdict discarded
				}
			}
			if call, ok := n.(*ast.CallExpr); ok && calleeOf(sinfo, call) != nil && leads[calleeOf(sinfo, call)] {
				verdictCalls = append(verdictCalls, call)
			}
			return true
		})
		if len(verdictCalls) == 0 && !leads[su.Fn] {
			okS = false
		}
		ast.Inspect(su.Decl.Body, func(n ast.Node) bool {
			ret, ok := n.(*ast.ReturnStmt)
			if !ok || len(ret.Results) != 1 || enclosingFuncLit(su.Decl.Body, ret) != nil || !strings.HasSuffix(exprStr(ret.Results[0]), "StatusOK") {
				return true
			}
			dom := false
			for _, vc := range verdictCalls {
				if sg.Dominates(vc, ret) {
					// ... and the verdict's failure leaves first
					dom = true
				}
			}
			if !dom {
				okS = false
			}
			return true
		})
		// the original shape additionally pins "refusal returns before anything else"
		if first, ok := su.Decl.Body.List[0].(*ast.IfStmt); ok && first.Init != nil && len(verdictCalls) > 0 {
			if as, ok := first.Init.(*ast.AssignStmt); ok && len(as.Rhs) == 1 && ast.Unparen(as.Rhs[0]) == ast.Expr(verdictCalls[0].(*ast.CallExpr)) && !terminates(sinfo, first.Body.List) {
				okS = false
			}
		}
		if okS {
			r.ok(su.Name()+"|verdict-first", posOf(p, su.Decl), "returns the helper's refusal before anything else")
		} else {
			r.bad(c.Prop, su.Name()+"|verdict-first", posOf(p, su.Decl), "VirtualSetAttributes does not start by consulting (and obeying) the shared refusal helper")
		}
	}
	return r
}

func c17Validate(c *Ctx) *RuleResult {
	r := &RuleResult{Rule: "C17.validate", Floor: 6,
		Doc: "malformed directories surface as errors, not as a different tree: in the function that turns a Directory message into children, every insertion into the result map is dominated by the name-validity test, the duplicate-name test and (for digests) the successful digest conversion of the same entry; every leaf created is recorded for unlinking on the same paths and the record is only dropped right before the successful return; and the lazily loaded directory only marks itself initialised after FetchContents succeeded"}
	p := c.P
	u := p.Unit(virtualPkg, "casInitialContentsFetcher.fetchContentsUnwrapped")
	info := u.Info()
	g := NewFuncCFG(info, u.Decl.Body)
	// the result map: first result of the successful return; the unlink list: the slice ranged over
	// by the deferred closure that unlinks
	childrenName, unlinkList := "", ""
	ast.Inspect(u.Decl.Body, func(n ast.Node) bool {
		switch x := n.(type) {
		case *ast.ReturnStmt:
			if len(x.Results) == 2 && isNilIdent(x.Results[1]) {
				childrenName = exprStr(x.Results[0])
			}
		case *ast.DeferStmt:
			if fl, ok := ast.Unparen(x.Call.Fun).(*ast.FuncLit); ok {
				ast.Inspect(fl.Body, func(m ast.Node) bool {
					if rs, ok := m.(*ast.RangeStmt); ok {
						unlinks := false
						ast.Inspect(rs.Body, func(k ast.Node) bool {
							if call, ok := k.(*ast.CallExpr); ok {
								if sel, ok := ast.Unparen(call.Fun).(*ast.SelectorExpr); ok && sel.Sel.Name == "Unlink" {
									unlinks = true
								}
							}
							return true
						})
						if unlinks {
							unlinkList = exprStr(rs.X)
						}
					}
					return true
				})
			}
		}
		return true
	})
	if childrenName == "" || unlinkList == "" {
		panic(anchorError("fetchContentsUnwrapped: result map / deferred unlink list"))
	}
	ast.Inspect(u.Decl.Body, func(n ast.Node) bool {
		rs, ok := n.(*ast.RangeStmt)
		if !ok || rs.Value == nil || enclosingFuncLit(u.Decl.Body, rs) != nil {
			return true
		}
		entryName := exprStr(rs.Value)
		kind := exprStr(rs.X)
		ast.Inspect(rs.Body, func(m ast.Node) bool {
			as, ok := m.(*ast.AssignStmt)
			if !ok || len(as.Lhs) != 1 {
				return true
			}
			ix, ok := ast.Unparen(as.Lhs[0]).(*ast.IndexExpr)
			if !ok || exprStr(ix.X) != childrenName {
				return true
			}
			componentName := exprStr(ix.Index)
			construct := constructOf(u, "insert from "+kind)
			gs := flattenGuards(GuardsOf(info, rs.Body, as))
			nameOK, dupOK, digOK := false, false, !strings.HasSuffix(kind, "Directories") && !strings.HasSuffix(kind, "Files")
			fu := &FuncUnit{Fn: u.Fn, Decl: u.Decl, Pkg: u.Pkg}
			for _, gd := range gs {
				src := guardIdentSource(fu, gd)
				if src != nil {
					s := exprStr(src)
					// survived `if !ok { return }` after path.NewComponent(<entry>.Name)
					if gd.Pos && strings.HasSuffix(s, "NewComponent("+entryName+".Name)") {
						nameOK = true
					}
					// survived `if _, ok := children[component]; ok { return }`
					if !gd.Pos && s == childrenName+"["+componentName+"]" {
						dupOK = true
					}
				}
				if guardErrIsNil(info, gd, "") {
					// the error of converting this entry's digest
					errID, _, _ := nilTestOf(gd)
					if call := tupleSource(fu, errID); call != nil && strings.HasSuffix(exprStr(call.Fun), "NewDigestFromProto") && len(call.Args) == 1 && exprStr(call.Args[0]) == entryName+".Digest" {
						digOK = true
					}
				}
			}
			if nameOK && dupOK && digOK {
				r.ok(construct, posOf(p, as), "dominated by name, duplicate and digest checks")
			} else {
				r.bad(c.Prop, construct, posOf(p, as), fmt.Sprintf("an entry is added to the directory without all validity checks (name valid: %v, not a duplicate: %v, digest valid: %v): a malformed Directory yields a different tree instead of an error", nameOK, dupOK, digOK))
			}
			return true
		})
		return true
	})
	// leaves recorded for unlinking
	ast.Inspect(u.Decl.Body, func(n ast.Node) bool {
		as, ok := n.(*ast.AssignStmt)
		if !ok || as.Tok != token.DEFINE || len(as.Rhs) != 1 {
			return true
		}
		call, ok := ast.Unparen(as.Rhs[0]).(*ast.CallExpr)
		if !ok {
			return true
		}
		sel, ok := ast.Unparen(call.Fun).(*ast.SelectorExpr)
		if !ok || (sel.Sel.Name != "LookupFile" && sel.Sel.Name != "LookupSymlink") {
			return true
		}
		leaf := exprStr(as.Lhs[0])
		construct := constructOf(u, "record "+sel.Sel.Name+" leaf")
		recorded := false
		ast.Inspect(u.Decl.Body, func(m ast.Node) bool {
			o, ok := m.(*ast.AssignStmt)
			if !ok || len(o.Lhs) != 1 || exprStr(o.Lhs[0]) != unlinkList || len(o.Rhs) != 1 {
				return true
			}
			if ac, ok := ast.Unparen(o.Rhs[0]).(*ast.CallExpr); ok && exprStr(ac.Fun) == "append" && len(ac.Args) == 2 && exprStr(ac.Args[1]) == leaf {
				// on every successful continuation of the creation (error returns after LookupSymlink excluded)
				if reach, _ := g.ReachableWithout(as, nil, func(k ast.Node) bool {
					if k == ast.Node(o) {
						return true
					}
					if ret, ok := k.(*ast.ReturnStmt); ok {
						for _, gd := range flattenGuards(GuardsOf(info, u.Decl.Body, ret)) {
							if guardErrNotNil(info, gd, "") && ret.Pos() > as.Pos() && ret.Pos() < o.Pos() {
								return true
							}
						}
					}
					return false
				}); !reach {
					recorded = true
				}
			}
			return true
		})
		if recorded {
			r.ok(construct, posOf(p, as), "appended to leavesToUnlink on every continuing path")
		} else {
			r.bad(c.Prop, construct, posOf(p, as), "a leaf created for this directory is not recorded for unlinking: it leaks when a later entry turns out to be malformed")
		}
		return true
	})
	// leavesToUnlink = nil only right before success
	ast.Inspect(u.Decl.Body, func(n ast.Node) bool {
		as, ok := n.(*ast.AssignStmt)
		if !ok || len(as.Lhs) != 1 || exprStr(as.Lhs[0]) != unlinkList || !isNilIdent(as.Rhs[0]) {
			return true
		}
		construct := constructOf(u, "drop unlink list")
		okD := true
		ast.Inspect(u.Decl.Body, func(m ast.Node) bool {
			if ret, ok := m.(*ast.ReturnStmt); ok && !lastResultIsNil(ret) {
				if reach, _ := g.ReachableWithout(as, ret, func(ast.Node) bool { return false }); reach {
					okD = false
				}
			}
			return true
		})
		if okD {
			r.ok(construct, posOf(p, as), "no failing return is reachable after the list is dropped")
		} else {
			r.bad(c.Prop, construct, posOf(p, as), "the list of leaves to unlink on failure is dropped while a failing return is still reachable")
		}
		return true
	})
	// lazily loaded directory
	icf := p.LookupField(virtualPkg, "inMemoryPrepopulatedDirectory", "initialContentsFetcher")
	for _, du := range p.UnitsIn(virtualPkg) {
		info := du.Info()
		var fetch *ast.AssignStmt
		ast.Inspect(du.Decl.Body, func(n ast.Node) bool {
			if as, ok := n.(*ast.AssignStmt); ok && len(as.Rhs) == 1 && len(as.Lhs) == 2 {
				if call, ok := ast.Unparen(as.Rhs[0]).(*ast.CallExpr); ok {
					if sel, ok := ast.Unparen(call.Fun).(*ast.SelectorExpr); ok && sel.Sel.Name == "FetchContents" && fieldOf(info, resolveLocalAlias(du, sel.X)) == icf {
						fetch = as
					}
				}
			}
			return true
		})
		if fetch == nil {
			continue
		}
		gd := NewFuncCFG(info, du.Decl.Body)
		errName := exprStr(fetch.Lhs[1])
		for _, w := range FieldWrites([]*FuncUnit{du}, icf, false) {
			if w.RHS == nil || !isNilIdent(w.RHS) {
				continue
			}
			construct := constructOf(du, "mark-initialised")
			okM := gd.Dominates(fetch, w.Node)
			if okM {
				okM = false
				for _, g2 := range flattenGuards(GuardsOf(info, du.Decl.Body, w.Node)) {
					if guardErrIsNil(info, g2, errName) {
						okM = true
					}
				}
			}
			if okM {
				r.ok(construct, posOf(p, w.Node), "only after FetchContents succeeded")
			} else {
				r.bad(c.Prop, construct, posOf(p, w.Node), "the directory is marked as loaded before (or regardless of whether) its contents were fetched successfully: after a storage error or a malformed directory it silently presents an empty/different tree")
			}
		}
	}
	return r
}

func exprStrStmts(b *ast.BlockStmt) string {
	var sb strings.Builder
	ast.Inspect(b, func(n ast.Node) bool {
		if call, ok := n.(*ast.CallExpr); ok {
			sb.WriteString(exprStr(call))
			sb.WriteString(";")
		}
		if ix, ok := n.(*ast.IndexExpr); ok {
			sb.WriteString(exprStr(ix))
			sb.WriteString(";")
		}
		return true
	})
	return sb.String()
}

func init() {
	register(&PropertySpec{
		ID:          "C17",
		Level:       "other",
		Explanation: "Decides the immutability sentence and the 'malformed => error' clause structurally: no method of the CAS-backed leaf types reaches a storage write or changes its digest; VirtualOpenSelf's complete decision table (both variants agree) refuses every open with write bits or truncation; write/allocate never succeed; size changes are refused first; every child inserted from a Directory message is dominated by name, duplicate and digest validation, created leaves are recorded for unlinking, and a lazily loaded directory only marks itself loaded after success. Fidelity of the materialised tree for every DAG and exploration order is not decided.",
		Assumptions: []string{"handle-allocator wrappers only forward through the embedded interface", "path.NewComponent and digest parsing are correct"},
		Rules:       []RuleFunc{c17NoWriter, c17Refuse, c17Validate, c17CacheKey, freshMkdir, c17IdentityFields, c17KeyParam, c17KeyComplete, c17ShortReadIsError},
	})
}

// lastIdentOf: the identifier an expression like pkg.Name or Name ends in.
func lastIdentOf(e ast.Expr) *ast.Ident {
	switch x := ast.Unparen(e).(type) {
	case *ast.Ident:
		return x
	case *ast.SelectorExpr:
		return x.Sel
	}
	return nil
}
