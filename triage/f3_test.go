package tri

import (
	"testing"

	nfsv4_xdr "github.com/buildbarn/go-xdr/pkg/protocols/nfsv4"
)

// TestF3 demonstrates that the NFSv4.1 server does not remember
// lock-owners, so that a lock-owner conflicts with its own locks.
func TestF3(t *testing.T) {
	f := newNFS41Fixture(t)
	openStateID := f.open()

	// Lock-owner "lo" acquires an exclusive lock on [0, 10).
	if res, ok := f.lockNewOwner(openStateID, "lo", 0, 10).(*nfsv4_xdr.Lock4res_NFS4_OK); !ok {
		t.Fatalf("Initial LOCK failed: %#v", res)
	}

	// LOCKT by the same lock-owner against the same range must not
	// report a conflict, as a lock-owner never conflicts with
	// itself (RFC 8881, section 18.11.3).
	_, res := f.sequenced(
		&nfsv4_xdr.NfsArgop4_OP_PUTFH{Opputfh: nfsv4_xdr.Putfh4args{Object: fakeFileHandle}},
		&nfsv4_xdr.NfsArgop4_OP_LOCKT{
			Oplockt: nfsv4_xdr.Lockt4args{
				Locktype: nfsv4_xdr.WRITE_LT,
				Offset:   0,
				Length:   10,
				Owner:    nfsv4_xdr.LockOwner4{Owner: []byte("lo")},
			},
		},
	)
	if lockt := res[1].(*nfsv4_xdr.NfsResop4_OP_LOCKT).Oplockt; lockt.GetStatus() != nfsv4_xdr.NFS4_OK {
		t.Errorf("LOCKT by lock-owner \"lo\" conflicts with the lock held by \"lo\" itself: %#v", lockt)
	}

	// A different lock-owner must see the conflict.
	_, res = f.sequenced(
		&nfsv4_xdr.NfsArgop4_OP_PUTFH{Opputfh: nfsv4_xdr.Putfh4args{Object: fakeFileHandle}},
		&nfsv4_xdr.NfsArgop4_OP_LOCKT{
			Oplockt: nfsv4_xdr.Lockt4args{
				Locktype: nfsv4_xdr.WRITE_LT,
				Offset:   0,
				Length:   10,
				Owner:    nfsv4_xdr.LockOwner4{Owner: []byte("other")},
			},
		},
	)
	if _, ok := res[1].(*nfsv4_xdr.NfsResop4_OP_LOCKT).Oplockt.(*nfsv4_xdr.Lockt4res_NFS4ERR_DENIED); !ok {
		t.Errorf("LOCKT by lock-owner \"other\" did not report a conflict")
	}

	// A second LOCK that names the same lock-owner through
	// open_to_lock_owner4 must resolve to the existing lock-owner,
	// meaning that an overlapping range can be locked.
	lock := f.lockNewOwner(openStateID, "lo", 5, 10)
	if _, ok := lock.(*nfsv4_xdr.Lock4res_NFS4_OK); !ok {
		t.Errorf("Second LOCK by lock-owner \"lo\" conflicts with the lock held by \"lo\" itself: %#v", lock)
	}
}
