package tri

import (
	"context"
	"strings"
	"sync"
	"testing"
	"time"

	remoteexecution "github.com/bazelbuild/remote-apis/build/bazel/remote/execution/v2"
	"github.com/buildbarn/bb-remote-execution/pkg/proto/remoteworker"
	"github.com/buildbarn/bb-remote-execution/pkg/scheduler"
	"github.com/buildbarn/bb-remote-execution/pkg/scheduler/initialsizeclass"
	"github.com/buildbarn/bb-remote-execution/pkg/scheduler/invocation"
	"github.com/buildbarn/bb-remote-execution/pkg/scheduler/platform"
	"github.com/buildbarn/bb-storage/pkg/auth"
	"github.com/buildbarn/bb-storage/pkg/blobstore"
	"github.com/buildbarn/bb-storage/pkg/blobstore/buffer"
	"github.com/buildbarn/bb-storage/pkg/clock"
	"github.com/buildbarn/bb-storage/pkg/digest"
	"github.com/buildbarn/bb-storage/pkg/util"
	"github.com/google/uuid"

	"cloud.google.com/go/longrunning/autogen/longrunningpb"

	"google.golang.org/grpc"
	"google.golang.org/protobuf/types/known/anypb"
	"google.golang.org/protobuf/types/known/emptypb"
)

// f4Clock is a clock whose time is set explicitly by the test. Timers
// never fire.
type f4Clock struct {
	clock.Clock
	lock sync.Mutex
	now  time.Time
}

type f4Timer struct{}

func (f4Timer) Stop() bool { return true }

func (c *f4Clock) Now() time.Time {
	c.lock.Lock()
	defer c.lock.Unlock()
	return c.now
}

func (c *f4Clock) set(seconds int64) {
	c.lock.Lock()
	defer c.lock.Unlock()
	c.now = time.Unix(seconds, 0)
}

func (c *f4Clock) NewTimer(d time.Duration) (clock.Timer, <-chan time.Time) {
	return f4Timer{}, nil
}

// f4Action describes a single action: the hash of its digest and the
// invocation keys the action router assigns to it.
type f4Action struct {
	hash           string
	invocationKeys []invocation.Key
}

// f4CAS returns an Action message for every known action digest. The
// hash of the action digest is stored in the action's salt, so that
// the action router is able to recognise it.
type f4CAS struct {
	blobstore.BlobAccess
}

func (f4CAS) Get(ctx context.Context, d digest.Digest) buffer.Buffer {
	return buffer.NewProtoBufferFromProto(&remoteexecution.Action{
		DoNotCache: true,
		Salt:       []byte(d.GetHashString()),
	}, buffer.UserProvided)
}

type f4Learner struct{}

func (f4Learner) Succeeded(duration time.Duration, sizeClasses []uint32) (int, time.Duration, time.Duration, initialsizeclass.Learner) {
	return 0, 0, 0, nil
}

func (f4Learner) Failed(timedOut bool) (time.Duration, time.Duration, initialsizeclass.Learner) {
	return 0, 0, nil
}

func (f4Learner) Abandoned() {}

type f4Selector struct{}

func (f4Selector) Select(sizeClasses []uint32) (int, time.Duration, time.Duration, initialsizeclass.Learner) {
	return 0, 30 * time.Second, time.Minute, f4Learner{}
}

func (f4Selector) Abandoned() {}

type f4ActionRouter struct {
	platformKey platform.Key
	actions     map[string]f4Action
}

func (ar *f4ActionRouter) RouteAction(ctx context.Context, digestFunction digest.Function, action *remoteexecution.Action, requestMetadata *remoteexecution.RequestMetadata) (*remoteexecution.Action, platform.Key, []invocation.Key, initialsizeclass.Selector, error) {
	return action, ar.platformKey, ar.actions[string(action.Salt)].invocationKeys, f4Selector{}, nil
}

// f4ExecuteServer is the server side of an Execute() stream, which
// forwards all operation updates to a channel.
type f4ExecuteServer struct {
	grpc.ServerStream
	ctx     context.Context
	updates chan *longrunningpb.Operation
}

func (s *f4ExecuteServer) Context() context.Context { return s.ctx }

func (s *f4ExecuteServer) Send(o *longrunningpb.Operation) error {
	s.updates <- o
	return nil
}

func f4InvocationKey(t *testing.T, id string) invocation.Key {
	a, err := anypb.New(&remoteexecution.RequestMetadata{ToolInvocationId: id})
	if err != nil {
		t.Fatal(err)
	}
	k, err := invocation.NewKey(a)
	if err != nil {
		t.Fatal(err)
	}
	return k
}

// TestF4 demonstrates that worker invocation stickiness at the second
// level of the invocation tree is computed relative to the starting
// time of the first level, instead of that of the second level.
func TestF4(t *testing.T) {
	ctx, cancel := context.WithCancel(context.Background())
	defer cancel()

	platformMessage := &remoteexecution.Platform{
		Properties: []*remoteexecution.Platform_Property{{Name: "os", Value: "linux"}},
	}
	keyA, keyX, keyY := f4InvocationKey(t, "A"), f4InvocationKey(t, "x"), f4InvocationKey(t, "y")
	actions := []f4Action{
		{hash: strings.Repeat("1", 64), invocationKeys: []invocation.Key{keyA, keyX}}, // P1
		{hash: strings.Repeat("2", 64), invocationKeys: []invocation.Key{keyA, keyY}}, // Q1
		{hash: strings.Repeat("3", 64), invocationKeys: []invocation.Key{keyA, keyX}}, // P2
		{hash: strings.Repeat("4", 64), invocationKeys: []invocation.Key{keyA, keyY}}, // Q2
	}
	names := map[string]string{
		actions[0].hash: "P1 (invocation A/x)",
		actions[1].hash: "Q1 (invocation A/y)",
		actions[2].hash: "P2 (invocation A/x)",
		actions[3].hash: "Q2 (invocation A/y)",
	}
	actionRouter := &f4ActionRouter{
		platformKey: platform.MustNewKey("", platformMessage),
		actions:     map[string]f4Action{},
	}
	for _, a := range actions {
		actionRouter.actions[a.hash] = a
	}

	clk := &f4Clock{}
	clk.set(900)
	allowAll := auth.NewStaticAuthorizer(func(digest.InstanceName) bool { return true })
	buildQueue := scheduler.NewInMemoryBuildQueue(
		f4CAS{},
		clk,
		util.UUIDGenerator(uuid.NewRandom),
		&scheduler.InMemoryBuildQueueConfiguration{
			ExecutionUpdateInterval:              time.Hour,
			OperationWithNoWaitersTimeout:        time.Hour,
			PlatformQueueWithNoWorkersTimeout:    time.Hour,
			BusyWorkerSynchronizationInterval:    10 * time.Second,
			GetIdleWorkerSynchronizationInterval: func() time.Duration { return time.Minute },
			WorkerTaskRetryCount:                 9,
			WorkerWithNoSynchronizationsTimeout:  time.Hour,
		},
		10000,
		actionRouter,
		allowAll, allowAll, allowAll, allowAll,
	)

	// Two levels of stickiness: one hour at the first level, ten
	// seconds at the second level.
	if err := buildQueue.RegisterPredeclaredPlatformQueue(
		digest.EmptyInstanceName,
		platformMessage,
		/* workerInvocationStickinessLimits = */ []time.Duration{time.Hour, 10 * time.Second},
		/* maximumQueuedBackgroundLearningOperations = */ 0,
		/* backgroundLearningOperationPriority = */ 0,
		/* sizeClasses = */ []uint32{0},
	); err != nil {
		t.Fatal(err)
	}

	// Queue P1, Q1, P2 and Q2 at t = 1000, 1001, 1002 and 1003.
	for i, a := range actions {
		clk.set(1000 + int64(i))
		stream := &f4ExecuteServer{ctx: ctx, updates: make(chan *longrunningpb.Operation, 10)}
		go buildQueue.Execute(&remoteexecution.ExecuteRequest{
			DigestFunction: remoteexecution.DigestFunction_SHA256,
			ActionDigest:   &remoteexecution.Digest{Hash: a.hash, SizeBytes: 100},
		}, stream)
		select {
		case <-stream.updates:
		case <-time.After(5 * time.Second):
			t.Fatal("Operation did not get queued")
		}
	}

	// synchronize lets the one worker report its state at a given
	// time, returning the name of the action it is told to run.
	synchronize := func(seconds int64, completed string) string {
		clk.set(seconds)
		request := &remoteworker.SynchronizeRequest{
			WorkerId: map[string]string{"hostname": "worker"},
			Platform: platformMessage,
			CurrentState: &remoteworker.CurrentState{
				WorkerState: &remoteworker.CurrentState_Idle{Idle: &emptypb.Empty{}},
			},
		}
		if completed != "" {
			request.CurrentState.WorkerState = &remoteworker.CurrentState_Executing_{
				Executing: &remoteworker.CurrentState_Executing{
					ActionDigest: &remoteexecution.Digest{Hash: completed, SizeBytes: 100},
					ExecutionState: &remoteworker.CurrentState_Executing_Completed{
						Completed: &remoteexecution.ExecuteResponse{Result: &remoteexecution.ActionResult{}},
					},
				},
			}
		}
		type result struct {
			response *remoteworker.SynchronizeResponse
			err      error
		}
		done := make(chan result, 1)
		go func() {
			response, err := buildQueue.Synchronize(ctx, request)
			done <- result{response, err}
		}()
		select {
		case r := <-done:
			if r.err != nil {
				t.Fatal(r.err)
			}
			executing := r.response.DesiredState.GetExecuting()
			if executing == nil {
				t.Fatalf("Worker was not asked to execute anything: %s", r.response)
			}
			return executing.ActionDigest.Hash
		case <-time.After(5 * time.Second):
			t.Fatal("Synchronize() did not return")
			panic("unreachable")
		}
	}

	// t = 1100: The worker has no history. Invocation A/x is the
	// least recently used one, so P1 gets picked. The worker starts
	// being sticky to both A and A/x at t = 1100.
	got := synchronize(1100, "")
	if got != actions[0].hash {
		t.Fatalf("Step 1: expected P1, got %s", names[got])
	}

	// t = 1120: The stickiness limit of ten seconds for A/x has been
	// exceeded, so the worker switches to the least recently used
	// invocation A/y, and runs Q1. The worker remains sticky to A
	// since t = 1100, but is now sticky to A/y since t = 1120.
	got = synchronize(1120, got)
	if got != actions[1].hash {
		t.Fatalf("Step 2: expected Q1, got %s", names[got])
	}

	// t = 1125: The worker has only been running A/y for five
	// seconds, which is below the ten second limit for that level.
	// It must therefore stick to A/y and run Q2, even though A/x is
	// the least recently used invocation. On the unchanged tree the
	// first level's starting time (t = 1100) is compared against
	// the second level's limit, causing P2 to be picked instead.
	got = synchronize(1125, got)
	if got != actions[3].hash {
		t.Fatalf("Step 3: expected the worker to stick to invocation A/y and run Q2, got %s", names[got])
	}
}
