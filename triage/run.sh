#!/bin/sh
# Triage aid, NOT a registered check: reproduces, against the real code in
# /repo, the concrete failing histories behind findings F5, F6 and F8 of
# DESIGN.md section 6. Used once to tell genuine defects from false alarms
# before writing "fix:" commits. The registered checks in MANIFEST.json are
# purely static and never run this.
#
# Usage: triage/run.sh [-run TestF8]      (extra args go to `go test`)
set -eu
here=$(cd "$(dirname "$0")" && pwd)
work=$(mktemp -d "${TMPDIR:-/var/tmp}/bbverif-triage.XXXXXX")
trap 'rm -rf "$work"' EXIT
export PATH=/opt/veriftools/go1.26.8/bin:$PATH
export GOFLAGS=-mod=mod GOPROXY=off GOSUMDB=off GOTOOLCHAIN=local
unset GOWORK || true
sed 's#^module .*#module tri#' /repo/go.mod > "$work/go.mod"
printf '\nrequire github.com/buildbarn/bb-remote-execution v0.0.0\n\nreplace github.com/buildbarn/bb-remote-execution => /repo\n' >> "$work/go.mod"
cp /repo/go.sum "$work/go.sum"
cp "$here"/*_test.go "$work/"
cd "$work" && go test -count=1 -v "$@" .
