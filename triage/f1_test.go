package tri

import (
	"sort"
	"syscall"
	"testing"
	"time"

	"github.com/buildbarn/bb-remote-execution/pkg/filesystem/virtual"
	"github.com/buildbarn/bb-storage/pkg/clock"
	"github.com/buildbarn/bb-storage/pkg/filesystem/path"
	"github.com/buildbarn/bb-storage/pkg/random"
	"github.com/buildbarn/bb-storage/pkg/util"
)

// TestF1 demonstrates that CreateAndEnterPrepopulatedDirectory() on a
// directory that has already been deleted returns ENOENT while leaving
// the directory's lock held, so that any later operation on that
// directory object blocks forever.
func TestF1(t *testing.T) {
	root := virtual.NewInMemoryPrepopulatedDirectory(
		/* fileAllocator = */ nil,
		/* symlinkFactory = */ nil,
		util.DefaultErrorLogger,
		virtual.NewNFSHandleAllocator(random.NewFastSingleThreadedGenerator()),
		sort.Sort,
		/* hiddenFilesMatcher = */ func(string) bool { return false },
		clock.SystemClock,
		virtual.CaseSensitiveComponentNormalizer,
		/* defaultAttributesSetter = */ func(virtual.AttributesMask, *virtual.Attributes) {},
		virtual.NoNamedAttributesFactory,
	)

	// Create a subdirectory, keep a reference to it and remove it
	// from its parent. The subdirectory is now marked as deleted.
	a, err := root.CreateAndEnterPrepopulatedDirectory(path.MustNewComponent("a"))
	if err != nil {
		t.Fatal(err)
	}
	if err := root.Remove(path.MustNewComponent("a")); err != nil {
		t.Fatal(err)
	}

	// Creating a directory inside a deleted directory must fail
	// with ENOENT.
	if _, err := a.CreateAndEnterPrepopulatedDirectory(path.MustNewComponent("b")); err != syscall.ENOENT {
		t.Fatalf("Expected ENOENT, got %v", err)
	}

	// The directory must remain usable afterwards. On the unchanged
	// tree the call above leaked the directory lock, causing this
	// call to block indefinitely.
	done := make(chan error, 1)
	go func() {
		_, err := a.ReadDir()
		done <- err
	}()
	select {
	case <-done:
	case <-time.After(5 * time.Second):
		t.Fatal("ReadDir() on the deleted directory hangs: CreateAndEnterPrepopulatedDirectory() returned ENOENT without releasing the directory lock")
	}
}
