package tri

import (
	"testing"

	nfsv4_xdr "github.com/buildbarn/go-xdr/pkg/protocols/nfsv4"
)

// TestF7 demonstrates that FREE_STATEID against a lock state ID that
// still has byte-range locks associated with it crashes the server,
// instead of returning NFS4ERR_LOCKS_HELD.
func TestF7(t *testing.T) {
	f := newNFS41Fixture(t)
	openStateID := f.open()

	lock, ok := f.lockNewOwner(openStateID, "lo", 0, 10).(*nfsv4_xdr.Lock4res_NFS4_OK)
	if !ok {
		t.Fatal("LOCK failed")
	}
	lockStateID := lock.Resok4.LockStateid

	freeStateID := func() (st nfsv4_xdr.Nfsstat4) {
		defer func() {
			if r := recover(); r != nil {
				t.Fatalf("FREE_STATEID caused the server to panic: %v", r)
			}
		}()
		st, _ = f.sequenced(&nfsv4_xdr.NfsArgop4_OP_FREE_STATEID{
			OpfreeStateid: nfsv4_xdr.FreeStateid4args{FsaStateid: lockStateID},
		})
		return
	}

	// Locks are still held (RFC 8881, section 18.38.3).
	if st := freeStateID(); st != nfsv4_xdr.NFS4ERR_LOCKS_HELD {
		t.Fatalf("Expected NFS4ERR_LOCKS_HELD, got %d", st)
	}

	// After releasing the lock, FREE_STATEID must succeed.
	_, res := f.sequenced(
		&nfsv4_xdr.NfsArgop4_OP_PUTFH{Opputfh: nfsv4_xdr.Putfh4args{Object: fakeFileHandle}},
		&nfsv4_xdr.NfsArgop4_OP_LOCKU{
			Oplocku: nfsv4_xdr.Locku4args{
				Locktype:    nfsv4_xdr.WRITE_LT,
				LockStateid: lockStateID,
				Offset:      0,
				Length:      10,
			},
		},
	)
	locku, ok := res[1].(*nfsv4_xdr.NfsResop4_OP_LOCKU).Oplocku.(*nfsv4_xdr.Locku4res_NFS4_OK)
	if !ok {
		t.Fatal("LOCKU failed")
	}
	lockStateID = locku.LockStateid
	if st := freeStateID(); st != nfsv4_xdr.NFS4_OK {
		t.Fatalf("Expected NFS4_OK, got %d", st)
	}
}
