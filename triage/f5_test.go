package tri

import (
	"context"
	"sync"
	"testing"
	"time"

	remoteexecution "github.com/bazelbuild/remote-apis/build/bazel/remote/execution/v2"
	re_blobstore "github.com/buildbarn/bb-remote-execution/pkg/blobstore"
	"github.com/buildbarn/bb-storage/pkg/blobstore"
	"github.com/buildbarn/bb-storage/pkg/blobstore/buffer"
	"github.com/buildbarn/bb-storage/pkg/blobstore/slicing"
	"github.com/buildbarn/bb-storage/pkg/digest"
	"github.com/buildbarn/bb-storage/pkg/proto/iscc"
	"google.golang.org/grpc/codes"
	"google.golang.org/grpc/status"
	"google.golang.org/protobuf/proto"
)

type fakeStore struct {
	lock    sync.Mutex
	blobs   map[string][]byte
	gate    map[string]chan struct{} // Put of this key blocks until closed
	started map[string]chan struct{}
}

func (s *fakeStore) Get(ctx context.Context, d digest.Digest) buffer.Buffer {
	s.lock.Lock()
	defer s.lock.Unlock()
	if b, ok := s.blobs[d.String()]; ok {
		return buffer.NewValidatedBufferFromByteSlice(b)
	}
	return buffer.NewBufferFromError(status.Error(codes.NotFound, "not found"))
}
func (s *fakeStore) GetFromComposite(ctx context.Context, p, c digest.Digest, sl slicing.BlobSlicer) buffer.Buffer {
	panic("unused")
}
func (s *fakeStore) Put(ctx context.Context, d digest.Digest, b buffer.Buffer) error {
	data, err := b.ToByteSlice(1 << 20)
	if err != nil {
		return err
	}
	s.lock.Lock()
	gate, started := s.gate[d.String()], s.started[d.String()]
	delete(s.gate, d.String())
	s.lock.Unlock()
	if gate != nil {
		close(started)
		<-gate
	} else if d.GetSizeBytes() == 1 {
		// Make writes of D slower than reads, so that a concurrent
		// read in the same Get() observes the old contents.
		time.Sleep(200 * time.Millisecond)
	}
	s.lock.Lock()
	s.blobs[d.String()] = data
	s.lock.Unlock()
	return nil
}
func (s *fakeStore) FindMissing(ctx context.Context, ds digest.Set) (digest.Set, error) {
	panic("unused")
}
func (s *fakeStore) GetCapabilities(ctx context.Context, i digest.InstanceName) (*remoteexecution.ServerCapabilities, error) {
	panic("unused")
}

var _ blobstore.BlobAccess = (*fakeStore)(nil)

func stored(t *testing.T, s *fakeStore, d digest.Digest) map[uint32]bool {
	s.lock.Lock()
	defer s.lock.Unlock()
	var m iscc.PreviousExecutionStats
	if err := proto.Unmarshal(s.blobs[d.String()], &m); err != nil {
		t.Fatal(err)
	}
	out := map[uint32]bool{}
	for k := range m.SizeClasses {
		out[k] = true
	}
	return out
}

// F5: an update released while a write of the same handle is in flight must not be lost.
func TestF5(t *testing.T) {
	ctx := context.Background()
	fs := &fakeStore{blobs: map[string][]byte{}, gate: map[string]chan struct{}{}, started: map[string]chan struct{}{}}
	store := re_blobstore.NewBlobAccessMutableProtoStore[iscc.PreviousExecutionStats](fs, 1<<20)
	D := digest.MustNewDigest("x", remoteexecution.DigestFunction_SHA256, "e3b0c44298fc1c149afbf4c8996fb92427ae41e4649b934ca495991b7852b855", 1)
	E := digest.MustNewDigest("x", remoteexecution.DigestFunction_SHA256, "e3b0c44298fc1c149afbf4c8996fb92427ae41e4649b934ca495991b7852b855", 2)
	F := digest.MustNewDigest("x", remoteexecution.DigestFunction_SHA256, "e3b0c44298fc1c149afbf4c8996fb92427ae41e4649b934ca495991b7852b855", 3)

	add := func(h re_blobstore.MutableProtoHandle[*iscc.PreviousExecutionStats], k uint32) {
		m := h.GetMutableProto()
		if m.SizeClasses == nil {
			m.SizeClasses = map[uint32]*iscc.PerSizeClassStats{}
		}
		m.SizeClasses[k] = &iscc.PerSizeClassStats{}
	}

	// update 1
	h, err := store.Get(ctx, D)
	if err != nil {
		t.Fatal(err)
	}
	add(h, 1)
	h.Release(true)

	// A Get for another digest starts writing D (update 1) and blocks inside Put.
	gate, started := make(chan struct{}), make(chan struct{})
	fs.gate[D.String()], fs.started[D.String()] = gate, started
	done := make(chan struct{})
	go func() {
		he, err := store.Get(ctx, E)
		if err != nil {
			t.Error(err)
		} else {
			he.Release(false)
		}
		close(done)
	}()
	<-started

	// update 2 arrives while the write of update 1 is in flight.
	h2, err := store.Get(ctx, D)
	if err != nil {
		t.Fatal(err)
	}
	add(h2, 2)
	h2.Release(true)

	close(gate)
	<-done

	// update 3 through a fresh Get.
	h3, err := store.Get(ctx, D)
	if err != nil {
		t.Fatal(err)
	}
	_, sees2 := h3.GetMutableProto().SizeClasses[2]
	t.Logf("handle obtained after update 2 sees update 2: %v", sees2)
	add(h3, 3)
	h3.Release(true)

	// Drain the write queue.
	for i := 0; i < 4; i++ {
		hf, err := store.Get(ctx, F)
		if err != nil {
			t.Fatal(err)
		}
		hf.Release(false)
	}
	got := stored(t, fs, D)
	t.Logf("stored updates: %v", got)
	if !got[1] || !got[2] || !got[3] {
		t.Fatalf("an update was lost: stored=%v (want 1,2,3)", got)
	}
}
