package tri

import (
	"context"
	"io"
	"testing"
	"time"

	"github.com/buildbarn/bb-remote-execution/pkg/filesystem/virtual"
	"github.com/buildbarn/bb-remote-execution/pkg/filesystem/virtual/nfsv4"
	"github.com/buildbarn/bb-storage/pkg/clock"
	"github.com/buildbarn/bb-storage/pkg/filesystem"
	"github.com/buildbarn/bb-storage/pkg/filesystem/path"
	"github.com/buildbarn/bb-storage/pkg/random"
	nfsv4_xdr "github.com/buildbarn/go-xdr/pkg/protocols/nfsv4"
)

var (
	fakeRootHandle = []byte{0x01}
	fakeFileHandle = []byte{0x02}
)

// fakeLeaf is a minimal hand-written virtual.Leaf. Methods that are
// not overridden panic with a nil pointer dereference, which is fine,
// as the tests don't call them.
type fakeLeaf struct {
	virtual.Leaf
}

func (fakeLeaf) VirtualGetAttributes(ctx context.Context, requested virtual.AttributesMask, attributes *virtual.Attributes) {
	attributes.SetFileHandle(fakeFileHandle)
	attributes.SetFileType(filesystem.FileTypeRegularFile)
}

func (fakeLeaf) VirtualOpenSelf(ctx context.Context, shareAccess virtual.ShareMask, options *virtual.OpenExistingOptions, requested virtual.AttributesMask, attributes *virtual.Attributes) virtual.Status {
	return virtual.StatusOK
}

func (fakeLeaf) VirtualClose(shareAccess virtual.ShareMask) {}

// fakeRootDirectory is a minimal hand-written virtual.Directory that
// contains a single file that can be opened under any name. Looking up
// the name "block" blocks until a value is sent over 'release'.
type fakeRootDirectory struct {
	virtual.Directory
	leaf    virtual.Leaf
	entered chan struct{}
	release chan struct{}
}

func (d *fakeRootDirectory) VirtualGetAttributes(ctx context.Context, requested virtual.AttributesMask, attributes *virtual.Attributes) {
	attributes.SetFileHandle(fakeRootHandle)
	attributes.SetFileType(filesystem.FileTypeDirectory)
}

func (d *fakeRootDirectory) VirtualOpenChild(ctx context.Context, name path.Component, shareAccess virtual.ShareMask, createAttributes *virtual.Attributes, existingOptions *virtual.OpenExistingOptions, requested virtual.AttributesMask, openedFileAttributes *virtual.Attributes) (virtual.Leaf, virtual.AttributesMask, virtual.ChangeInfo, virtual.Status) {
	openedFileAttributes.SetFileHandle(fakeFileHandle)
	return d.leaf, 0, virtual.ChangeInfo{}, virtual.StatusOK
}

func (d *fakeRootDirectory) VirtualLookup(ctx context.Context, name path.Component, requested virtual.AttributesMask, out *virtual.Attributes) (virtual.DirectoryChild, virtual.Status) {
	if name.String() == "block" {
		d.entered <- struct{}{}
		<-d.release
	}
	out.SetFileHandle(fakeFileHandle)
	return virtual.DirectoryChild{}.FromLeaf(d.leaf), virtual.StatusOK
}

// nfs41Fixture is a real NFSv4.1 server (NewNFS41Program) on top of the
// fake file system above, with one client that has a single session.
type nfs41Fixture struct {
	t          *testing.T
	program    nfsv4_xdr.Nfs4Program
	root       *fakeRootDirectory
	sessionID  nfsv4_xdr.Sessionid4
	sequenceID nfsv4_xdr.Sequenceid4
}

func newNFS41Fixture(t *testing.T) *nfs41Fixture {
	leaf := fakeLeaf{}
	root := &fakeRootDirectory{
		leaf:    leaf,
		entered: make(chan struct{}, 1),
		release: make(chan struct{}),
	}
	program := nfsv4.NewNFS41Program(
		root,
		nfsv4.NewOpenedFilesPool(func(io.ByteReader) (virtual.DirectoryChild, virtual.Status) {
			return virtual.DirectoryChild{}.FromLeaf(leaf), virtual.StatusOK
		}),
		nfsv4_xdr.ServerOwner4{SoMajorId: []byte("server")},
		[]byte("scope"),
		&nfsv4_xdr.ChannelAttrs4{
			CaMaxrequestsize:        1 << 20,
			CaMaxresponsesize:       1 << 20,
			CaMaxresponsesizeCached: 1 << 16,
			CaMaxoperations:         100,
			CaMaxrequests:           4,
		},
		random.NewFastSingleThreadedGenerator(),
		nfsv4_xdr.Verifier4{1},
		clock.SystemClock,
		/* enforcedLeaseTime = */ time.Hour,
		/* announcedLeaseTime = */ time.Hour,
		path.UNIXFormat,
		nil,
	)
	f := &nfs41Fixture{t: t, program: program, root: root}

	res := f.compound(&nfsv4_xdr.NfsArgop4_OP_EXCHANGE_ID{
		OpexchangeId: nfsv4_xdr.ExchangeId4args{
			EiaClientowner: nfsv4_xdr.ClientOwner4{
				CoVerifier: nfsv4_xdr.Verifier4{2},
				CoOwnerid:  []byte("client"),
			},
			EiaStateProtect: &nfsv4_xdr.StateProtect4A_SP4_NONE{},
		},
	})
	exchangeID := res.Resarray[0].(*nfsv4_xdr.NfsResop4_OP_EXCHANGE_ID).OpexchangeId.(*nfsv4_xdr.ExchangeId4res_NFS4_OK).EirResok4

	res = f.compound(&nfsv4_xdr.NfsArgop4_OP_CREATE_SESSION{
		OpcreateSession: nfsv4_xdr.CreateSession4args{
			CsaClientid: exchangeID.EirClientid,
			CsaSequence: exchangeID.EirSequenceid,
			CsaForeChanAttrs: nfsv4_xdr.ChannelAttrs4{
				CaMaxrequestsize:        1 << 20,
				CaMaxresponsesize:       1 << 20,
				CaMaxresponsesizeCached: 1 << 16,
				CaMaxoperations:         100,
				CaMaxrequests:           4,
			},
		},
	})
	f.sessionID = res.Resarray[0].(*nfsv4_xdr.NfsResop4_OP_CREATE_SESSION).OpcreateSession.(*nfsv4_xdr.CreateSession4res_NFS4_OK).CsrResok4.CsrSessionid
	return f
}

// compound sends a raw COMPOUND request.
func (f *nfs41Fixture) compound(ops ...nfsv4_xdr.NfsArgop4) *nfsv4_xdr.Compound4res {
	res, err := f.program.NfsV4Nfsproc4Compound(context.Background(), &nfsv4_xdr.Compound4args{
		Minorversion: 1,
		Argarray:     ops,
	})
	if err != nil {
		f.t.Fatal(err)
	}
	return res
}

// sequenceOp returns a SEQUENCE operation for slot 0 with a given
// sequence ID.
func (f *nfs41Fixture) sequenceOp(sequenceID nfsv4_xdr.Sequenceid4) nfsv4_xdr.NfsArgop4 {
	return &nfsv4_xdr.NfsArgop4_OP_SEQUENCE{
		Opsequence: nfsv4_xdr.Sequence4args{
			SaSessionid:  f.sessionID,
			SaSequenceid: sequenceID,
			SaSlotid:     0,
			SaCachethis:  true,
		},
	}
}

// sequenced sends a COMPOUND request that is prefixed with a SEQUENCE
// operation on slot 0 carrying the next sequence ID. It returns the
// results of the operations following SEQUENCE.
func (f *nfs41Fixture) sequenced(ops ...nfsv4_xdr.NfsArgop4) (nfsv4_xdr.Nfsstat4, []nfsv4_xdr.NfsResop4) {
	f.sequenceID++
	res := f.compound(append([]nfsv4_xdr.NfsArgop4{f.sequenceOp(f.sequenceID)}, ops...)...)
	if len(res.Resarray) < 1 {
		f.t.Fatalf("Empty response with status %d", res.Status)
	}
	if _, ok := res.Resarray[0].(*nfsv4_xdr.NfsResop4_OP_SEQUENCE).Opsequence.(*nfsv4_xdr.Sequence4res_NFS4_OK); !ok {
		f.t.Fatalf("SEQUENCE failed with status %d", res.Status)
	}
	return res.Status, res.Resarray[1:]
}

// open the one file that exists in the fake file system, returning its
// open state ID.
func (f *nfs41Fixture) open() nfsv4_xdr.Stateid4 {
	st, res := f.sequenced(
		&nfsv4_xdr.NfsArgop4_OP_PUTROOTFH{},
		&nfsv4_xdr.NfsArgop4_OP_OPEN{
			Opopen: nfsv4_xdr.Open4args{
				ShareAccess: nfsv4_xdr.OPEN4_SHARE_ACCESS_BOTH,
				ShareDeny:   nfsv4_xdr.OPEN4_SHARE_DENY_NONE,
				Owner:       nfsv4_xdr.OpenOwner4{Owner: []byte("open-owner")},
				Openhow:     &nfsv4_xdr.Openflag4_default{Opentype: nfsv4_xdr.OPEN4_NOCREATE},
				Claim:       &nfsv4_xdr.OpenClaim4_CLAIM_NULL{File: "file"},
			},
		},
	)
	if st != nfsv4_xdr.NFS4_OK {
		f.t.Fatalf("OPEN failed with status %d", st)
	}
	stateID := res[1].(*nfsv4_xdr.NfsResop4_OP_OPEN).Opopen.(*nfsv4_xdr.Open4res_NFS4_OK).Resok4.Stateid
	stateID.Seqid = 0
	return stateID
}

// lockNewOwner sends PUTFH + LOCK with new_lock_owner == true.
func (f *nfs41Fixture) lockNewOwner(openStateID nfsv4_xdr.Stateid4, lockOwner string, offset, length uint64) nfsv4_xdr.Lock4res {
	_, res := f.sequenced(
		&nfsv4_xdr.NfsArgop4_OP_PUTFH{Opputfh: nfsv4_xdr.Putfh4args{Object: fakeFileHandle}},
		&nfsv4_xdr.NfsArgop4_OP_LOCK{
			Oplock: nfsv4_xdr.Lock4args{
				Locktype: nfsv4_xdr.WRITE_LT,
				Offset:   offset,
				Length:   length,
				Locker: &nfsv4_xdr.Locker4_TRUE{
					OpenOwner: nfsv4_xdr.OpenToLockOwner4{
						OpenStateid: openStateID,
						LockOwner:   nfsv4_xdr.LockOwner4{Owner: []byte(lockOwner)},
					},
				},
			},
		},
	)
	return res[1].(*nfsv4_xdr.NfsResop4_OP_LOCK).Oplock
}
