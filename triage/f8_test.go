package tri

import (
	"context"
	"testing"
	"time"

	remoteexecution "github.com/bazelbuild/remote-apis/build/bazel/remote/execution/v2"
	"github.com/buildbarn/bb-remote-execution/pkg/proto/remoteworker"
	"github.com/buildbarn/bb-remote-execution/pkg/scheduler"
	"github.com/buildbarn/bb-remote-execution/pkg/scheduler/initialsizeclass"
	"github.com/buildbarn/bb-remote-execution/pkg/scheduler/invocation"
	"github.com/buildbarn/bb-remote-execution/pkg/scheduler/platform"
	"github.com/buildbarn/bb-remote-execution/pkg/scheduler/routing"
	"github.com/buildbarn/bb-storage/pkg/auth"
	"github.com/buildbarn/bb-storage/pkg/blobstore/buffer"
	"github.com/buildbarn/bb-storage/pkg/blobstore/slicing"
	"github.com/buildbarn/bb-storage/pkg/clock"
	"github.com/buildbarn/bb-storage/pkg/digest"
	"github.com/google/uuid"
	"google.golang.org/grpc"
	"google.golang.org/protobuf/types/known/emptypb"

	"cloud.google.com/go/longrunning/autogen/longrunningpb"
)

type actionCAS struct{ action *remoteexecution.Action }

func (c actionCAS) Get(ctx context.Context, d digest.Digest) buffer.Buffer {
	return buffer.NewProtoBufferFromProto(c.action, buffer.UserProvided)
}
func (actionCAS) GetFromComposite(ctx context.Context, p, c digest.Digest, s slicing.BlobSlicer) buffer.Buffer {
	panic("unused")
}
func (actionCAS) Put(ctx context.Context, d digest.Digest, b buffer.Buffer) error { panic("unused") }
func (actionCAS) FindMissing(ctx context.Context, ds digest.Set) (digest.Set, error) {
	panic("unused")
}
func (actionCAS) GetCapabilities(ctx context.Context, i digest.InstanceName) (*remoteexecution.ServerCapabilities, error) {
	panic("unused")
}

type bgAnalyzer struct{}
type bgSelector struct{}
type bgLearner struct{ wantBackground bool }

func (bgAnalyzer) Analyze(ctx context.Context, f digest.Function, a *remoteexecution.Action) (initialsizeclass.Selector, error) {
	return bgSelector{}, nil
}
func (bgSelector) Select(sc []uint32) (int, time.Duration, time.Duration, initialsizeclass.Learner) {
	return 0, 0, time.Minute, &bgLearner{wantBackground: true}
}
func (bgSelector) Abandoned() {}
func (l *bgLearner) Succeeded(d time.Duration, sc []uint32) (int, time.Duration, time.Duration, initialsizeclass.Learner) {
	if l.wantBackground {
		return 0, 0, time.Minute, &bgLearner{}
	}
	return 0, 0, 0, nil
}
func (l *bgLearner) Failed(timedOut bool) (time.Duration, time.Duration, initialsizeclass.Learner) {
	return 0, 0, nil
}
func (l *bgLearner) Abandoned() {}

type stream struct {
	grpc.ServerStream
	ctx context.Context
}

func (s stream) Context() context.Context          { return s.ctx }
func (s stream) Send(*longrunningpb.Operation) error { return nil }

func TestF8(t *testing.T) {
	allow := auth.NewStaticAuthorizer(func(digest.InstanceName) bool { return true })
	action := &remoteexecution.Action{}
	bq := scheduler.NewInMemoryBuildQueue(
		actionCAS{action}, clock.SystemClock, uuid.NewRandom,
		&scheduler.InMemoryBuildQueueConfiguration{
			ExecutionUpdateInterval:              time.Hour,
			OperationWithNoWaitersTimeout:        time.Hour,
			PlatformQueueWithNoWorkersTimeout:    time.Hour,
			BusyWorkerSynchronizationInterval:    time.Hour,
			GetIdleWorkerSynchronizationInterval: func() time.Duration { return 50 * time.Millisecond },
			WorkerTaskRetryCount:                 9,
			WorkerWithNoSynchronizationsTimeout:  time.Hour,
		},
		1<<20,
		routing.NewSimpleActionRouter(platform.ActionKeyExtractor, []invocation.KeyExtractor{}, bgAnalyzer{}),
		allow, allow, allow, allow)
	if err := bq.RegisterPredeclaredPlatformQueue(digest.EmptyInstanceName, &remoteexecution.Platform{}, nil, 10, 0, []uint32{0}); err != nil {
		t.Fatal(err)
	}
	actionDigest := &remoteexecution.Digest{Hash: "e3b0c44298fc1c149afbf4c8996fb92427ae41e4649b934ca495991b7852b855", SizeBytes: 0}
	execute := func() {
		go bq.Execute(&remoteexecution.ExecuteRequest{ActionDigest: actionDigest, DigestFunction: remoteexecution.DigestFunction_SHA256}, stream{ctx: context.Background()})
		time.Sleep(100 * time.Millisecond)
	}
	sync := func(worker string, state *remoteworker.CurrentState) *remoteworker.SynchronizeResponse {
		r, err := bq.Synchronize(context.Background(), &remoteworker.SynchronizeRequest{
			WorkerId: map[string]string{"w": worker}, Platform: &remoteexecution.Platform{}, CurrentState: state,
		})
		if err != nil {
			t.Fatal(err)
		}
		return r
	}
	idle := &remoteworker.CurrentState{WorkerState: &remoteworker.CurrentState_Idle{Idle: &emptypb.Empty{}}}
	completed := &remoteworker.CurrentState{WorkerState: &remoteworker.CurrentState_Executing_{Executing: &remoteworker.CurrentState_Executing{
		ActionDigest: actionDigest,
		ExecutionState: &remoteworker.CurrentState_Executing_Completed{Completed: &remoteexecution.ExecuteResponse{
			Result: &remoteexecution.ActionResult{},
		}},
	}}}
	executing := func(r *remoteworker.SynchronizeResponse) *remoteworker.DesiredState_Executing {
		if e, ok := r.GetDesiredState().GetWorkerState().(*remoteworker.DesiredState_Executing_); ok {
			return e.Executing
		}
		return nil
	}

	execute() // client 1: task T1
	if e := executing(sync("1", idle)); e == nil || e.Action.DoNotCache {
		t.Fatal("worker 1 should run T1")
	}
	// T1 succeeds; learner asks for a background run B (do_not_cache), which worker 1 picks up.
	if e := executing(sync("1", completed)); e == nil || !e.Action.DoNotCache {
		t.Fatal("worker 1 should now run background task B")
	}
	execute() // client 2: task T2 (cacheable, same digest), queued.
	// B completes; worker 1 picks up T2.
	if e := executing(sync("1", completed)); e == nil || e.Action.DoNotCache {
		t.Fatal("worker 1 should now run T2")
	}
	// T2 is executing. A third identical request must attach to T2.
	execute() // client 3
	if e := executing(sync("2", idle)); e != nil && !e.Action.DoNotCache {
		t.Fatalf("cacheable action executed twice concurrently: worker 2 was told to run digest %s while worker 1 runs it", e.ActionDigest.Hash[:8])
	}
}
