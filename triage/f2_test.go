package tri

import (
	"context"
	"testing"
	"time"

	nfsv4_xdr "github.com/buildbarn/go-xdr/pkg/protocols/nfsv4"
)

// TestF2 demonstrates that a retransmission of a SEQUENCE request that
// arrives while the original request is still being processed never
// receives a response.
func TestF2(t *testing.T) {
	f := newNFS41Fixture(t)

	request := &nfsv4_xdr.Compound4args{
		Minorversion: 1,
		Argarray: []nfsv4_xdr.NfsArgop4{
			f.sequenceOp(1),
			&nfsv4_xdr.NfsArgop4_OP_PUTROOTFH{},
			&nfsv4_xdr.NfsArgop4_OP_LOOKUP{Oplookup: nfsv4_xdr.Lookup4args{Objname: "block"}},
		},
	}
	send := func(out chan<- *nfsv4_xdr.Compound4res) {
		res, err := f.program.NfsV4Nfsproc4Compound(context.Background(), request)
		if err != nil {
			panic(err)
		}
		out <- res
	}

	// Send the original request. It blocks inside the file system.
	original := make(chan *nfsv4_xdr.Compound4res, 1)
	go send(original)
	select {
	case <-f.root.entered:
	case <-time.After(5 * time.Second):
		t.Fatal("Original request never reached the file system")
	}

	// Send a retransmission using the same slot and sequence ID,
	// and give it ample time to observe that the slot is busy.
	retransmission := make(chan *nfsv4_xdr.Compound4res, 1)
	go send(retransmission)
	time.Sleep(500 * time.Millisecond)
	select {
	case <-f.root.entered:
		t.Fatal("Retransmission was executed a second time instead of being deduplicated")
	default:
	}

	// Let the original request complete. Both calls must now return
	// the same successful response.
	close(f.root.release)
	for name, ch := range map[string]chan *nfsv4_xdr.Compound4res{"original": original, "retransmission": retransmission} {
		select {
		case res := <-ch:
			if res.Status != nfsv4_xdr.NFS4_OK || len(res.Resarray) != 3 {
				t.Errorf("%s: unexpected response with status %d and %d results", name, res.Status, len(res.Resarray))
			}
		case <-time.After(5 * time.Second):
			t.Errorf("%s: no response was returned, even though the original request has completed", name)
		}
	}
}
