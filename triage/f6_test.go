package tri

import (
	"errors"
	"testing"

	"github.com/buildbarn/bb-remote-execution/pkg/filesystem/pool"
	"github.com/buildbarn/bb-storage/pkg/filesystem"
)

type failingPool struct{}

func (failingPool) NewFile(h pool.HoleSource, size uint64) (filesystem.FileReadWriter, error) {
	return nil, errors.New("device failure")
}

// F6: after a failed NewFile the full byte quota must be available again.
func TestF6(t *testing.T) {
	fp := pool.NewQuotaEnforcingFilePool(failingPool{}, 10, 100)
	if _, err := fp.NewFile(pool.ZeroHoleSource, 100); err == nil {
		t.Fatal("expected base failure")
	}
	// Swap in nothing: the same pool must still accept 100 bytes of quota;
	// the base fails again, but the *quota* error must not be what we see.
	_, err := fp.NewFile(pool.ZeroHoleSource, 100)
	t.Logf("second NewFile error: %v", err)
	if err != nil && err.Error() != "device failure" {
		t.Fatalf("byte quota leaked by failed NewFile: %v", err)
	}
}
