#!/bin/sh
# usage: run_explain.sh <replay.json> — re-derives one finding on /repo's current tree
set -eu
here=$(cd "$(dirname "$0")" && pwd)
export PATH=/opt/veriftools/go1.26.8/bin:$PATH
export GOFLAGS=-mod=mod GOPROXY=off GOSUMDB=off GOTOOLCHAIN=local
unset GOWORK || true
[ -x "$here/bin/bbverif" ] || "$here/setup.sh" >/dev/null
exec "$here/bin/bbverif" explain -repo "${VERIF_REPO:-/repo}" -out "$here" "$1"
