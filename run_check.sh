#!/bin/sh
# usage: run_check.sh <property> <quick|thorough>
# Rebuilds the analyser if its sources changed, then analyses /repo's working tree.
set -eu
here=$(cd "$(dirname "$0")" && pwd)
export PATH=/opt/veriftools/go1.26.8/bin:$PATH
export GOPROXY=off GOSUMDB=off GOTOOLCHAIN=local
unset GOWORK || true
if [ ! -x "$here/bin/bbverif" ] || [ -n "$(find "$here/sa" -name '*.go' -newer "$here/bin/bbverif" -not -path '*/vendor/*' 2>/dev/null | head -1)" ]; then
  GOFLAGS=-mod=vendor "$here/setup.sh" >/dev/null
fi
export GOFLAGS=-mod=mod
export VERIF_HOME="${VERIF_HOME:-$here}"
exec "$here/bin/bbverif" check -property "$1" -tier "${2:-${VERIF_TIER:-quick}}" -repo "${VERIF_REPO:-/repo}" -out "${VERIF_OUT:-$here}"
