#!/bin/sh
# Builds the static analyser offline from /verif/sa (dependencies vendored).
set -eu
here=$(cd "$(dirname "$0")" && pwd)
export PATH=/opt/veriftools/go1.26.8/bin:$PATH
export GOFLAGS=-mod=vendor GOPROXY=off GOSUMDB=off GOTOOLCHAIN=local
unset GOWORK || true
mkdir -p "$here/bin" "$here/evidence" "$here/replay"
cd "$here/sa" && go build -o "$here/bin/bbverif" .
echo "built $here/bin/bbverif"
